/-
C03 / C02 on the footnote grammar (PM stage 2b): the first content of an empty page is accepted, every page makes
progress — a page with content strictly advances the resume position, a blank page made for postponed footnotes
strictly shortens the list of postponed footnotes — and `make_all_pages` terminates.
For every `footnote-policy`: since repair 67bf2ca `footnote-policy: block` no longer cancels the first content of
a page (the former witness `policy_block_crashes` is the regression example `policy_block_first_content` in
`Witness/C01Foot.lean`), so the hypothesis "no `footnote-policy: block`" is gone from all theorems below.
-/
import WpModel.Props.C01Foot
import WpModel.Drive.PaginateFoot

namespace Wp.C03Foot
open Wp Wp.PM Wp.PMF

/-- **First content accepted**: laid out with `page_is_empty`, a box always yields a fragment, in any footnote
state and whatever the footnote policies. -/
theorem first_content_accepted (box : FootBox) (c : FCtx) (idx : Nat) (y bs : Rat)
    (skip : Option Resume) (cb : Bool) (adjL : List Rat) (fs : FState) :
    (layoutBoxF c box idx y bs skip cb true adjL fs).r.frag.isSome = true :=
  box_someF box c idx y bs skip cb adjL fs

/-- `make_page` never fails its `assert root_box` (full strength since repair 67bf2ca; was
`remakePageF_total_partial`, for documents without `footnote-policy: block`). -/
theorem remakePageF_total (d : FDoc) (index : Nat) (resume : Option Resume)
    (np : NextPage) (right : Bool) (pending reported : List Fn) :
    (remakePageF d index resume np right pending reported).isSome = true := by
  unfold remakePageF
  dsimp only
  have key : ∀ (c : FCtx) (b : FootBox) (fs : FState),
      (layoutBoxF c b 0 0 0 resume false true [] fs).r.frag ≠ none := by
    intro c b fs h
    have := first_content_accepted b c 0 0 0 resume false [] fs
    rw [h] at this
    simp at this
  split
  · rename_i h
    exact absurd h (key _ _ _)
  · rfl

/-- **Strict progress of a page with content**: it finishes the content or hands a strictly later resume position
to the next page (any footnotes, any policy). -/
theorem page_progress (d : FDoc) (hN : NoFixedHeight d.root.erase) (hW : WellFormed d.root.erase) (index : Nat)
    (resume : Option Resume) (np : NextPage) (right : Bool) (pending reported : List Fn) (p : FPage)
    (hp : remakePageF d index resume np right pending reported = some p) (hnb : p.page.type.blank = false) :
    p.page.resume = none ∨ pos d.root.erase resume < pos d.root.erase p.page.resume := by
  obtain ⟨_, h2⟩ := remakePageF_lines d (good_of _ hN hW) index resume np right pending reported p hp
  cases hr : p.page.resume with
  | none => left; rfl
  | some r => right; exact (h2 hnb).2 r hr

/-! ### the blank page required by postponed footnotes makes progress -/

theorem placeReported_suffix (c : FCtx) (L : List Fn) (i : Nat) (fs : FState) (hr : fs.reported = []) :
    ∃ t, L = t ++ (placeReported c L i fs).reported ∧ (L ≠ [] → i = 0 → t ≠ []) := by
  induction L generalizing i fs with
  | nil => exact ⟨[], by simp [placeReported, hr], fun h => absurd rfl h⟩
  | cons f rest ih =>
    unfold placeReported
    dsimp only
    split
    · rename_i hov
      refine ⟨[], by simp, ?_⟩
      intro _ hi
      simp [hi] at hov
    · obtain ⟨t, ht, _⟩ := ih (i + 1) (layoutFootnote c { fs with pending := fs.pending ++ [f] } f).1 (by simp [hr])
      exact ⟨f :: t, by simp [← ht], fun _ _ => by simp⟩

theorem remakePageF_blank_state (d : FDoc) (index : Nat) (resume : Option Resume) (np : NextPage) (right : Bool)
    (pending reported : List Fn) (p : FPage) (hp : remakePageF d index resume np right pending reported = some p)
    (hb : p.page.type.blank = true) :
    p.reported = (pageStart d (pageCtxOf d index resume np right reported) pending reported).reported ∧
    p.cur = (pageStart d (pageCtxOf d index resume np right reported) pending reported).cur := by
  unfold remakePageF at hp
  dsimp only at hp
  split at hp
  · cases hp
  · simp only [Option.some.injEq] at hp
    subst hp
    simp only at hb
    simp only [hb, ↓reduceIte, emptyRootF_state, and_self]

/-- **Progress of a blank page**: what it postpones is a strict suffix of what was postponed to it — at least the
first postponed footnote is placed (whatever its size: `make_page` never re-postpones `reported_footnotes[0]`). -/
theorem footnote_page_progress (d : FDoc) (index : Nat) (resume : Option Resume) (np : NextPage) (right : Bool)
    (pending reported : List Fn) (p : FPage) (hp : remakePageF d index resume np right pending reported = some p)
    (hb : p.page.type.blank = true) (hrep : reported ≠ []) :
    ∃ t, t ≠ [] ∧ reported = t ++ p.reported := by
  obtain ⟨h1, _⟩ := remakePageF_blank_state d index resume np right pending reported p hp hb
  obtain ⟨t, ht, hne⟩ := placeReported_suffix (pageCtxOf d index resume np right reported) reported 0
    { pending := pending, cur := [], reported := [], pageBottom := d.pageH, areaH := none } rfl
  refine ⟨t, hne hrep rfl, ?_⟩
  rw [h1]; exact ht

/-! ### termination -/

private theorem isBlank_flip (side : Option Bool) (right : Bool) (h : isBlank side right = true) :
    isBlank side (!right) = false := by
  cases side with
  | none => cases right <;> simp [isBlank] at h
  | some s => cases s <;> cases right <;> simp [isBlank] at h ⊢

/-- Once only postponed footnotes are left, at most one page per footnote follows. -/
theorem footnote_phase_terminates (d : FDoc) : ∀ (n index : Nat) (np : NextPage)
    (right : Bool) (pending reported : List Fn), reported.length ≤ n → reported ≠ [] →
    ∃ pages, makeAllPagesF d n index none np right pending reported = some pages ∧ pages.length ≤ n := by
  intro n
  induction n with
  | zero =>
    intro index np right pending reported hl hne
    cases reported with
    | nil => exact absurd rfl hne
    | cons x xs => simp at hl
  | succ n ih =>
    intro index np right pending reported hl hne
    have htot := remakePageF_total d index none np right pending reported
    cases hp : remakePageF d index none np right pending reported with
    | none => rw [hp] at htot; cases htot
    | some p =>
      obtain ⟨hbl, hb1, _⟩ := remakePageF_spec d index none np right pending reported p hp
      have hblank : p.page.type.blank = true := by
        rw [hbl]
        cases reported with
        | nil => exact absurd rfl hne
        | cons x xs => simp [isBlankF]
      obtain ⟨hres, hnp, _⟩ := hb1 hblank
      obtain ⟨t, htne, hsplit⟩ := footnote_page_progress d index none np right pending reported p hp hblank hne
      have hlen : p.reported.length ≤ n := by
        have := congrArg List.length hsplit
        simp only [List.length_append] at this
        have : 1 ≤ t.length := List.length_pos_iff.mpr htne
        omega
      unfold makeAllPagesF
      simp only [hp]
      by_cases hstop : (p.page.resume.isNone && p.reported.isEmpty) = true
      · rw [if_pos hstop]
        exact ⟨[p], rfl, by simp⟩
      · rw [if_neg hstop]
        have hrne : p.reported ≠ [] := by
          intro he
          apply hstop
          simp [hres, he]
        rw [hres]
        obtain ⟨ps, hps, hpl⟩ := ih (index + 1) p.page.nextPage (!right) p.pending p.reported hlen hrne
        rw [hps]
        exact ⟨p :: ps, rfl, by simp; omega⟩

/-- More fuel never changes a result. -/
theorem makeAllPagesF_fuel_mono (d : FDoc) : ∀ (fuel k index : Nat) (resume : Option Resume) (np : NextPage)
    (right : Bool) (pending reported : List Fn) (pages : List FPage),
    makeAllPagesF d fuel index resume np right pending reported = some pages →
    makeAllPagesF d (fuel + k) index resume np right pending reported = some pages := by
  intro fuel
  induction fuel with
  | zero => intro k index resume np right pending reported pages h; simp [makeAllPagesF] at h
  | succ fuel ih =>
    intro k index resume np right pending reported pages h
    have : fuel + 1 + k = (fuel + k) + 1 := by omega
    rw [this]
    unfold makeAllPagesF at h ⊢
    cases hp : remakePageF d index resume np right pending reported with
    | none => rw [hp] at h; cases h
    | some p =>
      rw [hp] at h
      simp only at h ⊢
      split at h
      · rename_i hstop; rw [if_pos hstop]; exact h
      · rename_i hstop
        rw [if_neg hstop]
        cases hps : makeAllPagesF d fuel (index + 1) p.page.resume p.page.nextPage (!right) p.pending p.reported with
        | none => rw [hps] at h; cases h
        | some ps =>
          rw [hps] at h
          rw [ih k _ _ _ _ _ _ ps hps]
          exact h

/-- Pages still needed while content is left (as stage 1). -/
def contentNeeded (d : FDoc) (resume : Option Resume) (np : NextPage) (right : Bool) : Nat :=
  2 * (size d.root.erase - pos d.root.erase resume) +
    (if isBlank (requestedSide d.rootLtr np.brk) right then 1 else 0)

/-- **`make_all_pages` terminates** (any footnote policy): from every page-maker state some amount of fuel
suffices (content pages: at most `contentNeeded`; then at most one blank page per footnote still postponed). -/
theorem makeAllPagesF_terminates (d : FDoc) (hN : NoFixedHeight d.root.erase) (hW : WellFormed d.root.erase) : ∀ (m index : Nat) (resume : Option Resume) (np : NextPage) (right : Bool)
    (pending reported : List Fn),
    contentNeeded d resume np right ≤ m →
    (resume = none → reported = [] → isBlank (requestedSide d.rootLtr np.brk) right = false) →
    ∃ fuel pages, makeAllPagesF d fuel index resume np right pending reported = some pages := by
  intro m
  induction m with
  | zero =>
    intro index resume np right pending reported h _
    have := PM.pos_lt_size d.root.erase resume
    unfold contentNeeded at h
    omega
  | succ m ih =>
    intro index resume np right pending reported h hstart
    -- only postponed footnotes left?
    by_cases hfoot : resume = none ∧ reported ≠ []
    · obtain ⟨ps, hps, _⟩ := footnote_phase_terminates d reported.length index np right pending reported
        (Nat.le_refl _) hfoot.2
      rw [← hfoot.1] at hps
      exact ⟨_, ps, hps⟩
    · have hlt := PM.pos_lt_size d.root.erase resume
      have htot := remakePageF_total d index resume np right pending reported
      cases hp : remakePageF d index resume np right pending reported with
      | none => rw [hp] at htot; cases htot
      | some p =>
        obtain ⟨hbl, hb1, _⟩ := remakePageF_spec d index resume np right pending reported p hp
        have hside : isBlankF d resume np right reported = isBlank (requestedSide d.rootLtr np.brk) right := by
          unfold isBlankF
          have : (!reported.isEmpty && resume.isNone) = false := by
            by_cases h1 : resume = none
            · by_cases h2 : reported = []
              · simp [h2]
              · exact absurd ⟨h1, h2⟩ hfoot
            · cases resume with
              | none => exact absurd rfl h1
              | some r => simp
          rw [this, Bool.or_false]
        by_cases hstop : (p.page.resume.isNone && p.reported.isEmpty) = true
        · refine ⟨1, [p], ?_⟩
          unfold makeAllPagesF
          simp only [hp]
          rw [if_pos hstop]
        · -- the rest, by induction or by the footnote phase
          have hrest : ∃ fuel ps, makeAllPagesF d fuel (index + 1) p.page.resume p.page.nextPage (!right)
              p.pending p.reported = some ps := by
            cases hres : p.page.resume with
            | none =>
              have hrne : p.reported ≠ [] := by
                intro he; apply hstop; simp [hres, he]
              obtain ⟨ps, hps, _⟩ := footnote_phase_terminates d p.reported.length (index + 1) p.page.nextPage
                (!right) p.pending p.reported (Nat.le_refl _) hrne
              exact ⟨_, ps, hps⟩
            | some r =>
              have key : contentNeeded d (some r) p.page.nextPage (!right) + 1 ≤ contentNeeded d resume np right := by
                cases hb : p.page.type.blank with
                | true =>
                  obtain ⟨hres', hnp, _⟩ := hb1 hb
                  have hbs : isBlank (requestedSide d.rootLtr np.brk) right = true := by
                    rw [← hside, ← hbl]; exact hb
                  have hflip := isBlank_flip _ _ hbs
                  unfold contentNeeded
                  rw [hnp, hflip, hbs, ← hres, hres']
                  simp
                | false =>
                  have hprog := page_progress d hN hW index resume np right pending reported p hp hb
                  rw [hres] at hprog
                  have hprog : pos d.root.erase resume < pos d.root.erase (some r) := by
                    rcases hprog with h | h
                    · cases h
                    · exact h
                  have hlt' := PM.pos_lt_size d.root.erase (some r)
                  unfold contentNeeded
                  have hbs : isBlank (requestedSide d.rootLtr np.brk) right = false := by
                    rw [← hside, ← hbl]; exact hb
                  rw [hbs]
                  split <;> simp <;> omega
              exact ih (index + 1) (some r) p.page.nextPage (!right) p.pending p.reported (by omega)
                (by intro he; cases he)
          obtain ⟨fuel, ps, hps⟩ := hrest
          refine ⟨fuel + 1, p :: ps, ?_⟩
          unfold makeAllPagesF
          simp only [hp]
          rw [if_neg hstop, hps]

/-- **Pagination with footnotes terminates** with at least one page (any footnote policy), and more fuel does not
change the result. -/
theorem paginateFoot_terminates (d : FDoc) (hN : NoFixedHeight d.root.erase) (hW : WellFormed d.root.erase) :
    ∃ fuel pages, paginateFoot d fuel = some pages ∧ pages ≠ [] ∧
      ∀ k, paginateFoot d (fuel + k) = some pages := by
  unfold paginateFoot
  obtain ⟨fuel, pages, hp⟩ := makeAllPagesF_terminates d hN hW _ 0 none
    { brk := none, page := some (boxPageStart d.root.erase) } (firstRight d.erase) (boxFns d.root) []
    (Nat.le_refl _) (fun _ _ => by simp [requestedSide, isBlank])
  refine ⟨fuel, pages, hp, ?_, fun k => makeAllPagesF_fuel_mono d fuel k _ _ _ _ _ _ pages hp⟩
  intro he
  subst he
  cases fuel with
  | zero => simp [makeAllPagesF] at hp
  | succ k =>
    unfold makeAllPagesF at hp
    split at hp
    · cases hp
    · split at hp
      · cases hp
      · split at hp <;> cases hp

/-! ### the page count is bounded by the amount of content -/

theorem placeReported_cur_pos (c : FCtx) (L : List Fn) (i : Nat) (fs : FState) (h : 1 ≤ fs.cur.length) :
    1 ≤ (placeReported c L i fs).cur.length := by
  induction L generalizing i fs with
  | nil => exact h
  | cons f rest ih =>
    unfold placeReported
    dsimp only
    have h1 : 1 ≤ (layoutFootnote c { fs with pending := fs.pending ++ [f] } f).1.cur.length := by
      simp only [layoutFootnote_cur, List.length_append, List.length_singleton]
      omega
    split
    · simp only [reportFootnote_cur, layoutFootnote_cur]
      rw [List.length_erase_of_mem (by simp)]
      simp only [List.length_append, List.length_singleton]
      omega
    · exact ih _ _ h1

/-- A page made for postponed footnotes places at least one of them in its footnote area. -/
theorem footnote_page_places (d : FDoc) (index : Nat) (resume : Option Resume) (np : NextPage) (right : Bool)
    (pending reported : List Fn) (p : FPage) (hp : remakePageF d index resume np right pending reported = some p)
    (hb : p.page.type.blank = true) (hrep : reported ≠ []) : 1 ≤ p.cur.length := by
  obtain ⟨_, h2⟩ := remakePageF_blank_state d index resume np right pending reported p hp hb
  rw [h2]
  unfold pageStart
  cases reported with
  | nil => exact absurd rfl hrep
  | cons f rest =>
    unfold placeReported
    dsimp only
    split
    · rename_i hov
      simp at hov
    · apply placeReported_cur_pos
      simp only [layoutFootnote_cur, List.length_append, List.length_singleton]
      omega

/-- One page of content brings the page-maker strictly closer to the end (as stage 1). -/
theorem content_step (d : FDoc) (hN : NoFixedHeight d.root.erase) (hW : WellFormed d.root.erase) (index : Nat)
    (resume : Option Resume) (np : NextPage) (right : Bool) (pending reported : List Fn) (p : FPage)
    (hp : remakePageF d index resume np right pending reported = some p)
    (hfoot : ¬(resume = none ∧ reported ≠ [])) (r : Resume) (hres : p.page.resume = some r) :
    contentNeeded d (some r) p.page.nextPage (!right) + 1 ≤ contentNeeded d resume np right := by
  obtain ⟨hbl, hb1, _⟩ := remakePageF_spec d index resume np right pending reported p hp
  have hside : isBlankF d resume np right reported = isBlank (requestedSide d.rootLtr np.brk) right := by
    unfold isBlankF
    have : (!reported.isEmpty && resume.isNone) = false := by
      by_cases h1 : resume = none
      · by_cases h2 : reported = []
        · simp [h2]
        · exact absurd ⟨h1, h2⟩ hfoot
      · cases resume with
        | none => exact absurd rfl h1
        | some r => simp
    rw [this, Bool.or_false]
  have hlt := PM.pos_lt_size d.root.erase resume
  cases hb : p.page.type.blank with
  | true =>
    obtain ⟨hres', hnp, _⟩ := hb1 hb
    have hbs : isBlank (requestedSide d.rootLtr np.brk) right = true := by
      rw [← hside, ← hbl]; exact hb
    have hflip := isBlank_flip _ _ hbs
    unfold contentNeeded
    rw [hnp, hflip, hbs, ← hres, hres']
    simp
  | false =>
    have hprog := page_progress d hN hW index resume np right pending reported p hp hb
    rw [hres] at hprog
    have hprog : pos d.root.erase resume < pos d.root.erase (some r) := by
      rcases hprog with h | h
      · cases h
      · exact h
    have hlt' := PM.pos_lt_size d.root.erase (some r)
    unfold contentNeeded
    have hbs : isBlank (requestedSide d.rootLtr np.brk) right = false := by
      rw [← hside, ← hbl]; exact hb
    rw [hbs]
    split <;> simp <;> omega

/-- **Page count, from every page-maker state**: once only postponed footnotes are left, every page places at
least one footnote; before that, the pages are at most `contentNeeded` plus one per footnote placed. -/
theorem makeAllPagesF_length (d : FDoc) (hN : NoFixedHeight d.root.erase) (hW : WellFormed d.root.erase) :
    ∀ (fuel index : Nat) (resume : Option Resume) (np : NextPage) (right : Bool) (pending reported : List Fn)
      (pages : List FPage), makeAllPagesF d fuel index resume np right pending reported = some pages →
    ((resume = none ∧ reported ≠ []) → pages.length ≤ (pagesCur pages).length) ∧
    (¬(resume = none ∧ reported ≠ []) →
      pages.length ≤ contentNeeded d resume np right + (pagesCur pages).length) := by
  intro fuel
  induction fuel with
  | zero => intro index resume np right pending reported pages h; simp [makeAllPagesF] at h
  | succ fuel ih =>
    intro index resume np right pending reported pages h
    unfold makeAllPagesF at h
    cases hp : remakePageF d index resume np right pending reported with
    | none => rw [hp] at h; cases h
    | some p =>
      rw [hp] at h
      simp only at h
      obtain ⟨hbl, hb1, _⟩ := remakePageF_spec d index resume np right pending reported p hp
      have hneed : 2 ≤ contentNeeded d resume np right := by
        have := PM.pos_lt_size d.root.erase resume
        unfold contentNeeded; omega
      by_cases hstop : (p.page.resume.isNone && p.reported.isEmpty) = true
      · rw [if_pos hstop] at h
        simp only [Option.some.injEq] at h
        subst h
        constructor
        · intro hfoot
          have hblank : p.page.type.blank = true := by
            rw [hbl, hfoot.1]
            cases reported with
            | nil => exact absurd rfl hfoot.2
            | cons x xs => simp [isBlankF]
          have := footnote_page_places d index resume np right pending reported p hp hblank hfoot.2
          simpa [pagesCur] using this
        · intro _
          simp only [List.length_singleton]
          omega
      · rw [if_neg hstop] at h
        cases hps : makeAllPagesF d fuel (index + 1) p.page.resume p.page.nextPage (!right) p.pending p.reported with
        | none => rw [hps] at h; cases h
        | some ps =>
          rw [hps] at h
          simp only [Option.some.injEq] at h
          subst h
          obtain ⟨i1, i2⟩ := ih (index + 1) p.page.resume p.page.nextPage (!right) p.pending p.reported ps hps
          simp only [List.length_cons, pagesCur, List.length_append]
          constructor
          · intro hfoot
            have hblank : p.page.type.blank = true := by
              rw [hbl, hfoot.1]
              cases reported with
              | nil => exact absurd rfl hfoot.2
              | cons x xs => simp [isBlankF]
            have hplace := footnote_page_places d index resume np right pending reported p hp hblank hfoot.2
            obtain ⟨hres, _, _⟩ := hb1 hblank
            have hrne : p.reported ≠ [] := by
              intro he; apply hstop; simp [hres, hfoot.1, he]
            have := i1 ⟨by rw [hres]; exact hfoot.1, hrne⟩
            omega
          · intro hfoot
            cases hres : p.page.resume with
            | none =>
              have hrne : p.reported ≠ [] := by
                intro he; apply hstop; simp [hres, he]
              have := i1 ⟨hres, hrne⟩
              omega
            | some r =>
              have hstep := content_step d hN hW index resume np right pending reported p hp hfoot r hres
              have := i2 (by rw [hres]; intro hc; cases hc.1)
              rw [hres] at this
              omega

/-- **The page count is bounded by the amount of content** (C03), footnote documents: at most two pages per unit
of content (line or box; the factor 2 pays for blank pages of left/right breaks) plus one page per footnote body —
the blank pages "required by a postponed footnote" each place at least one footnote. -/
theorem pages_bounded (d : FDoc) (h : C01Foot.FootWF d) (fuel : Nat) (pages : List FPage)
    (hp : paginateFoot d fuel = some pages) :
    pages.length ≤ 2 * size d.root.erase + (boxFns d.root).length := by
  have hc := C01Foot.footnotes_conserve d h fuel pages hp
  have hcur : (pagesCur pages).length = (boxFns d.root).length := by
    rw [← hc]
    congr 1
    clear hc hp
    induction pages with
    | nil => rfl
    | cons p ps ih => simp [pagesCur, ih]
  unfold paginateFoot at hp
  have := (makeAllPagesF_length d h.noFixed h.wellFormed fuel 0 none _ _ _ _ pages hp).2
    (by intro hc; exact hc.2 rfl)
  rw [hcur] at this
  have hn : contentNeeded d none { brk := none, page := some (boxPageStart d.root.erase) } (firstRight d.erase) ≤
      2 * size d.root.erase := by
    unfold contentNeeded
    simp [requestedSide, isBlank]
    omega
  omega

/-- `make_all_pages` uses exactly one unit of fuel per page: a result is reproduced with `pages.length` fuel. -/
theorem makeAllPagesF_fuel_exact (d : FDoc) : ∀ (fuel index : Nat) (resume : Option Resume) (np : NextPage)
    (right : Bool) (pending reported : List Fn) (pages : List FPage),
    makeAllPagesF d fuel index resume np right pending reported = some pages →
    makeAllPagesF d pages.length index resume np right pending reported = some pages := by
  intro fuel
  induction fuel with
  | zero => intro index resume np right pending reported pages h; simp [makeAllPagesF] at h
  | succ fuel ih =>
    intro index resume np right pending reported pages h
    unfold makeAllPagesF at h
    cases hp : remakePageF d index resume np right pending reported with
    | none => rw [hp] at h; cases h
    | some p =>
      rw [hp] at h
      simp only at h
      split at h
      · rename_i hstop
        simp only [Option.some.injEq] at h
        subst h
        simp only [List.length_singleton]
        unfold makeAllPagesF
        simp only [hp]
        rw [if_pos hstop]
      · rename_i hstop
        cases hps : makeAllPagesF d fuel (index + 1) p.page.resume p.page.nextPage (!right) p.pending p.reported with
        | none => rw [hps] at h; cases h
        | some ps =>
          rw [hps] at h
          simp only [Option.some.injEq] at h
          subst h
          simp only [List.length_cons]
          unfold makeAllPagesF
          simp only [hp]
          rw [if_neg hstop, ih _ _ _ _ _ _ ps hps]

/-- **Explicit fuel**: `2 · size + #footnotes` pages always suffice — pagination of a well-formed footnote document
with that much fuel succeeds (so the `none` = `assert root_box` / out-of-fuel outcome of the model is unreachable),
and any larger amount gives the same pages. -/
theorem paginateFoot_total (d : FDoc) (h : C01Foot.FootWF d) (k : Nat) :
    ∃ pages, paginateFoot d (2 * size d.root.erase + (boxFns d.root).length + k) = some pages ∧ pages ≠ [] ∧
      pages.length ≤ 2 * size d.root.erase + (boxFns d.root).length := by
  obtain ⟨fuel, pages, hp, hne, _⟩ := paginateFoot_terminates d h.noFixed h.wellFormed
  have hb := pages_bounded d h fuel pages hp
  refine ⟨pages, ?_, hne, hb⟩
  unfold paginateFoot at hp ⊢
  have hex := makeAllPagesF_fuel_exact d fuel 0 none _ _ _ _ pages hp
  have := makeAllPagesF_fuel_mono d pages.length
    (2 * size d.root.erase + (boxFns d.root).length + k - pages.length) 0 none _ _ _ _ pages hex
  have he : pages.length + (2 * size d.root.erase + (boxFns d.root).length + k - pages.length) =
      2 * size d.root.erase + (boxFns d.root).length + k := by omega
  rw [he] at this
  exact this

/-! ### the driver's fuel -/

mutual
private theorem countBox_eq_size : (b : PBox) → Wp.Drive.Paginate.countBox b = size b
  | .para _ n _ _ => by simp [Wp.Drive.Paginate.countBox, size]
  | .block _ _ kids => by
    simp only [Wp.Drive.Paginate.countBox, size, countKids_eq_sizeList kids]; omega
private theorem countKids_eq_sizeList : (bs : List PBox) → Wp.Drive.Paginate.countKids bs = sizeList bs
  | [] => by simp [Wp.Drive.Paginate.countKids, sizeList]
  | b :: bs => by
    simp only [Wp.Drive.Paginate.countKids, sizeList, countBox_eq_size b, countKids_eq_sizeList bs]
end

/-- **The compiled driver never runs out of fuel** on a well-formed footnote document: the page budget
`fuelOf root = 2·(lines + boxes) + 8 + 2·#footnotes` it gives `paginateFoot` is enough, so its `err:pagination`
output can only mean the `assert root_box` of `make_page` — which `remakePageF_total` excludes. The correspondence
harness therefore compares real paginations, never an artefact of the fuel. -/
theorem driver_fuel_suffices (d : FDoc) (h : C01Foot.FootWF d) :
    ∃ pages, paginateFoot d (Wp.Drive.PaginateFoot.fuelOf d.root) = some pages ∧ pages ≠ [] := by
  have he : Wp.Drive.PaginateFoot.fuelOf d.root =
      2 * size d.root.erase + (boxFns d.root).length + (8 + (boxFns d.root).length) := by
    unfold Wp.Drive.PaginateFoot.fuelOf
    rw [countBox_eq_size]
    omega
  obtain ⟨pages, hp, hne, _⟩ := paginateFoot_total d h (8 + (boxFns d.root).length)
  exact ⟨pages, by rw [he]; exact hp, hne⟩

/-! ### non-vacuity -/

/-- `exDoc2`: page 2 is the blank page required by the two postponed footnotes; it places both. -/
example :
    (remakePageF C01Foot.exDoc2 1 none { brk := none, page := some "" } false [] 
      [⟨1, 2, 10, .auto, ""⟩, ⟨2, 2, 10, .auto, ""⟩]).map
      (fun p => (p.page.type.blank, p.cur.map (·.fid), p.reported.map (·.fid))) = some (true, [1, 2], []) := by
  decide +kernel

/-- `exDoc` (3 pages with content): positions 0 < 3 < 4 of 8 units (the last page finishes: `none`). -/
example : (paginateFoot C01Foot.exDoc 20).map (List.map (fun p => pos C01Foot.exDoc.root.erase p.page.resume)) =
    some [3, 4, 0] := by decide +kernel

/-- `exDoc2` (size 6: 3 lines + 3 boxes, 2 footnotes): 2 pages ≤ 2·6 + 2, the second one made for the footnotes. -/
example : size C01Foot.exDoc2.root.erase = 6 ∧ (boxFns C01Foot.exDoc2.root).length = 2 ∧
    (paginateFoot C01Foot.exDoc2 (2 * 6 + 2)).map List.length = some 2 := by
  refine ⟨by decide +kernel, by decide +kernel, by decide +kernel⟩

end Wp.C03Foot
