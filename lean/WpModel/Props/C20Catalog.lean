/-
C20 — "… giving the same result as the document without that reference", for the catalog of the PDF: the
`/Names /EmbeddedFiles` name tree (`Doc.embeddedFilesTree`, pdf/__init__.py `generate_pdf`) is that of the document
without the attachments that could not be fetched; when every attachment fails there is no tree at all.
-/
import WpModel.Model.ResourcesDoc
import WpModel.Props.C20

namespace Wp.C20.Catalog
open Wp Wp.Res Wp.Res.Doc

/-- The tree of a run of `write_pdf_attachment` over the metadata attachments (`none` also when the run raised). -/
def treeOf (fetcher : Fetcher) (urls : List String) : Option Nat :=
  match (metadataAttachments fetcher urls).2 with
  | .ok embedded => embeddedFilesTree embedded
  | .error _ => none

/-- The tree exists exactly when something was embedded, and counts it. -/
theorem tree_counts_embedded (embedded : List Nat) (n : Nat) :
    embeddedFilesTree embedded = some n ↔ (embedded ≠ [] ∧ n = embedded.length) := by
  unfold embeddedFilesTree
  cases embedded with
  | nil => simp
  | cons x xs => simp [eq_comm]

/-- When every attachment fails at the fetcher, nothing is embedded … -/
theorem nothing_embedded_when_all_fail (fetcher : Fetcher) (urls : List String)
    (h : ∀ u ∈ urls, ∃ e, fetcher u = .raises e) : (metadataAttachments fetcher urls).2 = .ok [] := by
  induction urls with
  | nil => rfl
  | cons u rest ih =>
    obtain ⟨e, he⟩ := h u (by simp)
    have hrest := ih (fun v hv => h v (by simp [hv]))
    simp only [metadataAttachments, attachment_failure_is_none fetcher u e he]
    cases hm : metadataAttachments fetcher rest with
    | mk evs out =>
      rw [hm] at hrest
      simp only at hrest
      subst hrest
      rfl

/-- … and the catalog gets no `/EmbeddedFiles` name tree: the PDF is that of the document without any attachment
(the clause the harness samples as `absent=CATALOG-DIFF`; seeded regression C20-10 made an empty tree). -/
theorem no_tree_when_all_attachments_fail (fetcher : Fetcher) (urls : List String)
    (h : ∀ u ∈ urls, ∃ e, fetcher u = .raises e) : treeOf fetcher urls = none ∧ treeOf fetcher [] = none := by
  constructor
  · unfold treeOf
    rw [nothing_embedded_when_all_fail fetcher urls h]
    rfl
  · rfl

/-- `failure_as_absent` (catalog): an attachment whose fetch raises, wherever it stands among the others, leaves the
name tree of the document without it. -/
theorem tree_as_absent (fetcher : Fetcher) (pre post : List String) (url : String) (e : Exc)
    (h : fetcher url = .raises e) : treeOf fetcher (pre ++ url :: post) = treeOf fetcher (pre ++ post) := by
  unfold treeOf
  rw [failure_as_absent_attachment fetcher pre post url e h]

/-- The same on the whole pipeline: a document all of whose `<link rel=attachment>` / `attachments=` entries fail is
written without `/EmbeddedFiles` name tree, whatever else it references and however far `render` / `write_pdf` get. -/
theorem document_has_no_tree_when_all_attachments_fail (d : Doc.Document)
    (h : ∀ u ∈ d.metaAttachments, ∃ e, d.fetcher u = .raises e) : embeddedFilesTree (Doc.run d).embedded = none := by
  have hm := nothing_embedded_when_all_fail d.fetcher d.metaAttachments h
  simp only [Doc.run]
  repeat' split
  all_goals first
    | rfl
    | (rename_i heq; rw [heq] at hm; simp only [Except.ok.injEq] at hm; subst hm; rfl)
    | (simp_all [embeddedFilesTree])

/-- Non-vacuity: two attachments, the first one unreachable: one name; both unreachable: no tree. -/
example :
    let f : Fetcher := fun u => if u == "http://a.test/bad.bin" then .raises ⟨"OSError", "reset"⟩
      else .resp ⟨true, none, none, none, ⟨5, false, none, false, true, false⟩⟩
    treeOf f ["http://a.test/bad.bin", "http://a.test/ok.bin"] = some 1 ∧
    treeOf f ["http://a.test/bad.bin", "http://a.test/bad.bin"] = none := by decide

end Wp.C20.Catalog
