/-
C14 — percentages of the page box and of margin boxes (`layout/percent.py resolve_percentages`,
`Model/PagePercent.lean`): which dimension of the containing block each property refers to, `box-sizing`, and
the refinement tie — the page-box / margin-box models of `Model/PageBoxes.lean` (`makePageBox`, `makeBox`,
used by every document-level theorem) are exactly `resolve_percentages` followed by the page algorithms.
-/
import WpModel.Model.PagePercent
import WpModel.Props.C14

namespace Wp.C14
open Wp Wp.PageBoxes Wp.PagePercent

/-- css-page-3 §7: on a **page box** the percentages of `margin-top / margin-bottom` and `padding-top / padding-bottom` refer to
the *height* of the containing block (the sheet), those of the left / right properties and `width` to its width,
`height` to its height — for every style and every containing block. -/
theorem page_percent_referents (s : CStyle) (cbW cbH : Rat) :
    let u := resolvePercentages true s cbW cbH
    u.mt = s.mt.resolve cbH ∧ u.mb = s.mb.resolve cbH ∧ u.pt = s.pt.resolve cbH ∧ u.pb = s.pb.resolve cbH ∧
    u.ml = s.ml.resolve cbW ∧ u.mr = s.mr.resolve cbW ∧ u.pl = s.pl.resolve cbW ∧ u.pr = s.pr.resolve cbW := by
  simp [resolvePercentages, maybeHeight]

/-- CSS 2.1 §8.3 / §8.4: on **any other box** (margin boxes included) all eight refer to the *width*. -/
theorem box_percent_referents (s : CStyle) (cbW cbH : Rat) :
    let u := resolvePercentages false s cbW cbH
    u.mt = s.mt.resolve cbW ∧ u.mb = s.mb.resolve cbW ∧ u.pt = s.pt.resolve cbW ∧ u.pb = s.pb.resolve cbW ∧
    u.ml = s.ml.resolve cbW ∧ u.mr = s.mr.resolve cbW ∧ u.pl = s.pl.resolve cbW ∧ u.pr = s.pr.resolve cbW := by
  simp [resolvePercentages, maybeHeight]

/-- `p%` of the page box's `padding-top` is `p/100` of the sheet height — the concrete form of the rule, and the
input on which a resolution against the width (seeded change C14-6) differs: a 200 × 500 sheet, `4%` → 20, not 8. -/
theorem page_padding_percent (s : CStyle) (p cbW cbH : Rat) (h : s.pt = .pct p) :
    (resolvePercentages true s cbW cbH).pt = some (cbH * p / 100) := by
  simp [resolvePercentages, maybeHeight, h, Dim.resolve]

example : (resolvePercentages true
    { ml := .px 0, mr := .px 0, mt := .pct 10, mb := .pct 10, pl := .pct 10, pr := .pct 10, pt := .pct 4, pb := .pct 4,
      width := .auto, height := .auto, minW := .auto, minH := .auto, maxW := .inf, maxH := .inf,
      bt := 0, br := 0, bb := 0, bl := 0 } 200 500).pt = some 20 := by decide +kernel

/-- With `content-box` the size properties are the resolved values (`adjust_box_sizing` changes nothing). -/
theorem content_box_sizes (isPage : Bool) (s : CStyle) (cbW cbH : Rat) (h : s.sizing = .contentBox) :
    let u := resolvePercentages isPage s cbW cbH
    u.width = s.width.resolve cbW ∧ u.height = s.height.resolve cbH ∧
    u.minW = resolveMinDim s.minW cbW ∧ u.minH = resolveMinDim s.minH cbH ∧
    u.maxW = s.maxW.resolve cbW ∧ u.maxH = s.maxH.resolve cbH := by
  have hd : ∀ a b c d, sizingDelta s.sizing a b c d = 0 := by intro a b c d; simp [sizingDelta, h]
  simp [resolvePercentages, hd, adjustAxis]

/-- `box-sizing: border-box` with non-negative paddings / borders: the specified width is the *border-box* width
whenever it is at least the paddings and borders; a smaller one gives content width 0 (never negative). -/
theorem border_box_width (isPage : Bool) (s : CStyle) (cbW cbH w : Rat) (h : s.sizing = .borderBox)
    (hw : s.width.resolve cbW = some w) (pl pr : Rat) (hpl : s.pl.resolve cbW = some pl) (hpr : s.pr.resolve cbW = some pr)
    (hnn : 0 ≤ pl ∧ 0 ≤ pr ∧ 0 ≤ s.bl ∧ 0 ≤ s.br) (hw0 : 0 ≤ w) :
    let u := resolvePercentages isPage s cbW cbH
    let delta := pl + pr + s.bl + s.br
    (delta ≤ w → u.width = some (w - delta)) ∧ (w ≤ delta → u.width = some 0) := by
  obtain ⟨h1, h2, h3, h4⟩ := hnn
  simp only [resolvePercentages, hw, hpl, hpr, sizingDelta, h, numOr0, adjustAxis, shrink]
  constructor
  · intro hle
    split
    · simp only [Option.map_some, Option.some.injEq]; rw [Rat.max_def]; split <;> grind
    · have hd : pl + pr + s.bl + s.br = 0 := by grind
      simp only [hd, Option.some.injEq]; grind
  · intro hle
    split
    · simp only [Option.map_some, Option.some.injEq]; rw [Rat.max_def]; split <;> grind
    · have hd : w = 0 := by grind
      simp only [hd]

/-- CSS 2.1 §10.5 / §10.7 with an **indefinite containing-block height** (`cb_height == 'auto'`): a percentage
`height` is `auto`, a percentage `min-height` is 0 and a percentage `max-height` (other than `0%`) is `none`; a length
is itself (content-box). -/
theorem auto_height_percentages (isPage : Bool) (s : CStyle) (cbW p : Rat) (hs : s.sizing = .contentBox) :
    (s.height = .pct p → (resolvePercentagesAutoHeight isPage s cbW).base.height = none) ∧
    (s.minH = .pct p → (resolvePercentagesAutoHeight isPage s cbW).base.minH = 0) ∧
    (s.maxH = .pct p → p ≠ 0 → (resolvePercentagesAutoHeight isPage s cbW).maxH = .inf) ∧
    (∀ v, s.height = .px v → (resolvePercentagesAutoHeight isPage s cbW).base.height = some v) := by
  have hd : ∀ a b c d, sizingDelta s.sizing a b c d = 0 := by intro a b c d; simp [sizingDelta, hs]
  have hlt : ¬ ((0 : Rat) > 0) := by decide +kernel
  refine ⟨?_, ?_, ?_, ?_⟩
  · intro h; simp [resolvePercentagesAutoHeight, hd, hlt, h]
  · intro h; simp [resolvePercentagesAutoHeight, hd, hlt, h, resolveMinDim, Dim.resolve]; grind
  · intro h hp; simp [resolvePercentagesAutoHeight, hd, hlt, h, MaxDim.resolveInf, hp]
  · intro v h; simp [resolvePercentagesAutoHeight, hd, hlt, h]

/-- The horizontal properties do not depend on whether the containing-block height is definite. -/
theorem auto_height_same_horizontal (s : CStyle) (cbW cbH : Rat) :
    let a := (resolvePercentagesAutoHeight false s cbW).base
    let u := resolvePercentages false s cbW cbH
    a.ml = u.ml ∧ a.mr = u.mr ∧ a.mt = u.mt ∧ a.mb = u.mb ∧ a.pl = u.pl ∧ a.pr = u.pr ∧ a.pt = u.pt ∧ a.pb = u.pb ∧
    a.width = u.width ∧ a.minW = u.minW ∧ a.maxW = u.maxW := by
  simp [resolvePercentagesAutoHeight, resolvePercentages, maybeHeight]

/-! ## Refinement: the page / margin-box models are `resolve_percentages` + the page algorithms -/

private theorem resolveMin_eq (d : Dim) (r : Rat) : resolveMin d r = resolveMinDim d r := by
  unfold resolveMin resolveMinDim numOr0; cases d.resolve r <;> rfl

private theorem resolveMax_eq (d : Option Dim) (r : Rat) : resolveMax d r = (maxOf d).resolve r := by
  cases d with
  | none => rfl
  | some d => cases d <;> rfl

/-- **`makePageBox` (the page box of every document-level theorem: `page_fills_sheet`,
`page_content_is_what_remains`, `margin_box_rects`, `doc_pages` …) is `resolve_percentages(page, size)` of
`percent.py` followed by `page_width` and `page_height`** — the function the `resolve-percentages` /
`page-box-percentages` sections compare with the real code property by property. -/
theorem make_page_box_refines (s : PStyle) :
    makePageBox s = pageFromUsed (resolvePercentages true (ofPStyle s) s.sizeW s.sizeH) s.sizeW s.sizeH := by
  simp [makePageBox, pageFromUsed, resolvePercentages, ofPStyle, maybeHeight, sizingDelta, adjustAxis,
    resolveMin_eq, resolveMax_eq]

/-- **`makeBox` (the margin box handed to `compute_variable_dimension` / `compute_fixed_dimension`) is
`resolve_percentages(box, containing_block)` for a box that is not a page box.** -/
theorem make_box_refines (s : MStyle) (cbW cbH : Rat) (h : s.generated = true) :
    makeBox s cbW cbH = mboxFromUsed s.kw (resolvePercentages false (ofMStyle s) cbW cbH) s.minC s.maxC := by
  simp [makeBox, h, mboxFromUsed, resolvePercentages, ofMStyle, maybeHeight, sizingDelta, adjustAxis]

/-- Consequence for documents: the used `padding-top` of the page box of a document page with style `s` is the
percentage of the sheet *height*. -/
theorem make_page_box_padding_top (s : PStyle) (p : Rat) (h : s.pt = .pct p) :
    (makePageBox s).pt = s.sizeH * p / 100 := by
  simp [makePageBox, h, Dim.resolve, numOr0]

example : (makePageBox { sizeW := 200, sizeH := 500, width := .auto, height := .auto, minW := .auto, maxW := none
                         minH := .auto, maxH := none, mt := .pct 10, mr := .pct 5, mb := .pct 10, ml := .pct 5
                         pt := .pct 4, pr := .pct 10, pb := .pct 4, pl := .pct 10
                         bt := 2, br := 2, bb := 2, bl := 2 }).height = 500 - 100 - 40 - 4 := by
  decide +kernel

/-! ## Scale invariance of the page box -/

/-- Scale a computed length: `px` values are multiplied, percentages and `auto` stay. -/
def scaleDim (k : Rat) : Dim → Dim
  | .auto => .auto
  | .px v => .px (k * v)
  | .pct v => .pct v

/-- The same `@page` style on a sheet `k` times as large, with every length multiplied by `k`. -/
def scalePStyle (k : Rat) (s : PStyle) : PStyle :=
  { sizeW := k * s.sizeW, sizeH := k * s.sizeH, width := scaleDim k s.width, height := scaleDim k s.height
    minW := scaleDim k s.minW, maxW := s.maxW.map (scaleDim k), minH := scaleDim k s.minH, maxH := s.maxH.map (scaleDim k)
    mt := scaleDim k s.mt, mr := scaleDim k s.mr, mb := scaleDim k s.mb, ml := scaleDim k s.ml
    pt := scaleDim k s.pt, pr := scaleDim k s.pr, pb := scaleDim k s.pb, pl := scaleDim k s.pl
    bt := k * s.bt, br := k * s.br, bb := k * s.bb, bl := k * s.bl }

def scalePageBox (k : Rat) (p : PageBox) : PageBox :=
  { width := k * p.width, height := k * p.height, mt := k * p.mt, mr := k * p.mr, mb := k * p.mb, ml := k * p.ml
    pt := k * p.pt, pr := k * p.pr, pb := k * p.pb, pl := k * p.pl, bt := k * p.bt, br := k * p.br, bb := k * p.bb, bl := k * p.bl }

private theorem resolve_scale (k : Rat) (d : Dim) (r : Rat) :
    (scaleDim k d).resolve (k * r) = (d.resolve r).map (k * ·) := by
  cases d <;> simp [scaleDim, Dim.resolve]
  grind

private def scaleR (k : Rat) (r : RBox) : RBox := ⟨k * r.inner, k * r.ma, k * r.mb⟩

private theorem pwh_scale (k : Rat) (i a b : Len) (ppb cb : Rat) :
    pageWidthOrHeight ⟨i.map (k * ·), a.map (k * ·), b.map (k * ·), k * ppb⟩ (k * cb) =
      scaleR k (pageWidthOrHeight ⟨i, a, b, ppb⟩ cb) := by
  cases i <;> cases a <;> cases b <;> simp [pageWidthOrHeight, scaleR] <;> grind

private theorem minmax_scale (k : Rat) (hk : 0 < k) (i a b : Len) (ppb cb mn : Rat) (mx : Option Rat) :
    pageDimMinMax ⟨i.map (k * ·), a.map (k * ·), b.map (k * ·), k * ppb⟩ (k * cb) (k * mn) (mx.map (k * ·)) =
      scaleR k (pageDimMinMax ⟨i, a, b, ppb⟩ cb mn mx) := by
  have hset : ∀ v : Rat, pageWidthOrHeight ⟨some (k * v), a.map (k * ·), b.map (k * ·), k * ppb⟩ (k * cb) =
      scaleR k (pageWidthOrHeight ⟨some v, a, b, ppb⟩ cb) := fun v => pwh_scale k (some v) a b ppb cb
  have hlt : ∀ x y : Rat, (k * x < k * y) ↔ (x < y) := fun x y => Rat.mul_lt_mul_left hk
  unfold pageDimMinMax
  simp only [pwh_scale]
  cases mx with
  | none =>
    simp only [Option.map_none, scaleR, hlt]
    split <;> simp [hset, scaleR]
  | some m =>
    simp only [Option.map_some, scaleR, gt_iff_lt, hlt]
    split
    · simp only [hset, scaleR, hlt]
      split <;> simp [hset, scaleR]
    · simp only [hlt]
      split <;> simp [hset, scaleR]

private theorem numOr0_map (k : Rat) (x : Len) : numOr0 (x.map (k * ·)) = k * numOr0 x := by
  cases x <;> simp [numOr0]

private theorem resolveMin_scale (k : Rat) (d : Dim) (r : Rat) : resolveMin (scaleDim k d) (k * r) = k * resolveMin d r := by
  simp [resolveMin, resolve_scale, numOr0_map]

private theorem resolveMax_scale (k : Rat) (d : Option Dim) (r : Rat) :
    resolveMax (d.map (scaleDim k)) (k * r) = (resolveMax d r).map (k * ·) := by
  cases d with
  | none => rfl
  | some d => simp [resolveMax, resolve_scale]

/-- **The page box is scale-invariant**: the same `@page` style on a sheet `k` times as large with every length
multiplied by `k` (percentages unchanged) gives the page box multiplied by `k` — content size, margins, paddings,
borders; min/max clamps included (`k > 0`).  (So the geometry of a page depends on the unit only through the
numbers: what makes `zoom` a pure scale for the whole page, `page_boxes_zoom_homogeneous`.) -/
theorem make_page_box_scale (s : PStyle) (k : Rat) (hk : 0 < k) :
    makePageBox (scalePStyle k s) = scalePageBox k (makePageBox s) := by
  have hppb : ∀ a b c d : Rat, k * a + k * b + k * c + k * d = k * (a + b + c + d) := by intro a b c d; grind
  simp only [makePageBox, scalePStyle, resolve_scale, numOr0_map, resolveMin_scale, resolveMax_scale, hppb,
    minmax_scale k hk, scalePageBox, scaleR]

example : makePageBox (scalePStyle 2 { sizeW := 200, sizeH := 500, width := .auto, height := .px 300, minW := .auto
                                       maxW := some (.px 100), minH := .auto, maxH := none, mt := .pct 10, mr := .auto
                                       mb := .auto, ml := .px 5, pt := .pct 4, pr := .px 1, pb := .px 0, pl := .pct 10
                                       bt := 2, br := 0, bb := 0, bl := 1 }) =
    scalePageBox 2 (makePageBox { sizeW := 200, sizeH := 500, width := .auto, height := .px 300, minW := .auto
                                  maxW := some (.px 100), minH := .auto, maxH := none, mt := .pct 10, mr := .auto
                                  mb := .auto, ml := .px 5, pt := .pct 4, pr := .px 1, pb := .px 0, pl := .pct 10
                                  bt := 2, br := 0, bb := 0, bl := 1 }) := by decide +kernel

end Wp.C14
