/-
C14 — `parse_page_selectors`: which exceptions of the third-party `tinycss2.nth.parse_nth` can leave it
(after repairs 9ef10c8 and 54b52a1, which wrap the call in
`try … except (AttributeError, StopIteration, ValueError): return None`).
-/
import WpModel.Model.PageSelectors
import WpModel.Props.C14  -- (also: the auxiliary match lemmas of `parseInner` generated there must not be generated twice)

namespace Wp.C14
open Wp Wp.PageSel

/-- `try: parse_nth(nth) except (AttributeError, StopIteration, ValueError): return None`: the only exceptions that pass are
of a class outside the caught ones. -/
theorem nthValues_raises_only_uncaught (e : Option NthRes) (cls : String) (h : nthValues e = .raised cls) :
    nthCaught cls = false := by
  unfold nthValues at h
  split at h
  · cases h
  · split at h
    · cases h
    · rename_i c hc
      simp only [PRes.raised.injEq] at h; subst h; simpa using hc
  · cases h

theorem parseNth_raises_only_uncaught (args : List ArgTok) (table : List NthRes) (cls : String)
    (h : parseNth args table = .raised cls) : nthCaught cls = false := by
  unfold parseNth at h
  simp only at h
  split at h
  · split at h
    · split at h <;> cases h
    · rename_i c hc
      simp only [PRes.raised.injEq] at h; subst h; exact nthValues_raises_only_uncaught _ _ hc
    · cases h
  · split at h
    · cases h
    · rename_i c hc
      simp only [PRes.raised.injEq] at h; subst h; exact nthValues_raises_only_uncaught _ _ hc
    · cases h

theorem parseInner_raises_only_uncaught (toks : List Tok) (types : Sel) (cls : String)
    (h : parseInner toks types = .raised cls) : nthCaught cls = false := by
  fun_induction parseInner toks types <;> first
    | (cases h; done)
    | exact (by assumption : _ → nthCaught cls = false) h
    | (rename_i hc; simp only [PRes.raised.injEq] at h; subst h; exact parseNth_raises_only_uncaught _ _ _ hc)

theorem parseOuter_raises_only_uncaught (fuel : Nat) (toks : List Tok) (acc : List Sel) (cls : String)
    (h : parseOuter fuel toks acc = .raised cls) : nthCaught cls = false := by
  induction fuel generalizing toks acc with
  | zero => simp [parseOuter] at h
  | succ fuel ih =>
    unfold parseOuter at h
    have key : ∀ (types : Sel) (tokens : List Tok),
        (if tokens.length == 1 then (PRes.reject : PRes (List Sel))
         else if tokens.isEmpty then .ok (acc ++ [types])
         else match parseInner tokens types with
           | .reject => .reject
           | .raised cls => .raised cls
           | .ok (types, rest) =>
             if rest.isEmpty then .ok (acc ++ [types]) else parseOuter fuel rest (acc ++ [types])) = .raised cls →
        nthCaught cls = false := by
      intro types tokens hres
      split at hres
      · cases hres
      · split at hres
        · cases hres
        · split at hres
          · cases hres
          · rename_i c hc
            simp only [PRes.raised.injEq] at hres; subst hres; exact parseInner_raises_only_uncaught _ _ _ hc
          · split at hres
            · cases hres
            · exact ih _ _ hres
    split at h
    rename_i types tokens _
    exact key types tokens h

/-- **`parse_page_selectors` lets through only exceptions that it does not catch** (full strength, no
hypothesis on the oracle): whatever `tinycss2.nth.parse_nth` does on the slices of the `:nth()` arguments, an
exception leaving `parse_page_selectors` has a class other than `AttributeError`, `StopIteration` and `ValueError`.
Before repair 9ef10c8 the `AttributeError` of a trailing sign (`2n+`) passed (fixed finding
`page-nth-trailing-sign-crash`), before 54b52a1 the `StopIteration` of a lone `+` (fixed finding
`page-nth-lone-plus-crash`).  There is no catch-all: `Witness.C14.nth_other_exception_propagates`. -/
theorem parse_raises_only_uncaught (prelude : List Tok) (cls : String)
    (h : parsePageSelectors prelude = .raised cls) :
    cls ≠ "AttributeError" ∧ cls ≠ "StopIteration" ∧ cls ≠ "ValueError" := by
  have hc : nthCaught cls = false := by
    unfold parsePageSelectors at h
    simp only at h
    split at h
    · cases h
    · exact parseOuter_raises_only_uncaught _ _ _ _ h
  refine ⟨?_, ?_, ?_⟩ <;> (intro e; subst e; simp [nthCaught] at hc)

/-- Every entry of every oracle table that is an exception is a caught one (what the repair assumed). -/
def OracleRaisesOnlyCaught (prelude : List Tok) : Prop :=
  ∀ t ∈ prelude, match t with
    | .func _ _ table => ∀ c, NthRes.raised c ∈ table → nthCaught c = true
    | _ => True

private theorem nthValues_of_mem (table : List NthRes) (k : Nat) (cls : String)
    (h : nthValues table[k]? = .raised cls) : NthRes.raised cls ∈ table := by
  unfold nthValues at h
  split at h
  · cases h
  · rename_i c heq
    split at h
    · cases h
    · simp only [PRes.raised.injEq] at h; subst h
      exact List.mem_of_getElem? heq
  · cases h

theorem parseNth_raised_mem (args : List ArgTok) (table : List NthRes) (cls : String)
    (h : parseNth args table = .raised cls) : NthRes.raised cls ∈ table := by
  unfold parseNth at h
  simp only at h
  split at h
  · split at h
    · split at h <;> cases h
    · rename_i c hc
      simp only [PRes.raised.injEq] at h; subst h; exact nthValues_of_mem _ _ _ hc
    · cases h
  · split at h
    · cases h
    · rename_i c hc
      simp only [PRes.raised.injEq] at h; subst h; exact nthValues_of_mem _ _ _ hc
    · cases h

/-- The tokens left by the inner loop are tokens of its input. -/
theorem parseInner_rest_sub (toks : List Tok) (types t' : Sel) (rest : List Tok)
    (hp : parseInner toks types = .ok (t', rest)) : ∀ t ∈ rest, t ∈ toks := by
  fun_induction parseInner toks types generalizing t' rest
  all_goals try (cases hp; done)
  case case1 => simp only [PRes.ok.injEq, Prod.mk.injEq] at hp; obtain ⟨_, rfl⟩ := hp; simp
  case case14 =>
    simp only [PRes.ok.injEq, Prod.mk.injEq] at hp; obtain ⟨_, rfl⟩ := hp
    intro t ht; simp [ht]
  all_goals
    rename_i ih
    intro t ht
    have := ih _ _ hp t ht
    simp [this]

/-- An exception leaving the inner loop comes from the oracle table of one of the tokens. -/
theorem parseInner_raised_mem (toks : List Tok) (types : Sel) (cls : String)
    (h : parseInner toks types = .raised cls) :
    ∃ name args table, Tok.func name args table ∈ toks ∧ NthRes.raised cls ∈ table := by
  fun_induction parseInner toks types
  all_goals try (cases h; done)
  case case11 hc =>
    simp only [PRes.raised.injEq] at h; subst h
    rename_i name args table rest' _ _
    exact ⟨name, args, table, by simp, parseNth_raised_mem _ _ _ hc⟩
  all_goals
    rename_i ih
    obtain ⟨n, a, t, hm, ht⟩ := ih h
    exact ⟨n, a, t, by simp [hm], ht⟩

/-- **If the oracle raises only exceptions that the repair catches, `parse_page_selectors` never raises**
(what the repairs 9ef10c8 + 54b52a1 establish: the three classes are all that tinycss2 1.5 is known to raise — the
oracle tables of every generated prelude satisfy the hypothesis, checked in every run by the section
`parse-page-selectors`, where an uncaught class would show as `err:<Class>`). -/
theorem parse_total_partial (prelude : List Tok) (ho : OracleRaisesOnlyCaught prelude) (cls : String) :
    parsePageSelectors prelude ≠ .raised cls := by
  intro h
  have hun : nthCaught cls = false := by
    have := parse_raises_only_uncaught prelude cls h
    simp only [nthCaught, Bool.or_eq_false_iff, beq_eq_false_iff_ne]; exact ⟨⟨this.1, this.2.1⟩, this.2.2⟩
  -- the exception comes from some table of the prelude
  have hmem : ∃ name args table, Tok.func name args table ∈ prelude ∧ NthRes.raised cls ∈ table := by
    unfold parsePageSelectors at h
    simp only at h
    split at h
    · cases h
    · have hsub : ∀ t ∈ removeWhitespace prelude, t ∈ prelude := by
        intro t ht; unfold removeWhitespace at ht; exact (List.mem_filter.mp ht).1
      have hout : ∀ (fuel : Nat) (toks : List Tok) (acc : List Sel), parseOuter fuel toks acc = .raised cls →
          ∃ name args table, Tok.func name args table ∈ toks ∧ NthRes.raised cls ∈ table := by
        intro fuel
        induction fuel with
        | zero => intro toks acc h0; simp [parseOuter] at h0
        | succ fuel ih =>
          intro toks acc h0
          unfold parseOuter at h0
          have key : ∀ (types : Sel) (tokens : List Tok), (∀ t ∈ tokens, t ∈ toks) →
              (if tokens.length == 1 then (PRes.reject : PRes (List Sel))
               else if tokens.isEmpty then .ok (acc ++ [types])
               else match parseInner tokens types with
                 | .reject => .reject
                 | .raised cls => .raised cls
                 | .ok (types, rest) =>
                   if rest.isEmpty then .ok (acc ++ [types]) else parseOuter fuel rest (acc ++ [types])) = .raised cls →
              ∃ name args table, Tok.func name args table ∈ toks ∧ NthRes.raised cls ∈ table := by
            intro types tokens hsub' hres
            split at hres
            · cases hres
            · split at hres
              · cases hres
              · split at hres
                · cases hres
                · rename_i c hc
                  simp only [PRes.raised.injEq] at hres; subst hres
                  obtain ⟨n, a, t, hm, ht⟩ := parseInner_raised_mem _ _ _ hc
                  exact ⟨n, a, t, hsub' _ hm, ht⟩
                · rename_i t2 rest hpi
                  split at hres
                  · cases hres
                  · obtain ⟨n, a, t, hm, ht⟩ := ih _ _ hres
                    exact ⟨n, a, t, hsub' _ (parseInner_rest_sub _ _ _ _ hpi _ hm), ht⟩
          split at h0
          rename_i types tokens heq
          refine key types tokens ?_ h0
          split at heq
          · simp only [Prod.mk.injEq] at heq; intro t ht; rw [← heq.2] at ht; simp [ht]
          · simp only [Prod.mk.injEq] at heq; intro t ht; rw [← heq.2] at ht; exact ht
      obtain ⟨n, a, t, hm, ht⟩ := hout _ _ _ h
      exact ⟨n, a, t, hsub _ hm, ht⟩
  obtain ⟨n, a, t, hm, ht⟩ := hmem
  have := ho _ hm
  simp only at this
  have := this cls ht
  simp [hun] at this

/-- Non-vacuity: the oracle tables of `:nth(2n+):first` (tinycss2 1.5: `AttributeError`) satisfy the hypothesis. -/
example : OracleRaisesOnlyCaught [.literal ":", .func "nth" [.other, .other] [.none, .none, .raised "AttributeError"],
    .literal ":", .ident "first" "first"] := by
  intro t ht
  simp only [List.mem_cons, List.not_mem_nil, or_false] at ht
  rcases ht with rfl | rfl | rfl | rfl <;> simp [nthCaught]

end Wp.C14
