/-
C17 — "with glyphs that map back through the font's ToUnicode table to its text", the written form:
the bfchar values are UTF-16BE (seventh file of C17).  Model: `Model/Utf16.lean` (the bfchar line of
`build_fonts_dictionary`), compared line by line with the written CMap in section `tounicode-written`.
-/
import WpModel.Model.Utf16

namespace Wp.Utf16
open Wp

/-- A Unicode scalar value: below U+110000 and not a surrogate. -/
def Scalar (cp : Nat) : Prop := cp < 0x110000 ∧ ¬ (0xD800 ≤ cp ∧ cp < 0xE000)

/-- **Every unit written is a 16-bit value** (four hex digits): a character above U+FFFF becomes two units,
never one five-digit value. -/
theorem encode_units_16bit (cp : Nat) (h : cp < 0x110000) : ∀ u ∈ encode cp, u < 0x10000 := by
  intro u hu
  unfold encode at hu
  split at hu
  · simp at hu; omega
  · simp at hu; omega

/-- One unit in the Basic Multilingual Plane, a surrogate pair above it. -/
theorem encode_length (cp : Nat) : (encode cp).length = if cp < 0x10000 then 1 else 2 := by
  unfold encode; split <;> rfl

private theorem decode_encode_cons (cp : Nat) (h : Scalar cp) (rest : List Nat) :
    decode (encode cp ++ rest) = cp :: decode rest := by
  unfold encode
  split
  · rename_i hlt
    cases rest with
    | nil => simp [decode]
    | cons r rs =>
      have : ¬ (0xD800 ≤ cp ∧ cp < 0xDC00 ∧ 0xDC00 ≤ r ∧ r < 0xE000) := by
        intro hh; exact h.2 ⟨hh.1, by omega⟩
      simp [decode, this]
  · rename_i hge
    have h1 := h.1
    have : 0xD800 ≤ 0xD800 + (cp - 0x10000) / 0x400 ∧ 0xD800 + (cp - 0x10000) / 0x400 < 0xDC00 ∧
        0xDC00 ≤ 0xDC00 + (cp - 0x10000) % 0x400 ∧ 0xDC00 + (cp - 0x10000) % 0x400 < 0xE000 := by
      refine ⟨by omega, by omega, by omega, by omega⟩
    simp only [List.cons_append, List.nil_append, decode, this, and_self, ↓reduceIte, List.cons.injEq, and_true]
    omega

/-- **Round trip for texts**: the units written for a text of scalar values read back as that text. -/
theorem decode_encodeAll (cps : List Nat) (h : ∀ cp ∈ cps, Scalar cp) : decode (encodeAll cps) = cps := by
  induction cps with
  | nil => rfl
  | cons c cs ih =>
    have hc := h c (by simp)
    simp only [encodeAll, List.flatMap_cons]
    rw [decode_encode_cons c hc _]
    have := ih (fun cp hcp => h cp (by simp [hcp]))
    simp only [encodeAll] at this
    rw [this]

example : encode 0x1D7D8 = [0xD835, 0xDFD8] ∧ bfcharLine 0x15d8 [0x1D7D8] = "<15d8> <d835dfd8>" ∧
    bfcharLine 68 [0x66, 0x69] = "<0044> <00660069>" ∧ decode [0x61, 0xD835, 0xDFD8] = [0x61, 0x1D7D8] := by
  decide +kernel

example : Scalar 0x1D7D8 := by unfold Scalar; omega

end Wp.Utf16
