/-
C07 (part 10) — `grid_line` (grid-row-start / -end, grid-column-start / -end): the components of a multi-token value
may come in any order; what is accepted has the shape of the CSS grammar
`auto | <custom-ident> | [ <integer> && <custom-ident>? ] | [ span && [ <integer [1,∞]> || <custom-ident> ] ]`.
-/
import WpModel.Model.GridLineC07

namespace Wp.C07
open Wp Wp.GridLine07

/-! ## 30. grid lines -/

/-- Two turns of the loop commute (failure included): the loop only records *whether* it met a `span`, *which*
integer and *which* identifier — one of each at most. -/
theorem grid_line_step_comm (s : St) (a b : GTok) :
    (step s a).bind (fun s' => step s' b) = (step s b).bind (fun s' => step s' a) := by
  obtain ⟨num, id, sp⟩ := s
  cases a with
  | other =>
    cases hb : step { number := num, ident := id, span := sp } b with
    | none => simp [step]
    | some sb => simp [step]
  | int n =>
    cases b with
    | other => simp [step]
    | int m =>
      cases num <;> by_cases hn : n = 0 <;> by_cases hm : m = 0 <;> simp [step, hn, hm]
    | ident l v =>
      cases num <;> cases id <;> cases sp <;> by_cases hn : n = 0 <;> by_cases ha : l = "auto" <;>
        by_cases hs : l = "span" <;> simp [step, hn, ha, hs]
  | ident l v =>
    cases b with
    | other => simp [step]; repeat' split <;> simp_all [step]
    | int m =>
      cases num <;> cases id <;> cases sp <;> by_cases hm : m = 0 <;> by_cases ha : l = "auto" <;>
        by_cases hs : l = "span" <;> simp [step, hm, ha, hs]
    | ident l2 v2 =>
      cases id <;> cases sp <;> by_cases ha : l = "auto" <;> by_cases hs : l = "span" <;>
        by_cases ha2 : l2 = "auto" <;> by_cases hs2 : l2 = "span" <;> simp_all [step]

private theorem loop_cons (s : St) (t : GTok) (rest : List GTok) :
    loop s (t :: rest) = (step s t).bind (fun s' => loop s' rest) := by
  simp only [loop]
  cases step s t <;> rfl

/-- The loop does not depend on the order of the tokens. -/
theorem grid_line_loop_perm {l1 l2 : List GTok} (h : l1.Perm l2) : ∀ s, loop s l1 = loop s l2 := by
  induction h with
  | nil => intro s; rfl
  | cons t _ ih =>
    intro s
    rw [loop_cons, loop_cons]
    cases step s t with
    | none => rfl
    | some s' => exact ih s'
  | swap a b l =>
    intro s
    rw [loop_cons, loop_cons]
    have hc := grid_line_step_comm s b a
    cases hb : step s b with
    | none =>
      rw [hb] at hc
      simp only [Option.bind_none] at hc
      cases ha : step s a with
      | none => rfl
      | some sa =>
        rw [ha] at hc
        simp only [Option.bind_some] at hc
        simp only [Option.bind_none, Option.bind_some, loop_cons, ← hc]
    | some sb =>
      rw [hb] at hc
      simp only [Option.bind_some] at hc
      cases ha : step s a with
      | none =>
        rw [ha] at hc
        simp only [Option.bind_none] at hc
        simp only [Option.bind_some, Option.bind_none, loop_cons, hc]
      | some sa =>
        rw [ha] at hc
        simp only [Option.bind_some] at hc
        simp only [Option.bind_some, loop_cons, hc]
  | trans _ _ ih1 ih2 => intro s; rw [ih1 s, ih2 s]

private theorem gridLine_multi : ∀ (toks : List GTok), 2 ≤ toks.length →
    gridLine toks = (loop {} toks).bind finish
  | [], h => by simp at h
  | [_], h => by simp at h
  | _ :: _ :: _, _ => by simp [gridLine]

/-- **The components of a grid line may be written in any order** (`span 2 a`, `a 2 span`, `2 span a` …): for
values of two or more tokens `grid_line` gives the same answer — the same line, or the same refusal — on every
permutation of the tokens. -/
theorem grid_line_perm {l1 l2 : List GTok} (h : l1.Perm l2) (hl : 2 ≤ l1.length) :
    gridLine l1 = gridLine l2 := by
  rw [gridLine_multi l1 hl, gridLine_multi l2 (by rw [← h.length_eq]; exact hl), grid_line_loop_perm h]

/-- What the loop has recorded comes from the tokens: a non-zero integer token, an identifier token that is neither
`auto` nor `span`. -/
def Recorded (all : List GTok) (s : St) : Prop :=
  (∀ n, s.number = some n → n ≠ 0 ∧ GTok.int n ∈ all) ∧
  (∀ v, s.ident = some v → ∃ l, GTok.ident l v ∈ all ∧ l ≠ "auto" ∧ l ≠ "span")

private theorem step_recorded (all : List GTok) (s s' : St) (t : GTok) (ht : t ∈ all) (hs : Recorded all s)
    (h : step s t = some s') : Recorded all s' := by
  obtain ⟨hn, hi⟩ := hs
  cases t with
  | other => simp [step] at h
  | int n =>
    simp only [step] at h
    split at h
    · rename_i hc
      simp only [Bool.and_eq_true, bne_iff_ne, ne_eq] at hc
      cases h
      refine ⟨fun m hm => ?_, hi⟩
      simp only [Option.some.injEq] at hm
      subst hm
      exact ⟨hc.1, ht⟩
    · cases h
  | ident l v =>
    simp only [step] at h
    split at h
    · cases h
    · rename_i ha
      split at h
      · split at h
        · cases h
        · cases h; exact ⟨hn, hi⟩
      · rename_i hsp
        split at h
        · cases h
          refine ⟨hn, fun w hw => ?_⟩
          simp only [Option.some.injEq] at hw
          subst hw
          exact ⟨l, ht, by simpa using ha, by simpa using hsp⟩
        · cases h

private theorem loop_recorded (all : List GTok) : ∀ (rest : List GTok) (s s' : St), (∀ t ∈ rest, t ∈ all) →
    Recorded all s → loop s rest = some s' → Recorded all s'
  | [], s, s', _, hs, h => by simp [loop] at h; subst h; exact hs
  | t :: rest, s, s', hsub, hs, h => by
    rw [loop_cons] at h
    cases hst : step s t with
    | none => rw [hst] at h; cases h
    | some s1 =>
      rw [hst] at h
      exact loop_recorded all rest s1 s' (fun x hx => hsub x (by simp [hx]))
        (step_recorded all s s1 t (hsub t (by simp)) hs hst) h

/-- **What `grid_line` accepts has the shape of the grammar**: a line names an integer or an identifier (or both);
the integer is a non-zero integer token of the value, positive after `span`; without `span` a value of several tokens
has an integer; the identifier is the value, as written, of an identifier token that is neither `auto` nor `span`.
(`_partial`: the grammar's `<custom-ident>` also excludes the CSS-wide keywords; the code does not — finding
`css-wide-keyword-as-ident`, witness `Witness.C07.grid_line_css_wide_as_ident`.) -/
theorem grid_line_sound_partial (toks : List GTok) (sp : Bool) (num : Option Int) (id : Option String)
    (h : gridLine toks = some (.line sp num id)) :
    (num.isSome = true ∨ id.isSome = true) ∧
    (∀ n, num = some n → n ≠ 0 ∧ GTok.int n ∈ toks ∧ (sp = true → 0 < n)) ∧
    (∀ v, id = some v → ∃ l, GTok.ident l v ∈ toks ∧ l ≠ "auto" ∧ l ≠ "span") ∧
    (sp = false → toks.length ≠ 1 → num.isSome = true) := by
  by_cases hlen : 2 ≤ toks.length
  · rw [gridLine_multi toks hlen] at h
    cases hl : loop {} toks with
    | none => rw [hl] at h; cases h
    | some s =>
      rw [hl] at h
      simp only [Option.bind_some] at h
      have hrec : Recorded toks s :=
        loop_recorded toks toks {} s (fun _ ht => ht) ⟨(fun n hn => by cases hn), (fun v hv => by cases hv)⟩ hl
      obtain ⟨hn, hi⟩ := hrec
      unfold finish at h
      cases hsp : s.span with
      | true =>
        simp only [hsp, if_true] at h
        cases hnum : s.number with
        | some n =>
          simp only [hnum] at h
          split at h
          · cases h
          · rename_i hneg
            simp only [Option.some.injEq, GLine.line.injEq] at h
            obtain ⟨rfl, rfl, rfl⟩ := h
            refine ⟨Or.inl rfl, fun m hm => ?_, hi, (fun hf => by cases hf)⟩
            simp only [Option.some.injEq] at hm
            subst hm
            obtain ⟨h0, hmem⟩ := hn n hnum
            refine ⟨h0, hmem, fun _ => ?_⟩
            omega
        | none =>
          simp only [hnum] at h
          split at h
          · rename_i hid
            simp only [Option.some.injEq, GLine.line.injEq] at h
            obtain ⟨rfl, rfl, rfl⟩ := h
            exact ⟨Or.inr hid, (fun m hm => by cases hm), hi, (fun hf => by cases hf)⟩
          · cases h
      | false =>
        simp only [hsp, Bool.false_eq_true, if_false] at h
        cases hnum : s.number with
        | some n =>
          simp only [hnum, Option.some.injEq, GLine.line.injEq] at h
          obtain ⟨rfl, rfl, rfl⟩ := h
          refine ⟨Or.inl rfl, fun m hm => ?_, hi, fun _ _ => rfl⟩
          simp only [Option.some.injEq] at hm
          subst hm
          obtain ⟨h0, hmem⟩ := hn n hnum
          exact ⟨h0, hmem, (fun hf => by cases hf)⟩
        | none => simp [hnum] at h
  · -- zero or one token
    match toks, hlen, h with
    | [], _, h => simp [gridLine, loop, finish] at h
    | [.other], _, h => simp [gridLine] at h
    | [.int n], _, h =>
      simp only [gridLine] at h
      split at h
      · rename_i hn0
        simp only [Option.some.injEq, GLine.line.injEq] at h
        obtain ⟨rfl, rfl, rfl⟩ := h
        refine ⟨Or.inl rfl, fun m hm => ?_, (fun v hv => by cases hv), fun _ hl => absurd rfl hl⟩
        simp only [Option.some.injEq] at hm
        subst hm
        exact ⟨by simpa using hn0, by simp, (fun hf => by cases hf)⟩
      · cases h
    | [.ident l v], _, h =>
      simp only [gridLine] at h
      split at h
      · cases h
      · rename_i ha
        split at h
        · rename_i hs
          simp only [Option.some.injEq, GLine.line.injEq] at h
          obtain ⟨rfl, rfl, rfl⟩ := h
          refine ⟨Or.inr rfl, (fun m hm => by cases hm), fun w hw => ?_, fun _ hl => absurd rfl hl⟩
          simp only [Option.some.injEq] at hw
          subst hw
          exact ⟨l, by simp, by simpa using ha, by simpa using hs⟩
        · cases h
    | _ :: _ :: _, hlen, _ => exact absurd (by simp) hlen

/-- Completeness for the `span` form: `span`, a positive integer and an identifier, in this or (by `grid_line_perm`)
any order, is that line. -/
theorem grid_line_span_accepted (n : Int) (hn : 0 < n) (l v : String) (ha : l ≠ "auto") (hs : l ≠ "span") :
    gridLine [.ident "span" "span", .int n, .ident l v] = some (.line true (some n) (some v)) := by
  have hn0 : n ≠ 0 := by omega
  have hneg : ¬ n < 0 := by omega
  simp [gridLine, loop, step, finish, hn0, hneg, ha, hs]

/-- Non-vacuity: `span 2 a` = `a span 2` = `2 a span`; `auto`; `a`; `span` alone, `0`, `span -1`, `2 3`, `a b`,
`auto 2` refused. -/
example :
    gridLine [.ident "span" "span", .int 2, .ident "a" "a"] = some (.line true (some 2) (some "a")) ∧
    gridLine [.ident "a" "a", .ident "span" "SPAN", .int 2] = some (.line true (some 2) (some "a")) ∧
    gridLine [.int 2, .ident "a" "A", .ident "span" "span"] = some (.line true (some 2) (some "A")) ∧
    gridLine [.ident "auto" "auto"] = some .auto ∧
    gridLine [.ident "a" "a"] = some (.line false none (some "a")) ∧
    gridLine [.int (-1), .ident "a" "a"] = some (.line false (some (-1)) (some "a")) ∧
    gridLine [.ident "span" "span"] = none ∧ gridLine [.int 0] = none ∧
    gridLine [.ident "span" "span", .int (-1)] = none ∧ gridLine [.int 2, .int 3] = none ∧
    gridLine [.ident "a" "a", .ident "b" "b"] = none ∧ gridLine [.ident "auto" "auto", .int 2] = none ∧
    gridLine [] = none := by decide

end Wp.C07
