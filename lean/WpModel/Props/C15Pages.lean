/-
C15 — page-based counters: theorems about `Model/PageCounters.lean`
(`TargetCollector.cache_target_page_counters`, the counter section of `make_page`, the entry written by
`remake_page`).  These are the local facts behind the hypothesis `World.Sound` of
`C15.fixpoint_consistent`: whenever a target's page counters change, every box printing them is either
flagged for re-making (`content_changed` on its page, `parse_again` called) or marked `pending`, and a
pending box is flagged as soon as its page is made.
-/
import WpModel.Model.PageCounters

namespace Wp.C15
open Wp.PageCounters

private theorem setAt_length {α} (l : List α) (i : Nat) (f : α → α) : (setAt l i f).length = l.length := by
  induction l generalizing i with
  | nil => simp [setAt]
  | cons x xs ih => cases i <;> simp [setAt, ih]

private theorem setAt_get_same {α} (l : List α) (i : Nat) (f : α → α) : (setAt l i f)[i]? = (l[i]?).map f := by
  induction l generalizing i with
  | nil => simp [setAt]
  | cons x xs ih => cases i <;> simp [setAt, ih]

private theorem setAt_get_other {α} (l : List α) (i j : Nat) (f : α → α) (h : i ≠ j) : (setAt l i f)[j]? = l[j]? := by
  induction l generalizing i j with
  | nil => simp [setAt]
  | cons x xs ih =>
    cases i with
    | zero => cases j with
      | zero => exact absurd rfl h
      | succ j => simp [setAt]
    | succ i => cases j with
      | zero => simp [setAt]
      | succ j => simp [setAt]; exact ih i j (by omega)

/-- "Marked for re-making": the `content_changed` flag of page `i` is set. -/
def flagged (st : PState) (i : Nat) : Prop := (st.pageMaker[i]?).map (·.contentChanged) = some true

def isPending (st : PState) (k : Nat) : Prop := (st.lookups[k]?).map (·.pending) = some true

private theorem step_pm_length (anchor : String) (pcv : Vals) (k : Nat) (l : LookupItem) (st : PState) :
    (spreadStep anchor pcv k l st).pageMaker.length = st.pageMaker.length := by
  unfold spreadStep
  split
  · rfl
  · split
    · rfl
    · split
      · rfl
      · split
        · simp [setAt_length]
        · rfl

private theorem step_lookups_other (anchor : String) (pcv : Vals) (k : Nat) (l : LookupItem) (st : PState)
    (j : Nat) (h : k ≠ j) : (spreadStep anchor pcv k l st).lookups[j]? = st.lookups[j]? := by
  unfold spreadStep
  split
  · rfl
  · split
    · rfl
    · split
      · exact setAt_get_other _ _ _ _ h
      · split <;> rfl

private theorem step_mono (anchor : String) (pcv : Vals) (k : Nat) (l : LookupItem) (st : PState) :
    (∀ i, flagged st i → flagged (spreadStep anchor pcv k l st) i) ∧
    (∀ c, c ∈ st.calls → c ∈ (spreadStep anchor pcv k l st).calls) := by
  unfold spreadStep
  split
  · exact ⟨fun _ h => h, fun _ h => h⟩
  · split
    · exact ⟨fun _ h => h, fun _ h => h⟩
    · split
      · exact ⟨fun _ h => h, fun _ h => h⟩
      · split
        · refine ⟨fun i hi => ?_, fun c hc => by simp [hc]⟩
          unfold flagged at hi ⊢
          simp only
          by_cases e : l.index.getD 0 = i
          · subst e
            rw [setAt_get_same]
            cases hx : st.pageMaker[l.index.getD 0]? with
            | none => rw [hx] at hi; simp at hi
            | some r => simp
          · rw [setAt_get_other _ _ _ _ e]; exact hi
        · exact ⟨fun _ h => h, fun _ h => h⟩

private theorem spread_pm_length (anchor : String) (pcv : Vals) : ∀ (rest : List LookupItem) (k : Nat) (st : PState),
    (spread anchor pcv k rest st).pageMaker.length = st.pageMaker.length := by
  intro rest
  induction rest with
  | nil => intro k st; rfl
  | cons l rest ih => intro k st; simp only [spread]; rw [ih, step_pm_length]

private theorem spread_mono (anchor : String) (pcv : Vals) : ∀ (rest : List LookupItem) (k : Nat) (st : PState),
    (∀ i, flagged st i → flagged (spread anchor pcv k rest st) i) ∧
    (∀ c, c ∈ st.calls → c ∈ (spread anchor pcv k rest st).calls) ∧
    (∀ j, j < k → (spread anchor pcv k rest st).lookups[j]? = st.lookups[j]?) := by
  intro rest
  induction rest with
  | nil => intro k st; exact ⟨fun _ h => h, fun _ h => h, fun _ _ => rfl⟩
  | cons l rest ih =>
    intro k st
    simp only [spread]
    have h := ih (k + 1) (spreadStep anchor pcv k l st)
    have hs := step_mono anchor pcv k l st
    refine ⟨fun i hi => h.1 i (hs.1 i hi), fun c hc => h.2.1 c (hs.2 c hc), fun j hj => ?_⟩
    rw [h.2.2 j (by omega)]
    exact step_lookups_other anchor pcv k l st j (by omega)

/-- What one iteration guarantees for its own item. -/
private theorem step_sound (anchor : String) (pcv : Vals) (k : Nat) (l : LookupItem) (st : PState) (m : List String)
    (hc : l.content = true) (hm : aget l.missingTarget anchor = some m) (hsome : (st.lookups[k]?).isSome) :
    (if isStale l st.pageMaker.length then isPending (spreadStep anchor pcv k l st) k
     else m.any (vhas pcv) = true →
       flagged (spreadStep anchor pcv k l st) (l.index.getD 0) ∧ (k, l.cached) ∈ (spreadStep anchor pcv k l st).calls) := by
  unfold spreadStep
  simp only [hc, Bool.not_true, Bool.false_eq_true, if_false, hm]
  by_cases hst : isStale l st.pageMaker.length = true
  · simp only [hst, if_true]
    unfold isPending
    simp only
    rw [setAt_get_same]
    obtain ⟨x, hx⟩ := Option.isSome_iff_exists.mp hsome
    simp [hx]
  · simp only [hst, Bool.false_eq_true, if_false]
    intro hany
    simp only [hany, if_true]
    constructor
    · unfold flagged
      simp only
      rw [setAt_get_same]
      have hlt : l.index.getD 0 < st.pageMaker.length := by
        unfold isStale at hst
        cases hi : l.index with
        | none => simp [hi] at hst
        | some i => simp [hi] at hst; simpa using hst
      simp [List.getElem?_eq_getElem hlt]
    · simp

/-- **Soundness of "spreading the news"** (`cache_target_page_counters`): when the page counters of
`anchor` change to `pcv`, every `content` box that prints one of them (`l`, at position `k + j`) is
either marked `pending` (it has not been laid out on a page that still exists) or its page is flagged
`content_changed` and its `parse_again` is called with its own cached page counters. -/
theorem spread_sound (anchor : String) (pcv : Vals) : ∀ (rest : List LookupItem) (k : Nat) (st : PState)
    (j : Nat) (l : LookupItem) (m : List String),
    rest[j]? = some l → l.content = true → aget l.missingTarget anchor = some m →
    (st.lookups[k + j]?).isSome →
    (if isStale l st.pageMaker.length then isPending (spread anchor pcv k rest st) (k + j)
     else m.any (vhas pcv) = true →
       flagged (spread anchor pcv k rest st) (l.index.getD 0) ∧ (k + j, l.cached) ∈ (spread anchor pcv k rest st).calls) := by
  intro rest
  induction rest with
  | nil => intro k st j l m h; simp at h
  | cons l0 rest ih =>
    intro k st j l m hj hc hm hsome
    simp only [spread]
    cases j with
    | succ j =>
      simp only [List.getElem?_cons_succ] at hj
      have e : k + (j + 1) = k + 1 + j := by omega
      have hs : ((spreadStep anchor pcv k l0 st).lookups[k + 1 + j]?).isSome := by
        rw [step_lookups_other anchor pcv k l0 st _ (by omega), ← e]; exact hsome
      have := ih (k + 1) (spreadStep anchor pcv k l0 st) j l m hj hc hm hs
      rw [step_pm_length] at this
      rw [e]; exact this
    | zero =>
      simp only [List.getElem?_cons_zero, Option.some.injEq] at hj
      subst hj
      simp only [Nat.add_zero] at hsome ⊢
      have hstep := step_sound anchor pcv k l0 st m hc hm hsome
      have hmono := spread_mono anchor pcv rest (k + 1) (spreadStep anchor pcv k l0 st)
      by_cases hst : isStale l0 st.pageMaker.length = true
      · simp only [hst, if_true] at hstep ⊢
        unfold isPending at hstep ⊢
        rw [hmono.2.2 k (by omega)]; exact hstep
      · simp only [hst, Bool.false_eq_true, if_false] at hstep ⊢
        intro hany
        exact ⟨hmono.1 _ (hstep hany).1, hmono.2.1 _ (hstep hany).2⟩

/-- **`cache_target_page_counters`**: during pagination, for an `up-to-date` target whose cached page
counters differ from the new ones, the target remembers the page and the new values, and the news
reach every box (`spread_sound` for every position of `counter_lookup_items`). -/
theorem cacheTarget_sound (st : PState) (anchor : String) (pcv : Vals) (pageIndex : Nat) (item : TargetItem)
    (hc : st.collecting = false) (ht : tget st.targets anchor = some item) (hu : item.upToDate = true)
    (hne : item.cached ≠ pcv) (k : Nat) (l : LookupItem) (m : List String)
    (hk : st.lookups[k]? = some l) (hcont : l.content = true) (hm : aget l.missingTarget anchor = some m) :
    (if isStale l st.pageMaker.length then isPending (cacheTarget st anchor pcv pageIndex) k
     else m.any (vhas pcv) = true →
       flagged (cacheTarget st anchor pcv pageIndex) (l.index.getD 0) ∧
         (k, l.cached) ∈ (cacheTarget st anchor pcv pageIndex).calls) := by
  unfold cacheTarget
  simp only [hc, Bool.false_eq_true, if_false, ht, hu, Bool.not_true, hne, ne_eq, not_false_eq_true, decide_true,
    if_true]
  have := spread_sound anchor pcv st.lookups 0
    { st with targets := tset st.targets anchor { item with index := some pageIndex, cached := pcv } }
    k l m hk hcont hm (by simp [hk])
  simpa [hc, hu] using this

private theorem tget_tset (ts : List (String × TargetItem)) (a : String) (t t' : TargetItem) (h : tget ts a = some t) :
    tget (tset ts a t') a = some t' := by
  induction ts with
  | nil => simp [tget] at h
  | cons x xs ih =>
    obtain ⟨k, v⟩ := x
    by_cases hk : k = a
    · simp [tget, tset, hk]
    · simp only [tget, hk, if_false] at h
      simp [tget, tset, hk, ih h]

private theorem spread_targets (anchor : String) (pcv : Vals) : ∀ (rest : List LookupItem) (k : Nat) (st : PState),
    (spread anchor pcv k rest st).targets = st.targets := by
  intro rest
  induction rest with
  | nil => intro k st; rfl
  | cons l rest ih =>
    intro k st
    simp only [spread]
    rw [ih]
    unfold spreadStep
    split
    · rfl
    · split
      · rfl
      · split
        · rfl
        · split <;> rfl

private theorem spread_calls_own (anchor : String) (pcv : Vals) (orig : List LookupItem) :
    ∀ (rest : List LookupItem) (k : Nat) (st : PState),
    (∀ j l, rest[j]? = some l → orig[k + j]? = some l) →
    ∀ c ∈ (spread anchor pcv k rest st).calls, c ∈ st.calls ∨ ∃ l, orig[c.1]? = some l ∧ c.2 = l.cached := by
  intro rest
  induction rest with
  | nil => intro k st _ c hc; exact Or.inl hc
  | cons l0 rest ih =>
    intro k st horig c hc
    simp only [spread] at hc
    have hrest : ∀ j l, rest[j]? = some l → orig[k + 1 + j]? = some l := by
      intro j l hj
      have := horig (j + 1) l (by simpa using hj)
      rwa [show k + (j + 1) = k + 1 + j by omega] at this
    rcases ih (k + 1) (spreadStep anchor pcv k l0 st) hrest c hc with h | h
    · -- a call made by the step for `l0`
      unfold spreadStep at h
      split at h
      · exact Or.inl h
      · split at h
        · exact Or.inl h
        · split at h
          · exact Or.inl h
          · split at h
            · simp only [List.mem_append, List.mem_singleton] at h
              rcases h with h | h
              · exact Or.inl h
              · right
                subst h
                exact ⟨l0, by simpa using horig 0 l0 (by simp), rfl⟩
            · exact Or.inl h
    · exact Or.inr h

/-- **C15.cacheTarget_reparses_with_own_counters** — every `parse_again` call made by
`cache_target_page_counters` hands the box the page counters cached **for that box** (those of its own page:
what its `counter(page)` / `counter(pages)` print), never those of the target. -/
theorem cacheTarget_reparses_with_own_counters (st : PState) (anchor : String) (pcv : Vals) (i : Nat) :
    ∀ c ∈ (cacheTarget st anchor pcv i).calls, c ∈ st.calls ∨ ∃ l, st.lookups[c.1]? = some l ∧ c.2 = l.cached := by
  intro c hc
  unfold cacheTarget at hc
  split at hc
  · exact Or.inl hc
  · split at hc
    · exact Or.inl hc
    · split at hc
      · exact Or.inl hc
      · simp only at hc
        split at hc
        · rcases spread_calls_own anchor pcv st.lookups st.lookups 0 _ (fun j l hj => by simpa using hj) c hc
            with h | h
          · exact Or.inl h
          · exact Or.inr h
        · exact Or.inl hc

/-- The target item afterwards: the page it was (first) met on and the page counters of that page. -/
theorem cacheTarget_records (st : PState) (anchor : String) (pcv : Vals) (pageIndex : Nat) (item : TargetItem)
    (hc : st.collecting = false) (ht : tget st.targets anchor = some item) (hu : item.upToDate = true) :
    tget (cacheTarget st anchor pcv pageIndex).targets anchor =
      some { item with index := some pageIndex, cached := pcv } := by
  unfold cacheTarget
  simp only [hc, Bool.false_eq_true, if_false, ht, hu, Bool.not_true]
  by_cases hne : item.cached = pcv
  · simp only [hne, ne_eq, not_true_eq_false, decide_false, Bool.false_eq_true, if_false]
    rw [tget_tset _ _ _ _ ht, ← hne]
  · simp only [hne, ne_eq, not_false_eq_true, decide_true, if_true]
    rw [spread_targets]
    exact tget_tset _ _ _ _ ht

/-- Nothing is cached while boxes are still being built (`collecting`). -/
theorem cacheTarget_collecting (st : PState) (anchor : String) (pcv : Vals) (i : Nat) (h : st.collecting = true) :
    cacheTarget st anchor pcv i = st := by
  simp [cacheTarget, h]

/-- Steps 1–2 on a `pending` item: `parse_again` will be called, the mark is cleared and the page counters
of the box's own page are cached. -/
theorem step12_pending (pcv : Vals) (refresh : Bool) (l : LookupItem) (h : l.pending = true) :
    (step12 pcv refresh l).2.1 = true ∧ (step12 pcv refresh l).1.pending = false ∧
    (step12 pcv refresh l).1.cached = pcv := by
  unfold step12
  simp only [h, if_true]
  by_cases hc : pcv = l.cached
  · subst hc
    split
    · split <;> simp
    · simp
  · split
    · split <;> simp [hc]
    · simp [hc]

/-- `pages_wanted` is raised exactly for items whose own content misses `pages`. -/
theorem step12_pages_wanted (pcv : Vals) (refresh : Bool) (l : LookupItem) :
    (step12 pcv refresh l).2.2 = l.missing.contains "pages" := by
  have hmiss : ∀ l1 : LookupItem, l1.missing = l.missing →
      (if !l1.missing.isEmpty then
        (if refresh && pcv ≠ l1.cached then
          (({ l1 with cached := pcv } : LookupItem), l.pending || l1.missing.any (vhas pcv), l1.missing.contains "pages")
         else (l1, l.pending, l1.missing.contains "pages"))
       else (l1, l.pending, false)).2.2 = l.missing.contains "pages" := by
    intro l1 h1
    rw [h1]
    cases hm : l.missing with
    | nil => simp
    | cons x xs =>
      have e : (!l1.missing.isEmpty) = true := by rw [h1, hm]; rfl
      rw [← hm, ← h1]
      simp only [e, if_true]
      split <;> rfl
  unfold step12
  simp only
  split
  · exact hmiss _ rfl
  · exact hmiss _ rfl

private theorem flagged_setAt_pw (st : PState) (idx i : Nat) (h : flagged st i) :
    flagged { st with pageMaker := setAt st.pageMaker idx fun r => { r with pagesWanted := true } } i := by
  unfold flagged at h ⊢
  simp only
  by_cases e : idx = i
  · subst e
    rw [setAt_get_same]
    cases hx : st.pageMaker[idx]? with
    | none => rw [hx] at h; simp at h
    | some r => rw [hx] at h; simpa using h
  · rw [setAt_get_other _ _ _ _ e]; exact h

private theorem step3_preserves : ∀ (mt : List (String × List String)) (st st' : PState),
    step3Targets mt st = .ok st' →
    st'.lookups = st.lookups ∧ st'.calls = st.calls ∧ st'.pageMaker.length = st.pageMaker.length ∧
    st'.targets = st.targets ∧ (∀ i, flagged st i → flagged st' i) := by
  intro mt
  induction mt with
  | nil => intro st st' h; simp [step3Targets] at h; subst h; exact ⟨rfl, rfl, rfl, rfl, fun _ h => h⟩
  | cons x xs ih =>
    intro st st' h
    obtain ⟨a, missed⟩ := x
    unfold step3Targets at h
    by_cases hp : missed.contains "pages" = true
    · simp only [hp, Bool.not_true, Bool.false_eq_true, if_false] at h
      cases ht : tget st.targets a with
      | none => simp [ht] at h
      | some item =>
        simp only [ht] at h
        cases hi : item.index with
        | none => simp only [hi] at h; exact ih st st' h
        | some idx =>
          simp only [hi] at h
          by_cases hlt : idx < st.pageMaker.length
          · simp only [hlt, if_true] at h
            obtain ⟨h1, h2, h3, h4, h5⟩ := ih _ st' h
            exact ⟨h1, h2, by rw [h3]; simp [setAt_length], h4, fun i hi => h5 i (flagged_setAt_pw st idx i hi)⟩
          · simp only [hlt, if_false] at h
            exact ih st st' h
    · have hp' : missed.contains "pages" = false := by simpa using hp
      simp only [hp', Bool.not_false, if_true] at h
      exact ih st st' h

/-- **A pending box is flagged as soon as its page is made**: when the counter section meets the lookup
item `key` while it is `pending`, the page being made gets `content_changed`, `parse_again` is called
with this page's counters and the mark is cleared. -/
theorem pending_resolved (cur : Nat) (pcv : Vals) (refresh : Bool) (key : Nat)
    (st st' : PState) (l : LookupItem) (hl : st.lookups[key]? = some l) (hp : l.pending = true)
    (hcur : cur < st.pageMaker.length)
    (h : lookupBody cur pcv refresh key st = .ok st') :
    flagged st' cur ∧ (key, pcv) ∈ st'.calls ∧ ¬ isPending st' key := by
  unfold lookupBody at h
  simp only [hl] at h
  have hpend : (placed cur refresh l).pending = true := by
    unfold placed; split <;> simp [hp]
  obtain ⟨hcall, hclear, _⟩ := step12_pending pcv refresh _ hpend
  cases hs3 : step3Targets (step12 pcv refresh (placed cur refresh l)).1.missingTarget
      (prepared cur pcv refresh key l st) with
  | error e => simp [hs3] at h
  | ok st3 =>
    obtain ⟨h1, h2, h3, _, _⟩ := step3_preserves _ _ _ hs3
    simp only [hs3, hcall, if_true, Except.ok.injEq] at h
    subst h
    have hplen : (prepared cur pcv refresh key l st).pageMaker.length = st.pageMaker.length := by
      unfold prepared
      simp only
      split <;> split <;> simp [setAt_length]
    refine ⟨?_, by simp, ?_⟩
    · unfold flagged
      simp only
      rw [setAt_get_same]
      have hlen : cur < st3.pageMaker.length := by rw [h3, hplen]; exact hcur
      simp [List.getElem?_eq_getElem hlen]
    · unfold isPending
      simp only
      rw [h1]
      unfold prepared
      simp only
      rw [setAt_get_same]
      simp [hl, hclear]

/-- **C15.step3_total** (full strength since `fix:` da41776; it was `step3_total_partial` with the hypothesis
"every target whose `pages` counter is printed has already been met and its page still exists", refuted by
the witness `forward_pages_reference_raises` for a target on a later page): step 3 of the counter section
succeeds as soon as the targets it names have their `TargetLookupItem` (which `lookup_target` creates
before it records a missing target counter), wherever they lie. -/
theorem step3_total : ∀ (mt : List (String × List String)) (st : PState),
    (∀ p ∈ mt, p.2.contains "pages" = true → (tget st.targets p.1).isSome = true) →
    ∃ st', step3Targets mt st = .ok st' := by
  intro mt
  induction mt with
  | nil => intro st _; exact ⟨st, rfl⟩
  | cons x xs ih =>
    intro st h
    obtain ⟨a, missed⟩ := x
    have rest : ∀ st2 : PState, st2.targets = st.targets → ∃ st', step3Targets xs st2 = .ok st' := by
      intro st2 ht
      apply ih
      intro p hpm hpp
      rw [ht]; exact h p (List.mem_cons_of_mem _ hpm) hpp
    unfold step3Targets
    by_cases hp : missed.contains "pages" = true
    · obtain ⟨item, h1⟩ := Option.isSome_iff_exists.mp (h (a, missed) List.mem_cons_self hp)
      simp only [hp, Bool.not_true, Bool.false_eq_true, if_false, h1]
      cases hi : item.index with
      | none => exact rest st rfl
      | some idx =>
        simp only
        split
        · exact rest _ rfl
        · exact rest st rfl
    · have hp' : missed.contains "pages" = false := by simpa using hp
      simp only [hp', Bool.not_false, if_true]
      exact rest st rfl

def wanted (st : PState) (i : Nat) : Prop := (st.pageMaker[i]?).map (·.pagesWanted) = some true

private theorem wanted_setAt (st : PState) (idx i : Nat) (h : wanted st i) :
    wanted { st with pageMaker := setAt st.pageMaker idx fun r => { r with pagesWanted := true } } i := by
  unfold wanted at h ⊢
  simp only
  by_cases e : idx = i
  · subst e
    rw [setAt_get_same]
    cases hx : st.pageMaker[idx]? with
    | none => rw [hx] at h; simp at h
    | some r => simp
  · rw [setAt_get_other _ _ _ _ e]; exact h

private theorem step3_wanted_mono : ∀ (mt : List (String × List String)) (st st' : PState),
    step3Targets mt st = .ok st' → ∀ i, wanted st i → wanted st' i := by
  intro mt
  induction mt with
  | nil => intro st st' h i hi; simp [step3Targets] at h; subst h; exact hi
  | cons x xs ih =>
    intro st st' h i hi
    obtain ⟨a, missed⟩ := x
    unfold step3Targets at h
    split at h
    · exact ih st st' h i hi
    · split at h
      · simp at h
      · split at h
        · exact ih st st' h i hi
        · split at h
          · exact ih _ st' h i (wanted_setAt st _ i hi)
          · exact ih st st' h i hi

/-- **The page of a `pages` target is re-made with the final page count** (forward or backward reference,
da41776): after step 3, for every target whose `pages` counter the box prints, whose page is known and still
exists, that page carries `pages_wanted`. -/
theorem step3_marks_target_page : ∀ (mt : List (String × List String)) (st st' : PState),
    step3Targets mt st = .ok st' →
    ∀ p ∈ mt, p.2.contains "pages" = true → ∀ item idx, tget st.targets p.1 = some item → item.index = some idx →
      idx < st.pageMaker.length → wanted st' idx := by
  intro mt
  induction mt with
  | nil => intro st st' _ p hp; simp at hp
  | cons x xs ih =>
    intro st st' h p hpm hpp item idx ht hi hlt
    obtain ⟨a, missed⟩ := x
    rcases List.mem_cons.mp hpm with e | hin
    · subst e
      unfold step3Targets at h
      simp only [hpp, Bool.not_true, Bool.false_eq_true, if_false, ht, hi, hlt, if_true] at h
      apply step3_wanted_mono xs _ st' h idx
      unfold wanted
      simp only
      rw [setAt_get_same]
      simp [List.getElem?_eq_getElem hlt]
    · unfold step3Targets at h
      split at h
      · exact ih st st' h p hin hpp item idx ht hi hlt
      · split at h
        · simp at h
        · split at h
          · exact ih st st' h p hin hpp item idx ht hi hlt
          · split at h
            · exact ih _ st' h p hin hpp item idx (by simpa using ht) hi (by simpa [setAt_length] using hlt)
            · exact ih st st' h p hin hpp item idx ht hi hlt

/-- `remake_page`: a new or changed following entry is always re-made, except the entry after the last
page (`resume_at is None`), which must not be (#794). -/
theorem nextEntry_spec (isNew changed resumeIsNone : Bool) :
    nextEntry isNew changed resumeIsNone =
      if isNew || changed then some ⟨!resumeIsNone, false, [], []⟩ else none := rfl

/-! Non-vacuity -/
section Examples
private def exState : PState :=
  { collecting := false
    targets := [("t", ⟨true, none, []⟩)]
    lookups := [⟨true, [], [("t", ["page"])], some 0, false, []⟩, ⟨true, [], [("t", ["page"])], none, false, []⟩]
    pageMaker := [⟨false, false, [], [0]⟩, ⟨false, false, [], []⟩]
    calls := [] }
-- a forward reference laid out on page 1 is flagged when its target is met on page 2; a box not laid out yet is pending
example : flagged (cacheTarget exState "t" [("page", [2]), ("pages", [0])] 1) 0 ∧
    isPending (cacheTarget exState "t" [("page", [2]), ("pages", [0])] 1) 1 := by
  constructor
  · unfold flagged; decide
  · unfold isPending; decide
example : (step12 [("page", [3])] true ⟨true, ["pages"], [], none, true, []⟩).2 = (true, true) := by decide
-- the forward reference of exState is re-parsed with its own (empty) page counters, not with the target's [2]
example : (cacheTarget exState "t" [("page", [2]), ("pages", [0])] 1).calls = [(0, [])] := by decide
-- a forward `pages` reference (target not met yet) passes step 3; a backward one marks the target's page
example : step3Targets [("t", ["pages"])] exState = .ok exState := by rfl
example : (step3Targets [("t", ["pages"])]
    { exState with targets := [("t", ⟨true, some 1, []⟩)] }).map (·.pageMaker.map (·.pagesWanted)) =
    .ok [false, true] := by rfl
end Examples

end Wp.C15
