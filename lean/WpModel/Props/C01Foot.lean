/-
C01 on the footnote grammar (PM stage 2b): pagination conserves lines *and footnote bodies*.

* `embed_agrees` — the stage-1 model is the footnote-free fragment of the footnote model, by proof: every stage-1
  theorem (C01–C05 on `paginate`) transfers to `paginateFoot (embedDoc a d)`.
* `segment`, `pages_conserve` — lines: exactly as stage 1, for every footnote document (any policy, any page
  names): the footnote machinery never loses, duplicates or reorders a line.
* `footnotes_conserve` — footnote bodies: each exactly once, in call order, over the footnote areas of the pages;
  `footnotes_chain` — a page's footnotes are those postponed by the previous page followed by the calls on its own
  lines (so never before the call, and the first ones stay, the last ones are postponed);
  `footnotes_shown` — and they are all rendered, in that order, in the footnote areas.
  For every `footnote-policy` and any page names: the two hypotheses these theorems needed before the repairs
  67bf2ca (`footnote-policy: block` on the first content of a page) and 8db5909 (footnote area broken between two
  page names) are gone; the former witnesses are regression examples in `Witness/C01Foot.lean`. Only the stage-1
  hypotheses (no fixed heights, orphans/widows ≥ 1) and well-formedness of the calls remain.
-/
import WpModel.Lemmas.FootChain

namespace Wp.C01Foot
open Wp Wp.PM Wp.PMF

/-! ### embedding of stage 1 -/

/-- **Embedding theorem.** A stage-1 document, read as a footnote document (whatever the `@footnote` style), is
paginated identically: same pages, no footnote area, nothing pending or postponed. -/
theorem embed_agrees (a : AreaStyle) (d : Doc) (fuel : Nat) :
    paginateFoot (embedDoc a d) fuel = (paginate d fuel).map (List.map embedPage) :=
  paginateFoot_embed a d fuel

/-- The layout function itself agrees, in any footnote state (which it leaves untouched). -/
theorem embed_layout_agrees (b : PBox) (c : FCtx) (idx : Nat) (y bs : Rat) (skip : Option Resume) (cb pie : Bool)
    (adjL : List Rat) (fs : FState) (ht : c.tbl = []) :
    layoutBoxF c (embed b) idx y bs skip cb pie adjL fs = ⟨layoutBox (ctxOf c fs) b idx y bs skip cb pie adjL, fs⟩ :=
  layoutBoxF_embed b c idx y bs skip cb pie adjL fs ht

/-- Transfer, e.g. of stage-1 `C01.pages_conserve`: the pages of an embedded document conserve its lines. -/
theorem embed_pages_conserve (a : AreaStyle) (d : Doc) (hN : NoFixedHeight d.root) (hW : WellFormed d.root)
    (fuel : Nat) (pages : List FPage) (h : paginateFoot (embedDoc a d) fuel = some pages) :
    (pages.map (fun p => fragLines p.page.root)).flatten = linesFrom d.root none := by
  rw [embed_agrees] at h
  cases hp : paginate d fuel with
  | none => rw [hp] at h; cases h
  | some ps =>
    rw [hp] at h
    simp only [Option.map_some, Option.some.injEq] at h
    subst h
    have := makeAllPages_lines d (good_of _ hN hW) fuel 0 none _ _ ps (fun _ => by simp [requestedSide, isBlank]) hp
    rw [← this]
    clear this hp
    induction ps with
    | nil => rfl
    | cons p ps ih =>
      show fragLines p.root ++ _ = fragLines p.root ++ pagesLines ps
      rw [ih]

/-! ### lines -/

/-- **Segment theorem with footnotes** (`block_level_layout`): the lines of the fragment followed by the lines
designated by the returned resume position are the lines designated by the skip position — in any footnote state,
whatever the footnotes do to `page_bottom`, whatever `footnote-policy`. -/
theorem segment (box : FootBox) (hN : NoFixedHeight box.erase) (hW : WellFormed box.erase) (c : FCtx) (idx : Nat)
    (y bs : Rat) (skip : Option Resume) (cb pie : Bool) (adjL : List Rat) (fs : FState) (f : Frag)
    (h : (layoutBoxF c box idx y bs skip cb pie adjL fs).r.frag = some f) :
    fragLines f ++ restOut box.erase (layoutBoxF c box idx y bs skip cb pie adjL fs).r.resume =
      linesFrom box.erase skip :=
  boxPost_lines _ _ _ _ _ (boxF_spec box (good_of _ hN hW) c idx y bs skip cb pie adjL fs) h

private theorem pagesLinesF_eq (pages : List FPage) :
    pagesLinesF pages = (pages.map (fun p => fragLines p.page.root)).flatten := by
  induction pages with
  | nil => rfl
  | cons p ps ih => simp [pagesLinesF, ih]

/-- **Pages theorem with footnotes** (`make_all_pages`): the lines of the pages, concatenated, are the lines of
the document — including the blank pages made only to hold postponed footnotes, which show no line. -/
theorem pages_conserve (d : FDoc) (hN : NoFixedHeight d.root.erase) (hW : WellFormed d.root.erase) (fuel : Nat)
    (pages : List FPage) (h : paginateFoot d fuel = some pages) :
    (pages.map (fun p => fragLines p.page.root)).flatten = linesFrom d.root.erase none := by
  rw [← pagesLinesF_eq]
  unfold paginateFoot at h
  have := makeAllPagesF_lines d (good_of _ hN hW) fuel 0 none _ _ _ _ pages
    (fun _ _ => by simp [requestedSide, isBlank]) h
  rw [this]
  simp [remaining]

/-! ### footnote bodies -/

/-- What the footnote theorems assume of a document. -/
structure FootWF (d : FDoc) : Prop where
  noFixed : NoFixedHeight d.root.erase
  wellFormed : WellFormed d.root.erase
  callsOk : CallsOk d.root                -- calls on existing lines, written in line order
  uniqueParas : UniqueParaIds d.root
  uniqueFns : (boxFns d.root).Nodup       -- footnotes are distinct boxes (distinct ids)

theorem FootWF.ok {d : FDoc} (h : FootWF d) : FootOk (callTable d.root) d.root :=
  footOk_root d.root h.noFixed h.wellFormed h.callsOk h.uniqueParas

private theorem start_inv (d : FDoc) (h : FootWF d) : PInv d none (boxFns d.root) [] := by
  have hall := tblFns_all (callTable d.root) d.root h.ok h.callsOk
  refine ⟨h.uniqueFns, by simp, by simp, ?_, ?_⟩
  · intro g hg
    simp only [remaining, ne_eq, not_true_eq_false, and_false, ↓reduceIte] at hg
    rw [hall] at hg; exact hg
  · simp only [remaining, ne_eq, not_true_eq_false, and_false, ↓reduceIte]
    rw [hall]; exact h.uniqueFns

private theorem pagesCur_eq (pages : List FPage) : pagesCur pages = (pages.map (fun p => p.cur)).flatten := by
  induction pages with
  | nil => rfl
  | cons p ps ih => simp [pagesCur, ih]

/-- **Footnotes are conserved**: the footnotes placed in the footnote areas of the pages, concatenated in page
order, are exactly the footnotes called in the document, in call order — each once, none lost, none duplicated. -/
theorem footnotes_conserve (d : FDoc) (h : FootWF d) (fuel : Nat) (pages : List FPage)
    (hp : paginateFoot d fuel = some pages) :
    (pages.map (fun p => p.cur)).flatten = boxFns d.root := by
  rw [← pagesCur_eq]
  unfold paginateFoot at hp
  have := makeAllPagesF_foot d h.ok fuel 0 none _ _ _ _ pages (fun _ _ => by simp [requestedSide, isBlank])
    (start_inv d h) hp
  rw [this]
  simp only [remaining, ne_eq, not_true_eq_false, and_false, ↓reduceIte, List.nil_append]
  exact tblFns_all (callTable d.root) d.root h.ok h.callsOk

/-- **On the page of the call or later, in order**: what a page takes — its footnote area `cur`, then what it
postpones `reported` — is what the previous page postponed followed by the calls on its own lines; and the last
page postpones nothing. -/
theorem footnotes_chain (d : FDoc) (h : FootWF d) (fuel : Nat) (pages : List FPage)
    (hp : paginateFoot d fuel = some pages) :
    PagesChain (callTable d.root) [] pages ∧ (∀ p, pages.getLast? = some p → p.reported = []) := by
  unfold paginateFoot at hp
  exact makeAllPagesF_chain d h.ok fuel 0 none _ _ _ _ pages (fun _ _ => by simp [requestedSide, isBlank])
    (start_inv d h) hp

private theorem pagesCur_append (a b : List FPage) : pagesCur (a ++ b) = pagesCur a ++ pagesCur b := by
  induction a with
  | nil => rfl
  | cons p ps ih => simp [pagesCur, ih]

private theorem getLast?_append_ne {α : Type} (a b : List α) (h : b ≠ []) : (a ++ b).getLast? = b.getLast? := by
  rw [List.getLast?_append]
  cases hb : b.getLast? with
  | none => rw [List.getLast?_eq_none_iff] at hb; exact absurd hb h
  | some x => simp

private theorem chain_suffix (tbl : List (Nat × Nat × Fn)) (pre rest : List FPage) (c : List Fn)
    (h : PagesChain tbl c (pre ++ rest)) : ∃ c', PagesChain tbl c' rest := by
  induction pre generalizing c with
  | nil => exact ⟨c, h⟩
  | cons p ps ih => exact ih p.reported h.2

/-- Along a chain of pages whose last one postpones nothing, whatever a page takes (carried over or called on its
lines) is placed in the footnote area of that page or of a later one. -/
private theorem chain_placed (tbl : List (Nat × Nat × Fn)) : ∀ (ps : List FPage) (p : FPage) (c : List Fn),
    PagesChain tbl c (p :: ps) → (∀ q, (p :: ps).getLast? = some q → q.reported = []) →
    ∀ f ∈ c ++ tblFns tbl (fragLines p.page.root), f ∈ pagesCur (p :: ps) := by
  intro ps
  induction ps with
  | nil =>
    intro p c hc hl f hf
    have hr : p.reported = [] := hl p (by simp)
    rw [← hc.1, hr, List.append_nil] at hf
    simpa [pagesCur] using hf
  | cons q qs ih =>
    intro p c hc hl f hf
    rw [← hc.1, List.mem_append] at hf
    simp only [pagesCur, List.mem_append]
    rcases hf with hf | hf
    · exact Or.inl hf
    · right
      have := ih q p.reported hc.2 (by
        intro r hr; apply hl r; rw [List.getLast?_cons_cons]; exact hr) f (by simp [hf])
      simpa [pagesCur] using this

/-- **On the page of its call or on a later one, never before** (C01, footnote bodies): a footnote called on a
line of page `p` is placed in the footnote area of `p` or of a page after it, and in no footnote area of the pages
before `p`. -/
theorem footnote_on_call_page_or_later (d : FDoc) (h : FootWF d) (fuel : Nat) (pages : List FPage)
    (hp : paginateFoot d fuel = some pages) (pre : List FPage) (p : FPage) (post : List FPage)
    (hsplit : pages = pre ++ p :: post) :
    ∀ f ∈ tblFns (callTable d.root) (fragLines p.page.root), f ∈ pagesCur (p :: post) ∧ f ∉ pagesCur pre := by
  obtain ⟨hchain, hlast⟩ := footnotes_chain d h fuel pages hp
  have hc := footnotes_conserve d h fuel pages hp
  rw [← pagesCur_eq] at hc
  subst hsplit
  obtain ⟨c', hc'⟩ := chain_suffix _ pre (p :: post) [] hchain
  have hlast' : ∀ q, (p :: post).getLast? = some q → q.reported = [] := by
    intro q hq
    apply hlast q
    rw [getLast?_append_ne _ _ (by simp)]
    exact hq
  intro f hf
  have hin := chain_placed _ post p c' hc' hlast' f (by simp [hf])
  refine ⟨hin, ?_⟩
  have hnd : (pagesCur (pre ++ p :: post)).Nodup := by rw [hc]; exact h.uniqueFns
  rw [pagesCur_append, List.nodup_append] at hnd
  intro hpre
  exact hnd.2.2 f hpre f hin rfl

/-- **Rendered**: the footnote areas of the pages show, in page order, exactly the footnotes of the document in
call order — whatever the page names of the calling boxes (full strength since repair 8db5909; before it the
hypothesis "one page name among the footnotes" was necessary). -/
theorem footnotes_shown (d : FDoc) (h : FootWF d) (fuel : Nat) (pages : List FPage)
    (hp : paginateFoot d fuel = some pages) :
    (pages.map shownFids).flatten = (boxFns d.root).map (fun f => f.fid) := by
  have hc := footnotes_conserve d h fuel pages hp
  have harea : ∀ p ∈ pages, p.area = areaOut (d.areaFor p.page.type.name) d.pageH p.cur := by
    unfold paginateFoot at hp
    exact makeAllPagesF_area d fuel 0 none _ _ _ _ pages hp
  rw [← hc, List.map_flatten, List.map_map]
  congr 1
  apply List.map_congr_left
  intro p hp'
  simp only [Function.comp, shownFids, harea p hp']
  exact areaOut_fids (d.areaFor p.page.type.name) d.pageH p.cur

/-- Every footnote body is rendered exactly once: the rendered ids, over all pages, have no repetition when the
footnotes of the document have distinct ids. -/
theorem footnotes_shown_nodup (d : FDoc) (h : FootWF d) (hid : ((boxFns d.root).map (fun f => f.fid)).Nodup)
    (fuel : Nat) (pages : List FPage) (hp : paginateFoot d fuel = some pages) :
    ((pages.map shownFids).flatten).Nodup := by
  rw [footnotes_shown d h fuel pages hp]; exact hid

/-- **C01 on footnote documents, in one statement**: whatever the page height, the `@footnote` styles (unnamed and
per named page type), the footnote policies and page names — (1) the lines of the pages, concatenated, are the lines
of the document, each once and in order; (2) the footnote bodies rendered in the footnote areas, concatenated in
page order, are the footnotes of the document, each once and in call order; (3) each body is rendered on the page
of its call or on a later page, never on an earlier one. -/
theorem conservation (d : FDoc) (h : FootWF d) (fuel : Nat) (pages : List FPage)
    (hp : paginateFoot d fuel = some pages) :
    (pages.map (fun p => fragLines p.page.root)).flatten = linesFrom d.root.erase none ∧
    (pages.map shownFids).flatten = (boxFns d.root).map (fun f => f.fid) ∧
    (∀ pre p post, pages = pre ++ p :: post → ∀ f ∈ tblFns (callTable d.root) (fragLines p.page.root),
      f ∈ pagesCur (p :: post) ∧ f ∉ pagesCur pre) :=
  ⟨pages_conserve d h.noFixed h.wellFormed fuel pages hp, footnotes_shown d h fuel pages hp,
   fun pre p post hs => footnote_on_call_page_or_later d h fuel pages hp pre p post hs⟩

/-! ### non-vacuity -/

def exSt : PStyle :=
  { mt := 0, mb := 0, pt := 0, pb := 0, bt := 0, bb := 0, height := none, minH := 0, maxH := none,
    brkBefore := .auto, brkAfter := .auto, brkInside := .auto, clone := false, page := "", orphans := 1,
    widows := 1, isRoot := false }
def exArea : AreaStyle := { mt := 0, mb := 0, pt := 0, pb := 0, bt := 0, bb := 0, maxH := none }
def exDocOf (pageH : Rat) (kids : List FootBox) : FDoc :=
  { pageH := pageH, rootLtr := true, area := exArea,
    root := .block 100 { exSt with isRoot := true } [.block 101 exSt kids] }

/-- 5 lines of 10 on 40px pages; footnote 1 (10px) on line 1 stays, footnote 2 (20px) on line 2 is postponed to
page 2, footnote 3 (`footnote-policy: line`, 30px) takes its line with it to page 3. -/
def exDoc : FDoc := exDocOf 40
  [.para 1 5 10 exSt [⟨1, 1, 1, 10, .auto⟩, ⟨2, 2, 2, 10, .auto⟩, ⟨4, 3, 3, 10, .line⟩]]

/-- 3 lines on a 30px page, two 20px footnotes on the last line: both postponed, and a blank page is made only to
hold them (C03: "blank page required by a postponed footnote"). -/
def exDoc2 : FDoc := exDocOf 30 [.para 1 3 10 exSt [⟨2, 1, 2, 10, .auto⟩, ⟨2, 2, 2, 10, .auto⟩]]

/-- What the examples show of a page: blank?, its lines, the footnotes in its area, those it postpones, the
footnote ids rendered in the area. -/
structure PageSum where
  blank : Bool
  lines : List (Nat × Nat)
  cur : List Nat
  reported : List Nat
  shown : List Nat
  deriving DecidableEq, Repr

def pageSummary (p : FPage) : PageSum :=
  ⟨p.page.type.blank, fragLines p.page.root, p.cur.map (·.fid), p.reported.map (·.fid), shownFids p⟩

example : FootWF exDoc := by
  refine ⟨?_, ?_, ?_, ?_, ?_⟩
  · simp [exDoc, exDocOf, FootBox.erase, eraseList, NoFixedHeight, NoFixedHeightList, exSt]
  · simp [exDoc, exDocOf, FootBox.erase, eraseList, WellFormed, WellFormedList, exSt]
  · simp [exDoc, exDocOf, CallsOk, CallsOkList]
  · simp [exDoc, exDocOf, UniqueParaIds, paraIds, paraIdsList]
  · decide +kernel

example : (paginateFoot exDoc 20).map (List.map pageSummary) =
    some [⟨false, [(1, 0), (1, 1), (1, 2)], [1], [2], [1]⟩, ⟨false, [(1, 3)], [2], [], [2]⟩,
          ⟨false, [(1, 4)], [3], [], [3]⟩] := by decide +kernel

/-- `footnote_on_call_page_or_later` on `exDoc`: footnote 2 is called on page 1 (line 2) and rendered on page 2. -/
example : (paginateFoot exDoc 20).map (List.map (fun p =>
      ((tblFns (callTable exDoc.root) (fragLines p.page.root)).map (·.fid), p.cur.map (·.fid)))) =
    some [([1, 2], [1]), ([], [2]), ([3], [3])] := by decide +kernel

example : (paginateFoot exDoc2 20).map (List.map pageSummary) =
    some [⟨false, [(1, 0), (1, 1), (1, 2)], [], [1, 2], []⟩, ⟨true, [], [1, 2], [], [1, 2]⟩] := by decide +kernel

/-- Named page types with their own `@footnote` rule: two footnotes are postponed from an unnamed page to the
pages named `pb`, whose footnote area has `max-height: 15px` (the unnamed rule: `margin-top: 2px`, no max-height). -/
def exNamed (named : List (String × AreaStyle)) : FDoc :=
  { exDocOf 40 [.para 1 3 10 exSt [⟨2, 1, 2, 10, .auto⟩, ⟨2, 2, 1, 10, .auto⟩],
                .para 3 3 10 { exSt with page := "pb" } [⟨0, 3, 1, 10, .auto⟩, ⟨2, 4, 1, 10, .auto⟩]] with
    area := { exArea with mt := 2 }, named := named }

/-- Per page: its name, lines, footnotes placed / postponed, (top, height) of the footnote area. Without the named
rule page 2 takes footnotes 1 and 2 (area of 30px under a 2px margin) and one line; with it the area is capped at
15px, footnote 2 is postponed again and two lines fit; the last page (blank, unnamed) uses the unnamed rule again. -/
example : (paginateFoot (exNamed []) 20).map (List.map (fun p =>
      (p.page.type.name, (fragLines p.page.root).length, p.cur.map (·.fid), p.reported.map (·.fid)))) =
    some [("", 3, [], [1, 2]), ("pb", 1, [1, 2], [3]), ("pb", 2, [3], [4]), ("", 0, [4], [])] ∧
    (paginateFoot (exNamed []) 20).map (List.map (fun p => p.area.map (fun a => (a.y, a.h)))) =
    some [none, some (8, 30), some (28, 10), some (28, 10)] ∧
    (paginateFoot (exNamed [("pb", { exArea with maxH := some 15 })]) 20).map (List.map (fun p =>
      (p.page.type.name, (fragLines p.page.root).length, p.cur.map (·.fid), p.reported.map (·.fid)))) =
    some [("", 3, [], [1, 2]), ("pb", 2, [1], [2, 3]), ("pb", 1, [2], [3, 4]), ("", 0, [3, 4], [])] ∧
    (paginateFoot (exNamed [("pb", { exArea with maxH := some 15 })]) 20).map (List.map (fun p =>
      p.area.map (fun a => (a.y, a.h)))) =
    some [none, some (25, 15), some (30, 10), some (18, 20)] := by
  refine ⟨?_, ?_, ?_, ?_⟩ <;> decide +kernel

/-- `embed_agrees` on a concrete stage-1 document with several pages. -/
example : (paginate { pageH := 25, rootLtr := true, root := (exDocOf 25 [.para 1 5 10 exSt []]).root.erase } 20).map
    List.length = some 3 := by decide +kernel

end Wp.C01Foot
