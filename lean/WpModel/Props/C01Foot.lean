/-
C01 on the footnote grammar (PM stage 2b): pagination conserves lines *and footnote bodies*.

* `embed_agrees` — the stage-1 model is the footnote-free fragment of the footnote model, by proof: every stage-1
  theorem (C01–C05 on `paginate`) transfers to `paginateFoot (embedDoc a d)`.
* `segment`, `pages_conserve` — lines: exactly as stage 1, for every footnote document (any policy, any page
  names): the footnote machinery never loses, duplicates or reorders a line.
* `footnotes_conserve` — footnote bodies: each exactly once, in call order, over the footnote areas of the pages;
  `footnotes_chain` — a page's footnotes are those postponed by the previous page followed by the calls on its own
  lines (so never before the call, and the first ones stay, the last ones are postponed);
  `footnotes_shown` — and they are all rendered when the footnotes share one page name.
  Hypotheses, all necessary (witnesses in `Witness/C01Foot.lean`): no `footnote-policy: block`
  (`W: policy_block_crashes`), one page name among footnotes (`W: named_page_loses_footnote`), and the stage-1 ones.
-/
import WpModel.Lemmas.FootChain

namespace Wp.C01Foot
open Wp Wp.PM Wp.PMF

/-! ### embedding of stage 1 -/

/-- **Embedding theorem.** A stage-1 document, read as a footnote document (whatever the `@footnote` style), is
paginated identically: same pages, no footnote area, nothing pending or postponed. -/
theorem embed_agrees (a : AreaStyle) (d : Doc) (fuel : Nat) :
    paginateFoot (embedDoc a d) fuel = (paginate d fuel).map (List.map embedPage) :=
  paginateFoot_embed a d fuel

/-- The layout function itself agrees, in any footnote state (which it leaves untouched). -/
theorem embed_layout_agrees (b : PBox) (c : FCtx) (idx : Nat) (y bs : Rat) (skip : Option Resume) (cb pie : Bool)
    (adjL : List Rat) (fs : FState) (ht : c.tbl = []) :
    layoutBoxF c (embed b) idx y bs skip cb pie adjL fs = ⟨layoutBox (ctxOf c fs) b idx y bs skip cb pie adjL, fs⟩ :=
  layoutBoxF_embed b c idx y bs skip cb pie adjL fs ht

/-- Transfer, e.g. of stage-1 `C01.pages_conserve`: the pages of an embedded document conserve its lines. -/
theorem embed_pages_conserve (a : AreaStyle) (d : Doc) (hN : NoFixedHeight d.root) (hW : WellFormed d.root)
    (fuel : Nat) (pages : List FPage) (h : paginateFoot (embedDoc a d) fuel = some pages) :
    (pages.map (fun p => fragLines p.page.root)).flatten = linesFrom d.root none := by
  rw [embed_agrees] at h
  cases hp : paginate d fuel with
  | none => rw [hp] at h; cases h
  | some ps =>
    rw [hp] at h
    simp only [Option.map_some, Option.some.injEq] at h
    subst h
    have := makeAllPages_lines d (good_of _ hN hW) fuel 0 none _ _ ps (fun _ => by simp [requestedSide, isBlank]) hp
    rw [← this]
    clear this hp
    induction ps with
    | nil => rfl
    | cons p ps ih =>
      show fragLines p.root ++ _ = fragLines p.root ++ pagesLines ps
      rw [ih]

/-! ### lines -/

/-- **Segment theorem with footnotes** (`block_level_layout`): the lines of the fragment followed by the lines
designated by the returned resume position are the lines designated by the skip position — in any footnote state,
whatever the footnotes do to `page_bottom`, whatever `footnote-policy`. -/
theorem segment (box : FootBox) (hN : NoFixedHeight box.erase) (hW : WellFormed box.erase) (c : FCtx) (idx : Nat)
    (y bs : Rat) (skip : Option Resume) (cb pie : Bool) (adjL : List Rat) (fs : FState) (f : Frag)
    (h : (layoutBoxF c box idx y bs skip cb pie adjL fs).r.frag = some f) :
    fragLines f ++ restOut box.erase (layoutBoxF c box idx y bs skip cb pie adjL fs).r.resume =
      linesFrom box.erase skip :=
  boxPost_lines _ _ _ _ _ (boxF_spec box (good_of _ hN hW) c idx y bs skip cb pie adjL fs) h

private theorem pagesLinesF_eq (pages : List FPage) :
    pagesLinesF pages = (pages.map (fun p => fragLines p.page.root)).flatten := by
  induction pages with
  | nil => rfl
  | cons p ps ih => simp [pagesLinesF, ih]

/-- **Pages theorem with footnotes** (`make_all_pages`): the lines of the pages, concatenated, are the lines of
the document — including the blank pages made only to hold postponed footnotes, which show no line. -/
theorem pages_conserve (d : FDoc) (hN : NoFixedHeight d.root.erase) (hW : WellFormed d.root.erase) (fuel : Nat)
    (pages : List FPage) (h : paginateFoot d fuel = some pages) :
    (pages.map (fun p => fragLines p.page.root)).flatten = linesFrom d.root.erase none := by
  rw [← pagesLinesF_eq]
  unfold paginateFoot at h
  have := makeAllPagesF_lines d (good_of _ hN hW) fuel 0 none _ _ _ _ pages
    (fun _ _ => by simp [requestedSide, isBlank]) h
  rw [this]
  simp [remaining]

/-! ### footnote bodies -/

/-- What the footnote theorems assume of a document. -/
structure FootWF (d : FDoc) : Prop where
  noFixed : NoFixedHeight d.root.erase
  wellFormed : WellFormed d.root.erase
  noBlock : NoBlockPolicy d.root          -- no `footnote-policy: block`
  callsOk : CallsOk d.root                -- calls on existing lines, written in line order
  uniqueParas : UniqueParaIds d.root
  uniqueFns : (boxFns d.root).Nodup       -- footnotes are distinct boxes (distinct ids)

theorem FootWF.ok {d : FDoc} (h : FootWF d) : FootOk (callTable d.root) d.root :=
  footOk_root d.root h.noFixed h.wellFormed h.noBlock h.callsOk h.uniqueParas

private theorem start_inv (d : FDoc) (h : FootWF d) : PInv d none (boxFns d.root) [] := by
  have hall := tblFns_all (callTable d.root) d.root h.ok h.callsOk
  refine ⟨h.uniqueFns, by simp, by simp, ?_, ?_⟩
  · intro g hg
    simp only [remaining, ne_eq, not_true_eq_false, and_false, ↓reduceIte] at hg
    rw [hall] at hg; exact hg
  · simp only [remaining, ne_eq, not_true_eq_false, and_false, ↓reduceIte]
    rw [hall]; exact h.uniqueFns

private theorem pagesCur_eq (pages : List FPage) : pagesCur pages = (pages.map (fun p => p.cur)).flatten := by
  induction pages with
  | nil => rfl
  | cons p ps ih => simp [pagesCur, ih]

/-- **Footnotes are conserved**: the footnotes placed in the footnote areas of the pages, concatenated in page
order, are exactly the footnotes called in the document, in call order — each once, none lost, none duplicated. -/
theorem footnotes_conserve (d : FDoc) (h : FootWF d) (fuel : Nat) (pages : List FPage)
    (hp : paginateFoot d fuel = some pages) :
    (pages.map (fun p => p.cur)).flatten = boxFns d.root := by
  rw [← pagesCur_eq]
  unfold paginateFoot at hp
  have := makeAllPagesF_foot d h.ok fuel 0 none _ _ _ _ pages (fun _ _ => by simp [requestedSide, isBlank])
    (start_inv d h) hp
  rw [this]
  simp only [remaining, ne_eq, not_true_eq_false, and_false, ↓reduceIte, List.nil_append]
  exact tblFns_all (callTable d.root) d.root h.ok h.callsOk

/-- **On the page of the call or later, in order**: what a page takes — its footnote area `cur`, then what it
postpones `reported` — is what the previous page postponed followed by the calls on its own lines; and the last
page postpones nothing. -/
theorem footnotes_chain (d : FDoc) (h : FootWF d) (fuel : Nat) (pages : List FPage)
    (hp : paginateFoot d fuel = some pages) :
    PagesChain (callTable d.root) [] pages ∧ (∀ p, pages.getLast? = some p → p.reported = []) := by
  unfold paginateFoot at hp
  exact makeAllPagesF_chain d h.ok fuel 0 none _ _ _ _ pages (fun _ _ => by simp [requestedSide, isBlank])
    (start_inv d h) hp

/-- All footnotes of the document are called from boxes with the same used `page` name. -/
def OnePageName (d : FDoc) : Prop := ∀ f ∈ boxFns d.root, ∀ g ∈ boxFns d.root, f.page = g.page

/-- **Rendered**: with one page name among the footnotes, the footnote areas of the pages show, in page order,
exactly the footnotes of the document in call order. -/
theorem footnotes_shown (d : FDoc) (h : FootWF d) (h1 : OnePageName d) (fuel : Nat) (pages : List FPage)
    (hp : paginateFoot d fuel = some pages) :
    (pages.map shownFids).flatten = (boxFns d.root).map (fun f => f.fid) := by
  have hc := footnotes_conserve d h fuel pages hp
  have harea : ∀ p ∈ pages, p.area = areaOut d.area d.pageH p.cur := by
    unfold paginateFoot at hp
    exact makeAllPagesF_area d fuel 0 none _ _ _ _ pages hp
  have hsub : ∀ p ∈ pages, ∀ f ∈ p.cur, f ∈ boxFns d.root := by
    intro p hp' f hf
    rw [← hc]
    simp only [List.mem_flatten, List.mem_map]
    exact ⟨p.cur, ⟨p, hp', rfl⟩, hf⟩
  rw [← hc, List.map_flatten, List.map_map]
  congr 1
  apply List.map_congr_left
  intro p hp'
  simp only [Function.comp, shownFids, harea p hp']
  exact areaOut_fids d.area d.pageH p.cur
    (fun f hf g hg => h1 f (hsub p hp' f hf) g (hsub p hp' g hg))

/-! ### non-vacuity -/

def exSt : PStyle :=
  { mt := 0, mb := 0, pt := 0, pb := 0, bt := 0, bb := 0, height := none, minH := 0, maxH := none,
    brkBefore := .auto, brkAfter := .auto, brkInside := .auto, clone := false, page := "", orphans := 1,
    widows := 1, isRoot := false }
def exArea : AreaStyle := { mt := 0, mb := 0, pt := 0, pb := 0, bt := 0, bb := 0, maxH := none }
def exDocOf (pageH : Rat) (kids : List FootBox) : FDoc :=
  { pageH := pageH, rootLtr := true, area := exArea,
    root := .block 100 { exSt with isRoot := true } [.block 101 exSt kids] }

/-- 5 lines of 10 on 40px pages; footnote 1 (10px) on line 1 stays, footnote 2 (20px) on line 2 is postponed to
page 2, footnote 3 (`footnote-policy: line`, 30px) takes its line with it to page 3. -/
def exDoc : FDoc := exDocOf 40
  [.para 1 5 10 exSt [⟨1, 1, 1, 10, .auto⟩, ⟨2, 2, 2, 10, .auto⟩, ⟨4, 3, 3, 10, .line⟩]]

/-- 3 lines on a 30px page, two 20px footnotes on the last line: both postponed, and a blank page is made only to
hold them (C03: "blank page required by a postponed footnote"). -/
def exDoc2 : FDoc := exDocOf 30 [.para 1 3 10 exSt [⟨2, 1, 2, 10, .auto⟩, ⟨2, 2, 2, 10, .auto⟩]]

/-- What the examples show of a page: blank?, its lines, the footnotes in its area, those it postpones, the
footnote ids rendered in the area. -/
structure PageSum where
  blank : Bool
  lines : List (Nat × Nat)
  cur : List Nat
  reported : List Nat
  shown : List Nat
  deriving DecidableEq, Repr

def pageSummary (p : FPage) : PageSum :=
  ⟨p.page.type.blank, fragLines p.page.root, p.cur.map (·.fid), p.reported.map (·.fid), shownFids p⟩

example : FootWF exDoc ∧ OnePageName exDoc := by
  refine ⟨⟨?_, ?_, ?_, ?_, ?_, ?_⟩, ?_⟩
  · simp [exDoc, exDocOf, FootBox.erase, eraseList, NoFixedHeight, NoFixedHeightList, exSt]
  · simp [exDoc, exDocOf, FootBox.erase, eraseList, WellFormed, WellFormedList, exSt]
  · simp [exDoc, exDocOf, NoBlockPolicy, NoBlockPolicyList]
  · simp [exDoc, exDocOf, CallsOk, CallsOkList]
  · simp [exDoc, exDocOf, UniqueParaIds, paraIds, paraIdsList]
  · decide +kernel
  · unfold OnePageName; decide +kernel

example : (paginateFoot exDoc 20).map (List.map pageSummary) =
    some [⟨false, [(1, 0), (1, 1), (1, 2)], [1], [2], [1]⟩, ⟨false, [(1, 3)], [2], [], [2]⟩,
          ⟨false, [(1, 4)], [3], [], [3]⟩] := by decide +kernel

example : (paginateFoot exDoc2 20).map (List.map pageSummary) =
    some [⟨false, [(1, 0), (1, 1), (1, 2)], [], [1, 2], []⟩, ⟨true, [], [1, 2], [], [1, 2]⟩] := by decide +kernel

/-- `embed_agrees` on a concrete stage-1 document with several pages. -/
example : (paginate { pageH := 25, rootLtr := true, root := (exDocOf 25 [.para 1 5 10 exSt []]).root.erase } 20).map
    List.length = some 3 := by decide +kernel

end Wp.C01Foot
