/-
C10 — "cells of a row share its top and (when not row-spanning) its height": theorems about the row
height algorithm `Model/TableRowHeights.lean` (↔ the "table height algorithm" part of `group_layout`).
-/
import Mathlib.Tactic.Linarith
import Mathlib.Tactic.Ring
import WpModel.Model.TableRowHeights

namespace Wp.C10.Heights
open Wp Wp.RowHeights

/-- **stretch_reaches_bottom.** Whatever `vertical-align` says (top padding, bottom padding, or half
and half), the extra padding makes the cell's border box end exactly at the row bottom. -/
theorem stretch_reaches_bottom (rowBottom : Rat) (p : Placed) :
    (stretch rowBottom p).y + (stretch rowBottom p).borderHeight = rowBottom := by
  unfold stretch
  simp only
  split
  · rename_i h0
    linarith
  · cases hv : p.cell.valign <;> simp only [Placed.borderHeight] <;> ring

/-- `stretch` does not move the cell nor change its content. -/
theorem stretch_keeps (rowBottom : Rat) (p : Placed) :
    (stretch rowBottom p).y = p.y ∧ (stretch rowBottom p).cell = p.cell := by
  unfold stretch
  simp only
  split
  · exact ⟨rfl, rfl⟩
  · cases p.cell.valign <;> exact ⟨rfl, rfl⟩

/-- **row_height.** After a row is processed, every cell ending in it (the row's own non-spanning
cells and the row-spanning cells of earlier rows that end here) has its border box ending at the row
bottom; when a cell ends in the row, the row bottom is `row.y + row.height` — always for a specified
row height, and for an auto height as soon as the bottom is not above the row's top.  Hence a
non-row-spanning cell (which starts at the row's top) is exactly as high as its row. -/
theorem row_height (y : Rat) (row : HRow) (pending : List (Nat × Placed)) (out : RowOut)
    (later : List (Nat × Placed)) (h : rowStep y row pending = .ok (out, later)) :
    out.y = y ∧
    (∀ p ∈ out.ending, p.y + p.borderHeight = out.fallback) ∧
    (out.ending ≠ [] → (row.height ≠ none ∨ y ≤ out.fallback) → out.fallback = y + out.height) ∧
    (∀ p ∈ out.ending, p.y = y → out.ending ≠ [] → (row.height ≠ none ∨ y ≤ out.fallback) →
       p.borderHeight = out.height) := by
  have core : out.y = y ∧ (∀ p ∈ out.ending, p.y + p.borderHeight = out.fallback) ∧
      (out.ending ≠ [] → (row.height ≠ none ∨ y ≤ out.fallback) → out.fallback = y + out.height) := by
    unfold rowStep at h
    simp only at h
    split at h
    · cases h
    · split at h
      · rename_i bottom tallest _ _
        injection h with h
        injection h with h1 h2
        subst h1
        refine ⟨rfl, ?_, ?_⟩
        · intro p hp
          simp only [List.mem_map] at hp
          obtain ⟨q, _, rfl⟩ := hp
          cases hh : row.height <;> simp only [hh] <;> exact stretch_reaches_bottom _ q
        · intro _ hcond
          cases hh : row.height with
          | none =>
            simp only [hh]
            rcases hcond with hc | hc
            · exact absurd hh hc
            · simp only [hh] at hc
              split
              · ring
              · rename_i hle
                have : bottom - y ≤ 0 := not_lt.mp hle
                linarith
          | some hv => simp only [hh]
      · injection h with h
        injection h with h1 h2
        subst h1
        refine ⟨rfl, ?_, ?_⟩
        · intro p hp; cases hp
        · intro hne; exact absurd rfl hne
  obtain ⟨c1, c2, c3⟩ := core
  refine ⟨c1, c2, c3, ?_⟩
  intro p hp hpy hne hcond
  have e1 := c2 p hp
  have e2 := c3 hne hcond
  rw [hpy] at e1
  linarith

example : (rowsFrom 2 0 [⟨none, [⟨1, 1, 2, 10, 2, 1, .middle, 0⟩, ⟨1, 1, 2, 20, 2, 1, .bottom, 0⟩]⟩] []).toOption.map
    (fun outs => outs.map (fun o => (o.height, o.ending.map (fun p => (p.padTop, p.padBottom))))) =
    some [(26, [(7, 7), (2, 2)])] := by decide +kernel

end Wp.C10.Heights
