/-
C02 — totality of the `ending_cells_by_row` bookkeeping of `group_layout` (Model/RowEnding.lean) and its
composition with the slot assignment of `wrap_table` (Model/TableGrid.lean, Lemmas/Grid.lean): whatever rowspans
the author writes, the spans `wrap_table` leaves on the cells never make `group_layout` index past its lists - on the
first page of a group and on every continuation page.
-/
import WpModel.Model.RowEnding
import WpModel.Lemmas.Grid

namespace Wp.C02RowEnding
open Wp Wp.RowEnding

private theorem appendAt_ok : ∀ (ending : List (List Cell)) (i : Nat) (a : Cell), i < ending.length →
    ∃ e, appendAt ending i a = .ok e ∧ e.length = ending.length
  | [], _, _, h => by simp at h
  | l :: ls, 0, a, _ => ⟨_, rfl, by simp⟩
  | l :: ls, k + 1, a, h => by
    obtain ⟨e, he, hl⟩ := appendAt_ok ls k a (by simpa using h)
    exact ⟨l :: e, by simp [appendAt, he], by simp [hl]⟩

private theorem appendCells_ok : ∀ (spans : List Nat) (ending : List (List Cell)) (r c : Nat),
    (∀ s ∈ spans, 1 ≤ s ∧ s ≤ ending.length) →
    ∃ e, appendCells ending r c spans = .ok e ∧ e.length = ending.length
  | [], ending, _, _, _ => ⟨ending, rfl, rfl⟩
  | s :: rest, ending, r, c, h => by
    have hs := h s (by simp)
    have hidx : pyIdx ending.length s = .ok (s - 1) := by
      unfold pyIdx
      have h0 : s ≠ 0 := by omega
      have h1 : s - 1 < ending.length := by omega
      simp [h0, h1]
    obtain ⟨e, he, hl⟩ := appendAt_ok ending (s - 1) (r, c) (by omega)
    obtain ⟨e2, he2, hl2⟩ := appendCells_ok rest e r (c + 1) (by
      intro t ht; rw [hl]; exact h t (by simp [ht]))
    refine ⟨e2, ?_, by rw [hl2, hl]⟩
    simp only [appendCells, hidx, he]
    exact he2

/-- The loop over rows never raises when every span ends inside the lists that are left, and it yields the ending
cells of every row. -/
theorem endRows_total : ∀ (rows : List (List Nat)) (ending : List (List Cell)) (r : Nat),
    rows.length ≤ ending.length →
    (∀ (i : Nat) (h : i < rows.length), ∀ s ∈ rows[i], 1 ≤ s ∧ i + s ≤ ending.length) →
    ∃ out, endRows ending r rows = .ok out ∧ out.length = rows.length
  | [], _, _, _, _ => ⟨[], rfl, rfl⟩
  | spans :: rest, ending, r, hlen, h => by
    have h0 : ∀ s ∈ spans, 1 ≤ s ∧ s ≤ ending.length := by
      intro s hs
      have := h 0 (by simp) s (by simpa using hs)
      omega
    obtain ⟨e, he, hl⟩ := appendCells_ok spans ending r 0 h0
    simp only [List.length_cons] at hlen
    cases e with
    | nil => simp at hl; omega
    | cons cells later =>
      simp only [List.length_cons] at hl
      obtain ⟨out, hout, hol⟩ := endRows_total rest later (r + 1) (by omega) (by
        intro i hi s hs
        have := h (i + 1) (by simp; omega) s (by simpa using hs)
        omega)
      exact ⟨cells :: out, by simp [endRows, he, hout], by simp [hol]⟩

/-- **Totality of `group_layout`'s bookkeeping** for a group whose cells all end inside the group, resumed at any row. -/
theorem groupEnding_total (spans : List (List Nat)) (skip : Nat)
    (h : ∀ (r : Nat) (hr : r < spans.length), ∀ s ∈ spans[r], 1 ≤ s ∧ r + s ≤ spans.length) :
    ∃ out, groupEnding spans skip = .ok out ∧ out.length = spans.length - skip := by
  unfold groupEnding
  obtain ⟨out, ho, hl⟩ := endRows_total (spans.drop skip) (spans.map (fun _ => [])) skip (by simp) (by
    intro i hi s hs
    simp only [List.length_drop] at hi
    simp only [List.getElem_drop] at hs
    have := h (skip + i) (by omega) s hs
    simp only [List.length_map]
    omega)
  exact ⟨out, ho, by simpa using hl⟩

open Wp.TableGrid in
private theorem placeRows_length : ∀ (rows : List (List CellIn)) (occByRow : List (List Nat)) (w : Nat)
    (outs : List (List CellOut)) (w' : Nat), placeRows rows occByRow w = .ok (outs, w') → outs.length = rows.length
  | [], _, _, outs, _, h => by
    simp only [placeRows, Except.ok.injEq, Prod.mk.injEq] at h
    rw [← h.1]; rfl
  | row :: rows, occByRow, w, outs, w', h => by
    obtain ⟨occ, later, rest, _, rfl, hrest⟩ := placeRows_cons_ok h
    simp [placeRows_length rows _ _ rest w' hrest]

open Wp.TableGrid in
private theorem mem_tagRows : ∀ (outs : List (List CellOut)) (y i : Nat) (hi : i < outs.length) (o : CellOut),
    o ∈ outs[i] → (y + i, o) ∈ tagRows y outs
  | [], _, _, hi, _, _ => by simp at hi
  | row :: rest, y, 0, _, o, ho => by
    simp only [tagRows, List.mem_append, List.mem_map]
    left; exact ⟨o, by simpa using ho, rfl⟩
  | row :: rest, y, i + 1, hi, o, ho => by
    simp only [tagRows, List.mem_append]
    right
    have := mem_tagRows rest (y + 1) i (by simpa using hi) o (by simpa using ho)
    have e : y + 1 + i = y + (i + 1) := by omega
    rw [e] at this; exact this

open Wp.TableGrid in
/-- **Composition with `wrap_table`**: for every row group, whatever `rowspan` attributes its cells carry (0, too
large, anything), the spans that the slot assignment leaves on the cells make the bookkeeping of `group_layout`
total, on the first page of the group and on every continuation page (`skip`). -/
theorem placed_group_ending_total (rows : List (List CellIn)) (w : Nat) (outs : List (List CellOut)) (w' : Nat)
    (h : placeGroup rows w = .ok (outs, w')) (skip : Nat) :
    ∃ out, groupEnding (outs.map (fun row => row.map (·.rowspan))) skip = .ok out ∧
      out.length = rows.length - skip := by
  unfold placeGroup at h
  have hlen := placeRows_length rows _ w outs w' h
  have hrs := placeRows_rowspan rows _ w 0 outs w' h (by simp)
  obtain ⟨out, ho, hl⟩ := groupEnding_total (outs.map (fun row => row.map (·.rowspan))) skip (by
    intro r hr s hs
    simp only [List.length_map] at hr
    simp only [List.getElem_map, List.mem_map] at hs
    obtain ⟨o, ho, rfl⟩ := hs
    have := hrs (0 + r, o) (mem_tagRows outs 0 r hr o ho)
    have hl2 : (outs.map (fun row => row.map (·.rowspan))).length = rows.length := by simp [hlen]
    rw [hl2]
    simp only at this
    omega)
  exact ⟨out, ho, by simpa [hlen] using hl⟩

/-- `some` of a result, `none` of an exception (core has no `DecidableEq (Except ε α)`). -/
def result? {α : Type} : Except PyErr α → Option α
  | .ok a => some a
  | .error _ => none

/-- Non-vacuity: three rows, the cell of the second row with `rowspan=3`: `wrap_table` leaves 2 on it and the cells
end in rows 0, 2, 2 (resumed at the second row: 2, 2); with the unclipped 3 the second row raises IndexError. -/
example : result? (groupEnding [[1], [2], [1]] 0) = some [[(0, 0)], [], [(1, 0), (2, 0)]] ∧
    result? (groupEnding [[1], [3], [1]] 0) = none ∧
    result? (groupEnding [[1], [2], [1]] 1) = some [[], [(1, 0), (2, 0)]] := by decide

open Wp.TableGrid in
/-- What `wrap_table` leaves of rowspan 3 and 0 in the second of three rows and of 70 in the last: 2, 2, 1. -/
example : (result? (placeGroup [[⟨1, 1⟩], [⟨1, 3⟩, ⟨1, 0⟩], [⟨1, 70⟩]] 0)).map
    (fun r => r.1.map (fun row => row.map (·.rowspan))) = some [[1], [2, 2], [1]] := by decide

end Wp.C02RowEnding
