/-
C01 on the wide grammar: soundness of the trace checker (`Model/Trace.lean`). If the checker accepts
the trace of a render (the words of every page in box-tree order), then every word that CSS says is
rendered appears exactly once, the words of each text container appear in source order, and dropped
content does not appear. The traces themselves are sampled from real renders (not a theorem about
the implementation): DESIGN.md §4 C01 "Model 2".
-/
import WpModel.Model.Trace

namespace Wp.C01Trace
open Wp Wp.Trace

private theorem count_filter_mem (ws out : List Nat) (w : Nat) (hw : w ∈ ws) :
    (project ws out).count w = out.count w := by
  unfold project
  induction out with
  | nil => simp
  | cons x xs ih =>
    by_cases hx : ws.contains x = true
    · simp only [List.filter_cons, hx, ↓reduceIte, List.count_cons, ih]
    · have hne : x ≠ w := by
        intro h; subst h; exact hx (by simpa using hw)
      simp only [List.filter_cons, hx, Bool.false_eq_true, ↓reduceIte, List.count_cons, ih]
      simp [hne]

private theorem count_one_of_nodup : ∀ (l : List Nat), l.Nodup → ∀ w ∈ l, l.count w = 1
  | [], _, w, hw => by simp at hw
  | x :: xs, hnd, w, hw => by
    rw [List.nodup_cons] at hnd
    rw [List.count_cons]
    by_cases hx : x = w
    · subst hx
      have : xs.count x = 0 := List.count_eq_zero.mpr hnd.1
      simp [this]
    · have hmem : w ∈ xs := by
        rcases List.mem_cons.mp hw with h | h
        · exact absurd h.symm hx
        · exact h
      simp [hx, count_one_of_nodup xs hnd.2 w hmem]

/-- (a)(b) Exactly once: an accepted rendered group (kinds 0, 1) with distinct words has each of its
words exactly once in the whole output. -/
theorem accepted_once (g : Group) (out : List Nat) (hk : g.kind = 0 ∨ g.kind = 1) (hnd : g.words.Nodup)
    (h : groupOk g out = true) : ∀ w ∈ g.words, out.count w = 1 := by
  intro w hw
  unfold groupOk at h
  simp only [hk, ↓reduceIte, beq_iff_eq] at h
  have := count_filter_mem g.words out w hw
  rw [h] at this
  rw [← this]
  exact count_one_of_nodup g.words hnd w hw

/-- (c) In order: the words of an accepted rendered group form a subsequence of the output in exactly
their source order. -/
theorem accepted_in_order (g : Group) (out : List Nat) (hk : g.kind = 0 ∨ g.kind = 1)
    (h : groupOk g out = true) : g.words.Sublist out := by
  unfold groupOk at h
  simp only [hk, ↓reduceIte, beq_iff_eq] at h
  rw [← h]
  unfold project
  exact List.filter_sublist

/-- (e) Dropped content (`display: none`) of an accepted trace does not appear. -/
theorem accepted_dropped (g : Group) (out : List Nat) (hk : g.kind = 3)
    (h : groupOk g out = true) : ∀ w ∈ g.words, w ∉ out := by
  intro w hw hmem
  unfold groupOk at h
  rw [hk] at h
  have h0 : ¬ ((3 : Nat) = 0 ∨ (3 : Nat) = 1) := by decide
  rw [if_neg h0] at h
  simp only [↓reduceIte, beq_iff_eq] at h
  unfold project at h
  have : w ∈ out.filter (fun w => g.words.contains w) := by
    rw [List.mem_filter]; exact ⟨hmem, by simpa using hw⟩
  rw [h] at this
  simp at this

/-- The checker reports no bad group iff every group is accepted. -/
theorem badGroups_nil (gs : List Group) (pages : List (List Nat)) (h : badGroups gs pages = []) :
    ∀ g ∈ gs, groupOk g pages.flatten = true := by
  intro g hg
  unfold badGroups at h
  simp only [List.map_eq_nil_iff, List.filter_eq_nil_iff] at h
  obtain ⟨i, hi⟩ := List.mem_iff_getElem.mp hg
  obtain ⟨hlt, hget⟩ := hi
  have hm : (g, i) ∈ gs.zipIdx := by
    rw [List.mem_zipIdx_iff_getElem?]
    simp [hget, hlt]
  have := h (g, i) hm
  simpa using this

/-- **Soundness of the conservation check.** -/
theorem conserve_sound (gs : List Group) (pages : List (List Nat)) (h : badGroups gs pages = []) :
    ∀ g ∈ gs,
      ((g.kind = 0 ∨ g.kind = 1) → g.words.Nodup →
        (∀ w ∈ g.words, pages.flatten.count w = 1) ∧ g.words.Sublist pages.flatten) ∧
      (g.kind = 3 → ∀ w ∈ g.words, w ∉ pages.flatten) := by
  intro g hg
  have hok := badGroups_nil gs pages h g hg
  exact ⟨fun hk hnd => ⟨accepted_once g _ hk hnd hok, accepted_in_order g _ hk hok⟩,
         fun hk => accepted_dropped g _ hk hok⟩

private theorem consecutive_spec : ∀ (l : List Nat), consecutive l = true →
    ∀ i (hi : i + 1 < l.length), l[i + 1] = l[i] + 1
  | [], _, i, hi => by simp at hi
  | [_], _, i, hi => by simp at hi
  | a :: b :: rest, h, i, hi => by
    unfold consecutive at h
    simp only [Bool.and_eq_true, beq_iff_eq] at h
    cases i with
    | zero => simpa using h.1
    | succ j =>
      have := consecutive_spec (b :: rest) h.2 j (by simpa using hi)
      simpa using this

/-- (d) consecutive pages: an accepted list of page numbers has no gap. -/
theorem consecutive_no_gap (l : List Nat) (h : consecutive l = true) (i : Nat) (hi : i + 1 < l.length) :
    l[i + 1] = l[i] + 1 := consecutive_spec l h i hi

/-! Non-vacuity. -/
example : badGroups [⟨0, [1, 2, 3]⟩, ⟨2, [9]⟩, ⟨3, [7]⟩, ⟨1, [4, 5]⟩] [[9, 1, 2], [9, 4, 3, 5]] = [] := by decide
example : badGroups [⟨0, [1, 2, 3]⟩] [[1, 3], [2]] = [0] := by decide
example : scatteredGroups [⟨0, [1, 2, 3]⟩] [[1], [], [2, 3]] = [0] := by decide

end Wp.C01Trace
