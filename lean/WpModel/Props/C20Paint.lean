/-
C20 — "… rendering continues as if the resource were absent", at paint time: a `border-image-source` or
`mask-border-source` whose `url()` cannot be loaded is painted exactly as the keyword `none` (`Model/ResourcesPaint.lean`).
-/
import WpModel.Model.ResourcesPaint

namespace Wp.C20.Paint
open Wp Wp.Res Wp.Res.Paint

/-- `failure_as_absent` (border image): whatever the visibility and the border widths, a `url()` source that gave no
image paints what `border-image-source: none` paints — in particular the ordinary borders are still drawn. -/
theorem failure_as_absent_border_image (visible allWidthsZero : Bool) :
    drawBorder visible .url (imageSet .url none) allWidthsZero =
    drawBorder visible .noneKw (imageSet .noneKw none) allWidthsZero := by
  cases visible <;> cases allWidthsZero <;> rfl

/-- The ordinary borders are lost only to a border image that is really drawn. -/
theorem borders_unless_image (source : Source) (hasImage allWidthsZero : Bool)
    (h : drawBorder true source hasImage allWidthsZero ≠ .image) :
    drawBorder true source hasImage allWidthsZero = (if allWidthsZero then .nothing else .borders) := by
  cases source <;> cases hasImage <;> cases allWidthsZero <;> simp_all [drawBorder]

/-- A loaded image or a gradient takes precedence over the borders of a visible box. -/
theorem image_takes_precedence (source : Source) (fetched : Option Img) (allWidthsZero : Bool)
    (h : imageSet source fetched = true) : drawBorder true source (imageSet source fetched) allWidthsZero = .image := by
  cases source with
  | noneKw => simp [imageSet] at h
  | url => simp only [imageSet] at h; simp only [drawBorder, imageSet, h]; cases allWidthsZero <;> rfl
  | gradient => simp only [drawBorder, imageSet]; cases allWidthsZero <;> rfl

/-- `failure_as_absent` (mask border): no mask is set for a `url()` source that gave no image, as for `none`. -/
theorem failure_as_absent_mask_border :
    setMaskBorder .url (imageSet .url none) = setMaskBorder .noneKw (imageSet .noneKw none) := rfl

example : drawBorder true .url (imageSet .url none) false = .borders ∧
    drawBorder true .url (imageSet .url (some (.svg 1))) false = .image ∧
    drawBorder true .gradient (imageSet .gradient none) true = .image := ⟨rfl, rfl, rfl⟩

end Wp.C20.Paint
