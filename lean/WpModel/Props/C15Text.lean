/-
C15 — `target-text()`: theorems about `Model/TargetText.lean` (`extract_text`, `box_text`, the evaluation
order of `lookup_target` / `store_target` / `check_pending_targets`).
-/
import WpModel.Model.TargetText

namespace Wp.C15
open Wp.TargetText

/-- `target-text(…, content)` of a finished target: its text nodes in document order, generated content and
hidden subtrees excluded, stripped. -/
theorem target_text_content (m : AfterMap) (t : TElem) : extract m .content true t = strip (boxText t) := rfl

theorem target_text_first_letter (m : AfterMap) (t : TElem) :
    extract m .firstLetter true t = strip (firstLetter (boxText t)) := rfl

/-- A hidden element contributes nothing (its tail still belongs to the parent). -/
theorem hidden_subtree_no_text (i : Nat) (a : Option String) (text : String) (b : Option String)
    (af : Option (List TItem)) (kids : List TElem) (tail : String) :
    boxText (.mk i false a text b af kids tail) = "" ∧ beforeTexts (.mk i false a text b af kids tail) = "" := by
  constructor <;> simp [boxText, beforeTexts]

/-- Text nodes come in document order: own text, then each child's text followed by its tail. -/
theorem boxText_cons (i : Nat) (a : Option String) (text : String) (b : Option String) (af : Option (List TItem))
    (k : TElem) (kids : List TElem) (tail : String) :
    boxText (.mk i true a text b af (k :: kids) tail) = text ++ (boxText k ++ k.tail ++ kidsText kids) := by
  simp [boxText, kidsText]

private theorem firstLetterLoop_prefix : ∀ (cs : List Char) (found : Bool) (acc : List Char),
    ∃ taken rest, cs = taken ++ rest ∧ firstLetterLoop cs found acc = acc ++ taken ∧
      (taken.filter (fun c => !isPunct c)).length + (if found then 1 else 0) ≤ 1 := by
  intro cs
  induction cs with
  | nil => intro found acc; exact ⟨[], [], rfl, by simp [firstLetterLoop], by cases found <;> simp⟩
  | cons c rest ih =>
    intro found acc
    unfold firstLetterLoop
    by_cases hp : isPunct c = true
    · simp only [hp, Bool.not_true, Bool.false_eq_true, if_false]
      obtain ⟨taken, rest', h1, h2, h3⟩ := ih found (acc ++ [c])
      exact ⟨c :: taken, rest', by simp [h1], by simp [h2], by simpa [hp] using h3⟩
    · have hp' : isPunct c = false := by simpa using hp
      simp only [hp', Bool.not_false, if_true]
      cases found with
      | true => exact ⟨[], c :: rest, rfl, by simp, by simp⟩
      | false =>
        simp only [Bool.false_eq_true, if_false]
        obtain ⟨taken, rest', h1, h2, h3⟩ := ih true (acc ++ [c])
        refine ⟨c :: taken, rest', by simp [h1], by simp [h2], ?_⟩
        simp only [if_true] at h3
        have h0 : (taken.filter (fun c => !isPunct c)).length = 0 := by omega
        simp [List.filter_cons, hp', h0]

/-- `first-letter`: a prefix of the text holding at most one character that is not punctuation
(opening/closing/initial/final/other, table regenerated from `extract_text` and unicodedata). -/
theorem first_letter_is_prefix (s : String) :
    ∃ rest, s.toList = (firstLetter s).toList ++ rest ∧
      ((firstLetter s).toList.filter (fun c => !isPunct c)).length ≤ 1 := by
  obtain ⟨taken, rest, h1, h2, h3⟩ := firstLetterLoop_prefix s.toList false []
  refine ⟨rest, ?_, ?_⟩
  · have : (firstLetter s).toList = taken := by simp [firstLetter, h2]
    rw [this]; exact h1
  · have : (firstLetter s).toList = taken := by simp [firstLetter, h2]
    rw [this]; simpa using h3

/- Full statement (false of the code, `Witness.C15.target_text_of_open_target_is_empty`): a defined,
   displayed target prints `strip (boxText target)` wherever the reference stands. -/
/-- What holds: an `up-to-date` target whose box is finished prints its text; a target that is still
open when the reference is evaluated (the element itself or an ancestor, met before) prints nothing. -/
theorem target_text_partial (m : AfterMap) (mode : Mode) (t : TElem) (complete : Bool) :
    extract m mode complete t = if complete then extract m mode true t else "" := by
  cases complete <;> simp [extract]

/-- An anchor no element carries ends the content list there (`undefined`), silently. -/
theorem undefined_target_cuts (lookup : String → Found) (m : AfterMap) (a : String) (mode : Mode)
    (rest : List TItem) (acc : String) (h : lookup a = .undefined) :
    evalItems lookup m (.ref a mode :: rest) acc = (acc, none) := by
  simp [evalItems, h]

/-- The regenerated table covers the five punctuation classes css-pseudo names for `::first-letter`
(Ps, Pe, Pi, Pf, Po) and nothing else: one sample per class, letters, digits, space, symbols and dashes
outside (an edit of the category tuple in `extract_text` breaks this proof). -/
theorem first_letter_classes :
    isPunct '(' = true ∧ isPunct ')' = true ∧ isPunct '«' = true ∧ isPunct '»' = true ∧ isPunct '!' = true ∧
    isPunct '"' = true ∧ isPunct '¡' = true ∧ isPunct 'a' = false ∧ isPunct '7' = false ∧ isPunct ' ' = false ∧
    isPunct '-' = false ∧ isPunct '+' = false ∧ isPunct '$' = false ∧ isPunct '_' = false := by
  decide

section Examples
private def exTree : TElem :=
  .mk 0 true (some "r") "A" none none
    [.mk 1 true (some "x") "«Hi» there" (some "B:") none [] " t",
     .mk 2 false none "hidden" none none [] "",
     .mk 3 true none "l" none (some [.str "[", .ref "x" .firstLetter, .str "|", .ref "r" .content, .str "]"]) [] "",
     .mk 4 true none "m" none (some [.str "[", .ref "r" .content, .str "|", .ref "late" .before, .str "]"]) [] "",
     .mk 5 true (some "late") "z" (some "b4") none [] ""] ""
-- first-letter keeps the leading punctuation; the enclosing (open) target prints nothing (element 3) … unless a later
-- pending reference makes the whole content be recomputed after the walk, when every box is finished (element 4)
example : afterBoxes exTree = [(3, "[«H|]"), (4, "[A«Hi» there tlmz|b4]")] := by decide
example : boxText exTree = "A«Hi» there tlmz" := by decide
end Examples

end Wp.C15
