/-
C01 — pagination conserves content (PM model, DESIGN.md §4 C01).
Paragraph level: the lines a paragraph fragment holds are exactly the consecutive lines from the resume
position, and the resume position handed to the next page is the line after the last one kept — so
no line is lost, duplicated or reordered by line breaking across pages, for any number of lines,
any page geometry, any orphans / widows.
Block level (second half of the file): `segment` (every `block_level_layout` call: fragment lines ++ rest =
lines from the skip position, through nested blocks, `find_earlier_page_break`, orphans/widows) and
`pages_conserve` (the pages of `make_all_pages`, concatenated, are the lines of the document).
-/
import WpModel.Lemmas.ParaLines
import WpModel.Lemmas.SegmentPages

namespace Wp.C01
open Wp Wp.PM

private theorem lineboxLayout_lines (c : Ctx) (st : PStyle) (b : BoxSt) (n : Nat) (lineH : Rat) (pie : Bool)
    (adj : List Rat) (bs posY : Rat) (skip : Option Resume) (dbd : Bool) :
    (lineboxLayout c st b n lineH pie adj bs posY skip dbd).lines =
      outLines (lineboxLoop c st b n lineH pie adj bs posY skip dbd) := by
  unfold lineboxLayout
  split <;> simp_all [outLines]

/-- (a)(b)(c) at paragraph level: the fragment's lines are `k, k+1, …, k+m-1` where `k` is the resume
position — contiguous, in order, no repetition — and never more than the paragraph has. -/
theorem para_segment (c : Ctx) (st : PStyle) (b : BoxSt) (n : Nat) (lineH : Rat) (pie : Bool)
    (adj : List Rat) (bs posY : Rat) (skip : Option Resume) (dbd : Bool) :
    ∃ m, m ≤ n - skipLine skip ∧
      (lineboxLayout c st b n lineH pie adj bs posY skip dbd).lines.map Prod.fst =
        List.range' (skipLine skip) m := by
  rw [lineboxLayout_lines]
  unfold lineboxLoop
  obtain ⟨m, hm, hl⟩ := lineLoop_contiguous c st b n lineH pie bs (skipLine skip) (n - skipLine skip)
    (skipLine skip) (lineStart adj posY)
    { lines := [], posY := lineStart adj posY, skip := skip, mt := b.mt, dbd := dbd } (Nat.le_refl _) (by simp)
  exact ⟨m, by omega, hl⟩

/-- The resume position returned with a non-empty fragment is the line after its last line
(`none` inside the line box when that was the last line of the paragraph). -/
theorem para_resume (c : Ctx) (st : PStyle) (b : BoxSt) (n : Nat) (lineH : Rat) (pie : Bool)
    (adj : List Rat) (bs posY : Rat) (skip : Option Resume) (dbd : Bool) (i : Nat) (y : Rat)
    (h : (lineboxLayout c st b n lineH pie adj bs posY skip dbd).lines.getLast? = some (i, y)) :
    (lineboxLayout c st b n lineH pie adj bs posY skip dbd).resume = some (.node 0 (lineResume n i)) := by
  unfold lineboxLayout at h ⊢
  split at h <;> simp_all [lastLineResume]

/-- (a) nothing lost when no break happens: if the line loop runs to its end (no abort, no stop),
every line from the resume position to the end of the paragraph is in the fragment. -/
theorem para_complete (c : Ctx) (st : PStyle) (b : BoxSt) (n : Nat) (lineH : Rat) (pie : Bool)
    (adj : List Rat) (bs posY : Rat) (skip : Option Resume) (dbd : Bool)
    (h : ∃ s, lineboxLoop c st b n lineH pie adj bs posY skip dbd = .done s) :
    (lineboxLayout c st b n lineH pie adj bs posY skip dbd).lines.map Prod.fst =
      List.range' (skipLine skip) (n - skipLine skip) := by
  obtain ⟨s, hs⟩ := h
  rw [lineboxLayout_lines, hs]
  unfold lineboxLoop at hs
  have := lineLoop_done c st b n lineH pie bs (skipLine skip) _ _ _ _ s (Nat.le_refl _) (by simp) hs
  simpa [outLines] using this

/-! Non-vacuity: a 5-line paragraph resumed at line 1 on a page with room for two more lines. -/
def exStyle : PStyle where
  mt := 0
  mb := 0
  pt := 0
  pb := 0
  bt := 0
  bb := 0
  height := none
  minH := 0
  maxH := none
  brkBefore := .auto
  brkAfter := .auto
  brkInside := .auto
  clone := false
  page := ""
  orphans := 1
  widows := 1
  isRoot := false

def exResult : LineResult :=
  lineboxLayout { pageBottom := 25, currentPage := 2, forcedBreak := false } exStyle
    { y := 0, mt := 0, mb := 0, pt := 0, pb := 0, bt := 0, bb := 0 } 5 10 true [] 0 0 (some (.line 1)) false

example : exResult.lines.map Prod.fst = [1, 2] ∧ exResult.stop = true :=
  ⟨by decide +kernel, by decide +kernel⟩

/-! ### block level: nothing lost, duplicated or reordered (nested blocks and paragraphs)

`fragLines f` = the (paragraph id, line number) pairs a fragment shows, in tree order;
`linesFrom box skip` = the lines of the source box at / after the skip position (`none` = all);
`restOut box resume` = what is left for the next page (`[]` when `resume = none`).
Hypotheses: no fixed `height` in the subtree (`forgetIfFixed` deliberately drops overflowing children:
known finding) and `orphans, widows ≥ 1` (what the CSS validator accepts). No hypothesis on the page
geometry, margins, break properties, or on the skip position. -/

/-- Reading of `linesFrom … none`: a paragraph has its lines `0 … n-1`, a block the lines of its
children in order. -/
theorem linesFrom_none_para (id n : Nat) (lineH : Rat) (st : PStyle) :
    linesFrom (.para id n lineH st) none = (List.range n).map (fun i => (id, i)) := by
  simp [linesFrom, paraLines, paraStart, skipLine, List.range_eq_range']

theorem linesFrom_none_block (id : Nat) (st : PStyle) (kids : List PBox) :
    linesFrom (.block id st kids) none = (kids.map (fun k => linesFrom k none)).flatten := by
  simp only [linesFrom, skipIdxOf_none, subSkipOf_none]
  induction kids with
  | nil => simp [linesFromKids]
  | cons k ks ih => simp [linesFromKids, ih]

/-- **Segment theorem** (`block_level_layout`): whenever a layout returns a fragment, the lines shown by the
fragment followed by the lines designated by the returned resume position are exactly the lines
designated by the skip position it was given — nothing lost, duplicated or reordered, through
`_in_flow_layout`, `find_earlier_page_break`, `_linebox_layout`, `_break_line`, at any nesting depth. -/
theorem segment (box : PBox) (hN : NoFixedHeight box) (hW : WellFormed box) (c : Ctx) (idx : Nat) (y bs : Rat)
    (skip : Option Resume) (cb pie : Bool) (adjL : List Rat) (f : Frag)
    (h : (layoutBox c box idx y bs skip cb pie adjL).frag = some f) :
    fragLines f ++ restOut box (layoutBox c box idx y bs skip cb pie adjL).resume = linesFrom box skip :=
  boxPost_lines _ _ _ _ _ (box_spec box (good_of box hN hW) c idx y bs skip cb pie adjL) h

/-- When nothing is left (`resume = none`) the fragment is structurally the complete rest of the box:
one complete fragment per child from the skip position on, `.idx` = position of the child. -/
theorem segment_complete (box : PBox) (hN : NoFixedHeight box) (hW : WellFormed box) (c : Ctx) (idx : Nat)
    (y bs : Rat) (skip : Option Resume) (cb pie : Bool) (adjL : List Rat) (f : Frag)
    (h : (layoutBox c box idx y bs skip cb pie adjL).frag = some f)
    (hr : (layoutBox c box idx y bs skip cb pie adjL).resume = none) : Full f box skip := by
  have := box_spec box (good_of box hN hW) c idx y bs skip cb pie adjL f h
  rw [hr] at this
  exact this

/-- `find_earlier_page_break` on complete children: the children kept plus what the returned resume
position designates are what was there. -/
theorem find_earlier_conserves (fs : List Frag) (bs : List PBox) (i : Nat) (sub : Option Resume)
    (hN : NoFixedHeightList bs) (hW : WellFormedList bs) (hfull : FullFrom fs bs i sub)
    (kept : List Frag) (r : Resume) (h : findEarlierList fs = some (kept, r)) :
    ∃ m sub', r = .node (i + m) sub' ∧ m < bs.length ∧
      fragLinesList kept ++ linesFromKids bs m sub' = fragLinesList fs := by
  obtain ⟨m, sub', hr, hm, hl, _⟩ := (findEarlierGo_spec fs bs i sub (goodList_of bs hN hW) hfull).2 kept r h
  exact ⟨m, sub', hr, hm, by rw [hl, fullFrom_lines _ _ _ _ hfull]⟩

/-- One page: a non-blank page shows a prefix of what was left, a blank page shows nothing and leaves
the resume position untouched. -/
theorem page_segment (d : Doc) (hN : NoFixedHeight d.root) (hW : WellFormed d.root) (index : Nat)
    (resume : Option Resume) (np : NextPage) (right : Bool) (p : Page)
    (hp : remakePage d index resume np right = some p) :
    (p.type.blank = true → fragLines p.root = [] ∧ p.resume = resume) ∧
    (p.type.blank = false → fragLines p.root ++ restOut d.root p.resume = linesFrom d.root resume) := by
  obtain ⟨h1, h2⟩ := remakePage_lines d (good_of _ hN hW) index resume np right p hp
  exact ⟨fun hb => ⟨(h1 hb).1, (h1 hb).2.1⟩, fun hb => (h2 hb).1⟩

private theorem pagesLines_eq (pages : List Page) :
    pagesLines pages = (pages.map (fun p => fragLines p.root)).flatten := by
  induction pages with
  | nil => rfl
  | cons p ps ih => simp [pagesLines, ih]

/-- **Pages theorem** (`make_all_pages`): the lines shown by the pages, concatenated in page order, are
exactly the lines of the document, in document order — nothing lost, duplicated or reordered; blank
pages contribute nothing. For any fuel for which the pagination returns. -/
theorem pages_conserve (d : Doc) (hN : NoFixedHeight d.root) (hW : WellFormed d.root) (fuel : Nat)
    (pages : List Page) (h : paginate d fuel = some pages) :
    (pages.map (fun p => fragLines p.root)).flatten = linesFrom d.root none := by
  rw [← pagesLines_eq]
  unfold paginate at h
  exact makeAllPages_lines d (good_of _ hN hW) fuel 0 none _ _ pages (fun _ => by simp [requestedSide, isBlank]) h

/-! Non-vacuity: nested blocks, a paragraph with `orphans = widows = 2`, an empty block, a forced
`break-before: left` that inserts a blank page: 6 pages. -/
def exDoc : Doc :=
  { pageH := 25, rootLtr := true,
    root := .block 0 { exStyle with isRoot := true }
      [.para 1 3 10 exStyle, .block 2 exStyle [.para 3 4 10 { exStyle with orphans := 2, widows := 2 }],
       .block 4 exStyle [], .para 5 1 10 { exStyle with brkBefore := .left }] }

example : NoFixedHeight exDoc.root ∧ WellFormed exDoc.root := by
  simp [exDoc, NoFixedHeight, NoFixedHeightList, WellFormed, WellFormedList, exStyle]

example : (paginate exDoc 50).map (fun ps => ps.map (fun p => (p.type.blank, fragLines p.root))) =
    some [(false, [(1, 0), (1, 1)]), (false, [(1, 2)]), (false, [(3, 0), (3, 1)]), (false, [(3, 2), (3, 3)]),
      (true, []), (false, [(5, 0)])] ∧
    linesFrom exDoc.root none = [(1, 0), (1, 1), (1, 2), (3, 0), (3, 1), (3, 2), (3, 3), (5, 0)] :=
  ⟨by decide +kernel, by decide +kernel⟩

/-- the segment theorem's hypothesis on a resumed layout: page 3 of `exDoc` (resumed inside the nested
paragraph) returns a fragment and a further resume position. -/
example :
    let r := layoutBox { pageBottom := 25, currentPage := 3, forcedBreak := false } exDoc.root 0 0 0
      (some (.node 1 none)) false true []
    r.frag.map fragLines = some [(3, 0), (3, 1)] ∧ r.resume.isSome = true ∧
      restOut exDoc.root r.resume = [(3, 2), (3, 3), (5, 0)] :=
  ⟨by decide +kernel, by decide +kernel, by decide +kernel⟩

/-- `segment_complete`: the last page of `exDoc` (resumed at the fourth child) leaves nothing. -/
example :
    let r := layoutBox { pageBottom := 25, currentPage := 6, forcedBreak := true } exDoc.root 0 0 0
      (some (.node 3 none)) false true []
    r.frag.map fragLines = some [(5, 0)] ∧ r.resume.isNone = true :=
  ⟨by decide +kernel, by decide +kernel⟩

/-- `find_earlier_conserves`: two complete paragraph fragments; the earlier break found is the one
between them (resume = second child). -/
def exGeo : Geo := { y := 0, mt := 0, mb := 0, pt := 0, pb := 0, bt := 0, bb := 0, h := 20 }
def exFrags : List Frag :=
  [.para 1 0 exStyle 3 exGeo [(0, 0), (1, 10), (2, 20)], .para 2 1 exStyle 1 exGeo [(0, 30)]]
def exBoxes : List PBox := [.para 1 3 10 exStyle, .para 2 1 10 exStyle]

example : NoFixedHeightList exBoxes ∧ WellFormedList exBoxes ∧ FullFrom exFrags exBoxes 0 none ∧
    (findEarlierList exFrags).map (fun kr => (fragLinesList kr.1, skipIdxOf (some kr.2))) =
      some ([(1, 0), (1, 1), (1, 2)], 1) := by
  refine ⟨?_, ?_, ?_, by decide +kernel⟩
  · simp [exBoxes, NoFixedHeightList, NoFixedHeight, exStyle]
  · simp [exBoxes, WellFormedList, WellFormed, exStyle]
  · simp [exFrags, exBoxes, FullFrom, Full, paraStart, skipLine, Frag.idx, List.range']

end Wp.C01
