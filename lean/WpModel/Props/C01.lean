/-
C01 — pagination conserves content (PM model, DESIGN.md §4 C01).
Paragraph level: the lines a paragraph fragment holds are exactly the consecutive lines from the resume
position, and the resume position handed to the next page is the line after the last one kept — so
no line is lost, duplicated or reordered by line breaking across pages, for any number of lines,
any page geometry, any orphans / widows.
-/
import WpModel.Lemmas.ParaLines

namespace Wp.C01
open Wp Wp.PM

private theorem lineboxLayout_lines (c : Ctx) (st : PStyle) (b : BoxSt) (n : Nat) (lineH : Rat) (pie : Bool)
    (adj : List Rat) (bs posY : Rat) (skip : Option Resume) (dbd : Bool) :
    (lineboxLayout c st b n lineH pie adj bs posY skip dbd).lines =
      outLines (lineboxLoop c st b n lineH pie adj bs posY skip dbd) := by
  unfold lineboxLayout
  split <;> simp_all [outLines]

/-- (a)(b)(c) at paragraph level: the fragment's lines are `k, k+1, …, k+m-1` where `k` is the resume
position — contiguous, in order, no repetition — and never more than the paragraph has. -/
theorem para_segment (c : Ctx) (st : PStyle) (b : BoxSt) (n : Nat) (lineH : Rat) (pie : Bool)
    (adj : List Rat) (bs posY : Rat) (skip : Option Resume) (dbd : Bool) :
    ∃ m, m ≤ n - skipLine skip ∧
      (lineboxLayout c st b n lineH pie adj bs posY skip dbd).lines.map Prod.fst =
        List.range' (skipLine skip) m := by
  rw [lineboxLayout_lines]
  unfold lineboxLoop
  obtain ⟨m, hm, hl⟩ := lineLoop_contiguous c st b n lineH pie bs (skipLine skip) (n - skipLine skip)
    (skipLine skip) (lineStart adj posY)
    { lines := [], posY := lineStart adj posY, skip := skip, mt := b.mt, dbd := dbd } (Nat.le_refl _) (by simp)
  exact ⟨m, by omega, hl⟩

/-- The resume position returned with a non-empty fragment is the line after its last line
(`none` inside the line box when that was the last line of the paragraph). -/
theorem para_resume (c : Ctx) (st : PStyle) (b : BoxSt) (n : Nat) (lineH : Rat) (pie : Bool)
    (adj : List Rat) (bs posY : Rat) (skip : Option Resume) (dbd : Bool) (i : Nat) (y : Rat)
    (h : (lineboxLayout c st b n lineH pie adj bs posY skip dbd).lines.getLast? = some (i, y)) :
    (lineboxLayout c st b n lineH pie adj bs posY skip dbd).resume = some (.node 0 (lineResume n i)) := by
  unfold lineboxLayout at h ⊢
  split at h <;> simp_all [lastLineResume]

/-- (a) nothing lost when no break happens: if the line loop runs to its end (no abort, no stop),
every line from the resume position to the end of the paragraph is in the fragment. -/
theorem para_complete (c : Ctx) (st : PStyle) (b : BoxSt) (n : Nat) (lineH : Rat) (pie : Bool)
    (adj : List Rat) (bs posY : Rat) (skip : Option Resume) (dbd : Bool)
    (h : ∃ s, lineboxLoop c st b n lineH pie adj bs posY skip dbd = .done s) :
    (lineboxLayout c st b n lineH pie adj bs posY skip dbd).lines.map Prod.fst =
      List.range' (skipLine skip) (n - skipLine skip) := by
  obtain ⟨s, hs⟩ := h
  rw [lineboxLayout_lines, hs]
  unfold lineboxLoop at hs
  have := lineLoop_done c st b n lineH pie bs (skipLine skip) _ _ _ _ s (Nat.le_refl _) (by simp) hs
  simpa [outLines] using this

/-! Non-vacuity: a 5-line paragraph resumed at line 1 on a page with room for two more lines. -/
def exStyle : PStyle where
  mt := 0
  mb := 0
  pt := 0
  pb := 0
  bt := 0
  bb := 0
  height := none
  minH := 0
  maxH := none
  brkBefore := .auto
  brkAfter := .auto
  brkInside := .auto
  clone := false
  page := ""
  orphans := 1
  widows := 1
  isRoot := false

def exResult : LineResult :=
  lineboxLayout { pageBottom := 25, currentPage := 2, forcedBreak := false } exStyle
    { y := 0, mt := 0, mb := 0, pt := 0, pb := 0, bt := 0, bb := 0 } 5 10 true [] 0 0 (some (.line 1)) false

example : exResult.lines.map Prod.fst = [1, 2] ∧ exResult.stop = true :=
  ⟨by decide +kernel, by decide +kernel⟩

end Wp.C01
