/-
C19 — Rendering is a pure function of its inputs.  Property theorems only (helper lemmas are `private`).

Sections
  1 zoom_linear     every coordinate of `generate_pdf` is `zoom ×` its value at zoom 1 (BleedBox: while the 10 pt
                    cap is not reached — `Witness.C19.bleedbox_cap_not_linear`), the page rectangle ignores zoom
  2 copy_pages      `Document.copy(pages)` + `resolve_links` + the page loop write exactly the selected pages (every
                    variant, every selection)
  3 three_sinks     the three targets of `write_pdf` get one `pdf.write` with identical arguments
  5 fresh_state     successive renders share no object the caller did not hand in; generated module-state whitelist
  4 cache_transparent  a shared image cache returns the cold value (fixed options, deterministic fetcher); the key
                    `f'{url} {orientation}'` is injective and never collides with a `LazyImage` data key
(section 4 comes last in the file.)
-/
import WpModel.Model.PdfZoom
import WpModel.Model.ImageCache
import WpModel.Model.WriteSinks
import WpModel.Model.RenderState
import WpModel.Gen.ModuleState
import Mathlib.Tactic.Ring
import Mathlib.Tactic.FieldSimp
import Mathlib.Tactic.Linarith
import Mathlib.Tactic.NormNum
import Mathlib.Tactic.SplitIfs

namespace Wp.C19
open Wp Wp.CopyPages Wp.PdfZoom

/-! ## 1 zoom -/

/-- Multiply the four numbers of a box. -/
def scaleBox (k : Rat) (b : Box4) : Box4 := ⟨k * b.x1, k * b.y1, k * b.x2, k * b.y2⟩

def scaleAnnot (k : Rat) (a : Annot) : Annot := { a with rect := scaleBox k a.rect }
def scaleDest (k : Rat) (d : Dest) : Dest := { d with x := k * d.x, y := k * d.y }
def scaleOutline (k : Rat) (o : Outline) : Outline := { o with x := k * o.x, y := k * o.y }

/-- Every layout-derived number of a page multiplied by `k`; the page rectangle (layout units) is kept. -/
def scalePage (k : Rat) (p : PagePdf) : PagePdf :=
  { media := scaleBox k p.media, trim := scaleBox k p.trim, bleed := scaleBox k p.bleed, rectangle := p.rectangle,
    flipF := k * p.flipF, paintScale := k * p.paintScale, annots := p.annots.map (scaleAnnot k) }

def scaleOut (k : Rat) (o : PdfOut) : PdfOut :=
  { pages := o.pages.map (scalePage k), names := o.names.map (scaleDest k),
    outlines := o.outlines.map (scaleOutline k) }

theorem scale_linear (z : Rat) : scale z = z * scale 1 := by
  unfold scale; ring

/-- MediaBox is `zoom ×` the MediaBox at zoom 1. -/
theorem mediaBox_zoom (z : Rat) (p : Page) : mediaBox (scale z) p = scaleBox z (mediaBox (scale 1) p) := by
  simp only [mediaBox, mediaLeft, mediaTop, pageWidth, pageHeight, scaleBox, scale, Box4.mk.injEq]
  refine ⟨?_, ?_, ?_, ?_⟩ <;> ring

/-- TrimBox is the page box scaled: `[0, 0, scale·width, scale·height]` (F15 repaired: bleed × scale). -/
theorem trimBox_eq (s : Rat) (p : Page) : trimBox s p = ⟨0, 0, s * p.width, s * p.height⟩ := by
  simp only [trimBox, mediaBox, mediaLeft, mediaTop, pageWidth, pageHeight, Box4.mk.injEq]
  refine ⟨?_, ?_, ?_, ?_⟩ <;> ring

theorem trimBox_zoom (z : Rat) (p : Page) : trimBox (scale z) p = scaleBox z (trimBox (scale 1) p) := by
  simp only [trimBox_eq, scaleBox, scale, Box4.mk.injEq]
  refine ⟨?_, ?_, ?_, ?_⟩ <;> ring

/-- The page rectangle handed to the content stream (layout units) does not depend on zoom. -/
theorem pageRectangle_zoom_invariant (s : Rat) (hs : s ≠ 0) (p : Page) :
    pageRectangle s p =
      ⟨-p.bleed.left, -p.bleed.top, p.width + p.bleed.left + p.bleed.right,
       p.height + p.bleed.top + p.bleed.bottom⟩ := by
  simp only [pageRectangle, mediaBox, mediaLeft, mediaTop, pageWidth, pageHeight, Box4.mk.injEq]
  refine ⟨?_, ?_, ?_, ?_⟩ <;> field_simp <;> ring

/-- `matrix.transform_point` with the page matrix: x ↦ scale·x, y ↦ scale·(height − y). -/
theorem transformPoint_pageMatrix (s : Rat) (p : Page) (x y : Rat) :
    (pageMatrix s p).transformPoint x y = (s * x, s * (p.height - y)) := by
  simp only [pageMatrix, Matrix.transformPoint, Prod.mk.injEq]
  constructor <;> ring

theorem linkRect_zoom (z : Rat) (p : Page) (r : Rect) :
    linkRect (pageMatrix (scale z) p) r = scaleBox z (linkRect (pageMatrix (scale 1) p) r) := by
  simp only [linkRect, transformPoint_pageMatrix, scaleBox, scale, Box4.mk.injEq]
  refine ⟨?_, ?_, ?_, ?_⟩ <;> ring

/-- Link annotations: same links, rectangles scaled. -/
theorem annots_zoom (z : Rat) (p : Page) (links : List Link) :
    annots (pageMatrix (scale z) p) links = (annots (pageMatrix (scale 1) p) links).map (scaleAnnot z) := by
  simp only [annots, List.map_map]
  apply List.map_congr_left
  intro l _
  simp only [Function.comp, scaleAnnot]
  rw [linkRect_zoom]

/-- Named destinations: same names and pages, points scaled. -/
theorem dests_zoom (z : Rat) (p : Page) (i : Nat) (as : List Anchor) :
    dests (pageMatrix (scale z) p) i as = (dests (pageMatrix (scale 1) p) i as).map (scaleDest z) := by
  simp only [dests, List.map_map]
  apply List.map_congr_left
  intro a _
  simp only [Function.comp, transformPoint_pageMatrix, scaleDest, scale, Dest.mk.injEq, true_and]
  constructor <;> ring

/-- The uncapped BleedBox offsets. -/
def capFree (s : Rat) (p : Page) : Prop :=
  p.bleed.left * s < 10 ∧ p.bleed.top * s < 10 ∧ p.bleed.right * s < 10 ∧ p.bleed.bottom * s < 10

instance (s : Rat) (p : Page) : Decidable (capFree s p) := by unfold capFree; infer_instance

/-- BleedBox = MediaBox whenever no offset reaches the 10 pt cap. -/
theorem bleedBox_eq_media_of_capFree (s : Rat) (p : Page) (h : capFree s p) : bleedBox s p = mediaBox s p := by
  obtain ⟨h1, h2, h3, h4⟩ := h
  simp only [bleedBox, trimBox, min10, h1, h2, h3, h4, if_true, mediaBox, Box4.mk.injEq]
  refine ⟨?_, ?_, ?_, ?_⟩ <;> ring

/-- `zoom_linear` for BleedBox.  Full statement (false: `Witness.C19.bleedbox_cap_not_linear`):
`∀ z p, bleedBox (scale z) p = scaleBox z (bleedBox (scale 1) p)`.  Proved when no offset reaches the cap at either
zoom. -/
theorem bleedBox_zoom_partial (z : Rat) (p : Page) (h1 : capFree (scale 1) p) (hz : capFree (scale z) p) :
    bleedBox (scale z) p = scaleBox z (bleedBox (scale 1) p) := by
  rw [bleedBox_eq_media_of_capFree _ _ h1, bleedBox_eq_media_of_capFree _ _ hz, mediaBox_zoom]

private theorem min10_le (x : Rat) : min10 x ≤ 10 := by
  unfold min10; split <;> linarith

private theorem min10_le_self (x : Rat) : min10 x ≤ x := by
  unfold min10; split <;> linarith

private theorem min10_nonneg (x : Rat) (h : 0 ≤ x) : 0 ≤ min10 x := by
  unfold min10; split <;> linarith

/-- What does hold at every zoom: for non-negative bleeds and scale, TrimBox ⊆ BleedBox ⊆ MediaBox, and the
BleedBox is at most 10 pt away from the TrimBox. -/
theorem bleedBox_between (s : Rat) (p : Page) (hs : 0 ≤ s) (hl : 0 ≤ p.bleed.left) (ht : 0 ≤ p.bleed.top)
    (hr : 0 ≤ p.bleed.right) (hb : 0 ≤ p.bleed.bottom) :
    let m := mediaBox s p; let t := trimBox s p; let b := bleedBox s p
    m.x1 ≤ b.x1 ∧ b.x1 ≤ t.x1 ∧ m.y1 ≤ b.y1 ∧ b.y1 ≤ t.y1 ∧
    t.x2 ≤ b.x2 ∧ b.x2 ≤ m.x2 ∧ t.y2 ≤ b.y2 ∧ b.y2 ≤ m.y2 ∧
    t.x1 - b.x1 ≤ 10 ∧ t.y1 - b.y1 ≤ 10 ∧ b.x2 - t.x2 ≤ 10 ∧ b.y2 - t.y2 ≤ 10 := by
  have e1 := min10_le_self (p.bleed.left * s)
  have e2 := min10_le_self (p.bleed.top * s)
  have e3 := min10_le_self (p.bleed.right * s)
  have e4 := min10_le_self (p.bleed.bottom * s)
  have n1 := min10_nonneg _ (Rat.mul_nonneg hl hs)
  have n2 := min10_nonneg _ (Rat.mul_nonneg ht hs)
  have n3 := min10_nonneg _ (Rat.mul_nonneg hr hs)
  have n4 := min10_nonneg _ (Rat.mul_nonneg hb hs)
  have c1 := min10_le (p.bleed.left * s)
  have c2 := min10_le (p.bleed.top * s)
  have c3 := min10_le (p.bleed.right * s)
  have c4 := min10_le (p.bleed.bottom * s)
  simp only [bleedBox, trimBox, mediaBox]
  refine ⟨?_, ?_, ?_, ?_, ?_, ?_, ?_, ?_, ?_, ?_, ?_, ?_⟩ <;> linarith

/-! ### the whole document -/

private theorem scale_ne_zero {z : Rat} (hz : z ≠ 0) : scale z ≠ 0 := by
  unfold scale
  intro h
  rcases Rat.mul_eq_zero.mp h with h | h
  · exact hz h
  · revert h; decide +kernel

private theorem scale_eq_zero_iff (z : Rat) : scale z = 0 ↔ z = 0 := by
  constructor
  · intro h
    by_cases hz : z = 0
    · exact hz
    · exact absurd h (scale_ne_zero hz)
  · intro h; subst h; unfold scale; simp

private theorem pageOutlines_zoom (z : Rat) (i : Nat) (p : Page) (st : BmState) (bs : List Bookmark) :
    pageOutlines (scale z) i p st bs =
      (pageOutlines (scale 1) i p st bs).map (fun r => (r.1.map (scaleOutline z), r.2)) := by
  induction bs generalizing st with
  | nil => rfl
  | cons b rest ih =>
    simp only [pageOutlines]
    cases h : bookmarkStep st b.level with
    | error e => rfl
    | ok r =>
      obtain ⟨st', depth⟩ := r
      simp only []
      rw [ih st']
      cases h2 : pageOutlines (scale 1) i p st' rest with
      | error e => rfl
      | ok r2 =>
        obtain ⟨out, st''⟩ := r2
        simp only [Except.map, List.map_cons, transformPoint_pageMatrix, scaleOutline, scale,
          Except.ok.injEq, Prod.mk.injEq, List.cons.injEq, Outline.mk.injEq, true_and, and_true]
        constructor <;> ring

/-- Outline items: same labels, depths, pages and states (and the same exceptions); points scaled. -/
theorem docOutlines_zoom (z : Rat) (i : Nat) (st : BmState) (ps : List Page) :
    docOutlines (scale z) i st ps = (docOutlines (scale 1) i st ps).map (List.map (scaleOutline z)) := by
  induction ps generalizing i st with
  | nil => rfl
  | cons p rest ih =>
    simp only [docOutlines]
    rw [pageOutlines_zoom]
    cases h : pageOutlines (scale 1) i p st p.bookmarks with
    | error e => rfl
    | ok r =>
      obtain ⟨out, st'⟩ := r
      simp only [Except.map]
      rw [ih]
      cases h2 : docOutlines (scale 1) (i + 1) st' rest with
      | error e => rfl
      | ok out' => simp [Except.map]

/-- Drop the one quantity that is capped in points: the BleedBox is replaced by the TrimBox. -/
def noBleed (p : PagePdf) : PagePdf := { p with bleed := p.trim }

def eraseBleed (o : PdfOut) : PdfOut := { o with pages := o.pages.map noBleed }

private theorem pagePdf_zoom_noBleed (z : Rat) (hz : z ≠ 0) (p : Page) (links : List Link) :
    noBleed (pagePdf (scale z) p links) = scalePage z (noBleed (pagePdf (scale 1) p links)) := by
  have h1 : scale 1 ≠ 0 := scale_ne_zero (by decide +kernel)
  simp only [noBleed, pagePdf, scalePage, mediaBox_zoom z, trimBox_zoom z, annots_zoom z,
    pageRectangle_zoom_invariant _ (scale_ne_zero hz), pageRectangle_zoom_invariant _ h1, PagePdf.mk.injEq,
    true_and, and_true]
  constructor <;> (unfold scale; ring)

private theorem pagePdf_zoom_capFree (z : Rat) (hz : z ≠ 0) (p : Page) (links : List Link)
    (h1 : capFree (scale 1) p) (hc : capFree (scale z) p) :
    pagePdf (scale z) p links = scalePage z (pagePdf (scale 1) p links) := by
  have h0 : scale 1 ≠ 0 := scale_ne_zero (by decide +kernel)
  simp only [pagePdf, scalePage, mediaBox_zoom z, trimBox_zoom z, annots_zoom z, bleedBox_zoom_partial z p h1 hc,
    pageRectangle_zoom_invariant _ (scale_ne_zero hz), pageRectangle_zoom_invariant _ h0, PagePdf.mk.injEq,
    true_and, and_true]
  constructor <;> (unfold scale; ring)

private theorem pagesPdf_zoom_noBleed (z : Rat) (hz : z ≠ 0) (ps : List Page) (las : List (List Link × List Anchor)) :
    (pagesPdf (scale z) ps las).map noBleed = ((pagesPdf (scale 1) ps las).map noBleed).map (scalePage z) := by
  induction ps generalizing las with
  | nil => simp [pagesPdf]
  | cons p rest ih =>
    cases las with
    | nil => simp [pagesPdf]
    | cons la las =>
      simp only [pagesPdf, List.map_cons, List.cons.injEq]
      exact ⟨pagePdf_zoom_noBleed z hz p la.1, ih las⟩

private theorem pagesPdf_zoom_capFree (z : Rat) (hz : z ≠ 0) (ps : List Page) (las : List (List Link × List Anchor))
    (hc : ∀ p ∈ ps, capFree (scale 1) p ∧ capFree (scale z) p) :
    pagesPdf (scale z) ps las = (pagesPdf (scale 1) ps las).map (scalePage z) := by
  induction ps generalizing las with
  | nil => simp [pagesPdf]
  | cons p rest ih =>
    cases las with
    | nil => simp [pagesPdf]
    | cons la las =>
      simp only [pagesPdf, List.map_cons, List.cons.injEq]
      refine ⟨pagePdf_zoom_capFree z hz p la.1 (hc p (by simp)).1 (hc p (by simp)).2, ih las ?_⟩
      intro q hq
      exact hc q (by simp [hq])

private theorem allDests_zoom (z : Rat) (i : Nat) (ps : List Page) (las : List (List Link × List Anchor)) :
    allDests (scale z) i ps las = (allDests (scale 1) i ps las).map (scaleDest z) := by
  induction ps generalizing i las with
  | nil => simp [allDests]
  | cons p rest ih =>
    cases las with
    | nil => simp [allDests]
    | cons la las => simp only [allDests, List.map_append, dests_zoom z, ih]

private theorem sortDests_scale (z : Rat) (ds : List Dest) :
    sortDests (ds.map (scaleDest z)) = (sortDests ds).map (scaleDest z) := by
  unfold sortDests
  symm
  apply List.map_mergeSort
  intro a _ b _
  rfl

/-- **zoom_linear** (everything but the BleedBox, full strength): for every zoom ≠ 0, document, selection and variant,
`generate_pdf` at `zoom` fails exactly when it fails at zoom 1, and otherwise every MediaBox, TrimBox, page-flip and
paint matrix entry, link rectangle, named destination and outline point is `zoom ×` its value at zoom 1, while page
count, link targets, destination names and pages, outline labels / depths / states and the page rectangle are
unchanged.  Layout is not an input of the scaling: `scaleOut` only multiplies. -/
theorem zoom_linear (z : Rat) (hz : z ≠ 0) (ua : Bool) (d : Document) :
    (generatePdf z ua d).map eraseBleed = (generatePdf 1 ua d).map (fun o => scaleOut z (eraseBleed o)) := by
  have h1 : (1 : Rat) ≠ 0 := by decide +kernel
  unfold generatePdf
  simp only [scale_eq_zero_iff, hz, h1, false_and, if_false]
  rw [docOutlines_zoom z]
  cases h : docOutlines (scale 1) 0 ⟨[], 0⟩ d.pages with
  | error e => rfl
  | ok outlines =>
    simp only [Except.map]
    by_cases c2 : ua = true ∧ d.hasHtml = false ∧ d.pages ≠ []
    · simp only [if_pos c2]
    · · simp only [if_neg c2, eraseBleed, scaleOut, Except.ok.injEq, PdfOut.mk.injEq, and_true,
          List.map_map]
        refine ⟨?_, ?_⟩
        · have := pagesPdf_zoom_noBleed z hz d.pages (resolveLinks d.pages)
          simpa [List.map_map] using this
        · rw [allDests_zoom z, sortDests_scale]

/-- **zoom_linear** including the BleedBox.  Full statement (false because of the 10 pt cap,
`Witness.C19.bleedbox_cap_not_linear`): the same without `hcap`.  Proved when no bleed offset reaches the cap at
zoom 1 or at `zoom`. -/
theorem zoom_linear_partial (z : Rat) (hz : z ≠ 0) (ua : Bool) (d : Document)
    (hcap : ∀ p ∈ d.pages, capFree (scale 1) p ∧ capFree (scale z) p) :
    generatePdf z ua d = (generatePdf 1 ua d).map (scaleOut z) := by
  have h1 : (1 : Rat) ≠ 0 := by decide +kernel
  unfold generatePdf
  simp only [scale_eq_zero_iff, hz, h1, false_and, if_false]
  rw [docOutlines_zoom z]
  cases h : docOutlines (scale 1) 0 ⟨[], 0⟩ d.pages with
  | error e => rfl
  | ok outlines =>
    simp only [Except.map]
    by_cases c2 : ua = true ∧ d.hasHtml = false ∧ d.pages ≠ []
    · simp only [if_pos c2]
    · · simp only [if_neg c2, scaleOut, Except.ok.injEq, PdfOut.mk.injEq, and_true]
        refine ⟨pagesPdf_zoom_capFree z hz d.pages _ hcap, ?_⟩
        rw [allDests_zoom z, sortDests_scale]

/-- Zoom 0 is the only zoom at which `generate_pdf` fails on a document that zoom 1 accepts. -/
theorem zoom_zero_fails (ua : Bool) (d : Document) (h : d.pages ≠ []) :
    generatePdf 0 ua d = .error (.zeroDivision "generate_pdf.page_rectangle") := by
  unfold generatePdf
  simp [scale, h]

/-- A document on which the hypotheses of `zoom_linear_partial` hold and `generate_pdf` succeeds. -/
def exampleDoc : Document :=
  ⟨[⟨100, 80, ⟨4, 2, 1, 3⟩, [⟨.internal, "a", ⟨10, 20, 30, 40⟩⟩], [⟨"a", 10, 10⟩], [⟨1, "t", 10, 10, false⟩]⟩],
   1, 2, 3, true⟩

example : (2 : Rat) ≠ 0 ∧ (∀ p ∈ exampleDoc.pages, capFree (scale 1) p ∧ capFree (scale 2) p) := by
  refine ⟨by norm_num, ?_⟩
  intro p hp
  simp only [exampleDoc, List.mem_singleton] at hp
  subst hp
  norm_num [capFree, scale]


/-! ### totality: for bookmark levels ≥ 1 (what `gather_anchors` produces) the asserts of `make_page_bookmark_tree`
hold and `skipped_levels.pop()` never hits an empty list, so `zoom_linear` speaks about successful runs -/

private def sumL (s : List Nat) : Nat := s.foldl (· + ·) 0

private theorem foldl_add (a : Nat) (s : List Nat) : s.foldl (· + ·) a = a + s.foldl (· + ·) 0 := by
  induction s generalizing a with
  | nil => simp
  | cons k rest ih => simp only [List.foldl_cons]; rw [ih (a + k), ih (0 + k)]; omega

private theorem sumL_cons (k : Nat) (s : List Nat) : sumL (k :: s) = k + sumL s := by
  simp only [sumL, List.foldl_cons]; rw [foldl_add]; omega

/-- Loop invariant of `make_page_bookmark_tree`: `previous_level = len(skipped_levels) + sum(skipped_levels)`. -/
private def BmInv (st : BmState) : Prop := st.prev = st.skipped.length + sumL st.skipped

private theorem popWhile_ok (prev : Nat) (stack : List Nat) (temp : Nat)
    (h : prev ≤ temp + stack.length + sumL stack) :
    ∃ t r, popWhile prev temp stack = .ok (t, r) ∧ t + r.length + sumL r = temp + stack.length + sumL stack ∧
      prev ≤ t := by
  induction stack generalizing temp with
  | nil =>
    have : ¬ temp < prev := by simp [sumL] at h; omega
    exact ⟨temp, [], by simp [popWhile, this], rfl, by omega⟩
  | cons k rest ih =>
    by_cases ht : temp < prev
    · obtain ⟨t, r, h1, h2, h3⟩ := ih (temp + 1 + k) (by rw [sumL_cons] at h; simp at h ⊢; omega)
      refine ⟨t, r, by simp [popWhile, ht, h1], ?_, h3⟩
      rw [h2, sumL_cons]; simp; omega
    · exact ⟨temp, k :: rest, by simp [popWhile, ht], rfl, by omega⟩

private theorem checkDepth_ok (skipped : List Nat) (level : Nat) (hs : skipped.length + sumL skipped = level)
    (hl : 1 ≤ level) : checkDepth skipped level = .ok skipped.length := by
  have hsum : (skipped.foldl (· + ·) 0 : Nat) = sumL skipped := rfl
  have hd : (level : Int) - ((skipped.foldl (· + ·) 0 : Nat) : Int) = (skipped.length : Int) := by
    rw [hsum]; omega
  have hpos : ¬ ((skipped.length : Int) < 1) := by
    have : 1 ≤ skipped.length := by
      cases skipped with
      | nil => simp [sumL] at hs; omega
      | cons a b => simp
    omega
  simp only [checkDepth, hd, ne_eq, not_true_eq_false, if_false, hpos, Int.toNat_natCast]

private theorem newSkipped_ok (st : BmState) (level : Nat) (hinv : BmInv st) :
    ∃ sk, newSkipped st level = .ok sk ∧ sk.length + sumL sk = level := by
  unfold BmInv at hinv
  by_cases hgt : level > st.prev
  · exact ⟨(level - st.prev - 1) :: st.skipped, by simp [newSkipped, hgt], by rw [sumL_cons]; simp; omega⟩
  · obtain ⟨t, r, h1, h2, h3⟩ := popWhile_ok st.prev st.skipped level (by omega)
    by_cases ht : t > st.prev
    · exact ⟨(t - st.prev - 1) :: r, by simp [newSkipped, hgt, h1, ht], by rw [sumL_cons]; simp; omega⟩
    · exact ⟨r, by simp [newSkipped, hgt, h1, ht], by omega⟩

private theorem bookmarkStep_ok (st : BmState) (level : Nat) (hinv : BmInv st) (hl : 1 ≤ level) :
    ∃ st' depth, bookmarkStep st level = .ok (st', depth) ∧ BmInv st' := by
  obtain ⟨sk, h1, h2⟩ := newSkipped_ok st level hinv
  refine ⟨⟨sk, level⟩, sk.length, ?_, ?_⟩
  · simp [bookmarkStep, h1, checkDepth_ok sk level h2 hl]
  · simp only [BmInv]; omega

private theorem pageOutlines_ok (s : Rat) (i : Nat) (p : Page) (st : BmState) (bs : List Bookmark)
    (hinv : BmInv st) (hl : ∀ b ∈ bs, 1 ≤ b.level) :
    ∃ out st', pageOutlines s i p st bs = .ok (out, st') ∧ BmInv st' := by
  induction bs generalizing st with
  | nil => exact ⟨[], st, rfl, hinv⟩
  | cons b rest ih =>
    obtain ⟨st1, depth, h1, hinv1⟩ := bookmarkStep_ok st b.level hinv (hl b (by simp))
    obtain ⟨out, st2, h2, hinv2⟩ := ih st1 hinv1 (fun x hx => hl x (by simp [hx]))
    refine ⟨⟨depth, b.label, i, ((pageMatrix s p).transformPoint b.x b.y).1,
      ((pageMatrix s p).transformPoint b.x b.y).2, b.closed⟩ :: out, st2, ?_, hinv2⟩
    simp only [pageOutlines, h1, h2]

private theorem docOutlines_ok (s : Rat) (i : Nat) (st : BmState) (ps : List Page) (hinv : BmInv st)
    (hl : ∀ p ∈ ps, ∀ b ∈ p.bookmarks, 1 ≤ b.level) : ∃ out, docOutlines s i st ps = .ok out := by
  induction ps generalizing i st with
  | nil => exact ⟨[], rfl⟩
  | cons p rest ih =>
    obtain ⟨out, st1, h1, hinv1⟩ := pageOutlines_ok s i p st p.bookmarks hinv (hl p (by simp))
    obtain ⟨out2, h2⟩ := ih (i + 1) st1 hinv1 (fun q hq => hl q (by simp [hq]))
    refine ⟨out ++ out2, ?_⟩
    simp only [docOutlines, h1, h2]

/-- `generate_pdf` is total on its domain: zoom ≠ 0, bookmark levels ≥ 1 (what `gather_anchors` records), a variant
that does not need the HTML tree.  Neither `ZeroDivisionError`, nor the `IndexError` of `skipped_levels.pop()`, nor
the two `assert`s of `make_page_bookmark_tree` can occur. -/
theorem generatePdf_total (z : Rat) (hz : z ≠ 0) (d : Document)
    (hl : ∀ p ∈ d.pages, ∀ b ∈ p.bookmarks, 1 ≤ b.level) : ∃ o, generatePdf z false d = .ok o := by
  obtain ⟨out, h⟩ := docOutlines_ok (scale z) 0 ⟨[], 0⟩ d.pages (by simp [BmInv, sumL]) hl
  have hs : ¬ (scale z = 0 ∧ d.pages ≠ []) := fun c => scale_ne_zero hz c.1
  refine ⟨⟨pagesPdf (scale z) d.pages (resolveLinks d.pages),
    sortDests (allDests (scale z) 0 d.pages (resolveLinks d.pages)), out⟩, ?_⟩
  simp only [generatePdf, if_neg hs, h, Bool.false_eq_true, false_and, if_false]


example : ∀ p ∈ exampleDoc.pages, ∀ b ∈ p.bookmarks, 1 ≤ b.level := by decide

/-! ## 2 copy(pages) -/

theorem copy_all_pages (d : Document) : (copy d .all).pages = d.pages := rfl

theorem copy_selected_pages (d : Document) (ps : List Page) : (copy d (.pages ps)).pages = ps := rfl

/-- `copy` passes on metadata, fetcher, font configuration and the source HTML (repaired: `copy-drops-html`). -/
theorem copy_keeps (d : Document) (s : Sel) :
    (copy d s).metadata = d.metadata ∧ (copy d s).urlFetcher = d.urlFetcher ∧
    (copy d s).fontConfig = d.fontConfig ∧ (copy d s).hasHtml = d.hasHtml := by
  cases s <;> exact ⟨rfl, rfl, rfl, rfl⟩

/-- A copy of a copy is the copy of the original with the last selection. -/
theorem copy_copy (d : Document) (s : Sel) (ps : List Page) : copy (copy d s) (.pages ps) = copy d (.pages ps) := by
  cases s <;> rfl

private theorem pagedAnchors_length (seen : List String) (ps : List Page) :
    (pagedAnchors seen ps).1.length = ps.length := by
  induction ps generalizing seen with
  | nil => rfl
  | cons p rest ih => simp [pagedAnchors, ih]

private theorem secondPass_fst (names : List String) (ps : List Page) (as : List (List Anchor))
    (h : as.length = ps.length) :
    (secondPass names ps as).map (·.1) = ps.map (fun p => p.links.filter (keepLink names)) := by
  induction ps generalizing as with
  | nil => cases as <;> simp [secondPass]
  | cons p rest ih =>
    cases as with
    | nil => simp at h
    | cons a as =>
      simp only [secondPass, List.map_cons, List.cons.injEq, true_and]
      exact ih as (by simpa using h)

private theorem secondPass_snd (names : List String) (ps : List Page) (as : List (List Anchor))
    (h : as.length = ps.length) : (secondPass names ps as).map (·.2) = as := by
  induction ps generalizing as with
  | nil => cases as with
    | nil => rfl
    | cons a as => simp at h
  | cons p rest ih =>
    cases as with
    | nil => simp at h
    | cons a as =>
      simp only [secondPass, List.map_cons, List.cons.injEq, true_and]
      exact ih as (by simpa using h)

/-- `resolve_links` yields one entry per page. -/
theorem resolveLinks_length (ps : List Page) : (resolveLinks ps).length = ps.length := by
  have h := secondPass_fst (anchorNames ps) ps (pagedAnchors [] ps).1 (pagedAnchors_length [] ps)
  have := congrArg List.length h
  simpa [resolveLinks, anchorNames] using this

/-- The links `resolve_links` keeps on each page: all but the internal links whose target is anchored nowhere in the
page list. -/
theorem resolveLinks_links (ps : List Page) :
    (resolveLinks ps).map (·.1) = ps.map (fun p => p.links.filter (keepLink (anchorNames ps))) :=
  secondPass_fst (anchorNames ps) ps (pagedAnchors [] ps).1 (pagedAnchors_length [] ps)

theorem resolveLinks_anchors (ps : List Page) : (resolveLinks ps).map (·.2) = (pagedAnchors [] ps).1 :=
  secondPass_snd (anchorNames ps) ps (pagedAnchors [] ps).1 (pagedAnchors_length [] ps)

private theorem pageAnchors_spec (seen : List String) (as : List Anchor) :
    (∀ n, n ∈ (pageAnchors seen as).2 ↔ n ∈ seen ∨ n ∈ (pageAnchors seen as).1.map (·.name)) ∧
    (∀ n, n ∈ (pageAnchors seen as).2 ↔ n ∈ seen ∨ n ∈ as.map (·.name)) ∧
    ((pageAnchors seen as).1.map (·.name)).Nodup ∧
    (∀ n ∈ (pageAnchors seen as).1.map (·.name), n ∉ seen) := by
  induction as generalizing seen with
  | nil => simp [pageAnchors]
  | cons a rest ih =>
    by_cases h : a.name ∈ seen
    · simp only [pageAnchors, h, if_true]
      obtain ⟨i1, i2, i3, i4⟩ := ih seen
      refine ⟨i1, ?_, i3, i4⟩
      intro n
      rw [i2 n]
      simp only [List.map_cons, List.mem_cons]
      constructor
      · rintro (hn | hn)
        · exact Or.inl hn
        · exact Or.inr (Or.inr hn)
      · rintro (hn | hn | hn)
        · exact Or.inl hn
        · subst hn; exact Or.inl h
        · exact Or.inr hn
    · simp only [pageAnchors, h, if_false]
      obtain ⟨i1, i2, i3, i4⟩ := ih (a.name :: seen)
      refine ⟨?_, ?_, ?_, ?_⟩
      · intro n
        rw [i1 n]
        simp only [List.mem_cons, List.map_cons]
        constructor
        · rintro ((hn | hn) | hn)
          · exact Or.inr (Or.inl hn)
          · exact Or.inl hn
          · exact Or.inr (Or.inr hn)
        · rintro (hn | hn | hn)
          · exact Or.inl (Or.inr hn)
          · exact Or.inl (Or.inl hn)
          · exact Or.inr hn
      · intro n
        rw [i2 n]
        simp only [List.mem_cons, List.map_cons]
        constructor
        · rintro ((hn | hn) | hn)
          · exact Or.inr (Or.inl hn)
          · exact Or.inl hn
          · exact Or.inr (Or.inr hn)
        · rintro (hn | hn | hn)
          · exact Or.inl (Or.inr hn)
          · exact Or.inl (Or.inl hn)
          · exact Or.inr hn
      · simp only [List.map_cons, List.nodup_cons]
        refine ⟨?_, i3⟩
        intro hm
        exact i4 _ hm (by simp)
      · intro n hn
        simp only [List.map_cons, List.mem_cons] at hn
        rcases hn with hn | hn
        · subst hn; exact h
        · intro hs
          exact i4 n hn (by simp [hs])

/-- All names kept by the first pass, page after page. -/
def keptNames (seen : List String) (ps : List Page) : List String :=
  ((pagedAnchors seen ps).1.flatMap id).map (·.name)

private theorem pagedAnchors_spec (seen : List String) (ps : List Page) :
    (∀ n, n ∈ (pagedAnchors seen ps).2 ↔ n ∈ seen ∨ n ∈ keptNames seen ps) ∧
    (∀ n, n ∈ (pagedAnchors seen ps).2 ↔ n ∈ seen ∨ ∃ p ∈ ps, n ∈ p.anchors.map (·.name)) ∧
    (keptNames seen ps).Nodup ∧
    (∀ n ∈ keptNames seen ps, n ∉ seen) := by
  induction ps generalizing seen with
  | nil => simp [pagedAnchors, keptNames]
  | cons p rest ih =>
    obtain ⟨a1, a2, a3, a4⟩ := pageAnchors_spec seen p.anchors
    obtain ⟨i1, i2, i3, i4⟩ := ih (pageAnchors seen p.anchors).2
    have hk : keptNames seen (p :: rest) =
        (pageAnchors seen p.anchors).1.map (·.name) ++ keptNames (pageAnchors seen p.anchors).2 rest := by
      simp [keptNames, pagedAnchors]
    refine ⟨?_, ?_, ?_, ?_⟩
    · intro n
      show n ∈ (pagedAnchors (pageAnchors seen p.anchors).2 rest).2 ↔ _
      rw [i1 n, a1 n, hk, List.mem_append]
      constructor
      · rintro ((hn | hn) | hn)
        · exact Or.inl hn
        · exact Or.inr (Or.inl hn)
        · exact Or.inr (Or.inr hn)
      · rintro (hn | hn | hn)
        · exact Or.inl (Or.inl hn)
        · exact Or.inl (Or.inr hn)
        · exact Or.inr hn
    · intro n
      show n ∈ (pagedAnchors (pageAnchors seen p.anchors).2 rest).2 ↔ _
      rw [i2 n, a2 n]
      constructor
      · rintro ((hn | hn) | ⟨q, hq, hn⟩)
        · exact Or.inl hn
        · exact Or.inr ⟨p, by simp, hn⟩
        · exact Or.inr ⟨q, by simp [hq], hn⟩
      · rintro (hn | ⟨q, hq, hn⟩)
        · exact Or.inl (Or.inl hn)
        · simp only [List.mem_cons] at hq
          rcases hq with hq | hq
          · subst hq; exact Or.inl (Or.inr hn)
          · exact Or.inr ⟨q, hq, hn⟩
    · rw [hk, List.nodup_append]
      refine ⟨a3, i3, ?_⟩
      intro x hx y hy hxy
      subst hxy
      exact i4 x hy ((a1 x).mpr (Or.inr hx))
    · intro n hn
      rw [hk, List.mem_append] at hn
      rcases hn with hn | hn
      · exact a4 n hn
      · intro hs
        exact i4 n hn ((a1 n).mpr (Or.inl hs))

/-- The `anchors` set of `resolve_links` is exactly the set of names anchored on some page of the list. -/
theorem mem_anchorNames (ps : List Page) (n : String) :
    n ∈ anchorNames ps ↔ ∃ p ∈ ps, n ∈ p.anchors.map (·.name) := by
  have := (pagedAnchors_spec [] ps).2.1 n
  simpa [anchorNames] using this

/-- …and also the set of names of the destinations it emits, each exactly once (first occurrence wins). -/
theorem mem_anchorNames_kept (ps : List Page) (n : String) : n ∈ anchorNames ps ↔ n ∈ keptNames [] ps := by
  have := (pagedAnchors_spec [] ps).1 n
  simpa [anchorNames] using this

theorem keptNames_nodup (ps : List Page) : (keptNames [] ps).Nodup := (pagedAnchors_spec [] ps).2.2.1


private theorem pagesPdf_geometry (s : Rat) (ps : List Page) (las : List (List Link × List Anchor))
    (h : las.length = ps.length) :
    (pagesPdf s ps las).map (fun pp => (pp.media, pp.trim, pp.bleed, pp.flipF, pp.paintScale)) =
      ps.map (fun p => (mediaBox s p, trimBox s p, bleedBox s p, p.height * s, s)) := by
  induction ps generalizing las with
  | nil => cases las <;> simp [pagesPdf]
  | cons p rest ih =>
    cases las with
    | nil => simp at h
    | cons la las =>
      simp only [pagesPdf, List.map_cons, List.cons.injEq]
      exact ⟨rfl, ih las (by simpa using h)⟩

private theorem pagesPdf_annots (s : Rat) (f : Page → List Link) (ps : List Page)
    (las : List (List Link × List Anchor)) (h : las.map (·.1) = ps.map f) :
    (pagesPdf s ps las).map (·.annots) = ps.map (fun p => annots (pageMatrix s p) (f p)) := by
  induction ps generalizing las with
  | nil => cases las <;> simp [pagesPdf]
  | cons p rest ih =>
    cases las with
    | nil => simp at h
    | cons la las =>
      simp only [List.map_cons, List.cons.injEq] at h
      simp only [pagesPdf, List.map_cons, List.cons.injEq]
      refine ⟨?_, ih las h.2⟩
      simp only [pagePdf, h.1]

private theorem allDests_names (s : Rat) (i : Nat) (ps : List Page) (las : List (List Link × List Anchor))
    (h : las.length = ps.length) :
    (allDests s i ps las).map (·.name) = ((las.map (·.2)).flatMap id).map (·.name) := by
  induction ps generalizing i las with
  | nil => cases las with
    | nil => rfl
    | cons a as => simp at h
  | cons p rest ih =>
    cases las with
    | nil => simp at h
    | cons la las =>
      simp only [allDests, List.map_append, List.map_cons, List.flatMap_cons, id]
      rw [ih (i + 1) las (by simpa using h)]
      simp [dests]

private theorem allDests_page (s : Rat) (i : Nat) (ps : List Page) (las : List (List Link × List Anchor)) :
    ∀ dd ∈ allDests s i ps las, i ≤ dd.page ∧ dd.page < i + ps.length := by
  induction ps generalizing i las with
  | nil => intro dd h; cases las <;> simp [allDests] at h
  | cons p rest ih =>
    cases las with
    | nil => intro dd h; simp [allDests] at h
    | cons la las =>
      intro dd h
      simp only [allDests, List.mem_append] at h
      rcases h with h | h
      · simp only [dests, List.mem_map] at h
        obtain ⟨a, _, rfl⟩ := h
        simp
      · have := ih (i + 1) las dd h
        simp only [List.length_cons]
        omega

private theorem mem_sortDests (ds : List Dest) (x : Dest) : x ∈ sortDests ds ↔ x ∈ ds := by
  unfold sortDests
  exact List.mem_mergeSort

private theorem sortDests_names_perm (ds : List Dest) :
    ((sortDests ds).map (·.name)).Perm (ds.map (·.name)) := by
  unfold sortDests
  exact (List.mergeSort_perm ds _).map _

/-- What a successful `generate_pdf` (any variant) writes for a page list: one page per page of the list with the boxes
that page has in any document, its own links minus internal links to names not anchored in the list, and the
first-occurrence destinations. -/
theorem generatePdf_spec (z : Rat) (ua : Bool) (d : Document) (o : PdfOut) (h : generatePdf z ua d = .ok o) :
    o.pages.map (fun pp => (pp.media, pp.trim, pp.bleed, pp.flipF, pp.paintScale)) =
      d.pages.map (fun p => (mediaBox (scale z) p, trimBox (scale z) p, bleedBox (scale z) p,
        p.height * scale z, scale z)) ∧
    o.pages.map (·.annots) =
      d.pages.map (fun p => annots (pageMatrix (scale z) p) (p.links.filter (keepLink (anchorNames d.pages)))) ∧
    (∀ pp ∈ o.pages, ∀ a ∈ pp.annots, a.kind = .internal → a.target ∈ o.names.map (·.name)) ∧
    (∀ n, n ∈ o.names.map (·.name) ↔ ∃ p ∈ d.pages, n ∈ p.anchors.map (·.name)) ∧
    (o.names.map (·.name)).Nodup ∧
    (∀ dd ∈ o.names, dd.page < d.pages.length) := by
  simp only [generatePdf] at h
  split at h
  · cases h
  · split at h
    · cases h
    · split at h
      · cases h
      simp only [Except.ok.injEq] at h
      subst h
      generalize d.pages = ps
      have hlen := resolveLinks_length ps
      have hnames : ((sortDests (allDests (scale z) 0 ps (resolveLinks ps))).map (·.name)).Perm (keptNames [] ps) := by
        refine (sortDests_names_perm _).trans ?_
        rw [allDests_names _ _ _ _ hlen, resolveLinks_anchors]
        exact List.Perm.refl _
      have hmem : ∀ n, n ∈ (sortDests (allDests (scale z) 0 ps (resolveLinks ps))).map (·.name) ↔
          n ∈ anchorNames ps := by
        intro n
        rw [hnames.mem_iff, mem_anchorNames_kept]
      have hann := pagesPdf_annots (scale z) (fun p => p.links.filter (keepLink (anchorNames ps))) ps
        (resolveLinks ps) (resolveLinks_links ps)
      refine ⟨pagesPdf_geometry _ _ _ hlen, hann, ?_, ?_, ?_, ?_⟩
      · intro pp hpp a ha hk
        rw [hmem]
        have : pp.annots ∈ (pagesPdf (scale z) ps (resolveLinks ps)).map (·.annots) :=
          List.mem_map.mpr ⟨pp, hpp, rfl⟩
        rw [hann] at this
        obtain ⟨p, _, hp⟩ := List.mem_map.mp this
        rw [← hp] at ha
        simp only [annots, List.mem_map, List.mem_filter] at ha
        obtain ⟨l, ⟨⟨_, hkeep⟩, _⟩, rfl⟩ := ha
        simp only at hk
        simpa [keepLink, hk] using hkeep
      · intro n
        rw [hmem, mem_anchorNames]
      · exact hnames.nodup_iff.mpr (keptNames_nodup ps)
      · intro dd hdd
        have := allDests_page (scale z) 0 ps (resolveLinks ps) dd ((mem_sortDests _ _).mp hdd)
        omega

/-- **copy_pages** (full strength since `Document.copy` keeps the source HTML: every variant, `pdf/ua-1` included).
Whenever `generate_pdf` succeeds on `document.copy(ps)`:
* it writes one page per selected page, in the selected order, and the boxes / flip / paint scale of each are the ones
  that page has in any document (functions of the page alone: the same as in the PDF of the whole document,
  `copy_geometry_agrees`);
* the link annotations of each page are its own links except internal links whose target is not anchored on a selected
  page — links to unselected pages are dropped, never left dangling;
* the named destinations are exactly the anchor names of the selected pages, each once, on a page of the copy. -/
theorem copy_pages (z : Rat) (ua : Bool) (d : Document) (ps : List Page) (o : PdfOut)
    (h : generatePdf z ua (copy d (.pages ps)) = .ok o) :
    o.pages.map (fun pp => (pp.media, pp.trim, pp.bleed, pp.flipF, pp.paintScale)) =
      ps.map (fun p => (mediaBox (scale z) p, trimBox (scale z) p, bleedBox (scale z) p,
        p.height * scale z, scale z)) ∧
    o.pages.map (·.annots) =
      ps.map (fun p => annots (pageMatrix (scale z) p) (p.links.filter (keepLink (anchorNames ps)))) ∧
    (∀ pp ∈ o.pages, ∀ a ∈ pp.annots, a.kind = .internal → a.target ∈ o.names.map (·.name)) ∧
    (∀ n, n ∈ o.names.map (·.name) ↔ ∃ p ∈ ps, n ∈ p.anchors.map (·.name)) ∧
    (o.names.map (·.name)).Nodup ∧
    (∀ dd ∈ o.names, dd.page < ps.length) :=
  generatePdf_spec z ua (copy d (.pages ps)) o h

/-- Page `i` of the copy has exactly the boxes, flip and paint scale that the same page has as page `j` of the PDF of
the whole document. -/
theorem copy_geometry_agrees (z : Rat) (ua : Bool) (d : Document) (ps : List Page) (oFull oCopy : PdfOut)
    (hf : generatePdf z ua d = .ok oFull) (hc : generatePdf z ua (copy d (.pages ps)) = .ok oCopy)
    (i j : Nat) (p : Page) (hi : ps[i]? = some p) (hj : d.pages[j]? = some p) :
    (oCopy.pages[i]?).map (fun pp => (pp.media, pp.trim, pp.bleed, pp.flipF, pp.paintScale)) =
    (oFull.pages[j]?).map (fun pp => (pp.media, pp.trim, pp.bleed, pp.flipF, pp.paintScale)) := by
  have h1 := congrArg (fun l => l[i]?) (copy_pages z ua d ps oCopy hc).1
  have h2 := congrArg (fun l => l[j]?) (generatePdf_spec z ua d oFull hf).1
  simp only [List.getElem?_map, hi, hj, Option.map_some] at h1 h2
  rw [h1, h2]

/-- `copy('all')` writes what the document itself writes, for every variant. -/
theorem copy_all_same_pdf (z : Rat) (ua : Bool) (d : Document) :
    generatePdf z ua (copy d .all) = generatePdf z ua d := rfl

/-- `generate_pdf` with a variant that reads the HTML tree (`pdf/ua-1`) is total for zoom ≠ 0, bookmark levels ≥ 1 and
a document that has its source HTML — or no page at all (full strength since `pdfua` initialises its loop variable:
`pdfua-empty-selection` repaired). -/
theorem generatePdf_pdfua_total (z : Rat) (hz : z ≠ 0) (d : Document)
    (hl : ∀ p ∈ d.pages, ∀ b ∈ p.bookmarks, 1 ≤ b.level) (hh : d.hasHtml = true ∨ d.pages = []) :
    ∃ o, generatePdf z true d = .ok o := by
  obtain ⟨out, h⟩ := docOutlines_ok (scale z) 0 ⟨[], 0⟩ d.pages (by simp [BmInv, sumL]) hl
  have hs : ¬ (scale z = 0 ∧ d.pages ≠ []) := fun c => scale_ne_zero hz c.1
  have hc : ¬ (True ∧ d.hasHtml = false ∧ d.pages ≠ []) := by
    rintro ⟨_, h1, h2⟩
    rcases hh with hh | hh
    · rw [hh] at h1; cases h1
    · exact h2 hh
  refine ⟨⟨pagesPdf (scale z) d.pages (resolveLinks d.pages),
    sortDests (allDests (scale z) 0 d.pages (resolveLinks d.pages)), out⟩, ?_⟩
  simp only [generatePdf, if_neg hs, h]
  exact if_neg hc

/-- The repairs of `copy-drops-html` and `pdfua-empty-selection` at theorem level: every selection (the empty one
included) of pages of a rendered document can be written as `pdf/ua-1`. -/
theorem copy_pdfua_succeeds (z : Rat) (hz : z ≠ 0) (d : Document) (ps : List Page)
    (hl : ∀ p ∈ ps, ∀ b ∈ p.bookmarks, 1 ≤ b.level) (hh : d.hasHtml = true) :
    ∃ o, generatePdf z true (copy d (.pages ps)) = .ok o :=
  generatePdf_pdfua_total z hz (copy d (.pages ps)) hl (Or.inl hh)

/-- Regression example for the repaired `pdfua-empty-selection`: the empty selection of a rendered document, and a
hand-made document without pages and without source HTML, are written as `pdf/ua-1` (and as a plain PDF). -/
example :
    let d : Document := ⟨[⟨100, 80, ⟨0, 0, 0, 0⟩, [], [], []⟩, ⟨100, 80, ⟨0, 0, 0, 0⟩, [], [], []⟩], 1, 2, 3, true⟩
    (generatePdf 1 true (copy d (.pages []))).toBool = true ∧ (generatePdf 1 false (copy d (.pages []))).toBool = true ∧
    (generatePdf 1 true ⟨[], 1, 2, 3, false⟩).toBool = true := by
  decide +kernel

/-- Regression example for the repaired `copy-drops-html`: a rendered two-page document, `copy('all')` and the copy of
its first page are all written as `pdf/ua-1`. -/
example :
    let d : Document := ⟨[⟨100, 80, ⟨0, 0, 0, 0⟩, [], [], []⟩, ⟨100, 80, ⟨0, 0, 0, 0⟩, [], [], []⟩], 1, 2, 3, true⟩
    (generatePdf 1 true d).toBool = true ∧ (generatePdf 1 true (copy d .all)).toBool = true ∧
    (generatePdf 1 true (copy d (.pages (d.pages.take 1)))).toBool = true := by
  decide +kernel

/-- The hypothesis of `copy_pages` is satisfiable: `generate_pdf` succeeds on a copy. -/
example : (∃ o, generatePdf 1 false (copy exampleDoc (.pages exampleDoc.pages)) = .ok o) ∧
    (∃ o, generatePdf 1 true (copy exampleDoc (.pages exampleDoc.pages)) = .ok o) :=
  ⟨generatePdf_total 1 (by norm_num) _ (by decide),
   copy_pdfua_succeeds 1 (by norm_num) exampleDoc exampleDoc.pages (by decide) rfl⟩


/-! ## 3 three sinks -/
section sinks
open Wp.WriteSinks

/-- **three_sinks**: whatever the options, the variant table and the finisher, the three kinds of target (`None`, a file
object, a path) either all fail before anything is written, or each calls `pdf.write` with the same
`(version, identifier, compress)`; only the sink differs. -/
theorem three_sinks (table : List (String × VariantProps)) (o : Opts) (fin : Bool) (t1 t2 : Target) :
    (writePdfWith table o fin t1).map writesOf = (writePdfWith table o fin t2).map writesOf := by
  unfold writePdfWith
  cases applyVariant table o with
  | error e => rfl
  | ok o' => cases fin <;> cases t1 <;> cases t2 <;> rfl

/-- Exactly one `pdf.write` per call, with the arguments computed before the branch on the target. -/
theorem one_write (table : List (String × VariantProps)) (o : Opts) (fin : Bool) (t : Target) (evs : List Event)
    (h : writePdfWith table o fin t = .ok evs) :
    ∃ o', applyVariant table o = .ok o' ∧ writesOf evs = [writeArgs o'] := by
  unfold writePdfWith at h
  cases ha : applyVariant table o with
  | error e => rw [ha] at h; cases h
  | ok o' =>
    rw [ha] at h
    simp only [Except.ok.injEq] at h
    subst h
    exact ⟨o', rfl, by cases fin <;> cases t <;> rfl⟩

/-- What precedes the write (`generate_pdf`, the finisher) does not depend on the target either. -/
theorem same_prefix (table : List (String × VariantProps)) (o : Opts) (fin : Bool) (t1 t2 : Target) :
    (writePdfWith table o fin t1).map (List.takeWhile (fun e => !(e matches .write ..) && e != .openPath)) =
    (writePdfWith table o fin t2).map (List.takeWhile (fun e => !(e matches .write ..) && e != .openPath)) := by
  unfold writePdfWith
  cases applyVariant table o with
  | error e => rfl
  | ok o' => cases fin <;> cases t1 <;> cases t2 <;> rfl

/-- Only `None` returns bytes; a path is opened before and closed after the write. -/
theorem sink_shape (table : List (String × VariantProps)) (o : Opts) (fin : Bool) (t : Target) (evs : List Event)
    (h : writePdfWith table o fin t = .ok evs) :
    (evs.getLast? = some .returnBytes ↔ t = .none) ∧ (.openPath ∈ evs ↔ t = .path) ∧ (.closePath ∈ evs ↔ t = .path) := by
  unfold writePdfWith at h
  cases ha : applyVariant table o with
  | error e => rw [ha] at h; cases h
  | ok o' =>
    rw [ha] at h
    simp only [Except.ok.injEq] at h
    subst h
    cases fin <;> cases t <;> simp

/-- A caller's explicit version / identifier is never overridden by a variant. -/
theorem explicit_options_win (table : List (String × VariantProps)) (o o' : Opts)
    (h : applyVariant table o = .ok o') :
    (strTruthy o.version = true → o'.version = o.version) ∧
    (o.identifier.truthy = true → o'.identifier = o.identifier) ∧
    o'.uncompressed = o.uncompressed ∧ o'.variant = o.variant := by
  unfold applyVariant at h
  split at h
  · split at h
    · cases h; simp
    · split at h
      · cases h
      · rename_i props _
        simp only [Except.ok.injEq] at h
        subst h
        refine ⟨?_, ?_, rfl, rfl⟩
        · intro hv; cases hp : props.version <;> simp [hv]
        · intro hi; cases hp : props.identifier <;> simp [hi]
  · cases h; simp

/-- Facts of the *generated* variant table (`weasyprint.pdf.VARIANTS`): a variant that sets an identifier sets `True`,
and every variant that sets a version also sets an identifier (the PDF/A family). -/
theorem variants_defaults :
    ∀ e ∈ Gen.pdfVariants, (e.2.identifier = none ∨ e.2.identifier = some true) ∧
      (e.2.version.isSome → e.2.identifier.isSome) := by decide

example : writePdf ⟨some "pdf/a-3b", none, .none, false⟩ true .path =
    .ok [.generatePdf (some "pdf/a-3b"), .finisher, .openPath,
         .write .openedFile ⟨some "1.7", .bool true, true⟩, .closePath, .returnNone] := by decide

end sinks

/-! ## 5 fresh state -/
section fresh
open Wp.RenderState

private theorem orNew_spec (k : Kind) (n : Nat) (o : Option Nat) :
    (∀ id ∈ allocated (orNew k n o).1, n ≤ id ∧ id < (orNew k n o).2.2) ∧ n ≤ (orNew k n o).2.2 ∧
    ((orNew k n o).2.1 ∈ o.toList ∨ (n ≤ (orNew k n o).2.1 ∧ (orNew k n o).2.1 < (orNew k n o).2.2 ∧
      (orNew k n o).2.1 ∈ allocated (orNew k n o).1)) := by
  cases o <;> simp [orNew, allocated]

private theorem cacheStep_spec (n : Nat) (c : CacheOpt) :
    (∀ id ∈ allocated (cacheStep n c).1, n ≤ id ∧ id < (cacheStep n c).2.2) ∧ n ≤ (cacheStep n c).2.2 ∧
    ((cacheStep n c).2.1 ∈ (match c with | .dict id => [id] | .diskCache id => [id] | _ => []) ∨
      (cacheStep n c).2.1 ∈ allocated (cacheStep n c).1) := by
  cases c <;> simp [cacheStep, allocated]

private theorem userSheets_spec (n : Nat) (ss : List Sheet) :
    (∀ id ∈ allocated (userSheets n ss).1, n ≤ id ∧ id < (userSheets n ss).2.2) ∧ n ≤ (userSheets n ss).2.2 ∧
    (∀ id ∈ (userSheets n ss).2.1,
      id ∈ ss.filterMap (fun s => match s with | .css id => some id | .raw => none) ∨
      id ∈ allocated (userSheets n ss).1) := by
  induction ss generalizing n with
  | nil => simp [userSheets, allocated]
  | cons s rest ih =>
    cases s with
    | css id =>
      obtain ⟨h1, h2, h3⟩ := ih n
      simp only [userSheets, List.filterMap_cons, List.mem_cons]
      refine ⟨h1, h2, ?_⟩
      intro x hx
      rcases hx with hx | hx
      · exact Or.inl (Or.inl hx)
      · rcases h3 x hx with h | h
        · exact Or.inl (Or.inr h)
        · exact Or.inr h
    | raw =>
      obtain ⟨h1, h2, h3⟩ := ih (n + 1)
      simp only [userSheets, allocated, List.mem_cons, List.filterMap_cons]
      refine ⟨?_, by omega, ?_⟩
      · intro x hx
        rcases hx with hx | hx
        · subst hx; omega
        · have := h1 x hx; omega
      · intro x hx
        rcases hx with hx | hx
        · exact Or.inr (Or.inl hx)
        · rcases h3 x hx with h | h
          · exact Or.inl h
          · exact Or.inr (Or.inr h)

private theorem allocated_append (a b : List Ev) : allocated (a ++ b) = allocated a ++ allocated b := by
  induction a with
  | nil => rfl
  | cons e rest ih => cases e <;> simp [allocated, ih]

/-- The identities a render creates, in order. -/
private theorem allocated_render (next : Nat) (i : RenderIn) :
    allocated (render next i).events =
      let f := orNew .fontConfig (next + 1) i.fontConfig
      let c := orNew .counterStyle f.2.2 i.counterStyle
      let k := cacheStep (c.2.2 + 2) i.cache
      let us := userSheets k.2.2 (i.stylesheets.getD [])
      [next] ++ allocated f.1 ++ allocated c.1 ++ [c.2.2, c.2.2 + 1] ++ allocated k.1 ++ allocated us.1 ++
        [us.2.2, us.2.2 + 1, us.2.2 + 2, us.2.2 + 3, us.2.2 + 4, us.2.2 + 5] := by
  cases hff : i.docFontFaces <;> simp [render, allocated_append, allocated, hff]

private theorem render_next (next : Nat) (i : RenderIn) :
    (render next i).next =
      (userSheets (cacheStep ((orNew .counterStyle (orNew .fontConfig (next + 1) i.fontConfig).2.2
        i.counterStyle).2.2 + 2) i.cache).2.2 (i.stylesheets.getD [])).2.2 + 6 := rfl

/-- Every identity a render creates lies in `[next, (render next i).next)`: the allocation counter only grows. -/
theorem allocated_range (next : Nat) (i : RenderIn) :
    ∀ id ∈ allocated (render next i).events, next ≤ id ∧ id < (render next i).next := by
  intro id hid
  obtain ⟨f1, f2, _⟩ := orNew_spec .fontConfig (next + 1) i.fontConfig
  obtain ⟨c1, c2, _⟩ := orNew_spec .counterStyle (orNew .fontConfig (next + 1) i.fontConfig).2.2 i.counterStyle
  obtain ⟨k1, k2, _⟩ := cacheStep_spec ((orNew .counterStyle (orNew .fontConfig (next + 1) i.fontConfig).2.2
    i.counterStyle).2.2 + 2) i.cache
  obtain ⟨u1, u2, _⟩ := userSheets_spec (cacheStep ((orNew .counterStyle (orNew .fontConfig (next + 1)
    i.fontConfig).2.2 i.counterStyle).2.2 + 2) i.cache).2.2 (i.stylesheets.getD [])
  rw [allocated_render] at hid
  rw [render_next]
  simp only [List.mem_append, List.mem_cons, List.not_mem_nil, or_false] at hid
  rcases hid with (((((h | h) | h) | h) | h) | h) | h
  · omega
  · have := f1 id h; omega
  · have := c1 id h; omega
  · omega
  · have := k1 id h; omega
  · have := u1 id h; omega
  · omega

theorem render_next_gt (next : Nat) (i : RenderIn) : next < (render next i).next := by
  obtain ⟨_, f2, _⟩ := orNew_spec .fontConfig (next + 1) i.fontConfig
  obtain ⟨_, c2, _⟩ := orNew_spec .counterStyle (orNew .fontConfig (next + 1) i.fontConfig).2.2 i.counterStyle
  obtain ⟨_, k2, _⟩ := cacheStep_spec ((orNew .counterStyle (orNew .fontConfig (next + 1) i.fontConfig).2.2
    i.counterStyle).2.2 + 2) i.cache
  obtain ⟨_, u2, _⟩ := userSheets_spec (cacheStep ((orNew .counterStyle (orNew .fontConfig (next + 1)
    i.fontConfig).2.2 i.counterStyle).2.2 + 2) i.cache).2.2 (i.stylesheets.getD [])
  rw [render_next]; omega

/-- Everything the `LayoutContext` and the `Document` of a render hold was either handed in by the caller of *that*
render or created by that render. -/
theorem reachable_own_or_caller (next : Nat) (i : RenderIn) :
    ∀ id ∈ reachable (render next i), id ∈ callerObjects i ∨ id ∈ allocated (render next i).events := by
  intro id hid
  obtain ⟨_, _, f3⟩ := orNew_spec .fontConfig (next + 1) i.fontConfig
  obtain ⟨_, _, c3⟩ := orNew_spec .counterStyle (orNew .fontConfig (next + 1) i.fontConfig).2.2 i.counterStyle
  obtain ⟨_, _, k3⟩ := cacheStep_spec ((orNew .counterStyle (orNew .fontConfig (next + 1) i.fontConfig).2.2
    i.counterStyle).2.2 + 2) i.cache
  obtain ⟨_, _, u3⟩ := userSheets_spec (cacheStep ((orNew .counterStyle (orNew .fontConfig (next + 1)
    i.fontConfig).2.2 i.counterStyle).2.2 + 2) i.cache).2.2 (i.stylesheets.getD [])
  rw [allocated_render]
  simp only [reachable, render, List.mem_append, List.mem_cons, List.not_mem_nil, or_false] at hid
  simp only [callerObjects, List.mem_append, List.mem_cons, List.not_mem_nil, or_false]
  rcases hid with (h | h | h | h | h | h | h) | h
  · subst h
    rcases f3 with f | ⟨_, _, f⟩
    · exact Or.inl (Or.inl (Or.inl (Or.inl f)))
    · exact Or.inr (Or.inl (Or.inl (Or.inl (Or.inl (Or.inl (Or.inr f))))))
  · subst h
    rcases c3 with c | ⟨_, _, c⟩
    · exact Or.inl (Or.inl (Or.inl (Or.inr c)))
    · exact Or.inr (Or.inl (Or.inl (Or.inl (Or.inl (Or.inr c)))))
  · subst h
    rcases k3 with k | k
    · exact Or.inl (Or.inl (Or.inr k))
    · exact Or.inr (Or.inl (Or.inl (Or.inr k)))
  · subst h; exact Or.inr (Or.inl (Or.inl (Or.inl (Or.inr (Or.inl rfl)))))
  · subst h; exact Or.inr (Or.inr (Or.inr (Or.inl rfl)))
  · subst h; exact Or.inr (Or.inr (Or.inr (Or.inr (Or.inr (Or.inl rfl)))))
  · subst h; exact Or.inr (Or.inr (Or.inr (Or.inr (Or.inr (Or.inr (Or.inr rfl))))))
  · rcases u3 id h with u | u
    · exact Or.inl (Or.inr u)
    · exact Or.inr (Or.inl (Or.inr u))

/-- **fresh_state**: in a history of renders, a later render reaches an object created by an earlier render only if
its own caller handed that object in — no `StyleFor`, `LayoutContext`, `TargetCollector`, cache, `CounterStyle` or
font configuration leaks from one call to the next through the code itself. -/
theorem fresh_state (next : Nat) (i1 i2 : RenderIn) :
    ∀ id ∈ reachable (render (render next i1).next i2),
      id ∈ allocated (render next i1).events → id ∈ callerObjects i2 := by
  intro id hid h1
  rcases reachable_own_or_caller (render next i1).next i2 id hid with h | h
  · exact h
  · have a := allocated_range next i1 id h1
    have b := allocated_range (render next i1).next i2 id h
    omega

/-- The objects created by two successive renders are disjoint. -/
theorem allocations_disjoint (next : Nat) (i1 i2 : RenderIn) :
    ∀ id ∈ allocated (render next i1).events, id ∉ allocated (render (render next i1).next i2).events := by
  intro id h1 h2
  have a := allocated_range next i1 id h1
  have b := allocated_range _ i2 id h2
  omega

/-- The model has no event that writes a module-level object.  The only objects written are the counter style in use
(the UA counter styles are copied into it) and — when the document itself declares `@font-face` — the font
configuration in use; if the caller handed these in, rendering modifies them (known finding
`font-config-accumulates-font-faces`: the faces stay registered for later renders with the same configuration). -/
theorem written_objects (next : Nat) (i : RenderIn) :
    ∀ e ∈ (render next i).events,
      (∀ id, e = .writeObj id → id = (render next i).counterStyle) ∧
      (∀ id, e = .writeFont id → id = (render next i).fontConfig ∧ i.docFontFaces = true) := by
  intro e he
  have hu : ∀ n ss, ∀ e ∈ (userSheets n ss).1, ∃ k id, e = Ev.alloc k id := by
    intro n ss
    induction ss generalizing n with
    | nil => simp [userSheets]
    | cons s rest ih =>
      cases s with
      | css id => simpa [userSheets] using ih n
      | raw =>
        intro e he
        simp only [userSheets, List.mem_cons] at he
        rcases he with he | he
        · exact ⟨_, _, he⟩
        · exact ih _ e he
  have hf : ∀ k n o, ∀ e ∈ (orNew k n o).1, ∃ k id, e = Ev.alloc k id := by
    intro k n o; cases o <;> simp [orNew]
  have hk : ∀ n c, ∀ e ∈ (cacheStep n c).1, ∃ k id, e = Ev.alloc k id := by
    intro n c; cases c <;> simp [cacheStep]
  have halloc : ∀ e : Ev, (∃ k id, e = Ev.alloc k id) →
      (∀ id, e = .writeObj id → id = (render next i).counterStyle) ∧
      (∀ id, e = .writeFont id → id = (render next i).fontConfig ∧ i.docFontFaces = true) := by
    rintro e ⟨k, id', rfl⟩
    exact ⟨fun _ h => (nomatch h), fun _ h => (nomatch h)⟩
  simp only [render, List.mem_append] at he
  rcases he with (((((((h | h) | h) | h) | h) | h) | h) | h) | h
  · simp only [List.mem_cons, List.not_mem_nil, or_false] at h
    rcases h with rfl | rfl <;> exact ⟨fun _ h => (nomatch h), fun _ h => (nomatch h)⟩
  · exact halloc e (hf _ _ _ e h)
  · exact halloc e (hf _ _ _ e h)
  · simp only [List.mem_cons, List.not_mem_nil, or_false] at h
    rcases h with rfl | rfl <;> exact ⟨fun _ h => (nomatch h), fun _ h => (nomatch h)⟩
  · exact halloc e (hk _ _ e h)
  · exact halloc e (hu _ _ e h)
  · simp only [List.mem_cons, List.not_mem_nil, or_false] at h
    rcases h with rfl | rfl | rfl | rfl
    · exact ⟨fun _ h => (nomatch h), fun _ h => (nomatch h)⟩
    · exact ⟨fun _ h => (nomatch h), fun _ h => (nomatch h)⟩
    · exact ⟨fun _ h => (by cases h; rfl), fun _ h => (nomatch h)⟩
    · exact ⟨fun _ h => (nomatch h), fun _ h => (nomatch h)⟩
  · cases hff : i.docFontFaces with
    | false => simp [hff] at h
    | true =>
      simp only [hff, if_true, List.mem_cons, List.not_mem_nil, or_false] at h
      subst h
      exact ⟨fun _ h => (nomatch h), fun _ h => (by cases h; exact ⟨rfl, rfl⟩)⟩
  · simp only [List.mem_cons, List.not_mem_nil, or_false] at h
    rcases h with rfl | rfl | rfl | rfl | rfl <;> exact ⟨fun _ h => (nomatch h), fun _ h => (nomatch h)⟩

/-- The *generated* list of every site in `weasyprint/**/*.py` where code inside a function can change state that
outlives a render (stores through module-level names, `global`, memoised functions) contains only import-time
registries (the decorators that fill `PROPERTIES`, `EXPANDERS`, `DESCRIPTORS`, `COMPUTER_FUNCTIONS`, `HTML_HANDLERS`,
…) and one memo of a pure function (`get_lang_quotes`).  A new module-level cache or store breaks this proof. -/
theorem module_state_whitelisted :
    ∀ e ∈ Gen.moduleState,
      e ∈ [("css/computed_values.py", "COMPUTER_FUNCTIONS", "store@register_computer"),
           ("css/computed_values.py", "COMPUTER_FUNCTIONS", "store@register_computer.decorator"),
           ("css/validation/descriptors.py", "DESCRIPTORS", "store@descriptor"),
           ("css/validation/descriptors.py", "DESCRIPTORS", "store@descriptor.decorator"),
           ("css/validation/expanders.py", "EXPANDERS", "store@expander"),
           ("css/validation/expanders.py", "EXPANDERS", "store@expander.expander_decorator"),
           ("css/validation/properties.py", "PROPERTIES", "store@property"),
           ("css/validation/properties.py", "PROPERTIES", "store@property.decorator"),
           ("css/validation/properties.py", "PROPRIETARY", "call.add@property"),
           ("css/validation/properties.py", "PROPRIETARY", "call.add@property.decorator"),
           ("css/validation/properties.py", "UNSTABLE", "call.add@property"),
           ("css/validation/properties.py", "UNSTABLE", "call.add@property.decorator"),
           ("html.py", "HTML_HANDLERS", "store@handler"),
           ("html.py", "HTML_HANDLERS", "store@handler.decorator"),
           ("text/constants.py", "get_lang_quotes", "memo@get_lang_quotes")] := by decide

example : reachable (render 1000 ⟨some 1, none, .dict 2, some [.css 3, .raw], true⟩) =
    [1, 1001, 2, 1002, 1006, 1008, 1010, 3, 1004] := by decide

end fresh

/-! ## 4 image cache -/
section cache
open Wp.ImageCache

def allOrientations : List Orientation :=
  [.fromImage, .none, .angle .q0 false, .angle .q0 true, .angle .q90 false, .angle .q90 true,
   .angle .q180 false, .angle .q180 true, .angle .q270 false, .angle .q270 true]

theorem mem_allOrientations (o : Orientation) : o ∈ allOrientations := by
  cases o with
  | fromImage => simp [allOrientations]
  | none => simp [allOrientations]
  | angle q f => cases q <;> cases f <;> simp [allOrientations]

private theorem render_no_space_suffix :
    ∀ o1 ∈ allOrientations, ∀ o2 ∈ allOrientations, ¬ ((' ' :: o1.render.toList) <:+ o2.render.toList) := by
  decide

private theorem render_injective :
    ∀ o1 ∈ allOrientations, ∀ o2 ∈ allOrientations, o1.render.toList = o2.render.toList → o1 = o2 := by decide

private theorem append_cons_lt {α : Type} (a b s t : List α) (x : α) (h : a ++ x :: s = b ++ x :: t)
    (hl : s.length < t.length) : (x :: s) <:+ t := by
  rcases List.append_eq_append_iff.mp h with ⟨c, _, hc⟩ | ⟨c, _, hc⟩
  · have := congrArg List.length hc
    simp at this
    omega
  · cases c with
    | nil =>
      simp only [List.nil_append, List.cons.injEq, true_and] at hc
      subst hc; omega
    | cons y c' =>
      simp only [List.cons_append, List.cons.injEq] at hc
      exact ⟨c', hc.2.symm⟩

/-- The cache key `f'{url} {orientation}'` determines the URL and the orientation: two different requests never
share a key (F18 repaired; the orientation strings contain no `' ' + another orientation string` as a suffix). -/
theorem key_injective (u1 u2 : String) (o1 o2 : Orientation) (h : keyStr u1 o1 = keyStr u2 o2) :
    u1 = u2 ∧ o1 = o2 := by
  have hl : u1.toList ++ ' ' :: o1.render.toList = u2.toList ++ ' ' :: o2.render.toList := by
    have := congrArg String.toList h
    simpa [keyStr, String.toList_append] using this
  have m1 := mem_allOrientations o1
  have m2 := mem_allOrientations o2
  rcases Nat.lt_trichotomy o1.render.toList.length o2.render.toList.length with hlt | heq | hgt
  · exact absurd (append_cons_lt _ _ _ _ _ hl hlt) (render_no_space_suffix o1 m1 o2 m2)
  · have hcons : (' ' :: o1.render.toList).length = (' ' :: o2.render.toList).length := by simp [heq]
    obtain ⟨ha, hb⟩ := List.append_inj' hl hcons
    simp only [List.cons.injEq, true_and] at hb
    exact ⟨String.toList_inj.mp ha, render_injective o1 m1 o2 m2 hb⟩
  · exact absurd (append_cons_lt _ _ _ _ _ hl.symm hgt) (render_no_space_suffix o2 m2 o1 m1)

private theorem keyStr_last (u : String) (o : Orientation) :
    (keyStr u o).toList.getLast? = some 'e' ∨ (keyStr u o).toList.getLast? = some ')' := by
  have h : (keyStr u o).toList = (u.toList ++ [' ']) ++ o.render.toList := by
    simp [keyStr, String.toList_append]
  rw [h, List.getLast?_append]
  have hr : o.render.toList.getLast? = some 'e' ∨ o.render.toList.getLast? = some ')' := by
    cases o with
    | fromImage => left; decide
    | none => left; decide
    | angle q f => right; cases q <;> cases f <;> decide
  rcases hr with hr | hr <;> rw [hr]
  · left; rfl
  · right; rfl

private theorem dataKey_last (id : String) (dpi : Option Nat) :
    ∃ c, (dataKey id dpi).toList.getLast? = some c ∧ (c = '-' ∨ c.isDigit = true) := by
  have hnone : (dataKey id none).toList.getLast? = some '-' := by
    simp [dataKey, String.toList_append, List.getLast?_append]
  cases dpi with
  | none => exact ⟨'-', hnone, Or.inl rfl⟩
  | some n =>
    by_cases hn : n = 0
    · subst hn
      refine ⟨'-', ?_, Or.inl rfl⟩
      simp [dataKey, String.toList_append, List.getLast?_append]
    · have hne : Nat.toDigits 10 n ≠ [] := Nat.toDigits_ne_nil
      obtain ⟨c, hc⟩ : ∃ c, (Nat.toDigits 10 n).getLast? = some c := by
        cases hl : (Nat.toDigits 10 n).getLast? with
        | none => exact absurd (List.getLast?_eq_none_iff.mp hl) hne
        | some c => exact ⟨c, rfl⟩
      refine ⟨c, ?_, Or.inr ?_⟩
      · obtain ⟨d, ds, hds⟩ : ∃ d ds, Nat.toDigits 10 n = d :: ds := by
          cases hl : Nat.toDigits 10 n with
          | nil => exact absurd hl hne
          | cons d ds => exact ⟨d, ds, rfl⟩
        rw [hds] at hc
        simp [dataKey, hn, String.toList_append, List.getLast?_append, hds, hc]
      · exact Nat.isDigit_of_mem_toDigits (by decide) (by decide) (List.mem_of_getLast? hc)

/-- The keys under which `LazyImage` stores bytes never collide with an image key. -/
theorem dataKey_ne_keyStr (id : String) (dpi : Option Nat) (u : String) (o : Orientation) :
    dataKey id dpi ≠ keyStr u o := by
  intro h
  obtain ⟨c, hc, hcd⟩ := dataKey_last id dpi
  rw [h] at hc
  rcases keyStr_last u o with hk | hk <;> rw [hk] at hc <;> cases hc <;> rcases hcd with hcd | hcd <;>
    revert hcd <;> decide

theorem lookup_insert_same (c : Cache) (k : String) (v : Entry) : lookup (insert c k v) k = some v := by
  induction c with
  | nil => simp [ImageCache.insert, lookup]
  | cons e rest ih =>
    obtain ⟨k', v'⟩ := e
    by_cases h : k' = k
    · simp [ImageCache.insert, lookup, h]
    · simp [ImageCache.insert, lookup, h, ih]

theorem lookup_insert_ne (c : Cache) (k k' : String) (v : Entry) (h : k ≠ k') :
    lookup (insert c k v) k' = lookup c k' := by
  induction c with
  | nil => simp [ImageCache.insert, lookup, h]
  | cons e rest ih =>
    obtain ⟨k2, v2⟩ := e
    by_cases h2 : k2 = k
    · subst h2; simp [ImageCache.insert, lookup, h]
    · by_cases h3 : k2 = k'
      · have h' : ¬ k' = k := fun e => h e.symm
        subst h3
        simp [ImageCache.insert, lookup, h']
      · simp [ImageCache.insert, lookup, h2, h3, ih]

/-- No fetched blob is at the same time a valid SVG and a Pillow-readable raster. -/
def Exclusive (f : Fetcher) : Prop :=
  ∀ url mime file blob, f url = .ok mime file blob → ¬ (blob.svgOk = true ∧ blob.raster.isSome = true)

theorem makeRaster_value (opts : Opts) (c : Cache) (key : String) (blob : Blob) (r : Raster)
    (file : Option String) (o : Orientation) :
    (makeRaster opts c key blob r file o).1 = (makeRaster opts [] key blob r file o).1 ∧
    ((makeRaster opts c key blob r file o).2 = c ∨
      ∃ p, (makeRaster opts c key blob r file o).2 = insert c (dataKey (imageId key) opts.dpi) (.bytes p)) := by
  unfold makeRaster
  simp only
  split
  · split
    · exact ⟨rfl, Or.inl rfl⟩
    · exact ⟨rfl, Or.inr ⟨_, rfl⟩⟩
  · exact ⟨rfl, Or.inr ⟨_, rfl⟩⟩

private theorem decode_value (opts : Opts) (c : Cache) (url key forced forced' : String) (mime : Option String)
    (file : Option String) (blob : Blob) (o : Orientation)
    (hx : ¬ (blob.svgOk = true ∧ blob.raster.isSome = true)) :
    (decode opts c url key forced mime file blob o).1 = (decode opts [] url key forced' mime file blob o).1 ∧
    ((decode opts c url key forced mime file blob o).2 = c ∨
      ∃ p, (decode opts c url key forced mime file blob o).2 =
        insert c (dataKey (imageId key) opts.dpi) (.bytes p)) := by
  unfold decode
  cases hr : blob.raster with
  | none =>
    cases hs : blob.svgOk <;> simp only [Bool.false_eq_true, and_false, and_true, if_false] <;>
      split_ifs <;> simp
  | some r =>
    have hs : blob.svgOk = false := by
      cases h : blob.svgOk with
      | false => rfl
      | true => exact absurd ⟨h, by simp [hr]⟩ hx
    simp only [hs, Bool.false_eq_true, and_false, if_false]
    obtain ⟨m1, m2⟩ := makeRaster_value opts c key blob r file o
    exact ⟨congrArg some m1, m2⟩

/-- Every image entry of the cache is the value a cold call returns for the request it is keyed by. -/
def Consistent (f : Fetcher) (opts : Opts) (c : Cache) : Prop :=
  ∀ url o e, lookup c (keyStr url o) = some e → ∀ forced, cold f opts ⟨url, forced, o⟩ = .ok e

theorem consistent_empty (f : Fetcher) (opts : Opts) : Consistent f opts [] := by
  intro url o e h; simp [lookup] at h

private theorem getImage_spec (f : Fetcher) (opts : Opts) (hx : Exclusive f) (c : Cache) (hc : Consistent f opts c)
    (url forced : String) (o : Orientation) :
    (getImage f opts c url forced o).value = cold f opts ⟨url, forced, o⟩ ∧
    Consistent f opts (getImage f opts c url forced o).cache := by
  cases hl : lookup c (keyStr url o) with
  | some e =>
    have hv : getImage f opts c url forced o = ⟨.ok e, c, []⟩ := by simp [getImage, hl]
    rw [hv]
    exact ⟨(hc url o e hl forced).symm, hc⟩
  | none =>
    have hcold : ∀ forced', cold f opts ⟨url, forced', o⟩ =
        (match f url with
          | .raises => .ok (.image none)
          | .malformed => .error (.indexError "KeyError:result['file_obj']")
          | .ok mime file blob => .ok (.image (decode opts [] url (keyStr url o) forced' mime file blob o).1)) := by
      intro forced'
      simp only [cold, getImage, lookup]
      cases f url <;> rfl
    -- a new image entry `v` under this key, possibly after a bytes entry, keeps the cache consistent
    have hkeep : ∀ (c' : Cache) (v : Entry),
        (c' = c ∨ ∃ p, c' = insert c (dataKey (imageId (keyStr url o)) opts.dpi) (.bytes p)) →
        (∀ forced', cold f opts ⟨url, forced', o⟩ = .ok v) →
        Consistent f opts (insert c' (keyStr url o) v) := by
      intro c' v hc' hv url' o' e he forced'
      by_cases hk : keyStr url o = keyStr url' o'
      · obtain ⟨hu, ho⟩ := key_injective _ _ _ _ hk
        subst hu; subst ho
        rw [lookup_insert_same] at he
        cases he
        exact hv forced'
      · rw [lookup_insert_ne _ _ _ _ hk] at he
        rcases hc' with rfl | ⟨p, rfl⟩
        · exact hc url' o' e he forced'
        · rw [lookup_insert_ne _ _ _ _ (dataKey_ne_keyStr _ _ _ _)] at he
          exact hc url' o' e he forced'
    cases hf : f url with
    | raises =>
      have hv : getImage f opts c url forced o =
          ⟨.ok (.image none), insert c (keyStr url o) (.image none), [url]⟩ := by simp [getImage, hl, hf]
      rw [hv]
      refine ⟨?_, hkeep c _ (Or.inl rfl) ?_⟩
      · rw [hcold, hf]
      · intro forced'; rw [hcold, hf]
    | malformed =>
      have hv : getImage f opts c url forced o =
          ⟨.error (.indexError "KeyError:result['file_obj']"), c, [url]⟩ := by simp [getImage, hl, hf]
      rw [hv]
      refine ⟨?_, hc⟩
      rw [hcold, hf]
    | ok mime file blob =>
      have hxb := hx url mime file blob hf
      have hv : getImage f opts c url forced o =
          ⟨.ok (.image (decode opts c url (keyStr url o) forced mime file blob o).1),
           insert (decode opts c url (keyStr url o) forced mime file blob o).2 (keyStr url o)
             (.image (decode opts c url (keyStr url o) forced mime file blob o).1), [url]⟩ := by
        simp [getImage, hl, hf]
      rw [hv]
      obtain ⟨d1, d2⟩ := decode_value opts c url (keyStr url o) forced forced mime file blob o hxb
      refine ⟨?_, hkeep _ _ d2 ?_⟩
      · rw [hcold, hf, d1]
      · intro forced'
        rw [hcold, hf, (decode_value opts c url (keyStr url o) forced forced' mime file blob o hxb).1]

/-- **cache_transparent** (full strength: any orientations, any forced MIME types): for every history of
`get_image_from_uri` calls that share a cache which starts consistent (e.g. empty), with a deterministic fetcher and
fixed image options, every call returns exactly what it would return on a cold cache — cached failures (`None`) and
`KeyError`s included.  Hence a warm and a cold cache give the same images. -/
theorem cache_transparent (f : Fetcher) (opts : Opts) (hx : Exclusive f) (c : Cache) (hc : Consistent f opts c)
    (calls : List Call) : (runCalls f opts c calls).map (·.value) = calls.map (cold f opts) := by
  induction calls generalizing c with
  | nil => rfl
  | cons call rest ih =>
    obtain ⟨h1, h2⟩ := getImage_spec f opts hx c hc call.url call.forced call.orientation
    simp only [runCalls, List.map_cons, List.cons.injEq]
    exact ⟨h1, ih _ h2⟩

/-- A hit fetches nothing and leaves the cache as it is. -/
theorem hit_no_fetch (f : Fetcher) (opts : Opts) (c : Cache) (url forced : String) (o : Orientation) (e : Entry)
    (h : lookup c (keyStr url o) = some e) :
    (getImage f opts c url forced o).fetched = [] ∧ (getImage f opts c url forced o).cache = c := by
  simp [getImage, h]

/-- A miss calls the fetcher exactly once, with the URL asked for. -/
theorem miss_fetches_once (f : Fetcher) (opts : Opts) (c : Cache) (url forced : String) (o : Orientation)
    (h : lookup c (keyStr url o) = none) : (getImage f opts c url forced o).fetched = [url] := by
  simp only [getImage, h]
  cases f url <;> rfl

/-- After a call that returned (did not raise), the same request is a hit: each `(url, orientation)` is fetched at
most once per cache. -/
theorem second_call_is_hit (f : Fetcher) (opts : Opts) (c : Cache) (url forced : String) (o : Orientation) (e : Entry)
    (h : (getImage f opts c url forced o).value = .ok e) :
    lookup (getImage f opts c url forced o).cache (keyStr url o) = some e := by
  cases hl : lookup c (keyStr url o) with
  | some e' =>
    simp only [getImage, hl] at h ⊢
    cases h; rfl
  | none =>
    simp only [getImage, hl] at h ⊢
    cases hf : f url with
    | raises => simp only [hf] at h ⊢; cases h; exact lookup_insert_same _ _ _
    | malformed => simp only [hf] at h; cases h
    | ok mime file blob => simp only [hf] at h ⊢; cases h; exact lookup_insert_same _ _ _

/-- A fetcher / history on which the hypotheses hold and the cache is really used. -/
example : Exclusive (fun _ => Fetched.ok (some "image/png") none ⟨1, false, some ⟨.png, false⟩⟩) ∧
    ((runCalls (fun _ => Fetched.ok (some "image/png") none ⟨1, false, some ⟨.png, false⟩⟩) ⟨false, none, none⟩ []
      [⟨"u", "", .none⟩, ⟨"u", "", .angle .q90 false⟩, ⟨"u", "", .none⟩]).map (·.fetched)) = [["u"], ["u"], []] := by
  refine ⟨?_, by decide⟩
  intro url mime file blob h
  cases h
  simp

end cache

end Wp.C19
