/-
C19 — Rendering is a pure function of its inputs.  Property theorems only (helper lemmas are `private`).

Sections
  1 zoom_linear     every coordinate of `generate_pdf` (BleedBox included since d924a7c) is `zoom ×` its value at
                    zoom 1 for zoom > 0, the page rectangle ignores zoom
  2 copy_pages      `Document.copy(pages)` + `resolve_links` + the page loop write exactly the selected pages (every
                    variant, every selection)
  3 three_sinks     the three targets of `write_pdf` get one `pdf.write` with identical arguments
  5 fresh_state     successive renders share no object the caller did not hand in; generated module-state whitelist
  4 cache_transparent  a shared image cache returns the cold value (deterministic fetcher; options may change from
                    call to call since bca20a5); the key `f'{url} {orientation} {optimize} {quality} {dpi}'` is
                    injective and never collides with a `LazyImage` data key
(section 4 comes last in the file.)
-/
import WpModel.Model.PdfZoom
import WpModel.Model.ImageCache
import WpModel.Model.WriteSinks
import WpModel.Model.RenderState
import WpModel.Gen.ModuleState
import Mathlib.Tactic.Ring
import Mathlib.Tactic.FieldSimp
import Mathlib.Tactic.Linarith
import Mathlib.Tactic.NormNum
import Mathlib.Tactic.SplitIfs

namespace Wp.C19
open Wp Wp.CopyPages Wp.PdfZoom

/-! ## 1 zoom -/

/-- Multiply the four numbers of a box. -/
def scaleBox (k : Rat) (b : Box4) : Box4 := ⟨k * b.x1, k * b.y1, k * b.x2, k * b.y2⟩

def scaleAnnot (k : Rat) (a : Annot) : Annot := { a with rect := scaleBox k a.rect }
def scaleDest (k : Rat) (d : Dest) : Dest := { d with x := k * d.x, y := k * d.y }
def scaleOutline (k : Rat) (o : Outline) : Outline := { o with x := k * o.x, y := k * o.y }

/-- Every layout-derived number of a page multiplied by `k`; the page rectangle (layout units) is kept. -/
def scalePage (k : Rat) (p : PagePdf) : PagePdf :=
  { media := scaleBox k p.media, trim := scaleBox k p.trim, bleed := scaleBox k p.bleed, rectangle := p.rectangle,
    flipF := k * p.flipF, paintScale := k * p.paintScale, annots := p.annots.map (scaleAnnot k) }

def scaleOut (k : Rat) (o : PdfOut) : PdfOut :=
  { pages := o.pages.map (scalePage k), names := o.names.map (scaleDest k),
    outlines := o.outlines.map (scaleOutline k) }

theorem scale_linear (z : Rat) : scale z = z * scale 1 := by
  unfold scale; ring

/-- MediaBox is `zoom ×` the MediaBox at zoom 1. -/
theorem mediaBox_zoom (z : Rat) (p : Page) : mediaBox (scale z) p = scaleBox z (mediaBox (scale 1) p) := by
  simp only [mediaBox, mediaLeft, mediaTop, pageWidth, pageHeight, scaleBox, scale, Box4.mk.injEq]
  refine ⟨?_, ?_, ?_, ?_⟩ <;> ring

/-- TrimBox is the page box scaled: `[0, 0, scale·width, scale·height]` (F15 repaired: bleed × scale). -/
theorem trimBox_eq (s : Rat) (p : Page) : trimBox s p = ⟨0, 0, s * p.width, s * p.height⟩ := by
  simp only [trimBox, mediaBox, mediaLeft, mediaTop, pageWidth, pageHeight, Box4.mk.injEq]
  refine ⟨?_, ?_, ?_, ?_⟩ <;> ring

theorem trimBox_zoom (z : Rat) (p : Page) : trimBox (scale z) p = scaleBox z (trimBox (scale 1) p) := by
  simp only [trimBox_eq, scaleBox, scale, Box4.mk.injEq]
  refine ⟨?_, ?_, ?_, ?_⟩ <;> ring

/-- The page rectangle handed to the content stream (layout units) does not depend on zoom. -/
theorem pageRectangle_zoom_invariant (s : Rat) (hs : s ≠ 0) (p : Page) :
    pageRectangle s p =
      ⟨-p.bleed.left, -p.bleed.top, p.width + p.bleed.left + p.bleed.right,
       p.height + p.bleed.top + p.bleed.bottom⟩ := by
  simp only [pageRectangle, mediaBox, mediaLeft, mediaTop, pageWidth, pageHeight, Box4.mk.injEq]
  refine ⟨?_, ?_, ?_, ?_⟩ <;> field_simp <;> ring

/-- `matrix.transform_point` with the page matrix: x ↦ scale·x, y ↦ scale·(height − y). -/
theorem transformPoint_pageMatrix (s : Rat) (p : Page) (x y : Rat) :
    (pageMatrix s p).transformPoint x y = (s * x, s * (p.height - y)) := by
  simp only [pageMatrix, Matrix.transformPoint, Prod.mk.injEq]
  constructor <;> ring

theorem linkRect_zoom (z : Rat) (p : Page) (r : Rect) :
    linkRect (pageMatrix (scale z) p) r = scaleBox z (linkRect (pageMatrix (scale 1) p) r) := by
  simp only [linkRect, transformPoint_pageMatrix, scaleBox, scale, Box4.mk.injEq]
  refine ⟨?_, ?_, ?_, ?_⟩ <;> ring

/-- Link annotations: same links, rectangles scaled. -/
theorem annots_zoom (z : Rat) (p : Page) (links : List Link) :
    annots (pageMatrix (scale z) p) links = (annots (pageMatrix (scale 1) p) links).map (scaleAnnot z) := by
  simp only [annots, List.map_map]
  apply List.map_congr_left
  intro l _
  simp only [Function.comp, scaleAnnot]
  rw [linkRect_zoom]

/-- Named destinations: same names and pages, points scaled. -/
theorem dests_zoom (z : Rat) (p : Page) (i : Nat) (as : List Anchor) :
    dests (pageMatrix (scale z) p) i as = (dests (pageMatrix (scale 1) p) i as).map (scaleDest z) := by
  simp only [dests, List.map_map]
  apply List.map_congr_left
  intro a _
  simp only [Function.comp, transformPoint_pageMatrix, scaleDest, scale, Dest.mk.injEq, true_and]
  constructor <;> ring

/-- No BleedBox offset reaches the cap (`10 * zoom` points). -/
def capFree (z : Rat) (p : Page) : Prop :=
  p.bleed.left * scale z < 10 * z ∧ p.bleed.top * scale z < 10 * z ∧ p.bleed.right * scale z < 10 * z ∧
    p.bleed.bottom * scale z < 10 * z

instance (z : Rat) (p : Page) : Decidable (capFree z p) := by unfold capFree; infer_instance

/-- BleedBox = MediaBox whenever no offset reaches the cap. -/
theorem bleedBox_eq_media_of_capFree (z : Rat) (p : Page) (h : capFree z p) : bleedBox z p = mediaBox (scale z) p := by
  obtain ⟨h1, h2, h3, h4⟩ := h
  simp only [bleedBox, trimBox, minCap, h1, h2, h3, h4, if_true, mediaBox, Box4.mk.injEq]
  refine ⟨?_, ?_, ?_, ?_⟩ <;> ring

/-- `min(10 * zoom, zoom * x) = zoom * min(10, x)` for zoom ≥ 0 (the repair d924a7c: the cap is scaled like the bleed). -/
theorem minCap_zoom (z x : Rat) (hz : 0 ≤ z) : minCap z (z * x) = z * minCap 1 x := by
  unfold minCap
  rcases Rat.le_iff_lt_or_eq.mp hz with hpos | h0
  · by_cases hx : x < 10 * 1
    · have : z * x < 10 * z := by nlinarith
      rw [if_pos this, if_pos hx]
    · have : ¬ z * x < 10 * z := by
        intro h; apply hx; nlinarith
      rw [if_neg this, if_neg hx]; ring
  · subst h0; simp

/-- **BleedBox is zoom-linear** (full strength for every zoom ≥ 0 since d924a7c; was `bleedBox_zoom_partial`, under the
hypothesis that the 10 pt cap is not reached — known finding `bleedbox-cap-not-zoomed`, now fixed). -/
theorem bleedBox_zoom (z : Rat) (hz : 0 ≤ z) (p : Page) : bleedBox z p = scaleBox z (bleedBox 1 p) := by
  have e : ∀ b : Rat, b * scale z = z * (b * scale 1) := by intro b; unfold scale; ring
  simp only [bleedBox, trimBox_eq, e, minCap_zoom _ _ hz, scaleBox, Box4.mk.injEq]
  refine ⟨?_, ?_, ?_, ?_⟩ <;> (unfold scale; ring)

/-- The hypothesis `0 ≤ zoom` of `bleedBox_zoom` is necessary: at a negative zoom `min` picks the other argument
(`min(10z, bz) = z·max(10, b)`).  Not a finding: the property quantifies over zoom in (0.1 .. 10). -/
theorem bleedBox_negative_zoom_not_linear :
    bleedBox (-1) ⟨100, 100, ⟨20, 20, 20, 20⟩, [], [], []⟩ ≠
      scaleBox (-1) (bleedBox 1 ⟨100, 100, ⟨20, 20, 20, 20⟩, [], [], []⟩) := by
  decide +kernel

private theorem minCap_le (z x : Rat) : minCap z x ≤ 10 * z := by
  unfold minCap; split <;> linarith

private theorem minCap_le_self (z x : Rat) : minCap z x ≤ x := by
  unfold minCap; split <;> linarith

private theorem minCap_nonneg (z x : Rat) (hz : 0 ≤ z) (h : 0 ≤ x) : 0 ≤ minCap z x := by
  unfold minCap; split <;> linarith

/-- At every zoom ≥ 0, for non-negative bleeds: TrimBox ⊆ BleedBox ⊆ MediaBox, and the BleedBox is at most
`10 × zoom` points away from the TrimBox. -/
theorem bleedBox_between (z : Rat) (p : Page) (hz : 0 ≤ z) (hl : 0 ≤ p.bleed.left) (ht : 0 ≤ p.bleed.top)
    (hr : 0 ≤ p.bleed.right) (hb : 0 ≤ p.bleed.bottom) :
    let m := mediaBox (scale z) p; let t := trimBox (scale z) p; let b := bleedBox z p
    m.x1 ≤ b.x1 ∧ b.x1 ≤ t.x1 ∧ m.y1 ≤ b.y1 ∧ b.y1 ≤ t.y1 ∧
    t.x2 ≤ b.x2 ∧ b.x2 ≤ m.x2 ∧ t.y2 ≤ b.y2 ∧ b.y2 ≤ m.y2 ∧
    t.x1 - b.x1 ≤ 10 * z ∧ t.y1 - b.y1 ≤ 10 * z ∧ b.x2 - t.x2 ≤ 10 * z ∧ b.y2 - t.y2 ≤ 10 * z := by
  have hs : 0 ≤ scale z := by unfold scale; nlinarith
  have e1 := minCap_le_self z (p.bleed.left * scale z)
  have e2 := minCap_le_self z (p.bleed.top * scale z)
  have e3 := minCap_le_self z (p.bleed.right * scale z)
  have e4 := minCap_le_self z (p.bleed.bottom * scale z)
  have n1 := minCap_nonneg z _ hz (Rat.mul_nonneg hl hs)
  have n2 := minCap_nonneg z _ hz (Rat.mul_nonneg ht hs)
  have n3 := minCap_nonneg z _ hz (Rat.mul_nonneg hr hs)
  have n4 := minCap_nonneg z _ hz (Rat.mul_nonneg hb hs)
  have c1 := minCap_le z (p.bleed.left * scale z)
  have c2 := minCap_le z (p.bleed.top * scale z)
  have c3 := minCap_le z (p.bleed.right * scale z)
  have c4 := minCap_le z (p.bleed.bottom * scale z)
  simp only [bleedBox, trimBox, mediaBox]
  refine ⟨?_, ?_, ?_, ?_, ?_, ?_, ?_, ?_, ?_, ?_, ?_, ?_⟩ <;> linarith

/-! ### the whole document -/

private theorem scale_ne_zero {z : Rat} (hz : z ≠ 0) : scale z ≠ 0 := by
  unfold scale
  intro h
  rcases Rat.mul_eq_zero.mp h with h | h
  · exact hz h
  · revert h; decide +kernel

private theorem scale_eq_zero_iff (z : Rat) : scale z = 0 ↔ z = 0 := by
  constructor
  · intro h
    by_cases hz : z = 0
    · exact hz
    · exact absurd h (scale_ne_zero hz)
  · intro h; subst h; unfold scale; simp

private theorem pageOutlines_zoom (z : Rat) (i : Nat) (p : Page) (st : BmState) (bs : List Bookmark) :
    pageOutlines (scale z) i p st bs =
      (pageOutlines (scale 1) i p st bs).map (fun r => (r.1.map (scaleOutline z), r.2)) := by
  induction bs generalizing st with
  | nil => rfl
  | cons b rest ih =>
    simp only [pageOutlines]
    cases h : bookmarkStep st b.level with
    | error e => rfl
    | ok r =>
      obtain ⟨st', depth⟩ := r
      simp only []
      rw [ih st']
      cases h2 : pageOutlines (scale 1) i p st' rest with
      | error e => rfl
      | ok r2 =>
        obtain ⟨out, st''⟩ := r2
        simp only [Except.map, List.map_cons, transformPoint_pageMatrix, scaleOutline, scale,
          Except.ok.injEq, Prod.mk.injEq, List.cons.injEq, Outline.mk.injEq, true_and, and_true]
        constructor <;> ring

/-- Outline items: same labels, depths, pages and states (and the same exceptions); points scaled. -/
theorem docOutlines_zoom (z : Rat) (i : Nat) (st : BmState) (ps : List Page) :
    docOutlines (scale z) i st ps = (docOutlines (scale 1) i st ps).map (List.map (scaleOutline z)) := by
  induction ps generalizing i st with
  | nil => rfl
  | cons p rest ih =>
    simp only [docOutlines]
    rw [pageOutlines_zoom]
    cases h : pageOutlines (scale 1) i p st p.bookmarks with
    | error e => rfl
    | ok r =>
      obtain ⟨out, st'⟩ := r
      simp only [Except.map]
      rw [ih]
      cases h2 : docOutlines (scale 1) (i + 1) st' rest with
      | error e => rfl
      | ok out' => simp [Except.map]

/-- Drop the one quantity whose formula contains a `min`: the BleedBox is replaced by the TrimBox (only needed for
negative zooms). -/
def noBleed (p : PagePdf) : PagePdf := { p with bleed := p.trim }

def eraseBleed (o : PdfOut) : PdfOut := { o with pages := o.pages.map noBleed }

private theorem pagePdf_zoom_noBleed (z : Rat) (hz : z ≠ 0) (p : Page) (links : List Link) :
    noBleed (pagePdf z p links) = scalePage z (noBleed (pagePdf 1 p links)) := by
  have h1 : scale 1 ≠ 0 := scale_ne_zero (by decide +kernel)
  simp only [noBleed, pagePdf, scalePage, mediaBox_zoom z, trimBox_zoom z, annots_zoom z,
    pageRectangle_zoom_invariant _ (scale_ne_zero hz), pageRectangle_zoom_invariant _ h1, PagePdf.mk.injEq,
    true_and, and_true]
  constructor <;> (unfold scale; ring)

private theorem pagePdf_zoom (z : Rat) (hz : 0 < z) (p : Page) (links : List Link) :
    pagePdf z p links = scalePage z (pagePdf 1 p links) := by
  have h0 : scale 1 ≠ 0 := scale_ne_zero (by decide +kernel)
  have hne : z ≠ 0 := fun h => by subst h; exact absurd hz (by decide +kernel)
  simp only [pagePdf, scalePage, mediaBox_zoom z, trimBox_zoom z, annots_zoom z, bleedBox_zoom z (Rat.le_of_lt hz) p,
    pageRectangle_zoom_invariant _ (scale_ne_zero hne), pageRectangle_zoom_invariant _ h0, PagePdf.mk.injEq,
    true_and, and_true]
  constructor <;> (unfold scale; ring)

private theorem pagesPdf_zoom_noBleed (z : Rat) (hz : z ≠ 0) (ps : List Page) (las : List (List Link × List Anchor)) :
    (pagesPdf z ps las).map noBleed = ((pagesPdf 1 ps las).map noBleed).map (scalePage z) := by
  induction ps generalizing las with
  | nil => simp [pagesPdf]
  | cons p rest ih =>
    cases las with
    | nil => simp [pagesPdf]
    | cons la las =>
      simp only [pagesPdf, List.map_cons, List.cons.injEq]
      exact ⟨pagePdf_zoom_noBleed z hz p la.1, ih las⟩

private theorem pagesPdf_zoom (z : Rat) (hz : 0 < z) (ps : List Page) (las : List (List Link × List Anchor)) :
    pagesPdf z ps las = (pagesPdf 1 ps las).map (scalePage z) := by
  induction ps generalizing las with
  | nil => simp [pagesPdf]
  | cons p rest ih =>
    cases las with
    | nil => simp [pagesPdf]
    | cons la las =>
      simp only [pagesPdf, List.map_cons, List.cons.injEq]
      exact ⟨pagePdf_zoom z hz p la.1, ih las⟩

private theorem allDests_zoom (z : Rat) (i : Nat) (ps : List Page) (las : List (List Link × List Anchor)) :
    allDests (scale z) i ps las = (allDests (scale 1) i ps las).map (scaleDest z) := by
  induction ps generalizing i las with
  | nil => simp [allDests]
  | cons p rest ih =>
    cases las with
    | nil => simp [allDests]
    | cons la las => simp only [allDests, List.map_append, dests_zoom z, ih]

private theorem sortDests_scale (z : Rat) (ds : List Dest) :
    sortDests (ds.map (scaleDest z)) = (sortDests ds).map (scaleDest z) := by
  unfold sortDests
  symm
  apply List.map_mergeSort
  intro a _ b _
  rfl

/-- **zoom_linear** (full strength since the repair d924a7c of `bleedbox-cap-not-zoomed`; was `zoom_linear_partial`
with the hypothesis that no bleed offset reaches the 10 pt cap): for every zoom > 0, document, selection and variant,
`generate_pdf` at `zoom` fails exactly when it fails at zoom 1, and otherwise **every** layout-derived number —
MediaBox, TrimBox, BleedBox, page-flip and paint matrix entries, link rectangles, named destinations, outline points —
is `zoom ×` its value at zoom 1, while page count, link targets, destination names, pages and order, outline labels /
depths / states and the page rectangle are unchanged.  Layout is not an input of the scaling: `scaleOut` only
multiplies. -/
theorem zoom_linear (z : Rat) (hz : 0 < z) (ua : Bool) (d : Document) :
    generatePdf z ua d = (generatePdf 1 ua d).map (scaleOut z) := by
  have h1 : (1 : Rat) ≠ 0 := by decide +kernel
  have hne : z ≠ 0 := fun h => by subst h; exact absurd hz (by decide +kernel)
  unfold generatePdf
  simp only [scale_eq_zero_iff, hne, h1, false_and, if_false]
  rw [docOutlines_zoom z]
  cases h : docOutlines (scale 1) 0 ⟨[], 0⟩ d.pages with
  | error e => rfl
  | ok outlines =>
    simp only [Except.map]
    by_cases c2 : ua = true ∧ d.hasHtml = false ∧ d.pages ≠ []
    · simp only [if_pos c2]
    · · simp only [if_neg c2, scaleOut, Except.ok.injEq, PdfOut.mk.injEq, and_true]
        refine ⟨pagesPdf_zoom z hz d.pages _, ?_⟩
        rw [allDests_zoom z, sortDests_scale]

/-- The same for every zoom ≠ 0 (negative ones included), for everything but the BleedBox
(`bleedBox_negative_zoom_not_linear`). -/
theorem zoom_linear_any_sign (z : Rat) (hz : z ≠ 0) (ua : Bool) (d : Document) :
    (generatePdf z ua d).map eraseBleed = (generatePdf 1 ua d).map (fun o => scaleOut z (eraseBleed o)) := by
  have h1 : (1 : Rat) ≠ 0 := by decide +kernel
  unfold generatePdf
  simp only [scale_eq_zero_iff, hz, h1, false_and, if_false]
  rw [docOutlines_zoom z]
  cases h : docOutlines (scale 1) 0 ⟨[], 0⟩ d.pages with
  | error e => rfl
  | ok outlines =>
    simp only [Except.map]
    by_cases c2 : ua = true ∧ d.hasHtml = false ∧ d.pages ≠ []
    · simp only [if_pos c2]
    · · simp only [if_neg c2, eraseBleed, scaleOut, Except.ok.injEq, PdfOut.mk.injEq, and_true,
          List.map_map]
        refine ⟨?_, ?_⟩
        · have := pagesPdf_zoom_noBleed z hz d.pages (resolveLinks d.pages)
          simpa [List.map_map] using this
        · rw [allDests_zoom z, sortDests_scale]

/-- Zoom 0 is the only zoom at which `generate_pdf` fails on a document that zoom 1 accepts. -/
theorem zoom_zero_fails (ua : Bool) (d : Document) (h : d.pages ≠ []) :
    generatePdf 0 ua d = .error (.zeroDivision "generate_pdf.page_rectangle") := by
  unfold generatePdf
  simp [scale, h]

/-- A document on which `generate_pdf` succeeds, with bleeds below (4, 2, 1, 3 px) the cap. -/
def exampleDoc : Document :=
  ⟨[⟨100, 80, ⟨4, 2, 1, 3⟩, [⟨.internal, "a", ⟨10, 20, 30, 40⟩⟩], [⟨"a", 10, 10⟩], [⟨1, "t", 10, 10, false⟩]⟩],
   1, 2, 3, true⟩

/-- … and one whose bleed (20 px = 15 pt at zoom 1, 30 pt at zoom 2) is beyond the cap at both zooms: the input of
the former witness `bleedbox_cap_not_linear`. -/
def cappedDoc : Document := ⟨[⟨100, 100, ⟨20, 20, 20, 20⟩, [], [], []⟩], 1, 2, 3, true⟩

/-- Non-vacuity of `zoom_linear`: the statement at zoom 2 on both documents is about successful writes, and on
`cappedDoc` the cap is active at both zooms (the case the old `_partial` theorem excluded). -/
example : (0 : Rat) < 2 ∧ (generatePdf 2 false exampleDoc).toBool = true ∧ (generatePdf 2 true cappedDoc).toBool = true ∧
    (∀ p ∈ cappedDoc.pages, ¬ capFree 1 p ∧ ¬ capFree 2 p) ∧ (∀ p ∈ exampleDoc.pages, capFree 1 p ∧ capFree 2 p) := by
  decide +kernel


/-! ### totality: for bookmark levels ≥ 1 (what `gather_anchors` produces) the asserts of `make_page_bookmark_tree`
hold and `skipped_levels.pop()` never hits an empty list, so `zoom_linear` speaks about successful runs -/

private def sumL (s : List Nat) : Nat := s.foldl (· + ·) 0

private theorem foldl_add (a : Nat) (s : List Nat) : s.foldl (· + ·) a = a + s.foldl (· + ·) 0 := by
  induction s generalizing a with
  | nil => simp
  | cons k rest ih => simp only [List.foldl_cons]; rw [ih (a + k), ih (0 + k)]; omega

private theorem sumL_cons (k : Nat) (s : List Nat) : sumL (k :: s) = k + sumL s := by
  simp only [sumL, List.foldl_cons]; rw [foldl_add]; omega

/-- Loop invariant of `make_page_bookmark_tree`: `previous_level = len(skipped_levels) + sum(skipped_levels)`. -/
private def BmInv (st : BmState) : Prop := st.prev = st.skipped.length + sumL st.skipped

private theorem popWhile_ok (prev : Nat) (stack : List Nat) (temp : Nat)
    (h : prev ≤ temp + stack.length + sumL stack) :
    ∃ t r, popWhile prev temp stack = .ok (t, r) ∧ t + r.length + sumL r = temp + stack.length + sumL stack ∧
      prev ≤ t := by
  induction stack generalizing temp with
  | nil =>
    have : ¬ temp < prev := by simp [sumL] at h; omega
    exact ⟨temp, [], by simp [popWhile, this], rfl, by omega⟩
  | cons k rest ih =>
    by_cases ht : temp < prev
    · obtain ⟨t, r, h1, h2, h3⟩ := ih (temp + 1 + k) (by rw [sumL_cons] at h; simp at h ⊢; omega)
      refine ⟨t, r, by simp [popWhile, ht, h1], ?_, h3⟩
      rw [h2, sumL_cons]; simp; omega
    · exact ⟨temp, k :: rest, by simp [popWhile, ht], rfl, by omega⟩

private theorem checkDepth_ok (skipped : List Nat) (level : Nat) (hs : skipped.length + sumL skipped = level)
    (hl : 1 ≤ level) : checkDepth skipped level = .ok skipped.length := by
  have hsum : (skipped.foldl (· + ·) 0 : Nat) = sumL skipped := rfl
  have hd : (level : Int) - ((skipped.foldl (· + ·) 0 : Nat) : Int) = (skipped.length : Int) := by
    rw [hsum]; omega
  have hpos : ¬ ((skipped.length : Int) < 1) := by
    have : 1 ≤ skipped.length := by
      cases skipped with
      | nil => simp [sumL] at hs; omega
      | cons a b => simp
    omega
  simp only [checkDepth, hd, ne_eq, not_true_eq_false, if_false, hpos, Int.toNat_natCast]

private theorem newSkipped_ok (st : BmState) (level : Nat) (hinv : BmInv st) :
    ∃ sk, newSkipped st level = .ok sk ∧ sk.length + sumL sk = level := by
  unfold BmInv at hinv
  by_cases hgt : level > st.prev
  · exact ⟨(level - st.prev - 1) :: st.skipped, by simp [newSkipped, hgt], by rw [sumL_cons]; simp; omega⟩
  · obtain ⟨t, r, h1, h2, h3⟩ := popWhile_ok st.prev st.skipped level (by omega)
    by_cases ht : t > st.prev
    · exact ⟨(t - st.prev - 1) :: r, by simp [newSkipped, hgt, h1, ht], by rw [sumL_cons]; simp; omega⟩
    · exact ⟨r, by simp [newSkipped, hgt, h1, ht], by omega⟩

private theorem bookmarkStep_ok (st : BmState) (level : Nat) (hinv : BmInv st) (hl : 1 ≤ level) :
    ∃ st' depth, bookmarkStep st level = .ok (st', depth) ∧ BmInv st' := by
  obtain ⟨sk, h1, h2⟩ := newSkipped_ok st level hinv
  refine ⟨⟨sk, level⟩, sk.length, ?_, ?_⟩
  · simp [bookmarkStep, h1, checkDepth_ok sk level h2 hl]
  · simp only [BmInv]; omega

private theorem pageOutlines_ok (s : Rat) (i : Nat) (p : Page) (st : BmState) (bs : List Bookmark)
    (hinv : BmInv st) (hl : ∀ b ∈ bs, 1 ≤ b.level) :
    ∃ out st', pageOutlines s i p st bs = .ok (out, st') ∧ BmInv st' := by
  induction bs generalizing st with
  | nil => exact ⟨[], st, rfl, hinv⟩
  | cons b rest ih =>
    obtain ⟨st1, depth, h1, hinv1⟩ := bookmarkStep_ok st b.level hinv (hl b (by simp))
    obtain ⟨out, st2, h2, hinv2⟩ := ih st1 hinv1 (fun x hx => hl x (by simp [hx]))
    refine ⟨⟨depth, b.label, i, ((pageMatrix s p).transformPoint b.x b.y).1,
      ((pageMatrix s p).transformPoint b.x b.y).2, b.closed⟩ :: out, st2, ?_, hinv2⟩
    simp only [pageOutlines, h1, h2]

private theorem docOutlines_ok (s : Rat) (i : Nat) (st : BmState) (ps : List Page) (hinv : BmInv st)
    (hl : ∀ p ∈ ps, ∀ b ∈ p.bookmarks, 1 ≤ b.level) : ∃ out, docOutlines s i st ps = .ok out := by
  induction ps generalizing i st with
  | nil => exact ⟨[], rfl⟩
  | cons p rest ih =>
    obtain ⟨out, st1, h1, hinv1⟩ := pageOutlines_ok s i p st p.bookmarks hinv (hl p (by simp))
    obtain ⟨out2, h2⟩ := ih (i + 1) st1 hinv1 (fun q hq => hl q (by simp [hq]))
    refine ⟨out ++ out2, ?_⟩
    simp only [docOutlines, h1, h2]

/-- `generate_pdf` is total on its domain: zoom ≠ 0, bookmark levels ≥ 1 (what `gather_anchors` records), a variant
that does not need the HTML tree.  Neither `ZeroDivisionError`, nor the `IndexError` of `skipped_levels.pop()`, nor
the two `assert`s of `make_page_bookmark_tree` can occur. -/
theorem generatePdf_total (z : Rat) (hz : z ≠ 0) (d : Document)
    (hl : ∀ p ∈ d.pages, ∀ b ∈ p.bookmarks, 1 ≤ b.level) : ∃ o, generatePdf z false d = .ok o := by
  obtain ⟨out, h⟩ := docOutlines_ok (scale z) 0 ⟨[], 0⟩ d.pages (by simp [BmInv, sumL]) hl
  have hs : ¬ (scale z = 0 ∧ d.pages ≠ []) := fun c => scale_ne_zero hz c.1
  refine ⟨⟨pagesPdf z d.pages (resolveLinks d.pages),
    sortDests (allDests (scale z) 0 d.pages (resolveLinks d.pages)), out⟩, ?_⟩
  simp only [generatePdf, if_neg hs, h, Bool.false_eq_true, false_and, if_false]


example : ∀ p ∈ exampleDoc.pages, ∀ b ∈ p.bookmarks, 1 ≤ b.level := by decide

/-! ## 2 copy(pages) -/

theorem copy_all_pages (d : Document) : (copy d .all).pages = d.pages := rfl

theorem copy_selected_pages (d : Document) (ps : List Page) : (copy d (.pages ps)).pages = ps := rfl

/-- `copy` passes on metadata, fetcher, font configuration and the source HTML (repaired: `copy-drops-html`). -/
theorem copy_keeps (d : Document) (s : Sel) :
    (copy d s).metadata = d.metadata ∧ (copy d s).urlFetcher = d.urlFetcher ∧
    (copy d s).fontConfig = d.fontConfig ∧ (copy d s).hasHtml = d.hasHtml := by
  cases s <;> exact ⟨rfl, rfl, rfl, rfl⟩

/-- A copy of a copy is the copy of the original with the last selection. -/
theorem copy_copy (d : Document) (s : Sel) (ps : List Page) : copy (copy d s) (.pages ps) = copy d (.pages ps) := by
  cases s <;> rfl

private theorem pagedAnchors_length (seen : List String) (ps : List Page) :
    (pagedAnchors seen ps).1.length = ps.length := by
  induction ps generalizing seen with
  | nil => rfl
  | cons p rest ih => simp [pagedAnchors, ih]

private theorem secondPass_fst (names : List String) (ps : List Page) (as : List (List Anchor))
    (h : as.length = ps.length) :
    (secondPass names ps as).map (·.1) = ps.map (fun p => p.links.filter (keepLink names)) := by
  induction ps generalizing as with
  | nil => cases as <;> simp [secondPass]
  | cons p rest ih =>
    cases as with
    | nil => simp at h
    | cons a as =>
      simp only [secondPass, List.map_cons, List.cons.injEq, true_and]
      exact ih as (by simpa using h)

private theorem secondPass_snd (names : List String) (ps : List Page) (as : List (List Anchor))
    (h : as.length = ps.length) : (secondPass names ps as).map (·.2) = as := by
  induction ps generalizing as with
  | nil => cases as with
    | nil => rfl
    | cons a as => simp at h
  | cons p rest ih =>
    cases as with
    | nil => simp at h
    | cons a as =>
      simp only [secondPass, List.map_cons, List.cons.injEq, true_and]
      exact ih as (by simpa using h)

/-- `resolve_links` yields one entry per page. -/
theorem resolveLinks_length (ps : List Page) : (resolveLinks ps).length = ps.length := by
  have h := secondPass_fst (anchorNames ps) ps (pagedAnchors [] ps).1 (pagedAnchors_length [] ps)
  have := congrArg List.length h
  simpa [resolveLinks, anchorNames] using this

/-- The links `resolve_links` keeps on each page: all but the internal links whose target is anchored nowhere in the
page list. -/
theorem resolveLinks_links (ps : List Page) :
    (resolveLinks ps).map (·.1) = ps.map (fun p => p.links.filter (keepLink (anchorNames ps))) :=
  secondPass_fst (anchorNames ps) ps (pagedAnchors [] ps).1 (pagedAnchors_length [] ps)

theorem resolveLinks_anchors (ps : List Page) : (resolveLinks ps).map (·.2) = (pagedAnchors [] ps).1 :=
  secondPass_snd (anchorNames ps) ps (pagedAnchors [] ps).1 (pagedAnchors_length [] ps)

private theorem pageAnchors_spec (seen : List String) (as : List Anchor) :
    (∀ n, n ∈ (pageAnchors seen as).2 ↔ n ∈ seen ∨ n ∈ (pageAnchors seen as).1.map (·.name)) ∧
    (∀ n, n ∈ (pageAnchors seen as).2 ↔ n ∈ seen ∨ n ∈ as.map (·.name)) ∧
    ((pageAnchors seen as).1.map (·.name)).Nodup ∧
    (∀ n ∈ (pageAnchors seen as).1.map (·.name), n ∉ seen) := by
  induction as generalizing seen with
  | nil => simp [pageAnchors]
  | cons a rest ih =>
    by_cases h : a.name ∈ seen
    · simp only [pageAnchors, h, if_true]
      obtain ⟨i1, i2, i3, i4⟩ := ih seen
      refine ⟨i1, ?_, i3, i4⟩
      intro n
      rw [i2 n]
      simp only [List.map_cons, List.mem_cons]
      constructor
      · rintro (hn | hn)
        · exact Or.inl hn
        · exact Or.inr (Or.inr hn)
      · rintro (hn | hn | hn)
        · exact Or.inl hn
        · subst hn; exact Or.inl h
        · exact Or.inr hn
    · simp only [pageAnchors, h, if_false]
      obtain ⟨i1, i2, i3, i4⟩ := ih (a.name :: seen)
      refine ⟨?_, ?_, ?_, ?_⟩
      · intro n
        rw [i1 n]
        simp only [List.mem_cons, List.map_cons]
        constructor
        · rintro ((hn | hn) | hn)
          · exact Or.inr (Or.inl hn)
          · exact Or.inl hn
          · exact Or.inr (Or.inr hn)
        · rintro (hn | hn | hn)
          · exact Or.inl (Or.inr hn)
          · exact Or.inl (Or.inl hn)
          · exact Or.inr hn
      · intro n
        rw [i2 n]
        simp only [List.mem_cons, List.map_cons]
        constructor
        · rintro ((hn | hn) | hn)
          · exact Or.inr (Or.inl hn)
          · exact Or.inl hn
          · exact Or.inr (Or.inr hn)
        · rintro (hn | hn | hn)
          · exact Or.inl (Or.inr hn)
          · exact Or.inl (Or.inl hn)
          · exact Or.inr hn
      · simp only [List.map_cons, List.nodup_cons]
        refine ⟨?_, i3⟩
        intro hm
        exact i4 _ hm (by simp)
      · intro n hn
        simp only [List.map_cons, List.mem_cons] at hn
        rcases hn with hn | hn
        · subst hn; exact h
        · intro hs
          exact i4 n hn (by simp [hs])

/-- All names kept by the first pass, page after page. -/
def keptNames (seen : List String) (ps : List Page) : List String :=
  ((pagedAnchors seen ps).1.flatMap id).map (·.name)

private theorem pagedAnchors_spec (seen : List String) (ps : List Page) :
    (∀ n, n ∈ (pagedAnchors seen ps).2 ↔ n ∈ seen ∨ n ∈ keptNames seen ps) ∧
    (∀ n, n ∈ (pagedAnchors seen ps).2 ↔ n ∈ seen ∨ ∃ p ∈ ps, n ∈ p.anchors.map (·.name)) ∧
    (keptNames seen ps).Nodup ∧
    (∀ n ∈ keptNames seen ps, n ∉ seen) := by
  induction ps generalizing seen with
  | nil => simp [pagedAnchors, keptNames]
  | cons p rest ih =>
    obtain ⟨a1, a2, a3, a4⟩ := pageAnchors_spec seen p.anchors
    obtain ⟨i1, i2, i3, i4⟩ := ih (pageAnchors seen p.anchors).2
    have hk : keptNames seen (p :: rest) =
        (pageAnchors seen p.anchors).1.map (·.name) ++ keptNames (pageAnchors seen p.anchors).2 rest := by
      simp [keptNames, pagedAnchors]
    refine ⟨?_, ?_, ?_, ?_⟩
    · intro n
      show n ∈ (pagedAnchors (pageAnchors seen p.anchors).2 rest).2 ↔ _
      rw [i1 n, a1 n, hk, List.mem_append]
      constructor
      · rintro ((hn | hn) | hn)
        · exact Or.inl hn
        · exact Or.inr (Or.inl hn)
        · exact Or.inr (Or.inr hn)
      · rintro (hn | hn | hn)
        · exact Or.inl (Or.inl hn)
        · exact Or.inl (Or.inr hn)
        · exact Or.inr hn
    · intro n
      show n ∈ (pagedAnchors (pageAnchors seen p.anchors).2 rest).2 ↔ _
      rw [i2 n, a2 n]
      constructor
      · rintro ((hn | hn) | ⟨q, hq, hn⟩)
        · exact Or.inl hn
        · exact Or.inr ⟨p, by simp, hn⟩
        · exact Or.inr ⟨q, by simp [hq], hn⟩
      · rintro (hn | ⟨q, hq, hn⟩)
        · exact Or.inl (Or.inl hn)
        · simp only [List.mem_cons] at hq
          rcases hq with hq | hq
          · subst hq; exact Or.inl (Or.inr hn)
          · exact Or.inr ⟨q, hq, hn⟩
    · rw [hk, List.nodup_append]
      refine ⟨a3, i3, ?_⟩
      intro x hx y hy hxy
      subst hxy
      exact i4 x hy ((a1 x).mpr (Or.inr hx))
    · intro n hn
      rw [hk, List.mem_append] at hn
      rcases hn with hn | hn
      · exact a4 n hn
      · intro hs
        exact i4 n hn ((a1 n).mpr (Or.inl hs))

/-- The `anchors` set of `resolve_links` is exactly the set of names anchored on some page of the list. -/
theorem mem_anchorNames (ps : List Page) (n : String) :
    n ∈ anchorNames ps ↔ ∃ p ∈ ps, n ∈ p.anchors.map (·.name) := by
  have := (pagedAnchors_spec [] ps).2.1 n
  simpa [anchorNames] using this

/-- …and also the set of names of the destinations it emits, each exactly once (first occurrence wins). -/
theorem mem_anchorNames_kept (ps : List Page) (n : String) : n ∈ anchorNames ps ↔ n ∈ keptNames [] ps := by
  have := (pagedAnchors_spec [] ps).1 n
  simpa [anchorNames] using this

theorem keptNames_nodup (ps : List Page) : (keptNames [] ps).Nodup := (pagedAnchors_spec [] ps).2.2.1


private theorem pagesPdf_geometry (z : Rat) (ps : List Page) (las : List (List Link × List Anchor))
    (h : las.length = ps.length) :
    (pagesPdf z ps las).map (fun pp => (pp.media, pp.trim, pp.bleed, pp.flipF, pp.paintScale)) =
      ps.map (fun p => (mediaBox (scale z) p, trimBox (scale z) p, bleedBox z p, p.height * scale z, scale z)) := by
  induction ps generalizing las with
  | nil => cases las <;> simp [pagesPdf]
  | cons p rest ih =>
    cases las with
    | nil => simp at h
    | cons la las =>
      simp only [pagesPdf, List.map_cons, List.cons.injEq]
      exact ⟨rfl, ih las (by simpa using h)⟩

private theorem pagesPdf_annots (z : Rat) (f : Page → List Link) (ps : List Page)
    (las : List (List Link × List Anchor)) (h : las.map (·.1) = ps.map f) :
    (pagesPdf z ps las).map (·.annots) = ps.map (fun p => annots (pageMatrix (scale z) p) (f p)) := by
  induction ps generalizing las with
  | nil => cases las <;> simp [pagesPdf]
  | cons p rest ih =>
    cases las with
    | nil => simp at h
    | cons la las =>
      simp only [List.map_cons, List.cons.injEq] at h
      simp only [pagesPdf, List.map_cons, List.cons.injEq]
      refine ⟨?_, ih las h.2⟩
      simp only [pagePdf, h.1]

private theorem allDests_names (s : Rat) (i : Nat) (ps : List Page) (las : List (List Link × List Anchor))
    (h : las.length = ps.length) :
    (allDests s i ps las).map (·.name) = ((las.map (·.2)).flatMap id).map (·.name) := by
  induction ps generalizing i las with
  | nil => cases las with
    | nil => rfl
    | cons a as => simp at h
  | cons p rest ih =>
    cases las with
    | nil => simp at h
    | cons la las =>
      simp only [allDests, List.map_append, List.map_cons, List.flatMap_cons, id]
      rw [ih (i + 1) las (by simpa using h)]
      simp [dests]

private theorem allDests_page (s : Rat) (i : Nat) (ps : List Page) (las : List (List Link × List Anchor)) :
    ∀ dd ∈ allDests s i ps las, i ≤ dd.page ∧ dd.page < i + ps.length := by
  induction ps generalizing i las with
  | nil => intro dd h; cases las <;> simp [allDests] at h
  | cons p rest ih =>
    cases las with
    | nil => intro dd h; simp [allDests] at h
    | cons la las =>
      intro dd h
      simp only [allDests, List.mem_append] at h
      rcases h with h | h
      · simp only [dests, List.mem_map] at h
        obtain ⟨a, _, rfl⟩ := h
        simp
      · have := ih (i + 1) las dd h
        simp only [List.length_cons]
        omega

private theorem mem_sortDests (ds : List Dest) (x : Dest) : x ∈ sortDests ds ↔ x ∈ ds := by
  unfold sortDests
  exact List.mem_mergeSort

private theorem sortDests_names_perm (ds : List Dest) :
    ((sortDests ds).map (·.name)).Perm (ds.map (·.name)) := by
  unfold sortDests
  exact (List.mergeSort_perm ds _).map _

/-- What a successful `generate_pdf` (any variant) writes for a page list: one page per page of the list with the boxes
that page has in any document, its own links minus internal links to names not anchored in the list, and the
first-occurrence destinations. -/
theorem generatePdf_spec (z : Rat) (ua : Bool) (d : Document) (o : PdfOut) (h : generatePdf z ua d = .ok o) :
    o.pages.map (fun pp => (pp.media, pp.trim, pp.bleed, pp.flipF, pp.paintScale)) =
      d.pages.map (fun p => (mediaBox (scale z) p, trimBox (scale z) p, bleedBox z p,
        p.height * scale z, scale z)) ∧
    o.pages.map (·.annots) =
      d.pages.map (fun p => annots (pageMatrix (scale z) p) (p.links.filter (keepLink (anchorNames d.pages)))) ∧
    (∀ pp ∈ o.pages, ∀ a ∈ pp.annots, a.kind = .internal → a.target ∈ o.names.map (·.name)) ∧
    (∀ n, n ∈ o.names.map (·.name) ↔ ∃ p ∈ d.pages, n ∈ p.anchors.map (·.name)) ∧
    (o.names.map (·.name)).Nodup ∧
    (∀ dd ∈ o.names, dd.page < d.pages.length) := by
  simp only [generatePdf] at h
  split at h
  · cases h
  · split at h
    · cases h
    · split at h
      · cases h
      simp only [Except.ok.injEq] at h
      subst h
      generalize d.pages = ps
      have hlen := resolveLinks_length ps
      have hnames : ((sortDests (allDests (scale z) 0 ps (resolveLinks ps))).map (·.name)).Perm (keptNames [] ps) := by
        refine (sortDests_names_perm _).trans ?_
        rw [allDests_names _ _ _ _ hlen, resolveLinks_anchors]
        exact List.Perm.refl _
      have hmem : ∀ n, n ∈ (sortDests (allDests (scale z) 0 ps (resolveLinks ps))).map (·.name) ↔
          n ∈ anchorNames ps := by
        intro n
        rw [hnames.mem_iff, mem_anchorNames_kept]
      have hann := pagesPdf_annots z (fun p => p.links.filter (keepLink (anchorNames ps))) ps
        (resolveLinks ps) (resolveLinks_links ps)
      refine ⟨pagesPdf_geometry _ _ _ hlen, hann, ?_, ?_, ?_, ?_⟩
      · intro pp hpp a ha hk
        rw [hmem]
        have : pp.annots ∈ (pagesPdf z ps (resolveLinks ps)).map (·.annots) :=
          List.mem_map.mpr ⟨pp, hpp, rfl⟩
        rw [hann] at this
        obtain ⟨p, _, hp⟩ := List.mem_map.mp this
        rw [← hp] at ha
        simp only [annots, List.mem_map, List.mem_filter] at ha
        obtain ⟨l, ⟨⟨_, hkeep⟩, _⟩, rfl⟩ := ha
        simp only at hk
        simpa [keepLink, hk] using hkeep
      · intro n
        rw [hmem, mem_anchorNames]
      · exact hnames.nodup_iff.mpr (keptNames_nodup ps)
      · intro dd hdd
        have := allDests_page (scale z) 0 ps (resolveLinks ps) dd ((mem_sortDests _ _).mp hdd)
        omega

/-- **copy_pages** (full strength since `Document.copy` keeps the source HTML: every variant, `pdf/ua-1` included).
Whenever `generate_pdf` succeeds on `document.copy(ps)`:
* it writes one page per selected page, in the selected order, and the boxes / flip / paint scale of each are the ones
  that page has in any document (functions of the page alone: the same as in the PDF of the whole document,
  `copy_geometry_agrees`);
* the link annotations of each page are its own links except internal links whose target is not anchored on a selected
  page — links to unselected pages are dropped, never left dangling;
* the named destinations are exactly the anchor names of the selected pages, each once, on a page of the copy. -/
theorem copy_pages (z : Rat) (ua : Bool) (d : Document) (ps : List Page) (o : PdfOut)
    (h : generatePdf z ua (copy d (.pages ps)) = .ok o) :
    o.pages.map (fun pp => (pp.media, pp.trim, pp.bleed, pp.flipF, pp.paintScale)) =
      ps.map (fun p => (mediaBox (scale z) p, trimBox (scale z) p, bleedBox z p,
        p.height * scale z, scale z)) ∧
    o.pages.map (·.annots) =
      ps.map (fun p => annots (pageMatrix (scale z) p) (p.links.filter (keepLink (anchorNames ps)))) ∧
    (∀ pp ∈ o.pages, ∀ a ∈ pp.annots, a.kind = .internal → a.target ∈ o.names.map (·.name)) ∧
    (∀ n, n ∈ o.names.map (·.name) ↔ ∃ p ∈ ps, n ∈ p.anchors.map (·.name)) ∧
    (o.names.map (·.name)).Nodup ∧
    (∀ dd ∈ o.names, dd.page < ps.length) :=
  generatePdf_spec z ua (copy d (.pages ps)) o h

/-- Page `i` of the copy has exactly the boxes, flip and paint scale that the same page has as page `j` of the PDF of
the whole document. -/
theorem copy_geometry_agrees (z : Rat) (ua : Bool) (d : Document) (ps : List Page) (oFull oCopy : PdfOut)
    (hf : generatePdf z ua d = .ok oFull) (hc : generatePdf z ua (copy d (.pages ps)) = .ok oCopy)
    (i j : Nat) (p : Page) (hi : ps[i]? = some p) (hj : d.pages[j]? = some p) :
    (oCopy.pages[i]?).map (fun pp => (pp.media, pp.trim, pp.bleed, pp.flipF, pp.paintScale)) =
    (oFull.pages[j]?).map (fun pp => (pp.media, pp.trim, pp.bleed, pp.flipF, pp.paintScale)) := by
  have h1 := congrArg (fun l => l[i]?) (copy_pages z ua d ps oCopy hc).1
  have h2 := congrArg (fun l => l[j]?) (generatePdf_spec z ua d oFull hf).1
  simp only [List.getElem?_map, hi, hj, Option.map_some] at h1 h2
  rw [h1, h2]

/-- `copy('all')` writes what the document itself writes, for every variant. -/
theorem copy_all_same_pdf (z : Rat) (ua : Bool) (d : Document) :
    generatePdf z ua (copy d .all) = generatePdf z ua d := rfl

/-- `generate_pdf` with a variant that reads the HTML tree (`pdf/ua-1`) is total for zoom ≠ 0, bookmark levels ≥ 1 and
a document that has its source HTML — or no page at all (full strength since `pdfua` initialises its loop variable:
`pdfua-empty-selection` repaired). -/
theorem generatePdf_pdfua_total (z : Rat) (hz : z ≠ 0) (d : Document)
    (hl : ∀ p ∈ d.pages, ∀ b ∈ p.bookmarks, 1 ≤ b.level) (hh : d.hasHtml = true ∨ d.pages = []) :
    ∃ o, generatePdf z true d = .ok o := by
  obtain ⟨out, h⟩ := docOutlines_ok (scale z) 0 ⟨[], 0⟩ d.pages (by simp [BmInv, sumL]) hl
  have hs : ¬ (scale z = 0 ∧ d.pages ≠ []) := fun c => scale_ne_zero hz c.1
  have hc : ¬ (True ∧ d.hasHtml = false ∧ d.pages ≠ []) := by
    rintro ⟨_, h1, h2⟩
    rcases hh with hh | hh
    · rw [hh] at h1; cases h1
    · exact h2 hh
  refine ⟨⟨pagesPdf z d.pages (resolveLinks d.pages),
    sortDests (allDests (scale z) 0 d.pages (resolveLinks d.pages)), out⟩, ?_⟩
  simp only [generatePdf, if_neg hs, h]
  exact if_neg hc

/-- The repairs of `copy-drops-html` and `pdfua-empty-selection` at theorem level: every selection (the empty one
included) of pages of a rendered document can be written as `pdf/ua-1`. -/
theorem copy_pdfua_succeeds (z : Rat) (hz : z ≠ 0) (d : Document) (ps : List Page)
    (hl : ∀ p ∈ ps, ∀ b ∈ p.bookmarks, 1 ≤ b.level) (hh : d.hasHtml = true) :
    ∃ o, generatePdf z true (copy d (.pages ps)) = .ok o :=
  generatePdf_pdfua_total z hz (copy d (.pages ps)) hl (Or.inl hh)

/-- Regression example for the repaired `pdfua-empty-selection`: the empty selection of a rendered document, and a
hand-made document without pages and without source HTML, are written as `pdf/ua-1` (and as a plain PDF). -/
example :
    let d : Document := ⟨[⟨100, 80, ⟨0, 0, 0, 0⟩, [], [], []⟩, ⟨100, 80, ⟨0, 0, 0, 0⟩, [], [], []⟩], 1, 2, 3, true⟩
    (generatePdf 1 true (copy d (.pages []))).toBool = true ∧ (generatePdf 1 false (copy d (.pages []))).toBool = true ∧
    (generatePdf 1 true ⟨[], 1, 2, 3, false⟩).toBool = true := by
  decide +kernel

/-- Regression example for the repaired `copy-drops-html`: a rendered two-page document, `copy('all')` and the copy of
its first page are all written as `pdf/ua-1`. -/
example :
    let d : Document := ⟨[⟨100, 80, ⟨0, 0, 0, 0⟩, [], [], []⟩, ⟨100, 80, ⟨0, 0, 0, 0⟩, [], [], []⟩], 1, 2, 3, true⟩
    (generatePdf 1 true d).toBool = true ∧ (generatePdf 1 true (copy d .all)).toBool = true ∧
    (generatePdf 1 true (copy d (.pages (d.pages.take 1)))).toBool = true := by
  decide +kernel

/-- The hypothesis of `copy_pages` is satisfiable: `generate_pdf` succeeds on a copy. -/
example : (∃ o, generatePdf 1 false (copy exampleDoc (.pages exampleDoc.pages)) = .ok o) ∧
    (∃ o, generatePdf 1 true (copy exampleDoc (.pages exampleDoc.pages)) = .ok o) :=
  ⟨generatePdf_total 1 (by norm_num) _ (by decide),
   copy_pdfua_succeeds 1 (by norm_num) exampleDoc exampleDoc.pages (by decide) rfl⟩


/-! ## 3 three sinks -/
section sinks
open Wp.WriteSinks

/-- **three_sinks**: whatever the options, the variant table and the finisher, the three kinds of target (`None`, a file
object, a path) either all fail before anything is written, or each calls `pdf.write` with the same
`(version, identifier, compress)`; only the sink differs. -/
theorem three_sinks (table : List (String × VariantProps)) (o : Opts) (fin : Bool) (t1 t2 : Target) :
    (writePdfWith table o fin t1).map writesOf = (writePdfWith table o fin t2).map writesOf := by
  unfold writePdfWith
  cases applyVariant table o with
  | error e => rfl
  | ok o' => cases fin <;> cases t1 <;> cases t2 <;> rfl

/-- Exactly one `pdf.write` per call, with the arguments computed before the branch on the target. -/
theorem one_write (table : List (String × VariantProps)) (o : Opts) (fin : Bool) (t : Target) (evs : List Event)
    (h : writePdfWith table o fin t = .ok evs) :
    ∃ o', applyVariant table o = .ok o' ∧ writesOf evs = [writeArgs o'] := by
  unfold writePdfWith at h
  cases ha : applyVariant table o with
  | error e => rw [ha] at h; cases h
  | ok o' =>
    rw [ha] at h
    simp only [Except.ok.injEq] at h
    subst h
    exact ⟨o', rfl, by cases fin <;> cases t <;> rfl⟩

/-- What precedes the write (`generate_pdf`, the finisher) does not depend on the target either. -/
theorem same_prefix (table : List (String × VariantProps)) (o : Opts) (fin : Bool) (t1 t2 : Target) :
    (writePdfWith table o fin t1).map (List.takeWhile (fun e => !(e matches .write ..) && e != .openPath)) =
    (writePdfWith table o fin t2).map (List.takeWhile (fun e => !(e matches .write ..) && e != .openPath)) := by
  unfold writePdfWith
  cases applyVariant table o with
  | error e => rfl
  | ok o' => cases fin <;> cases t1 <;> cases t2 <;> rfl

/-- Only `None` returns bytes; a path is opened before and closed after the write. -/
theorem sink_shape (table : List (String × VariantProps)) (o : Opts) (fin : Bool) (t : Target) (evs : List Event)
    (h : writePdfWith table o fin t = .ok evs) :
    (evs.getLast? = some .returnBytes ↔ t = .none) ∧ (.openPath ∈ evs ↔ t = .path) ∧ (.closePath ∈ evs ↔ t = .path) := by
  unfold writePdfWith at h
  cases ha : applyVariant table o with
  | error e => rw [ha] at h; cases h
  | ok o' =>
    rw [ha] at h
    simp only [Except.ok.injEq] at h
    subst h
    cases fin <;> cases t <;> simp

/-- A caller's explicit version / identifier is never overridden by a variant. -/
theorem explicit_options_win (table : List (String × VariantProps)) (o o' : Opts)
    (h : applyVariant table o = .ok o') :
    (strTruthy o.version = true → o'.version = o.version) ∧
    (o.identifier.truthy = true → o'.identifier = o.identifier) ∧
    o'.uncompressed = o.uncompressed ∧ o'.variant = o.variant := by
  unfold applyVariant at h
  split at h
  · split at h
    · cases h; simp
    · split at h
      · cases h
      · rename_i props _
        simp only [Except.ok.injEq] at h
        subst h
        refine ⟨?_, ?_, rfl, rfl⟩
        · intro hv; cases hp : props.version <;> simp [hv]
        · intro hi; cases hp : props.identifier <;> simp [hi]
  · cases h; simp

/-- Facts of the *generated* variant table (`weasyprint.pdf.VARIANTS`): a variant that sets an identifier sets `True`,
and every variant that sets a version also sets an identifier (the PDF/A family). -/
theorem variants_defaults :
    ∀ e ∈ Gen.pdfVariants, (e.2.identifier = none ∨ e.2.identifier = some true) ∧
      (e.2.version.isSome → e.2.identifier.isSome) := by decide

example : writePdf ⟨some "pdf/a-3b", none, .none, false⟩ true .path =
    .ok [.generatePdf (some "pdf/a-3b"), .finisher, .openPath,
         .write .openedFile ⟨some "1.7", .bool true, true⟩, .closePath, .returnNone] := by decide

end sinks

/-! ## 5 fresh state -/
section fresh
open Wp.RenderState

private theorem orNew_spec (k : Kind) (n : Nat) (o : Option Nat) :
    (∀ id ∈ allocated (orNew k n o).1, n ≤ id ∧ id < (orNew k n o).2.2) ∧ n ≤ (orNew k n o).2.2 ∧
    ((orNew k n o).2.1 ∈ o.toList ∨ (n ≤ (orNew k n o).2.1 ∧ (orNew k n o).2.1 < (orNew k n o).2.2 ∧
      (orNew k n o).2.1 ∈ allocated (orNew k n o).1)) := by
  cases o <;> simp [orNew, allocated]

private theorem cacheStep_spec (n : Nat) (c : CacheOpt) :
    (∀ id ∈ allocated (cacheStep n c).1, n ≤ id ∧ id < (cacheStep n c).2.2) ∧ n ≤ (cacheStep n c).2.2 ∧
    ((cacheStep n c).2.1 ∈ (match c with | .dict id => [id] | .diskCache id => [id] | _ => []) ∨
      (cacheStep n c).2.1 ∈ allocated (cacheStep n c).1) := by
  cases c <;> simp [cacheStep, allocated]

private theorem userSheets_spec (n : Nat) (ss : List Sheet) :
    (∀ id ∈ allocated (userSheets n ss).1, n ≤ id ∧ id < (userSheets n ss).2.2) ∧ n ≤ (userSheets n ss).2.2 ∧
    (∀ id ∈ (userSheets n ss).2.1,
      id ∈ ss.filterMap (fun s => match s with | .css id => some id | .raw => none) ∨
      id ∈ allocated (userSheets n ss).1) := by
  induction ss generalizing n with
  | nil => simp [userSheets, allocated]
  | cons s rest ih =>
    cases s with
    | css id =>
      obtain ⟨h1, h2, h3⟩ := ih n
      simp only [userSheets, List.filterMap_cons, List.mem_cons]
      refine ⟨h1, h2, ?_⟩
      intro x hx
      rcases hx with hx | hx
      · exact Or.inl (Or.inl hx)
      · rcases h3 x hx with h | h
        · exact Or.inl (Or.inr h)
        · exact Or.inr h
    | raw =>
      obtain ⟨h1, h2, h3⟩ := ih (n + 1)
      simp only [userSheets, allocated, List.mem_cons, List.filterMap_cons]
      refine ⟨?_, by omega, ?_⟩
      · intro x hx
        rcases hx with hx | hx
        · subst hx; omega
        · have := h1 x hx; omega
      · intro x hx
        rcases hx with hx | hx
        · exact Or.inr (Or.inl hx)
        · rcases h3 x hx with h | h
          · exact Or.inl h
          · exact Or.inr (Or.inr h)

private theorem allocated_append (a b : List Ev) : allocated (a ++ b) = allocated a ++ allocated b := by
  induction a with
  | nil => rfl
  | cons e rest ih => cases e <;> simp [allocated, ih]

/-- The identities a render creates, in order. -/
private theorem allocated_render (next : Nat) (i : RenderIn) :
    allocated (render next i).events =
      let f := orNew .fontConfig (next + 1) i.fontConfig
      let c := orNew .counterStyle f.2.2 i.counterStyle
      let k := cacheStep (c.2.2 + 2) i.cache
      let us := userSheets k.2.2 (i.stylesheets.getD [])
      [next] ++ allocated f.1 ++ allocated c.1 ++ [c.2.2, c.2.2 + 1] ++ allocated k.1 ++ allocated us.1 ++
        [us.2.2, us.2.2 + 1, us.2.2 + 2, us.2.2 + 3, us.2.2 + 4, us.2.2 + 5] := by
  cases hff : i.docFontFaces <;> simp [render, allocated_append, allocated, hff]

private theorem render_next (next : Nat) (i : RenderIn) :
    (render next i).next =
      (userSheets (cacheStep ((orNew .counterStyle (orNew .fontConfig (next + 1) i.fontConfig).2.2
        i.counterStyle).2.2 + 2) i.cache).2.2 (i.stylesheets.getD [])).2.2 + 6 := rfl

/-- Every identity a render creates lies in `[next, (render next i).next)`: the allocation counter only grows. -/
theorem allocated_range (next : Nat) (i : RenderIn) :
    ∀ id ∈ allocated (render next i).events, next ≤ id ∧ id < (render next i).next := by
  intro id hid
  obtain ⟨f1, f2, _⟩ := orNew_spec .fontConfig (next + 1) i.fontConfig
  obtain ⟨c1, c2, _⟩ := orNew_spec .counterStyle (orNew .fontConfig (next + 1) i.fontConfig).2.2 i.counterStyle
  obtain ⟨k1, k2, _⟩ := cacheStep_spec ((orNew .counterStyle (orNew .fontConfig (next + 1) i.fontConfig).2.2
    i.counterStyle).2.2 + 2) i.cache
  obtain ⟨u1, u2, _⟩ := userSheets_spec (cacheStep ((orNew .counterStyle (orNew .fontConfig (next + 1)
    i.fontConfig).2.2 i.counterStyle).2.2 + 2) i.cache).2.2 (i.stylesheets.getD [])
  rw [allocated_render] at hid
  rw [render_next]
  simp only [List.mem_append, List.mem_cons, List.not_mem_nil, or_false] at hid
  rcases hid with (((((h | h) | h) | h) | h) | h) | h
  · omega
  · have := f1 id h; omega
  · have := c1 id h; omega
  · omega
  · have := k1 id h; omega
  · have := u1 id h; omega
  · omega

theorem render_next_gt (next : Nat) (i : RenderIn) : next < (render next i).next := by
  obtain ⟨_, f2, _⟩ := orNew_spec .fontConfig (next + 1) i.fontConfig
  obtain ⟨_, c2, _⟩ := orNew_spec .counterStyle (orNew .fontConfig (next + 1) i.fontConfig).2.2 i.counterStyle
  obtain ⟨_, k2, _⟩ := cacheStep_spec ((orNew .counterStyle (orNew .fontConfig (next + 1) i.fontConfig).2.2
    i.counterStyle).2.2 + 2) i.cache
  obtain ⟨_, u2, _⟩ := userSheets_spec (cacheStep ((orNew .counterStyle (orNew .fontConfig (next + 1)
    i.fontConfig).2.2 i.counterStyle).2.2 + 2) i.cache).2.2 (i.stylesheets.getD [])
  rw [render_next]; omega

/-- Everything the `LayoutContext` and the `Document` of a render hold was either handed in by the caller of *that*
render or created by that render. -/
theorem reachable_own_or_caller (next : Nat) (i : RenderIn) :
    ∀ id ∈ reachable (render next i), id ∈ callerObjects i ∨ id ∈ allocated (render next i).events := by
  intro id hid
  obtain ⟨_, _, f3⟩ := orNew_spec .fontConfig (next + 1) i.fontConfig
  obtain ⟨_, _, c3⟩ := orNew_spec .counterStyle (orNew .fontConfig (next + 1) i.fontConfig).2.2 i.counterStyle
  obtain ⟨_, _, k3⟩ := cacheStep_spec ((orNew .counterStyle (orNew .fontConfig (next + 1) i.fontConfig).2.2
    i.counterStyle).2.2 + 2) i.cache
  obtain ⟨_, _, u3⟩ := userSheets_spec (cacheStep ((orNew .counterStyle (orNew .fontConfig (next + 1)
    i.fontConfig).2.2 i.counterStyle).2.2 + 2) i.cache).2.2 (i.stylesheets.getD [])
  rw [allocated_render]
  simp only [reachable, render, List.mem_append, List.mem_cons, List.not_mem_nil, or_false] at hid
  simp only [callerObjects, List.mem_append, List.mem_cons, List.not_mem_nil, or_false]
  rcases hid with (h | h | h | h | h | h | h) | h
  · subst h
    rcases f3 with f | ⟨_, _, f⟩
    · exact Or.inl (Or.inl (Or.inl (Or.inl f)))
    · exact Or.inr (Or.inl (Or.inl (Or.inl (Or.inl (Or.inl (Or.inr f))))))
  · subst h
    rcases c3 with c | ⟨_, _, c⟩
    · exact Or.inl (Or.inl (Or.inl (Or.inr c)))
    · exact Or.inr (Or.inl (Or.inl (Or.inl (Or.inl (Or.inr c)))))
  · subst h
    rcases k3 with k | k
    · exact Or.inl (Or.inl (Or.inr k))
    · exact Or.inr (Or.inl (Or.inl (Or.inr k)))
  · subst h; exact Or.inr (Or.inl (Or.inl (Or.inl (Or.inr (Or.inl rfl)))))
  · subst h; exact Or.inr (Or.inr (Or.inr (Or.inl rfl)))
  · subst h; exact Or.inr (Or.inr (Or.inr (Or.inr (Or.inr (Or.inl rfl)))))
  · subst h; exact Or.inr (Or.inr (Or.inr (Or.inr (Or.inr (Or.inr (Or.inr rfl))))))
  · rcases u3 id h with u | u
    · exact Or.inl (Or.inr u)
    · exact Or.inr (Or.inl (Or.inr u))

/-- **fresh_state**: in a history of renders, a later render reaches an object created by an earlier render only if
its own caller handed that object in — no `StyleFor`, `LayoutContext`, `TargetCollector`, cache, `CounterStyle` or
font configuration leaks from one call to the next through the code itself. -/
theorem fresh_state (next : Nat) (i1 i2 : RenderIn) :
    ∀ id ∈ reachable (render (render next i1).next i2),
      id ∈ allocated (render next i1).events → id ∈ callerObjects i2 := by
  intro id hid h1
  rcases reachable_own_or_caller (render next i1).next i2 id hid with h | h
  · exact h
  · have a := allocated_range next i1 id h1
    have b := allocated_range (render next i1).next i2 id h
    omega

/-- The `LayoutContext` of a render (with everything its constructor creates: caches, lists of pending boxes) is an
object that render allocates. -/
theorem context_allocated (next : Nat) (i : RenderIn) :
    (render next i).context ∈ allocated (render next i).events := by
  rw [allocated_render]
  simp [render]

private theorem renderAll_context_ge (next : Nat) (ins : List RenderIn) :
    ∀ o ∈ renderAll next ins, next ≤ o.context := by
  induction ins generalizing next with
  | nil => intro o h; simp [renderAll] at h
  | cons i rest ih =>
    intro o h
    simp only [renderAll, List.mem_cons] at h
    rcases h with h | h
    · subst h
      exact (allocated_range next i _ (context_allocated next i)).1
    · have := ih (render next i).next o h
      have := render_next_gt next i
      omega

/-- **context_state_fresh** (any history, any number of renders): the layout contexts of the renders of a process are
pairwise different objects — no cache of a `LayoutContext` (`strut_layouts`, `tables`, `font_features`,
`dictionaries`, …: everything `LayoutContext.__init__` creates) is the cache of another render.  The `render-state`
correspondence compares this with the real objects (`shared=`: instance *and class* attributes). -/
theorem context_state_fresh (next : Nat) (ins : List RenderIn) :
    ((renderAll next ins).map (·.context)).Pairwise (· ≠ ·) := by
  induction ins generalizing next with
  | nil => simp [renderAll]
  | cons i rest ih =>
    simp only [renderAll, List.map_cons, List.pairwise_cons]
    refine ⟨?_, ih _⟩
    intro c hc
    obtain ⟨o, ho, rfl⟩ := List.mem_map.mp hc
    have h1 := renderAll_context_ge (render next i).next rest o ho
    have h2 := (allocated_range next i _ (context_allocated next i)).2
    omega

example : ((renderAll 1000 [⟨none, none, .none, none, false⟩, ⟨some 1, none, .dict 2, some [.raw], true⟩,
    ⟨some 1, none, .dict 2, none, false⟩]).map (·.context)) = [1009, 1020, 1030] := by decide

/-- The objects created by two successive renders are disjoint. -/
theorem allocations_disjoint (next : Nat) (i1 i2 : RenderIn) :
    ∀ id ∈ allocated (render next i1).events, id ∉ allocated (render (render next i1).next i2).events := by
  intro id h1 h2
  have a := allocated_range next i1 id h1
  have b := allocated_range _ i2 id h2
  omega

/-- The model has no event that writes a module-level object.  The only objects written are the counter style in use
(the UA counter styles are copied into it) and — when the document itself declares `@font-face` — the font
configuration in use; if the caller handed these in, rendering modifies them (known finding
`font-config-accumulates-font-faces`: the faces stay registered for later renders with the same configuration). -/
theorem written_objects (next : Nat) (i : RenderIn) :
    ∀ e ∈ (render next i).events,
      (∀ id, e = .writeObj id → id = (render next i).counterStyle) ∧
      (∀ id, e = .writeFont id → id = (render next i).fontConfig ∧ i.docFontFaces = true) := by
  intro e he
  have hu : ∀ n ss, ∀ e ∈ (userSheets n ss).1, ∃ k id, e = Ev.alloc k id := by
    intro n ss
    induction ss generalizing n with
    | nil => simp [userSheets]
    | cons s rest ih =>
      cases s with
      | css id => simpa [userSheets] using ih n
      | raw =>
        intro e he
        simp only [userSheets, List.mem_cons] at he
        rcases he with he | he
        · exact ⟨_, _, he⟩
        · exact ih _ e he
  have hf : ∀ k n o, ∀ e ∈ (orNew k n o).1, ∃ k id, e = Ev.alloc k id := by
    intro k n o; cases o <;> simp [orNew]
  have hk : ∀ n c, ∀ e ∈ (cacheStep n c).1, ∃ k id, e = Ev.alloc k id := by
    intro n c; cases c <;> simp [cacheStep]
  have halloc : ∀ e : Ev, (∃ k id, e = Ev.alloc k id) →
      (∀ id, e = .writeObj id → id = (render next i).counterStyle) ∧
      (∀ id, e = .writeFont id → id = (render next i).fontConfig ∧ i.docFontFaces = true) := by
    rintro e ⟨k, id', rfl⟩
    exact ⟨fun _ h => (nomatch h), fun _ h => (nomatch h)⟩
  simp only [render, List.mem_append] at he
  rcases he with (((((((h | h) | h) | h) | h) | h) | h) | h) | h
  · simp only [List.mem_cons, List.not_mem_nil, or_false] at h
    rcases h with rfl | rfl <;> exact ⟨fun _ h => (nomatch h), fun _ h => (nomatch h)⟩
  · exact halloc e (hf _ _ _ e h)
  · exact halloc e (hf _ _ _ e h)
  · simp only [List.mem_cons, List.not_mem_nil, or_false] at h
    rcases h with rfl | rfl <;> exact ⟨fun _ h => (nomatch h), fun _ h => (nomatch h)⟩
  · exact halloc e (hk _ _ e h)
  · exact halloc e (hu _ _ e h)
  · simp only [List.mem_cons, List.not_mem_nil, or_false] at h
    rcases h with rfl | rfl | rfl | rfl
    · exact ⟨fun _ h => (nomatch h), fun _ h => (nomatch h)⟩
    · exact ⟨fun _ h => (nomatch h), fun _ h => (nomatch h)⟩
    · exact ⟨fun _ h => (by cases h; rfl), fun _ h => (nomatch h)⟩
    · exact ⟨fun _ h => (nomatch h), fun _ h => (nomatch h)⟩
  · cases hff : i.docFontFaces with
    | false => simp [hff] at h
    | true =>
      simp only [hff, if_true, List.mem_cons, List.not_mem_nil, or_false] at h
      subst h
      exact ⟨fun _ h => (nomatch h), fun _ h => (by cases h; exact ⟨rfl, rfl⟩)⟩
  · simp only [List.mem_cons, List.not_mem_nil, or_false] at h
    rcases h with rfl | rfl | rfl | rfl | rfl <;> exact ⟨fun _ h => (nomatch h), fun _ h => (nomatch h)⟩

/-- The *generated* list of every site in `weasyprint/**/*.py` where code inside a function can change state that
outlives a render (stores through module-level names, `global`, memoised functions) contains only import-time
registries (the decorators that fill `PROPERTIES`, `EXPANDERS`, `DESCRIPTORS`, `COMPUTER_FUNCTIONS`, `HTML_HANDLERS`,
…) and one memo of a pure function (`get_lang_quotes`).  A new module-level cache or store breaks this proof. -/
theorem module_state_whitelisted :
    ∀ e ∈ Gen.moduleState,
      e ∈ [("css/computed_values.py", "COMPUTER_FUNCTIONS", "store@register_computer"),
           ("css/computed_values.py", "COMPUTER_FUNCTIONS", "store@register_computer.decorator"),
           ("css/validation/descriptors.py", "DESCRIPTORS", "store@descriptor"),
           ("css/validation/descriptors.py", "DESCRIPTORS", "store@descriptor.decorator"),
           ("css/validation/expanders.py", "EXPANDERS", "store@expander"),
           ("css/validation/expanders.py", "EXPANDERS", "store@expander.expander_decorator"),
           ("css/validation/properties.py", "PROPERTIES", "store@property"),
           ("css/validation/properties.py", "PROPERTIES", "store@property.decorator"),
           ("css/validation/properties.py", "PROPRIETARY", "call.add@property"),
           ("css/validation/properties.py", "PROPRIETARY", "call.add@property.decorator"),
           ("css/validation/properties.py", "UNSTABLE", "call.add@property"),
           ("css/validation/properties.py", "UNSTABLE", "call.add@property.decorator"),
           ("html.py", "HTML_HANDLERS", "store@handler"),
           ("html.py", "HTML_HANDLERS", "store@handler.decorator"),
           ("text/constants.py", "get_lang_quotes", "memo@get_lang_quotes")] := by decide

example : reachable (render 1000 ⟨some 1, none, .dict 2, some [.css 3, .raw], true⟩) =
    [1, 1001, 2, 1002, 1006, 1008, 1010, 3, 1004] := by decide

end fresh

/-! ## 4 image cache -/
section cache
open Wp.ImageCache

def allOrientations : List Orientation :=
  [.fromImage, .none, .angle .q0 false, .angle .q0 true, .angle .q90 false, .angle .q90 true,
   .angle .q180 false, .angle .q180 true, .angle .q270 false, .angle .q270 true]

theorem mem_allOrientations (o : Orientation) : o ∈ allOrientations := by
  cases o with
  | fromImage => simp [allOrientations]
  | none => simp [allOrientations]
  | angle q f => cases q <;> cases f <;> simp [allOrientations]

private theorem render_no_space_suffix :
    ∀ o1 ∈ allOrientations, ∀ o2 ∈ allOrientations, ¬ ((' ' :: o1.render.toList) <:+ o2.render.toList) := by
  decide

private theorem render_injective :
    ∀ o1 ∈ allOrientations, ∀ o2 ∈ allOrientations, o1.render.toList = o2.render.toList → o1 = o2 := by decide

private theorem append_cons_lt {α : Type} (a b s t : List α) (x : α) (h : a ++ x :: s = b ++ x :: t)
    (hl : s.length < t.length) : (x :: s) <:+ t := by
  rcases List.append_eq_append_iff.mp h with ⟨c, _, hc⟩ | ⟨c, _, hc⟩
  · have := congrArg List.length hc
    simp at this
    omega
  · cases c with
    | nil =>
      simp only [List.nil_append, List.cons.injEq, true_and] at hc
      subst hc; omega
    | cons y c' =>
      simp only [List.cons_append, List.cons.injEq] at hc
      exact ⟨c', hc.2.symm⟩

/-- Splitting a list at its last separator: if the tails contain no separator-like element (`P` holds on them, not on
the separators), equal lists split equally. -/
private theorem split_last {α : Type} (P : α → Prop) (a1 a2 t1 t2 : List α) (x y : α)
    (h1 : ∀ c ∈ t1, P c) (h2 : ∀ c ∈ t2, P c) (hx : ¬ P x) (hy : ¬ P y)
    (h : a1 ++ x :: t1 = a2 ++ y :: t2) : a1 = a2 ∧ x = y ∧ t1 = t2 := by
  rcases List.append_eq_append_iff.mp h with ⟨c, hc1, hc2⟩ | ⟨c, hc1, hc2⟩
  · cases c with
    | nil =>
      simp only [List.append_nil] at hc1
      simp only [List.nil_append, List.cons.injEq] at hc2
      exact ⟨hc1.symm, hc2.1, hc2.2⟩
    | cons w c' =>
      simp only [List.cons_append, List.cons.injEq] at hc2
      exact absurd (h1 y (by rw [hc2.2]; simp)) hy
  · cases c with
    | nil =>
      simp only [List.append_nil] at hc1
      simp only [List.nil_append, List.cons.injEq] at hc2
      exact ⟨hc1, hc2.1.symm, hc2.2.symm⟩
    | cons w c' =>
      simp only [List.cons_append, List.cons.injEq] at hc2
      exact absurd (h2 x (by rw [hc2.2]; simp)) hx

private theorem digits_isDigit (n : Nat) : ∀ c ∈ (toString n).toList, c.isDigit = true := by
  intro c hc
  have : (toString n).toList = Nat.toDigits 10 n := Nat.toList_repr
  rw [this] at hc
  exact Nat.isDigit_of_mem_toDigits (by decide) (by decide) hc

private theorem toString_nat_inj (n m : Nat) (h : (toString n).toList = (toString m).toList) : n = m := by
  have e1 : (toString n).toList = Nat.toDigits 10 n := Nat.toList_repr
  have e2 : (toString m).toList = Nat.toDigits 10 m := Nat.toList_repr
  rw [e1, e2] at h
  have := congrArg (fun l => Nat.ofDigitChars 10 l 0) h
  simpa [Nat.ofDigitChars_ten_toDigits] using this

/-- The characters of `str(None)` / `str(n)`: letters of `None` or digits. -/
private theorem pyOptNat_chars (o : Option Nat) :
    ∀ c ∈ (pyOptNat o).toList, c.isDigit = true ∨ c ∈ ['N', 'o', 'n', 'e'] := by
  cases o with
  | none => intro c hc; right; simpa [pyOptNat] using hc
  | some n => intro c hc; left; exact digits_isDigit n c hc

private theorem pyOptNat_no_space (o : Option Nat) : ∀ c ∈ (pyOptNat o).toList, c ≠ ' ' := by
  intro c hc
  rcases pyOptNat_chars o c hc with h | h
  · intro e; subst e; revert h; decide
  · intro e; subst e; revert h; decide

private theorem pyBool_no_space (b : Bool) : ∀ c ∈ (pyBool b).toList, c ≠ ' ' := by
  cases b <;> decide

private theorem pyBool_inj (a b : Bool) (h : (pyBool a).toList = (pyBool b).toList) : a = b := by
  cases a <;> cases b <;> first | rfl | (revert h; decide)

private theorem pyOptNat_inj (a b : Option Nat) (h : (pyOptNat a).toList = (pyOptNat b).toList) : a = b := by
  cases a with
  | none =>
    cases b with
    | none => rfl
    | some m =>
      exfalso
      have := digits_isDigit m 'N' (by rw [show (toString m).toList = (pyOptNat (some m)).toList from rfl, ← h]; decide)
      revert this; decide
  | some n =>
    cases b with
    | none =>
      exfalso
      have := digits_isDigit n 'N' (by rw [show (toString n).toList = (pyOptNat (some n)).toList from rfl, h]; decide)
      revert this; decide
    | some m => exact congrArg some (toString_nat_inj n m h)

private theorem keyStr_toList (u : String) (o : Orientation) (opts : Opts) :
    (keyStr u o opts).toList =
      (((u.toList ++ ' ' :: o.render.toList) ++ ' ' :: (pyBool opts.optimize).toList) ++
        ' ' :: (pyOptNat opts.jpegQuality).toList) ++ ' ' :: (pyOptNat opts.dpi).toList := by
  simp [keyStr, String.toList_append]

/-- The cache key `f'{url} {orientation} {optimize_images} {jpeg_quality} {dpi}'` determines the URL, the orientation
and the three image options: two different requests never share a key — also for URLs that contain spaces (the three
option tokens contain none; no orientation string has `' ' + another orientation string` as a suffix).  F18
(`image-cache-ignores-orientation`) and `image-cache-ignores-options` repaired. -/
theorem key_injective (u1 u2 : String) (o1 o2 : Orientation) (p1 p2 : Opts)
    (h : keyStr u1 o1 p1 = keyStr u2 o2 p2) : u1 = u2 ∧ o1 = o2 ∧ p1 = p2 := by
  have hl := congrArg String.toList h
  rw [keyStr_toList, keyStr_toList] at hl
  have ns : ¬ ((' ' : Char) ≠ ' ') := fun c => c rfl
  obtain ⟨hl, _, hd⟩ := split_last (· ≠ ' ') _ _ _ _ ' ' ' ' (pyOptNat_no_space _) (pyOptNat_no_space _) ns ns hl
  obtain ⟨hl, _, hq⟩ := split_last (· ≠ ' ') _ _ _ _ ' ' ' ' (pyOptNat_no_space _) (pyOptNat_no_space _) ns ns hl
  obtain ⟨hl, _, hb⟩ := split_last (· ≠ ' ') _ _ _ _ ' ' ' ' (pyBool_no_space _) (pyBool_no_space _) ns ns hl
  have hp : p1 = p2 := by
    cases p1; cases p2
    simp only [Opts.mk.injEq]
    exact ⟨pyBool_inj _ _ hb, pyOptNat_inj _ _ hq, pyOptNat_inj _ _ hd⟩
  have m1 := mem_allOrientations o1
  have m2 := mem_allOrientations o2
  rcases Nat.lt_trichotomy o1.render.toList.length o2.render.toList.length with hlt | heq | hgt
  · exact absurd (append_cons_lt _ _ _ _ _ hl hlt) (render_no_space_suffix o1 m1 o2 m2)
  · have hcons : (' ' :: o1.render.toList).length = (' ' :: o2.render.toList).length := by simp [heq]
    obtain ⟨ha, hb⟩ := List.append_inj' hl hcons
    simp only [List.cons.injEq, true_and] at hb
    exact ⟨String.toList_inj.mp ha, render_injective o1 m1 o2 m2 hb, hp⟩
  · exact absurd (append_cons_lt _ _ _ _ _ hl.symm hgt) (render_no_space_suffix o2 m2 o1 m1)

/-- `str(dpi or '')`: nothing, or digits. -/
private theorem dataKey_toList (id : String) (dpi : Option Nat) :
    ∃ ds : List Char, (dataKey id dpi).toList = (id.toList ++ "-source".toList) ++ '-' :: ds ∧
      ∀ c ∈ ds, c.isDigit = true := by
  cases dpi with
  | none => exact ⟨[], by simp [dataKey, String.toList_append], by simp⟩
  | some n =>
    by_cases hn : n = 0
    · subst hn; exact ⟨[], by simp [dataKey, String.toList_append], by simp⟩
    · exact ⟨(toString n).toList, by simp [dataKey, hn, String.toList_append], digits_isDigit n⟩

/-- The keys under which `LazyImage` stores bytes never collide with an image key: after its last `-` a data key has
digits only, an image key has a space there. -/
theorem dataKey_ne_keyStr (id : String) (dpi : Option Nat) (u : String) (o : Orientation) (opts : Opts) :
    dataKey id dpi ≠ keyStr u o opts := by
  intro h
  obtain ⟨ds, hds, hdig⟩ := dataKey_toList id dpi
  have hl := congrArg String.toList h
  rw [hds, keyStr_toList] at hl
  have P1 : ∀ c ∈ ds, (c ≠ '-' ∧ c ≠ ' ') := by
    intro c hc
    have := hdig c hc
    constructor <;> (intro e; subst e; revert this; decide)
  have P2 : ∀ c ∈ (pyOptNat opts.dpi).toList, (c ≠ '-' ∧ c ≠ ' ') := by
    intro c hc
    rcases pyOptNat_chars _ c hc with hh | hh <;> constructor <;> (intro e; subst e; revert hh; decide)
  obtain ⟨_, hxy, _⟩ := split_last (fun c => c ≠ '-' ∧ c ≠ ' ') _ _ _ _ '-' ' ' P1 P2 (fun c => c.1 rfl)
    (fun c => c.2 rfl) hl
  revert hxy; decide

/-- Two different image keys never share a `LazyImage` data key (`md5` symbolic, i.e. collision-free). -/
theorem dataKey_injective (k1 k2 : String) (d1 d2 : Option Nat)
    (h : dataKey (imageId k1) d1 = dataKey (imageId k2) d2) : k1 = k2 := by
  obtain ⟨ds1, h1, g1⟩ := dataKey_toList (imageId k1) d1
  obtain ⟨ds2, h2, g2⟩ := dataKey_toList (imageId k2) d2
  have hl := congrArg String.toList h
  rw [h1, h2] at hl
  have nd : ∀ ds : List Char, (∀ c ∈ ds, c.isDigit = true) → ∀ c ∈ ds, c ≠ '-' := by
    intro ds g c hc e; subst e; have := g _ hc; revert this; decide
  obtain ⟨hp, _, _⟩ := split_last (· ≠ '-') _ _ _ _ '-' '-' (nd _ g1) (nd _ g2) (fun c => c rfl) (fun c => c rfl) hl
  have hp := List.append_cancel_right hp
  have e : ∀ k : String, (imageId k).toList = "md5(".toList ++ (k.toList ++ [')']) := by
    intro k; simp [imageId, String.toList_append]
  rw [e, e] at hp
  exact String.toList_inj.mp (List.append_cancel_right (List.append_cancel_left hp))

theorem lookup_insert_same (c : Cache) (k : String) (v : Entry) : lookup (insert c k v) k = some v := by
  induction c with
  | nil => simp [ImageCache.insert, lookup]
  | cons e rest ih =>
    obtain ⟨k', v'⟩ := e
    by_cases h : k' = k
    · simp [ImageCache.insert, lookup, h]
    · simp [ImageCache.insert, lookup, h, ih]

theorem lookup_insert_ne (c : Cache) (k k' : String) (v : Entry) (h : k ≠ k') :
    lookup (insert c k v) k' = lookup c k' := by
  induction c with
  | nil => simp [ImageCache.insert, lookup, h]
  | cons e rest ih =>
    obtain ⟨k2, v2⟩ := e
    by_cases h2 : k2 = k
    · subst h2; simp [ImageCache.insert, lookup, h]
    · by_cases h3 : k2 = k'
      · have h' : ¬ k' = k := fun e => h e.symm
        subst h3
        simp [ImageCache.insert, lookup, h']
      · simp [ImageCache.insert, lookup, h2, h3, ih]

/-- No fetched blob is at the same time a valid SVG and a Pillow-readable raster. -/
def Exclusive (f : Fetcher) : Prop :=
  ∀ url mime file blob, f url = .ok mime file blob → ¬ (blob.svgOk = true ∧ blob.raster.isSome = true)

theorem storeRaster_value (opts : Opts) (c : Cache) (id : String) (fmt : OutFmt) (p : Payload)
    (file : Option String) :
    (storeRaster opts c id fmt p file).1 = (storeRaster opts [] id fmt p file).1 ∧
    ((storeRaster opts c id fmt p file).2 = c ∨
      (storeRaster opts c id fmt p file).2 = insert c (dataKey id opts.dpi) (.bytes p)) := by
  unfold storeRaster
  split
  · split
    · exact ⟨rfl, Or.inl rfl⟩
    · exact ⟨rfl, Or.inr rfl⟩
  · exact ⟨rfl, Or.inr rfl⟩

theorem makeRaster_value (opts : Opts) (c : Cache) (key : String) (blob : Blob) (r : Raster)
    (file : Option String) (o : Orientation) :
    (makeRaster opts c key blob r file o).1 = (makeRaster opts [] key blob r file o).1 ∧
    ((makeRaster opts c key blob r file o).2 = c ∨
      ∃ p, (makeRaster opts c key blob r file o).2 = insert c (dataKey (imageId key) opts.dpi) (.bytes p)) := by
  unfold makeRaster
  simp only
  cases (rasterPlan opts blob r file o).1 with
  | true => exact ⟨rfl, Or.inl rfl⟩
  | false =>
    simp only [Bool.false_eq_true, if_false]
    refine ⟨congrArg some (storeRaster_value opts c _ _ _ _).1, ?_⟩
    rcases (storeRaster_value opts c (imageId key) (rasterPlan opts blob r file o).2.1
      (rasterPlan opts blob r file o).2.2.1 (rasterPlan opts blob r file o).2.2.2).2 with h | h
    · exact Or.inl h
    · exact Or.inr ⟨_, h⟩

private theorem decode_value (opts : Opts) (c : Cache) (url key forced forced' : String) (mime : Option String)
    (file : Option String) (blob : Blob) (o : Orientation)
    (hx : ¬ (blob.svgOk = true ∧ blob.raster.isSome = true)) :
    (decode opts c url key forced mime file blob o).1 = (decode opts [] url key forced' mime file blob o).1 ∧
    ((decode opts c url key forced mime file blob o).2 = c ∨
      ∃ p, (decode opts c url key forced mime file blob o).2 =
        insert c (dataKey (imageId key) opts.dpi) (.bytes p)) := by
  unfold decode
  cases hr : blob.raster with
  | none =>
    cases hs : blob.svgOk <;> simp only [Bool.false_eq_true, and_false, and_true, if_false] <;>
      split_ifs <;> simp
  | some r =>
    have hs : blob.svgOk = false := by
      cases h : blob.svgOk with
      | false => rfl
      | true => exact absurd ⟨h, by simp [hr]⟩ hx
    simp only [hs, Bool.false_eq_true, and_false, if_false]
    obtain ⟨m1, m2⟩ := makeRaster_value opts c key blob r file o
    exact ⟨m1, m2⟩

/-- Every image entry of the cache is the value a cold call returns for the request (URL, orientation, image options)
it is keyed by. -/
def Consistent (f : Fetcher) (c : Cache) : Prop :=
  ∀ url o opts e, lookup c (keyStr url o opts) = some e → ∀ forced, cold f ⟨url, forced, o, opts⟩ = .ok e

theorem consistent_empty (f : Fetcher) : Consistent f [] := by
  intro url o opts e h; simp [lookup] at h

private theorem getImage_spec (f : Fetcher) (hx : Exclusive f) (c : Cache) (hc : Consistent f c)
    (url forced : String) (o : Orientation) (opts : Opts) :
    (getImage f opts c url forced o).value = cold f ⟨url, forced, o, opts⟩ ∧
    Consistent f (getImage f opts c url forced o).cache := by
  cases hl : lookup c (keyStr url o opts) with
  | some e =>
    have hv : getImage f opts c url forced o = ⟨.ok e, c, []⟩ := by simp [getImage, hl]
    rw [hv]
    exact ⟨(hc url o opts e hl forced).symm, hc⟩
  | none =>
    have hcold : ∀ forced', cold f ⟨url, forced', o, opts⟩ =
        (match f url with
          | .raises => .ok (.image none)
          | .malformed => .error (.indexError "KeyError:result['file_obj']")
          | .ok mime file blob =>
            .ok (.image (decode opts [] url (keyStr url o opts) forced' mime file blob o).1)) := by
      intro forced'
      simp only [cold, coldResult, getImage, lookup]
      cases f url <;> rfl
    -- a new image entry `v` under this key, possibly after a bytes entry, keeps the cache consistent
    have hkeep : ∀ (c' : Cache) (v : Entry),
        (c' = c ∨ ∃ p, c' = insert c (dataKey (imageId (keyStr url o opts)) opts.dpi) (.bytes p)) →
        (∀ forced', cold f ⟨url, forced', o, opts⟩ = .ok v) →
        Consistent f (insert c' (keyStr url o opts) v) := by
      intro c' v hc' hv url' o' opts' e he forced'
      by_cases hk : keyStr url o opts = keyStr url' o' opts'
      · obtain ⟨hu, ho, hp⟩ := key_injective _ _ _ _ _ _ hk
        subst hu; subst ho; subst hp
        rw [lookup_insert_same] at he
        cases he
        exact hv forced'
      · rw [lookup_insert_ne _ _ _ _ hk] at he
        rcases hc' with rfl | ⟨p, rfl⟩
        · exact hc url' o' opts' e he forced'
        · rw [lookup_insert_ne _ _ _ _ (dataKey_ne_keyStr _ _ _ _ _)] at he
          exact hc url' o' opts' e he forced'
    cases hf : f url with
    | raises =>
      have hv : getImage f opts c url forced o =
          ⟨.ok (.image none), insert c (keyStr url o opts) (.image none), [url]⟩ := by simp [getImage, hl, hf]
      rw [hv]
      refine ⟨?_, hkeep c _ (Or.inl rfl) ?_⟩
      · rw [hcold, hf]
      · intro forced'; rw [hcold, hf]
    | malformed =>
      have hv : getImage f opts c url forced o =
          ⟨.error (.indexError "KeyError:result['file_obj']"), c, [url]⟩ := by simp [getImage, hl, hf]
      rw [hv]
      refine ⟨?_, hc⟩
      rw [hcold, hf]
    | ok mime file blob =>
      have hxb := hx url mime file blob hf
      have hv : getImage f opts c url forced o =
          ⟨.ok (.image (decode opts c url (keyStr url o opts) forced mime file blob o).1),
           insert (decode opts c url (keyStr url o opts) forced mime file blob o).2 (keyStr url o opts)
             (.image (decode opts c url (keyStr url o opts) forced mime file blob o).1), [url]⟩ := by
        simp [getImage, hl, hf]
      rw [hv]
      obtain ⟨d1, d2⟩ := decode_value opts c url (keyStr url o opts) forced forced mime file blob o hxb
      refine ⟨?_, hkeep _ _ d2 ?_⟩
      · rw [hcold, hf, d1]
      · intro forced'
        rw [hcold, hf, (decode_value opts c url (keyStr url o opts) forced forced' mime file blob o hxb).1]

/-- **cache_transparent** (full strength since bca20a5: any orientations, any forced MIME types, and **image options
that change from call to call** — a cache shared by renders with different `optimize_images` / `jpeg_quality` / `dpi`;
it was stated for fixed options while the key ignored them, known finding `image-cache-ignores-options`): for every
history of `get_image_from_uri` calls that share a cache which starts consistent (e.g. empty), with a deterministic
fetcher, every call returns exactly what it would return on a cold cache — cached failures (`None`) and `KeyError`s
included.  Hence a warm and a cold cache give the same images. -/
theorem cache_transparent (f : Fetcher) (hx : Exclusive f) (c : Cache) (hc : Consistent f c)
    (calls : List Call) : (runCalls f c calls).map (·.value) = calls.map (cold f) := by
  induction calls generalizing c with
  | nil => rfl
  | cons call rest ih =>
    obtain ⟨h1, h2⟩ := getImage_spec f hx c hc call.url call.forced call.orientation call.opts
    simp only [runCalls, List.map_cons, List.cons.injEq]
    exact ⟨h1, ih _ h2⟩

/-- A hit fetches nothing and leaves the cache as it is. -/
theorem hit_no_fetch (f : Fetcher) (opts : Opts) (c : Cache) (url forced : String) (o : Orientation) (e : Entry)
    (h : lookup c (keyStr url o opts) = some e) :
    (getImage f opts c url forced o).fetched = [] ∧ (getImage f opts c url forced o).cache = c := by
  simp [getImage, h]

/-- A miss calls the fetcher exactly once, with the URL asked for. -/
theorem miss_fetches_once (f : Fetcher) (opts : Opts) (c : Cache) (url forced : String) (o : Orientation)
    (h : lookup c (keyStr url o opts) = none) : (getImage f opts c url forced o).fetched = [url] := by
  simp only [getImage, h]
  cases f url <;> rfl

/-- After a call that returned (did not raise), the same request is a hit: each `(url, orientation, options)` is
fetched at most once per cache. -/
theorem second_call_is_hit (f : Fetcher) (opts : Opts) (c : Cache) (url forced : String) (o : Orientation) (e : Entry)
    (h : (getImage f opts c url forced o).value = .ok e) :
    lookup (getImage f opts c url forced o).cache (keyStr url o opts) = some e := by
  cases hl : lookup c (keyStr url o opts) with
  | some e' =>
    simp only [getImage, hl] at h ⊢
    cases h; rfl
  | none =>
    simp only [getImage, hl] at h ⊢
    cases hf : f url with
    | raises => simp only [hf] at h ⊢; cases h; exact lookup_insert_same _ _ _
    | malformed => simp only [hf] at h; cases h
    | ok mime file blob => simp only [hf] at h ⊢; cases h; exact lookup_insert_same _ _ _

/-! ### the bytes behind the images (what the former witness `cache_ignores_options` was about) -/

/-- Under `Exclusive`, what `decode` returns and stores does not depend on the forced MIME type at all. -/
private theorem decode_forced (opts : Opts) (c : Cache) (url key forced forced' : String) (mime : Option String)
    (file : Option String) (blob : Blob) (o : Orientation)
    (hx : ¬ (blob.svgOk = true ∧ blob.raster.isSome = true)) :
    decode opts c url key forced mime file blob o = decode opts c url key forced' mime file blob o := by
  unfold decode
  cases hr : blob.raster with
  | none =>
    cases hs : blob.svgOk <;> simp only [Bool.false_eq_true, and_false, and_true, if_false] <;>
      split_ifs <;> rfl
  | some r =>
    have hs : blob.svgOk = false := by
      cases h : blob.svgOk with
      | false => rfl
      | true => exact absurd ⟨h, by simp [hr]⟩ hx
    simp only [hs, Bool.false_eq_true, and_false, if_false]

/-- The cache effect of `decode` is the same insertion (or none) whatever the cache it starts from. -/
private theorem decode_cache_uniform (opts : Opts) (url key forced : String) (mime file : Option String)
    (blob : Blob) (o : Orientation) :
    (∀ c, (decode opts c url key forced mime file blob o).2 = c) ∨
    (∃ p, ∀ c, (decode opts c url key forced mime file blob o).2 =
      insert c (dataKey (imageId key) opts.dpi) (.bytes p)) := by
  unfold decode
  cases hr : blob.raster with
  | none => left; intro c; simp only []; split_ifs <;> rfl
  | some r =>
    simp only []
    by_cases h1 : (if forced ≠ "" then some forced else mime) = some svgMime ∧ blob.svgOk = true
    · left; intro c; rw [if_pos h1]
    · simp only [if_neg h1]
      unfold makeRaster
      simp only
      cases (rasterPlan opts blob r file o).1 with
      | true => left; intro c; rfl
      | false =>
        simp only [Bool.false_eq_true, if_false]
        unfold storeRaster
        split
        · split
          · left; intro c; rfl
          · right; exact ⟨_, fun c => rfl⟩
        · right; exact ⟨_, fun c => rfl⟩

/-- Every image entry is the cold value for its request **and** the cache still holds every bytes entry the cold call
stores for it (nothing another request did has replaced them). -/
def PayloadConsistent (f : Fetcher) (c : Cache) : Prop :=
  ∀ url o opts e, lookup c (keyStr url o opts) = some e → ∀ forced,
    cold f ⟨url, forced, o, opts⟩ = .ok e ∧
    ∀ dk p, lookup (coldResult f ⟨url, forced, o, opts⟩).cache dk = some (.bytes p) → lookup c dk = some (.bytes p)

theorem payloadConsistent_empty (f : Fetcher) : PayloadConsistent f [] := by
  intro url o opts e h; simp [lookup] at h

/-- The only bytes entry a cold call stores sits under the data key of its own image key. -/
private theorem cold_bytes_key (f : Fetcher) (call : Call) (dk : String) (p : Payload)
    (h : lookup (coldResult f call).cache dk = some (.bytes p)) :
    dk = dataKey (imageId (keyStr call.url call.orientation call.opts)) call.opts.dpi := by
  obtain ⟨url, forced, o, opts⟩ := call
  simp only [coldResult, getImage, lookup] at h
  cases hf : f url with
  | raises =>
    simp only [hf, ImageCache.insert, lookup] at h
    split at h <;> cases h
  | malformed => simp [hf, lookup] at h
  | ok mime file blob =>
    simp only [hf] at h
    by_cases hk : keyStr url o opts = dk
    · subst hk; rw [lookup_insert_same] at h; cases h
    · rw [lookup_insert_ne _ _ _ _ hk] at h
      rcases decode_cache_uniform opts url (keyStr url o opts) forced mime file blob o with hu | ⟨q, hu⟩
      · rw [hu] at h; simp [lookup] at h
      · rw [hu] at h
        by_cases hd : dataKey (imageId (keyStr url o opts)) opts.dpi = dk
        · exact hd.symm
        · rw [lookup_insert_ne _ _ _ _ hd] at h; simp [lookup] at h

private theorem getImage_payload_spec (f : Fetcher) (hx : Exclusive f) (c : Cache) (hc : PayloadConsistent f c)
    (url forced : String) (o : Orientation) (opts : Opts) :
    (getImage f opts c url forced o).value = cold f ⟨url, forced, o, opts⟩ ∧
    (∀ dk p, lookup (coldResult f ⟨url, forced, o, opts⟩).cache dk = some (.bytes p) →
      lookup (getImage f opts c url forced o).cache dk = some (.bytes p)) ∧
    PayloadConsistent f (getImage f opts c url forced o).cache := by
  cases hl : lookup c (keyStr url o opts) with
  | some e =>
    have hv : getImage f opts c url forced o = ⟨.ok e, c, []⟩ := by simp [getImage, hl]
    rw [hv]
    exact ⟨((hc url o opts e hl forced).1).symm, (hc url o opts e hl forced).2, hc⟩
  | none =>
    -- whatever is inserted at this request's own keys leaves the other requests' entries alone
    have hother : ∀ (c' : Cache) (v : Entry),
        (c' = c ∨ ∃ p, c' = insert c (dataKey (imageId (keyStr url o opts)) opts.dpi) (.bytes p)) →
        ∀ url' o' opts' e, keyStr url o opts ≠ keyStr url' o' opts' →
          lookup (insert c' (keyStr url o opts) v) (keyStr url' o' opts') = some e → ∀ forced',
          cold f ⟨url', forced', o', opts'⟩ = .ok e ∧
          ∀ dk p, lookup (coldResult f ⟨url', forced', o', opts'⟩).cache dk = some (.bytes p) →
            lookup (insert c' (keyStr url o opts) v) dk = some (.bytes p) := by
      intro c' v hc' url' o' opts' e hk he forced'
      rw [lookup_insert_ne _ _ _ _ hk] at he
      have he' : lookup c (keyStr url' o' opts') = some e := by
        rcases hc' with rfl | ⟨p, rfl⟩
        · exact he
        · rwa [lookup_insert_ne _ _ _ _ (dataKey_ne_keyStr _ _ _ _ _)] at he
      obtain ⟨h1, h2⟩ := hc url' o' opts' e he' forced'
      refine ⟨h1, ?_⟩
      intro dk p hdk
      have hform := cold_bytes_key f ⟨url', forced', o', opts'⟩ dk p hdk
      have hin := h2 dk p hdk
      have hne1 : keyStr url o opts ≠ dk := by
        intro e1; rw [← e1, hl] at hin; cases hin
      rw [lookup_insert_ne _ _ _ _ hne1]
      rcases hc' with rfl | ⟨q, rfl⟩
      · exact hin
      · have hne2 : dataKey (imageId (keyStr url o opts)) opts.dpi ≠ dk := by
          intro e2
          rw [hform] at e2
          exact hk (dataKey_injective _ _ _ _ e2)
        rw [lookup_insert_ne _ _ _ _ hne2]; exact hin
    cases hf : f url with
    | raises =>
      have hv : getImage f opts c url forced o =
          ⟨.ok (.image none), insert c (keyStr url o opts) (.image none), [url]⟩ := by simp [getImage, hl, hf]
      have hcold : ∀ forced', coldResult f ⟨url, forced', o, opts⟩ =
          ⟨.ok (.image none), insert [] (keyStr url o opts) (.image none), [url]⟩ := by
        intro forced'; simp [coldResult, getImage, lookup, hf]
      have hnob : ∀ forced' dk p, lookup (coldResult f ⟨url, forced', o, opts⟩).cache dk = some (.bytes p) → False := by
        intro forced' dk p h
        rw [hcold] at h
        simp only [ImageCache.insert, lookup] at h
        split at h <;> cases h
      rw [hv]
      refine ⟨by simp [cold, hcold], fun dk p h => (hnob forced dk p h).elim, ?_⟩
      intro url' o' opts' e he forced'
      by_cases hk : keyStr url o opts = keyStr url' o' opts'
      · obtain ⟨hu, ho, hp⟩ := key_injective _ _ _ _ _ _ hk
        subst hu; subst ho; subst hp
        rw [lookup_insert_same] at he; cases he
        exact ⟨by simp [cold, hcold], fun dk p h => (hnob forced' dk p h).elim⟩
      · exact hother c _ (Or.inl rfl) url' o' opts' e hk he forced'
    | malformed =>
      have hv : getImage f opts c url forced o =
          ⟨.error (.indexError "KeyError:result['file_obj']"), c, [url]⟩ := by simp [getImage, hl, hf]
      have hcold : coldResult f ⟨url, forced, o, opts⟩ =
          ⟨.error (.indexError "KeyError:result['file_obj']"), [], [url]⟩ := by
        simp [coldResult, getImage, lookup, hf]
      rw [hv]
      refine ⟨by simp [cold, hcold], ?_, hc⟩
      intro dk p h; rw [hcold] at h; simp [lookup] at h
    | ok mime file blob =>
      have hxb := hx url mime file blob hf
      have hv : getImage f opts c url forced o =
          ⟨.ok (.image (decode opts c url (keyStr url o opts) forced mime file blob o).1),
           insert (decode opts c url (keyStr url o opts) forced mime file blob o).2 (keyStr url o opts)
             (.image (decode opts c url (keyStr url o opts) forced mime file blob o).1), [url]⟩ := by
        simp [getImage, hl, hf]
      have hcold : ∀ forced', coldResult f ⟨url, forced', o, opts⟩ =
          ⟨.ok (.image (decode opts [] url (keyStr url o opts) forced mime file blob o).1),
           insert (decode opts [] url (keyStr url o opts) forced mime file blob o).2 (keyStr url o opts)
             (.image (decode opts [] url (keyStr url o opts) forced mime file blob o).1), [url]⟩ := by
        intro forced'
        simp only [coldResult, getImage, lookup, hf]
        rw [decode_forced opts [] url (keyStr url o opts) forced' forced mime file blob o hxb]
      obtain ⟨d1, d2⟩ := decode_value opts c url (keyStr url o opts) forced forced mime file blob o hxb
      have hval : ∀ forced', cold f ⟨url, forced', o, opts⟩ =
          .ok (.image (decode opts c url (keyStr url o opts) forced mime file blob o).1) := by
        intro forced'; simp only [cold, hcold forced', d1]
      -- the cold call's bytes are in the warm cache after the call
      have hbytes : ∀ forced' dk p, lookup (coldResult f ⟨url, forced', o, opts⟩).cache dk = some (.bytes p) →
          lookup (insert (decode opts c url (keyStr url o opts) forced mime file blob o).2 (keyStr url o opts)
            (.image (decode opts c url (keyStr url o opts) forced mime file blob o).1)) dk = some (.bytes p) := by
        intro forced' dk p h
        rw [hcold forced'] at h
        simp only at h
        have hne : keyStr url o opts ≠ dk := by
          intro e1; subst e1; rw [lookup_insert_same] at h; cases h
        rw [lookup_insert_ne _ _ _ _ hne] at h ⊢
        rcases decode_cache_uniform opts url (keyStr url o opts) forced mime file blob o with hu | ⟨q, hu⟩
        · rw [hu] at h; simp [lookup] at h
        · rw [hu] at h ⊢
          by_cases hd : dataKey (imageId (keyStr url o opts)) opts.dpi = dk
          · subst hd
            rw [lookup_insert_same] at h ⊢; exact h
          · rw [lookup_insert_ne _ _ _ _ hd] at h; simp [lookup] at h
      rw [hv]
      refine ⟨(hval forced).symm, hbytes forced, ?_⟩
      intro url' o' opts' e he forced'
      by_cases hk : keyStr url o opts = keyStr url' o' opts'
      · obtain ⟨hu, ho, hp⟩ := key_injective _ _ _ _ _ _ hk
        subst hu; subst ho; subst hp
        simp only at he
        rw [lookup_insert_same] at he; cases he
        exact ⟨hval forced', hbytes forced'⟩
      · exact hother _ _ d2 url' o' opts' e hk he forced'

/-- **payload_transparent** (new with bca20a5; the statement the former witness `cache_ignores_options` refuted): for
every history of `get_image_from_uri` calls sharing a cache — whatever the orientations, forced MIME types and **image
options of each call** — every call returns the cold value, and right after it the cache holds, under the data key
of the returned image, exactly the bytes a cold call stores there: no render is served image data encoded for another
render's options. -/
theorem payload_transparent (f : Fetcher) (hx : Exclusive f) (c : Cache) (hc : PayloadConsistent f c)
    (calls : List Call) :
    ∀ rc ∈ (runCalls f c calls).zip calls,
      rc.1.value = cold f rc.2 ∧
      ∀ dk p, lookup (coldResult f rc.2).cache dk = some (.bytes p) → lookup rc.1.cache dk = some (.bytes p) := by
  induction calls generalizing c with
  | nil => intro rc h; simp [runCalls] at h
  | cons call rest ih =>
    obtain ⟨h1, h2, h3⟩ := getImage_payload_spec f hx c hc call.url call.forced call.orientation call.opts
    intro rc h
    simp only [runCalls, List.zip_cons_cons, List.mem_cons] at h
    rcases h with h | h
    · subst h; exact ⟨h1, h2⟩
    · exact ih _ h3 rc h

/-- … and this stays so for the rest of the history: after every call, every image the cache holds (of this call or
of any earlier one, under any options) is the cold value of its request and still has its cold bytes — a later render
with other options never replaces them. -/
theorem payload_consistent_history (f : Fetcher) (hx : Exclusive f) (c : Cache) (hc : PayloadConsistent f c)
    (calls : List Call) : ∀ r ∈ runCalls f c calls, PayloadConsistent f r.cache := by
  induction calls generalizing c with
  | nil => intro r h; simp [runCalls] at h
  | cons call rest ih =>
    obtain ⟨_, _, h3⟩ := getImage_payload_spec f hx c hc call.url call.forced call.orientation call.opts
    intro r h
    simp only [runCalls, List.mem_cons] at h
    rcases h with h | h
    · subst h; exact h3
    · exact ih _ h3 r h

/-- Non-vacuity of `payload_transparent`: JPEG requests with three different option sets sharing one cache — each
image's data key holds the bytes of its own options (original / quality 5 / optimised re-encoding). -/
example :
    let fetcher : Fetcher := fun _ => .ok (some "image/jpeg") none ⟨1, false, some ⟨.jpeg, false, true⟩⟩
    let calls : List Call := [⟨"u", "", .none, ⟨false, some 5, none⟩⟩, ⟨"u", "", .none, ⟨false, none, none⟩⟩,
      ⟨"u", "", .none, ⟨true, none, none⟩⟩, ⟨"u", "", .none, ⟨false, some 5, none⟩⟩]
    (runCalls fetcher [] calls).map (fun r =>
      (r.fetched, calls.map (fun call => lookup r.cache
        (dataKey (imageId (keyStr call.url call.orientation call.opts)) call.opts.dpi)))) =
      [(["u"], [some (.bytes (.reenc 1 .none .jpeg false (some 5))), none, none,
                some (.bytes (.reenc 1 .none .jpeg false (some 5)))]),
       (["u"], [some (.bytes (.reenc 1 .none .jpeg false (some 5))), some (.bytes (.orig 1)), none,
                some (.bytes (.reenc 1 .none .jpeg false (some 5)))]),
       (["u"], [some (.bytes (.reenc 1 .none .jpeg false (some 5))), some (.bytes (.orig 1)),
                some (.bytes (.reenc 1 .none .jpeg true none)), some (.bytes (.reenc 1 .none .jpeg false (some 5)))]),
       ([], [some (.bytes (.reenc 1 .none .jpeg false (some 5))), some (.bytes (.orig 1)),
             some (.bytes (.reenc 1 .none .jpeg true none)), some (.bytes (.reenc 1 .none .jpeg false (some 5)))])] := by
  decide

/-- An image in a format that is neither JPEG nor PNG is always re-encoded: if Pillow cannot write it, the
constructor raises, whatever the options and the orientation. -/
theorem rasterPlan_other_fails (opts : Opts) (blob : Blob) (r : Raster) (file : Option String) (o : Orientation)
    (hf : r.fmt = .other) (he : r.encodable = false) : (rasterPlan opts blob r file o).1 = true := by
  simp [rasterPlan, hf, he]

/-- **unencodable_fails_closed** (d7dc388): when the `RasterImage` constructor raises (Pillow opened the image but
cannot write it), `get_image_from_uri` returns `None` like for any other loading error — it does not raise —, caches
that `None` under the request's key, stores no bytes, and fetched exactly once; by `cache_transparent` every later
request gets the same `None` without fetching again. -/
theorem unencodable_fails_closed (f : Fetcher) (opts : Opts) (c : Cache) (url forced : String) (o : Orientation)
    (mime file : Option String) (blob : Blob) (r : Raster) (hf : f url = .ok mime file blob)
    (hr : blob.raster = some r) (hs : blob.svgOk = false) (hl : lookup c (keyStr url o opts) = none)
    (hp : (rasterPlan opts blob r file o).1 = true) :
    getImage f opts c url forced o =
      ⟨.ok (.image none), insert c (keyStr url o opts) (.image none), [url]⟩ := by
  simp [getImage, hl, hf, decode, hr, hs, makeRaster, hp]

example :
    let f : Fetcher := fun _ => .ok (some "image/tiff") none ⟨7, false, some ⟨.other, false, false⟩⟩
    (runCalls f [] [⟨"u", "", .none, ⟨false, none, none⟩⟩, ⟨"u", "image/png", .none, ⟨false, none, none⟩⟩]).map
        (fun r => (r.value.toOption, r.fetched, r.cache.length)) =
      [(some (.image none), ["u"], 1), (some (.image none), [], 1)] := by decide

/-- A fetcher / history on which the hypotheses hold and the cache is really used — with options that change between
the calls (the same URL under other options is fetched again; the same request is a hit). -/
example : Exclusive (fun _ => Fetched.ok (some "image/png") none ⟨1, false, some ⟨.png, false, true⟩⟩) ∧
    ((runCalls (fun _ => Fetched.ok (some "image/png") none ⟨1, false, some ⟨.png, false, true⟩⟩) []
      [⟨"u", "", .none, ⟨false, none, none⟩⟩, ⟨"u", "", .angle .q90 false, ⟨false, none, none⟩⟩,
       ⟨"u", "", .none, ⟨true, some 5, none⟩⟩, ⟨"u", "", .none, ⟨false, none, none⟩⟩]).map (·.fetched)) =
      [["u"], ["u"], ["u"], []] := by
  refine ⟨?_, by decide⟩
  intro url mime file blob h
  cases h
  simp

/-- Regression example for the repaired `image-cache-ignores-options` (the input of the former witness
`cache_ignores_options`): a cache filled by a render with `jpeg_quality=5` no longer serves its quality-5 re-encoding
to a render with default options — the second call fetches again, and the bytes stored for its image are the original
JPEG bytes, as on a cold cache; the quality-5 bytes stay under their own key. -/
example :
    let fetcher : Fetcher := fun _ => .ok (some "image/jpeg") none ⟨1, false, some ⟨.jpeg, false, true⟩⟩
    let low : Opts := ⟨false, some 5, none⟩
    let dflt : Opts := ⟨false, none, none⟩
    let warm := (getImage fetcher low [] "u" "" .none).cache
    let k := dataKey (imageId (keyStr "u" .none dflt)) none
    (getImage fetcher dflt warm "u" "" .none).fetched = ["u"] ∧
    lookup (getImage fetcher dflt warm "u" "" .none).cache k = some (.bytes (.orig 1)) ∧
    lookup (getImage fetcher dflt [] "u" "" .none).cache k = some (.bytes (.orig 1)) ∧
    lookup (getImage fetcher dflt warm "u" "" .none).cache (dataKey (imageId (keyStr "u" .none low)) none) =
      some (.bytes (.reenc 1 .none .jpeg false (some 5))) := by
  decide

end cache

end Wp.C19
