/-
C10 — the min-content guarantee of the auto layout, through `table_and_columns_preferred_widths`
(`Model/TablePreferred.lean`) and `auto_table_layout` (`Model/TableWidths.lean`):

* `preferred_min_covers_span1` — the min-content width the function returns for a column is at least
  the min-content width of every non-spanning cell originating in it (and of its `<col>` /
  `<colgroup>`); the distribution of spanning cells never lowers it;
* `auto_column_covers_cells`   — hence, after `auto_table_layout`, every column is at least as wide as
  the widest unbreakable content of each of its non-spanning cells (with the `CleanBand` hypothesis of
  `auto_ge_min_partial`).
-/
import WpModel.Props.C10
import WpModel.Model.TablePreferred

namespace Wp.C10.Pref
open Wp Wp.Table Wp.TablePref Wp.C10

private theorem maxR_ge_left (a b : Rat) : a ≤ maxR a b := by
  unfold maxR; split <;> linarith
private theorem maxR_ge_right (a b : Rat) : b ≤ maxR a b := by
  unfold maxR; split <;> linarith

/-- The span-1 fold only grows its first component and reaches every non-spanning cell. -/
private theorem span1_fold_ge (cells : List PCell) (acc : Rat × Rat × Rat) :
    acc.1 ≤ (cells.foldl (fun acc c =>
      if c.colspan = 1 then
        (maxR acc.1 c.box.minW, maxR acc.2.1 c.box.maxW, maxR acc.2.2 (pctContribution c.box))
      else acc) acc).1 ∧
    ∀ c ∈ cells, c.colspan = 1 → c.box.minW ≤ (cells.foldl (fun acc c =>
      if c.colspan = 1 then
        (maxR acc.1 c.box.minW, maxR acc.2.1 c.box.maxW, maxR acc.2.2 (pctContribution c.box))
      else acc) acc).1 := by
  induction cells generalizing acc with
  | nil => exact ⟨le_refl _, by intro c hc; cases hc⟩
  | cons d ds ih =>
    simp only [List.foldl_cons]
    by_cases hd : d.colspan = 1
    · simp only [hd, if_true]
      obtain ⟨h1, h2⟩ := ih (maxR acc.1 d.box.minW, maxR acc.2.1 d.box.maxW, maxR acc.2.2 (pctContribution d.box))
      refine ⟨le_trans (maxR_ge_left _ _) h1, ?_⟩
      intro c hc hcs
      simp only [List.mem_cons] at hc
      rcases hc with rfl | hc
      · exact le_trans (maxR_ge_right _ _) h1
      · exact h2 c hc hcs
    · simp only [hd, if_false]
      obtain ⟨h1, h2⟩ := ih acc
      refine ⟨h1, ?_⟩
      intro c hc hcs
      simp only [List.mem_cons] at hc
      rcases hc with rfl | hc
      · exact absurd hcs hd
      · exact h2 c hc hcs

/-- Intermediate min-content width of a column ≥ that of each of its non-spanning cells. -/
theorem span1_covers (inp : PrefIn) (i : Nat) (c : PCell) (hc : c ∈ colCells inp.rows i) (h1 : c.colspan = 1) :
    c.box.minW ≤ (span1 inp i).1 := by
  unfold span1
  exact (span1_fold_ge _ _).2 c hc h1

/-- … and ≥ the min-content width of its `<col>` and `<colgroup>`. -/
theorem span1_covers_col (inp : PrefIn) (i : Nat) (b : PBox) (hb : optBox inp.cols i = some b) :
    b.minW ≤ (span1 inp i).1 := by
  unfold span1
  simp only [hb]
  refine le_trans ?_ (span1_fold_ge _ _).1
  cases optBox inp.groups i <;> exact maxR_ge_right _ _

private theorem length_mkCols (mins maxs pcts : List Rat) (cons : List Bool) (gw : Nat) :
    (mkCols mins maxs pcts cons gw).length = gw := by simp [mkCols]

private theorem growTo_mono (cols : List ACol) (need have_ : Rat) (cw r : List Rat) (start stop : Nat)
    (hlen : cw.length = cols.length) (h : growTo cols need have_ cw start stop = .ok r) :
    LeList cw r ∧ r.length = cw.length := by
  unfold growTo at h
  split at h
  · rename_i hgt
    obtain ⟨r', hr', hl, _⟩ := excess_sum cols (need - have_) cw start (some stop) hlen
    rw [hr'] at h
    injection h with h
    subst h
    exact ⟨excess_ge cols _ cw r' start (some stop) hlen (by linarith) hr', hl⟩
  · injection h with h
    subst h
    exact ⟨LeList.refl _, rfl⟩

/-- One spanning cell never lowers a column's min- or max-content width and keeps the lists' length. -/
private theorem spanCellStep_mono (collapse : Bool) (spacing : Rat) (pcts : List Rat) (cons : List Bool)
    (gw : Nat) (st st' : List Rat × List Rat) (c : PCell) (h1 : st.1.length = gw) (h2 : st.2.length = gw)
    (h : spanCellStep collapse spacing pcts cons gw st c = .ok st') :
    LeList st.1 st'.1 ∧ LeList st.2 st'.2 ∧ st'.1.length = gw ∧ st'.2.length = gw := by
  unfold spanCellStep at h
  simp only at h
  split at h
  · cases h
  · rename_i mins' hmins
    split at h
    · cases h
    · rename_i maxs' hmaxs
      injection h with h
      subst h
      obtain ⟨a1, a2⟩ := growTo_mono _ _ _ _ _ _ _ (by rw [length_mkCols, h1]) hmins
      obtain ⟨b1, b2⟩ := growTo_mono _ _ _ _ _ _ _ (by rw [length_mkCols, h2]) hmaxs
      exact ⟨a1, b1, by rw [a2, h1], by rw [b2, h2]⟩

private theorem spanCells_mono (collapse : Bool) (spacing : Rat) (pcts : List Rat) (cons : List Bool)
    (gw : Nat) (cells : List PCell) :
    ∀ (st st' : List Rat × List Rat), st.1.length = gw → st.2.length = gw →
      spanCells collapse spacing pcts cons gw st cells = .ok st' →
      LeList st.1 st'.1 ∧ LeList st.2 st'.2 := by
  induction cells with
  | nil =>
    intro st st' _ _ h
    unfold spanCells at h
    injection h with h
    subst h
    exact ⟨LeList.refl _, LeList.refl _⟩
  | cons c cs ih =>
    intro st st' h1 h2 h
    unfold spanCells at h
    split at h
    · cases h
    · rename_i st1 hstep
      obtain ⟨a, b, l1, l2⟩ := spanCellStep_mono collapse spacing pcts cons gw st st1 c h1 h2 hstep
      obtain ⟨a', b'⟩ := ih st1 st' l1 l2 h
      exact ⟨a.trans a', b.trans b'⟩

private theorem LeList_nth : ∀ {a b : List Rat}, LeList a b → ∀ i, i < a.length → nth a i ≤ nth b i
  | [], [], _, i, hi => by simp at hi
  | x :: xs, y :: ys, h, i, hi => by
    cases i with
    | zero => simpa [nth] using h.1
    | succ j =>
      have := LeList_nth h.2 j (by simpa using hi)
      simpa [nth] using this
  | [], _ :: _, h, _, _ => by simp [LeList] at h
  | _ :: _, [], h, _, _ => by simp [LeList] at h

/-- **preferred_min_covers_span1.** The column min-content widths returned by
`table_and_columns_preferred_widths` cover every non-spanning cell: for each column `i` and each cell
of span 1 originating in it, `mins[i] ≥` the cell's min-content width (the widest unbreakable content
plus its padding and borders).  The distribution of the spanning cells only ever adds width. -/
theorem preferred_min_covers_span1 (inp : PrefIn) (o : PrefOut) (h : preferredWidths inp = .ok o)
    (i : Nat) (hi : i < gridWidth inp.rows) (c : PCell) (hc : c ∈ colCells inp.rows i) (h1 : c.colspan = 1) :
    c.box.minW ≤ nth o.mins i := by
  unfold preferredWidths at h
  simp only at h
  split at h
  · cases h
  · split at h
    · cases h
    · rename_i mins maxs hcells
      injection h with h
      subst h
      simp only
      have hl1 : (List.map (fun x => x.1) (List.map (span1 inp) (List.range (gridWidth inp.rows)))).length
          = gridWidth inp.rows := by simp
      have hl2 : (List.map (fun x => x.2.1) (List.map (span1 inp) (List.range (gridWidth inp.rows)))).length
          = gridWidth inp.rows := by simp
      obtain ⟨hle, _⟩ := spanCells_mono _ _ _ _ _ _ _ _ hl1 hl2 hcells
      have hn := LeList_nth hle i (by rw [hl1]; exact hi)
      refine le_trans ?_ hn
      have : nth (List.map (fun x => x.1) (List.map (span1 inp) (List.range (gridWidth inp.rows)))) i
          = (span1 inp i).1 := by
        unfold nth
        simp [hi]
      rw [this]
      exact span1_covers inp i c hc h1

/-! ### Spanning cells -/

/-- `Σ_{k<n} l[a+k]`: the sum the code takes over `column_slice`. -/
def spanSum (l : List Rat) (a n : Nat) : Rat := sumR ((List.range n).map (fun k => nth l (a + k)))

private theorem spanSum_succ (l : List Rat) (a n : Nat) :
    spanSum l a (n + 1) = spanSum l a n + nth l (a + n) := by
  unfold spanSum
  rw [List.range_succ, List.map_append, sumR_append]
  simp

private theorem spanSum_le (x y : List Rat) (hle : LeList x y) (a n : Nat) (hin : a + n ≤ x.length) :
    spanSum x a n ≤ spanSum y a n := by
  induction n with
  | zero => simp [spanSum]
  | succ k ih =>
    rw [spanSum_succ, spanSum_succ]
    have h1 := ih (by omega)
    have h2 := LeList_nth hle (a + k) (by omega)
    linarith

/-- Two lists of the same length that agree outside `[a, a+n)` differ in total by what they differ
inside. -/
private theorem sum_diff_inside (r cw : List Rat) (hlen : r.length = cw.length) (a : Nat) :
    ∀ n, a + n ≤ cw.length → (∀ j, ¬ (a ≤ j ∧ j < a + n) → r[j]? = cw[j]?) →
      sumR r - sumR cw = spanSum r a n - spanSum cw a n := by
  -- pointwise: Σ (r_j - cw_j) over all j, zero outside
  have nth_eq : ∀ (l : List Rat) (j : Nat), nth l j = (l[j]?).getD 0 := by
    intro l j; unfold nth; cases l[j]? <;> rfl
  -- generalise over a common prefix by induction on the lists
  induction r generalizing cw a with
  | nil =>
    intro n hin hout
    cases cw with
    | nil =>
      have : ∀ m, spanSum ([] : List Rat) a m = 0 := by
        intro m; induction m with
        | zero => simp [spanSum]
        | succ k ih => rw [spanSum_succ, ih]; simp [nth]
      simp [this]
    | cons _ _ => simp at hlen
  | cons x xs ih =>
    intro n hin hout
    cases cw with
    | nil => simp at hlen
    | cons y ys =>
      simp only [List.length_cons, Nat.add_right_cancel_iff] at hlen
      simp only [sumR_cons]
      cases a with
      | zero =>
        cases n with
        | zero =>
          -- nothing inside: the lists are equal
          have hx : x = y := by
            have := hout 0 (by omega)
            simpa using this
          have htail := ih ys hlen 0 0 (by omega) (by
            intro j hj
            have := hout (j + 1) (by omega)
            simpa using this)
          simp only [spanSum, List.range_zero, List.map_nil, sumR_nil, sub_self] at htail ⊢
          rw [hx]; linarith
        | succ k =>
          -- index 0 is inside: shift the window
          have htail := ih ys hlen 0 k (by simp at hin; omega) (by
            intro j hj
            have := hout (j + 1) (by omega)
            simpa using this)
          have shift : ∀ (l : List Rat) (v : Rat), spanSum (v :: l) 0 (k + 1) = v + spanSum l 0 k := by
            intro l v
            unfold spanSum
            rw [List.range_succ_eq_map]
            simp [nth, List.map_map, Function.comp_def]
          rw [shift, shift]
          linarith
      | succ a' =>
        have hx : x = y := by
          have := hout 0 (by omega)
          simpa using this
        have htail := ih ys hlen a' n (by simp at hin; omega) (by
          intro j hj
          have := hout (j + 1) (by omega)
          simpa using this)
        have shift : ∀ (l : List Rat) (v : Rat), spanSum (v :: l) (a' + 1) n = spanSum l a' n := by
          intro l v
          unfold spanSum
          congr 1
          apply List.map_congr_left
          intro k _
          have : a' + 1 + k = (a' + k) + 1 := by omega
          rw [this]
          simp [nth]
        rw [shift, shift, hx]
        linarith

private theorem selCount_ne_zero_of (sel : Sel) (cols : List ACol) (i : Nat) :
    ∀ (j : Nat) (hj : j < cols.length), sel (i + j) cols[j] = true → selCount sel i cols ≠ 0 := by
  induction cols generalizing i with
  | nil => intro j hj; simp at hj
  | cons c cs ih =>
    intro j hj hs
    simp only [selCount]
    cases j with
    | zero =>
      simp only [Nat.add_zero, List.getElem_cons_zero] at hs
      simp [hs]
    | succ k =>
      have := ih (i + 1) k (by simpa using hj) (by
        have e : i + 1 + k = i + (k + 1) := by omega
        rw [e]; simpa using hs)
      omega

/-- `distribute_excess_width` on a non-empty slice inside the grid adds the excess *to the slice*. -/
theorem excess_slice_sum (cols : List ACol) (ex : Rat) (cw r : List Rat) (a n : Nat)
    (hlen : cw.length = cols.length) (hn : 0 < n) (hin : a + n ≤ cw.length)
    (h : distributeExcess cols ex cw a (some (a + n)) = .ok r) :
    spanSum r a n = spanSum cw a n + ex := by
  obtain ⟨r', hr', hl, hs⟩ := excess_sum cols ex cw a (some (a + n)) hlen
  rw [hr'] at h
  injection h with h
  subst h
  have h6 : selCount (group6 a (some (a + n))) 0 cols ≠ 0 := by
    apply selCount_ne_zero_of _ cols 0 a (by omega)
    unfold group6 inSlice
    simp
    omega
  simp only [h6, ne_eq, not_false_eq_true, if_true] at hs
  have hout : ∀ j, ¬ (a ≤ j ∧ j < a + n) → r'[j]? = cw[j]? := by
    intro j hj
    apply excess_outside cols ex cw r' a (some (a + n)) hlen hr' j
    unfold inSlice
    simp only [Bool.and_eq_false_iff, decide_eq_false_iff_not]
    by_cases h1 : a ≤ j
    · right; intro h2; exact hj ⟨h1, h2⟩
    · left; exact h1
  have := sum_diff_inside r' cw hl a n hin hout
  linarith

private theorem growTo_covers (cols : List ACol) (need sp : Rat) (cw r : List Rat) (a n : Nat)
    (hlen : cw.length = cols.length) (hn : 0 < n) (hin : a + n ≤ cw.length)
    (h : growTo cols need (spanSum cw a n + sp) cw a (a + n) = .ok r) :
    need ≤ spanSum r a n + sp := by
  unfold growTo at h
  split at h
  · rename_i hgt
    have := excess_slice_sum cols _ cw r a n hlen hn hin h
    linarith
  · rename_i hle
    injection h with h
    subst h
    exact not_lt.mp hle

/-- The horizontal spacing a spanning cell covers besides its columns. -/
def spanSpacing (collapse : Bool) (spacing : Rat) (c : PCell) : Rat :=
  if collapse then 0 else ((c.colspan : Rat) - 1) * spacing

private theorem spanCells_covers (collapse : Bool) (spacing : Rat) (pcts : List Rat) (cons : List Bool)
    (gw : Nat) (cells : List PCell) :
    ∀ (st st' : List Rat × List Rat), st.1.length = gw → st.2.length = gw →
      spanCells collapse spacing pcts cons gw st cells = .ok st' →
      ∀ c ∈ cells, 0 < c.colspan → c.gridX + c.colspan ≤ gw →
        c.box.minW ≤ spanSum st'.1 c.gridX c.colspan + spanSpacing collapse spacing c ∧
        c.box.maxW ≤ spanSum st'.2 c.gridX c.colspan + spanSpacing collapse spacing c := by
  induction cells with
  | nil => intro st st' _ _ _ c hc; cases hc
  | cons d ds ih =>
    intro st st' h1 h2 h c hc hpos hin
    unfold spanCells at h
    split at h
    · cases h
    · rename_i st1 hstep
      obtain ⟨m1, m2, l1, l2⟩ := spanCellStep_mono collapse spacing pcts cons gw st st1 d h1 h2 hstep
      simp only [List.mem_cons] at hc
      rcases hc with rfl | hc
      · -- this cell: covered right after its step, and the later steps only add
        obtain ⟨n1, n2⟩ := spanCells_mono collapse spacing pcts cons gw ds st1 st' l1 l2 h
        unfold spanCellStep at hstep
        simp only at hstep
        split at hstep
        · cases hstep
        · rename_i mins' hmins
          split at hstep
          · cases hstep
          · rename_i maxs' hmaxs
            injection hstep with hstep
            subst hstep
            have e1 : sumR (List.map (nth st.1) (List.map (fun x => c.gridX + x) (List.range c.colspan)))
                = spanSum st.1 c.gridX c.colspan := by
              unfold spanSum; rw [List.map_map]; rfl
            have e2 : sumR (List.map (nth st.2) (List.map (fun x => c.gridX + x) (List.range c.colspan)))
                = spanSum st.2 c.gridX c.colspan := by
              unfold spanSum; rw [List.map_map]; rfl
            rw [e1] at hmins
            rw [e2] at hmaxs
            have c1 := growTo_covers _ c.box.minW _ st.1 mins' c.gridX c.colspan
              (by rw [length_mkCols, h1]) hpos (by rw [h1]; exact hin) hmins
            have c2 := growTo_covers _ c.box.maxW _ st.2 maxs' c.gridX c.colspan
              (by rw [length_mkCols, h2]) hpos (by rw [h2]; exact hin) hmaxs
            have s1 := spanSum_le _ _ n1 c.gridX c.colspan (by simp only at l1; rw [l1]; exact hin)
            have s2 := spanSum_le _ _ n2 c.gridX c.colspan (by simp only at l2; rw [l2]; exact hin)
            unfold spanSpacing
            simp only at s1 s2 c1 c2
            constructor <;> linarith
      · exact ih st1 st' l1 l2 h c hc hpos hin

/-- **preferred_min_covers_spanning.** For every spanning cell inside the grid, the min-content
(resp. max-content) widths of the columns it spans, plus the border spacings between them, are at
least the cell's own min-content (resp. max-content) width: `distribute_excess_width` adds exactly the
missing width to the cell's slice, and later cells only ever add more. -/
theorem preferred_min_covers_spanning (inp : PrefIn) (o : PrefOut) (h : preferredWidths inp = .ok o)
    (c : PCell) (hc : c ∈ colspanCells inp.rows (gridWidth inp.rows)) (hpos : 0 < c.colspan)
    (hin : c.gridX + c.colspan ≤ gridWidth inp.rows) :
    c.box.minW ≤ spanSum o.mins c.gridX c.colspan + spanSpacing inp.collapse inp.spacing c ∧
    c.box.maxW ≤ spanSum o.maxs c.gridX c.colspan + spanSpacing inp.collapse inp.spacing c := by
  unfold preferredWidths at h
  simp only at h
  split at h
  · cases h
  · split at h
    · cases h
    · rename_i mins maxs hcells
      injection h with h
      subst h
      simp only
      exact spanCells_covers _ _ _ _ _ _ _ _ (by simp) (by simp) hcells c hc hpos hin

/-- **auto_column_covers_cells.** End to end: take the tuple computed by
`table_and_columns_preferred_widths` and the column widths `auto_table_layout` derives from it; then
every column is at least as wide as each non-spanning cell's min-content width.  (Hypotheses of
`auto_ge_min_partial`: well-formed widths, `Σ min ≤ assignable`, and the 1e-9 tolerance deciding
nothing.) -/
theorem auto_column_covers_cells (inp : PrefIn) (o : PrefOut) (h : preferredWidths inp = .ok o)
    (a : Rat) (cols : List ACol) (cw : List Rat) (b : String)
    (hcols : guess0 cols = o.mins)
    (hauto : autoColumns a cols = .ok (cw, b)) (hwf : WfCols cols)
    (hmin : sumR (guess0 cols) ≤ a) (ha : 0 ≤ a) (hband : CleanBand a cols)
    (i : Nat) (hi : i < gridWidth inp.rows) (hlen : o.mins.length = gridWidth inp.rows)
    (c : PCell) (hc : c ∈ colCells inp.rows i) (h1 : c.colspan = 1) :
    c.box.minW ≤ nth cw i := by
  have h2 := preferred_min_covers_span1 inp o h i hi c hc h1
  have h3 := auto_ge_min_partial a cols cw b hauto hwf hmin ha hband
  rw [hcols] at h3
  exact le_trans h2 (LeList_nth h3 i (by rw [hlen]; exact hi))

/-- **auto_spanning_covers.** End to end for spanning cells: the columns a cell spans, as laid out by
`auto_table_layout`, plus the spacings between them, are at least as wide as the cell's min-content
width — the cell's box (`cell_extent`) holds its widest unbreakable content. -/
theorem auto_spanning_covers (inp : PrefIn) (o : PrefOut) (h : preferredWidths inp = .ok o)
    (a : Rat) (cols : List ACol) (cw : List Rat) (b : String)
    (hcols : guess0 cols = o.mins)
    (hauto : autoColumns a cols = .ok (cw, b)) (hwf : WfCols cols)
    (hmin : sumR (guess0 cols) ≤ a) (ha : 0 ≤ a) (hband : CleanBand a cols)
    (hlen : o.mins.length = gridWidth inp.rows)
    (c : PCell) (hc : c ∈ colspanCells inp.rows (gridWidth inp.rows)) (hpos : 0 < c.colspan)
    (hin : c.gridX + c.colspan ≤ gridWidth inp.rows) :
    c.box.minW ≤ spanSum cw c.gridX c.colspan + spanSpacing inp.collapse inp.spacing c := by
  have h2 := (preferred_min_covers_spanning inp o h c hc hpos hin).1
  have h3 := auto_ge_min_partial a cols cw b hauto hwf hmin ha hband
  rw [hcols] at h3
  have h4 := spanSum_le _ _ h3 c.gridX c.colspan (by rw [hlen]; exact hin)
  linarith

example : (preferredWidths ⟨false, 2, [[⟨0, 1, 1, ⟨10, 30, .auto, 0, none⟩⟩, ⟨1, 1, 1, ⟨20, 20, .px 20, 0, none⟩⟩],
    [⟨0, 2, 1, ⟨50, 60, .auto, 0, none⟩⟩]], [], [], none, 0, none⟩).toOption.map (fun o => (o.mins, o.maxs, o.tmin)) =
    some ([28, 20], [38, 20], 54) := by decide +kernel

end Wp.C10.Pref
