/-
C12 — flex and grid containers distribute space and place items as specified.
Property theorems about `Wp.Flex` (mirror of layout/flex.py) and `Wp.Grid` (mirror of layout/grid.py),
for all inputs.  Helper lemmas are `private`.  Clauses that are false of the current code are stated
in their strongest true form (`…_partial`) and refuted at full strength in `Witness/C12.lean`.
-/
import WpModel.Model.Flex
import WpModel.Model.Grid
import WpModel.Drive.Flex
import WpModel.Drive.Grid
import WpModel.Gen.FlexGridTables

namespace Wp.C12
open Wp Wp.Flex

/-- two lists related element by element (core Lean has no `Rel2`) -/
inductive Rel2 {α β} (R : α → β → Prop) : List α → List β → Prop
  | nil : Rel2 R [] []
  | cons {a b l l'} : R a b → Rel2 R l l' → Rel2 R (a :: l) (b :: l')

/-! ## Flex: order-modified document order -/

private theorem insertByOrder_perm (x : Item) (l : List Item) : (insertByOrder x l).Perm (x :: l) := by
  induction l with
  | nil => simp [insertByOrder]
  | cons y ys ih =>
    unfold insertByOrder
    split
    · exact List.Perm.refl _
    · exact (List.Perm.cons y ih).trans (List.Perm.swap x y ys)

/-- `order`: the items are taken in a permutation of the document order … -/
theorem order_perm (l : List Item) : (sortByOrder l).Perm l := by
  induction l with
  | nil => simp [sortByOrder]
  | cons x xs ih =>
    unfold sortByOrder
    exact (insertByOrder_perm x _).trans (List.Perm.cons x ih)

private theorem insertByOrder_sorted (x : Item) (l : List Item)
    (h : l.Pairwise (fun a b => a.order ≤ b.order)) :
    (insertByOrder x l).Pairwise (fun a b => a.order ≤ b.order) := by
  induction l with
  | nil => simp [insertByOrder]
  | cons y ys ih =>
    unfold insertByOrder
    have hy := List.pairwise_cons.mp h
    split
    · rename_i hxy
      refine List.pairwise_cons.mpr ⟨?_, h⟩
      intro z hz
      rcases List.mem_cons.mp hz with rfl | hz
      · exact hxy
      · exact Int.le_trans hxy (hy.1 z hz)
    · rename_i hxy
      refine List.pairwise_cons.mpr ⟨?_, ih hy.2⟩
      intro z hz
      have := (insertByOrder_perm x ys).mem_iff.mp hz
      rcases List.mem_cons.mp this with rfl | hz
      · omega
      · exact hy.1 z hz

/-- … sorted by `order` … -/
theorem order_sorted (l : List Item) : (sortByOrder l).Pairwise (fun a b => a.order ≤ b.order) := by
  induction l with
  | nil => simp [sortByOrder]
  | cons x xs ih => unfold sortByOrder; exact insertByOrder_sorted x _ ih

private theorem filter_insertByOrder (x : Item) (l : List Item) (k : Int) :
    (insertByOrder x l).filter (fun i => i.order == k) =
      if x.order == k then x :: l.filter (fun i => i.order == k) else l.filter (fun i => i.order == k) := by
  induction l with
  | nil => by_cases hx : x.order = k <;> simp [insertByOrder, List.filter, hx]
  | cons y ys ih =>
    unfold insertByOrder
    split
    · simp [List.filter_cons]
    · rename_i hxy
      rw [List.filter_cons, ih]
      by_cases hx : x.order = k <;> by_cases hy : y.order = k <;> simp [hx, hy]
      omega

/-- … and stable: items with the same `order` keep their document order. -/
theorem order_stable (l : List Item) (k : Int) :
    (sortByOrder l).filter (fun i => i.order == k) = l.filter (fun i => i.order == k) := by
  induction l with
  | nil => simp [sortByOrder]
  | cons x xs ih =>
    unfold sortByOrder
    rw [filter_insertByOrder, ih, List.filter_cons]

/-! ## Flex: step 5, line collection -/

/-- The quantity `line_size` of step 5 for a complete line: `Σ hypothetical outer sizes + gaps`. -/
def lineSize (gap : Rat) : List St → Rat
  | [] => 0
  | [s] => s.outerHyp
  | s :: rest => s.outerHyp + gap + lineSize gap rest

private theorem lineSize_append_single (gap : Rat) (l : List St) (c : St) (h : l ≠ []) :
    lineSize gap (l ++ [c]) = lineSize gap l + gap + c.outerHyp := by
  induction l with
  | nil => exact absurd rfl h
  | cons x xs ih =>
    cases xs with
    | nil => simp [lineSize]
    | cons y ys =>
      have := ih (by simp)
      simp only [List.cons_append, lineSize] at this ⊢
      rw [this]; grind

/-- Invariant of `collectLines`: `size` is the `lineSize` of the (reversed) current line. -/
private def Inv (gap : Rat) (line : List St) (size : Rat) : Prop :=
  size = lineSize gap line.reverse

private theorem inv_push (gap : Rat) (line : List St) (size : Rat) (c : St) (h : Inv gap line size) :
    Inv gap (c :: line) (size + c.outerHyp + (if line.isEmpty then 0 else gap)) := by
  unfold Inv at *
  cases line with
  | nil => simp [lineSize] at *; subst h; grind
  | cons x xs =>
    have hne : (x :: xs).reverse ≠ [] := by simp
    simp only [List.reverse_cons (a := c), List.isEmpty_cons]
    rw [lineSize_append_single gap _ c hne, h]
    simp; grind

private theorem collect_nil (wrap : Bool) (M gap : Rat) (line : List St) (size : Rat) :
    collectLines wrap M gap [] line size = if line.isEmpty then [] else [line.reverse] := by
  simp [collectLines]

private theorem collect_cons_nil (wrap : Bool) (M gap : Rat) (c : St) (rest : List St) (size : Rat) :
    collectLines wrap M gap (c :: rest) [] size =
      if wrap && size + c.outerHyp + 0 > M then [c] :: collectLines wrap M gap rest [] 0
      else collectLines wrap M gap rest [c] (size + c.outerHyp + 0) := by
  simp [collectLines]

private theorem collect_cons_cons (wrap : Bool) (M gap : Rat) (c : St) (rest : List St) (x : St)
    (xs : List St) (size : Rat) :
    collectLines wrap M gap (c :: rest) (x :: xs) size =
      if wrap && size + c.outerHyp + gap > M then
        (x :: xs).reverse :: collectLines wrap M gap rest [c] c.outerHyp
      else collectLines wrap M gap rest (c :: x :: xs) (size + c.outerHyp + gap) := by
  simp [collectLines]

/-- `lines` (a): the lines are a partition of the items, in order. -/
theorem lines_flatten (wrap : Bool) (M gap : Rat) (items line : List St) (size : Rat) :
    (collectLines wrap M gap items line size).flatten = line.reverse ++ items := by
  induction items generalizing line size with
  | nil => rw [collect_nil]; cases line <;> simp
  | cons c rest ih =>
    cases line with
    | nil => rw [collect_cons_nil]; split <;> simp [ih]
    | cons x xs => rw [collect_cons_cons]; split <;> simp [ih]

/-- `lines` (b): no line is empty. -/
theorem lines_nonempty (wrap : Bool) (M gap : Rat) (items line : List St) (size : Rat) :
    ∀ l ∈ collectLines wrap M gap items line size, l ≠ [] := by
  induction items generalizing line size with
  | nil => rw [collect_nil]; cases line <;> simp
  | cons c rest ih =>
    cases line with
    | nil =>
      rw [collect_cons_nil]
      split
      · intro l hl
        rcases List.mem_cons.mp hl with rfl | hl
        · simp
        · exact ih _ _ l hl
      · exact ih _ _
    | cons x xs =>
      rw [collect_cons_cons]
      split
      · intro l hl
        rcases List.mem_cons.mp hl with rfl | hl
        · simp
        · exact ih _ _ l hl
      · exact ih _ _

/-- `lines` (c): with wrapping, every line of at least two items fits:
`Σ hypothetical outer sizes + gaps ≤ main size` (a single item may overflow). -/
theorem lines_fit (M gap : Rat) (items line : List St) (size : Rat)
    (hinv : size = lineSize gap line.reverse) (hfit : line.length ≥ 2 → size ≤ M) :
    ∀ l ∈ collectLines true M gap items line size, l.length ≥ 2 → lineSize gap l ≤ M := by
  induction items generalizing line size with
  | nil =>
    rw [collect_nil]
    cases line with
    | nil => simp
    | cons x xs =>
      intro l hl hlen
      simp only [List.isEmpty_cons, Bool.false_eq_true, if_false, List.mem_singleton] at hl
      subst hl
      rw [← hinv]
      exact hfit (by simpa using hlen)
  | cons c rest ih =>
    cases line with
    | nil =>
      rw [collect_cons_nil]
      split
      · intro l hl' hlen
        rcases List.mem_cons.mp hl' with rfl | hl'
        · simp at hlen
        · exact ih [] 0 (by simp [lineSize]) (by simp) l hl' hlen
      · apply ih
        · have := inv_push gap [] size c hinv
          simpa [Inv] using this
        · simp
    | cons x xs =>
      rw [collect_cons_cons]
      split
      · intro l hl' hlen
        rcases List.mem_cons.mp hl' with rfl | hl'
        · rw [← hinv]
          exact hfit (by simpa using hlen)
        · exact ih [c] c.outerHyp (by simp [lineSize]) (by simp) l hl' hlen
      · rename_i hle
        apply ih
        · have := inv_push gap (x :: xs) size c hinv
          simpa [Inv] using this
        · intro _
          simp only [Bool.true_and, decide_eq_true_eq] at hle
          exact Rat.not_lt.mp hle

/-- `lines` (c) for the whole step. -/
theorem lines_fit_all (M gap : Rat) (items : List St) :
    ∀ l ∈ collectLines true M gap items [] 0, l.length ≥ 2 → lineSize gap l ≤ M :=
  lines_fit M gap items [] 0 (by simp [lineSize]) (by simp)

/-- `lines` (e): without wrapping there is at most one line, holding all the items. -/
theorem lines_nowrap (M gap : Rat) (items line : List St) (size : Rat) :
    collectLines false M gap items line size =
      if (line.reverse ++ items).isEmpty then [] else [line.reverse ++ items] := by
  induction items generalizing line size with
  | nil => rw [collect_nil]; cases line <;> simp
  | cons c rest ih =>
    cases line with
    | nil => rw [collect_cons_nil]; simp [ih]
    | cons x xs => rw [collect_cons_cons]; simp [ih]

/-- consecutive lines: the first item of the next line would not have fitted on the previous one -/
def Maximal (M gap : Rat) : List (List St) → Prop
  | [] => True
  | [_] => True
  | l1 :: l2 :: rest => (∃ c t, l2 = c :: t ∧ lineSize gap (l1 ++ [c]) > M) ∧ Maximal M gap (l2 :: rest)

private theorem collect_head (M gap : Rat) :
    ∀ (items line : List St) (size : Rat), line ≠ [] →
      ∃ t r, collectLines true M gap items line size = (line.reverse ++ t) :: r := by
  intro items
  induction items with
  | nil =>
    intro line size hne
    cases line with
    | nil => exact absurd rfl hne
    | cons x xs => exact ⟨[], [], by simp [collectLines]⟩
  | cons c rest ih =>
    intro line size hne
    cases line with
    | nil => exact absurd rfl hne
    | cons x xs =>
      unfold collectLines
      simp only [List.isEmpty_cons, Bool.false_eq_true, if_false, Bool.true_and]
      split
      · exact ⟨[], collectLines true M gap rest [c] c.outerHyp, by simp⟩
      · obtain ⟨t, r, h⟩ := ih (c :: x :: xs) (size + c.outerHyp + gap) (by simp)
        exact ⟨c :: t, r, by rw [h]; simp⟩

private theorem collect_head_nil (M gap : Rat) (c : St) (rest : List St) (size : Rat) :
    ∃ t r, collectLines true M gap (c :: rest) [] size = (c :: t) :: r := by
  unfold collectLines
  simp only [List.isEmpty_nil, if_true, Bool.true_and]
  split
  · exact ⟨[], collectLines true M gap rest [] 0, rfl⟩
  · obtain ⟨t, r, h⟩ := collect_head M gap rest [c] (size + c.outerHyp + 0) (by simp)
    exact ⟨t, r, by rw [h]; simp⟩


private theorem lineSize_snoc (gap : Rat) (l : List St) (c : St) (h : l ≠ []) :
    lineSize gap (l ++ [c]) = lineSize gap l + gap + c.outerHyp := by
  induction l with
  | nil => exact absurd rfl h
  | cons x xs ih =>
    cases xs with
    | nil => simp [lineSize]
    | cons y ys =>
      have := ih (by simp)
      simp only [List.cons_append, lineSize] at this ⊢
      rw [this]; grind

/-- `lines` (d): with wrapping, a line ends only when the next item would not fit:
`line_size + gap + hypothetical outer size of the next item > main size`
(`hpos`: gaps and outer sizes are not so negative that an item following an overflowing one would fit beside it). -/
theorem lines_maximal (M gap : Rat) :
    ∀ (items line : List St) (size : Rat),
      (∀ s ∈ items, 0 ≤ gap + s.outerHyp) →
      size = lineSize gap line.reverse →
      Maximal M gap (collectLines true M gap items line size) := by
  intro items
  induction items with
  | nil =>
    intro line size _ _
    cases line <;> simp [collectLines, Maximal]
  | cons c rest ih =>
    intro line size hpos hinv
    have hpos' : ∀ s ∈ rest, 0 ≤ gap + s.outerHyp := fun s hs => hpos s (by simp [hs])
    cases line with
    | nil =>
      have hsize : size = 0 := by simpa [lineSize] using hinv
      unfold collectLines
      simp only [List.isEmpty_nil, if_true, Bool.true_and]
      split
      · rename_i hgt
        have ihr := ih [] 0 hpos' (by simp [lineSize])
        cases rest with
        | nil => simp [collectLines, Maximal]
        | cons c' rest' =>
          obtain ⟨t, r, h⟩ := collect_head_nil M gap c' rest' 0
          rw [h] at ihr ⊢
          refine ⟨⟨c', t, rfl, ?_⟩, ihr⟩
          simp only [List.singleton_append, lineSize]
          have h1 : size + c.outerHyp + 0 > M := by simpa using hgt
          have h2 := hpos c' (by simp)
          grind
      · exact ih [c] _ hpos' (by simp [lineSize, hsize]; grind)
    | cons x xs =>
      unfold collectLines
      simp only [List.isEmpty_cons, Bool.false_eq_true, if_false, Bool.true_and]
      split
      · rename_i hgt
        have ihr := ih [c] c.outerHyp hpos' (by simp [lineSize])
        obtain ⟨t, r, h⟩ := collect_head M gap rest [c] c.outerHyp (by simp)
        rw [h] at ihr ⊢
        refine ⟨⟨c, t, by simp, ?_⟩, ihr⟩
        rw [lineSize_snoc gap _ c (by simp), ← hinv]
        have h1 : size + c.outerHyp + gap > M := by simpa using hgt
        grind
      · apply ih (c :: x :: xs) _ hpos'
        rw [List.reverse_cons (a := c), lineSize_snoc gap _ c (by simp), ← hinv]
        grind

/-! ## Flex: 9.7 terminates -/

/-- number of items that are not frozen yet -/
def unfrozenCount (line : List St) : Nat := (line.filter (fun s => !s.frozen)).length

private theorem mapExcept_flags (f : St → Except PyErr St)
    (h : ∀ x y, f x = .ok y → y.frozen = x.frozen) :
    ∀ (l l' : List St), mapExcept f l = .ok l' → l'.map (·.frozen) = l.map (·.frozen) := by
  intro l
  induction l with
  | nil => intro l' h'; simp [mapExcept] at h'; subst h'; rfl
  | cons x xs ih =>
    intro l' h'
    unfold mapExcept at h'
    split at h'
    · cases h'
    · rename_i y hy
      split at h'
      · cases h'
      · rename_i ys hys
        cases h'
        simp [h x y hy, ih ys hys]

private theorem mapExcept_error (f : St → Except PyErr St) (P : PyErr → Prop)
    (h : ∀ x e, f x = .error e → P e) :
    ∀ (l : List St) e, mapExcept f l = .error e → P e := by
  intro l
  induction l with
  | nil => intro e h'; simp [mapExcept] at h'
  | cons x xs ih =>
    intro e h'
    unfold mapExcept at h'
    split at h'
    · rename_i e1 hx; cases h'; exact h x _ hx
    · split at h'
      · rename_i e1 hxs; cases h'; exact ih _ hxs
      · cases h'

private theorem distributeOne_frozen (grow : Bool) (r g sh : Rat) (s s' : St)
    (h : distributeOne grow r g sh s = .ok s') : s'.frozen = s.frozen := by
  unfold distributeOne at h
  split at h
  · cases h; rfl
  · split at h
    · split at h
      · cases h
      · cases h; rfl
    · split at h
      · cases h; rfl
      · cases h; rfl

private theorem distributeOne_error (grow : Bool) (r g sh : Rat) (s : St) (e : PyErr)
    (h : distributeOne grow r g sh s = .error e) : ∃ site, e = .zeroDivision site := by
  unfold distributeOne at h
  split at h
  · cases h
  · split at h
    · split at h
      · cases h; exact ⟨_, rfl⟩
      · cases h
    · split at h <;> cases h

private theorem distribute_flags (grow : Bool) (r : Rat) (l l' : List St)
    (h : distribute grow r l = .ok l') : l'.map (·.frozen) = l.map (·.frozen) := by
  unfold distribute at h
  split at h
  · cases h
    rw [List.map_map]
    apply List.map_congr_left
    intro s _
    simp only [Function.comp, setBase]
    split <;> rfl
  · exact mapExcept_flags _ (fun x y hxy => distributeOne_frozen _ _ _ _ x y hxy) _ _ h

private theorem distribute_error (grow : Bool) (r : Rat) (l : List St) (e : PyErr)
    (h : distribute grow r l = .error e) : ∃ site, e = .zeroDivision site := by
  unfold distribute at h
  split at h
  · cases h
  · exact mapExcept_error _ _ (fun x e hx => distributeOne_error _ _ _ _ x e hx) _ _ h

private theorem fixMinMax_frozen (row : Bool) (s : St) : (fixMinMax row s).frozen = s.frozen := by
  unfold fixMinMax
  split <;> rfl

private theorem fixMinMax_adj_ne (row : Bool) (s : St) (h : (fixMinMax row s).adj ≠ 0) : s.frozen = false := by
  unfold fixMinMax at h
  split at h
  · simp at h
  · rename_i hf; simpa using hf

private theorem sumBy_pos_exists {α} (f : α → Rat) (l : List α) (h : sumBy f l > 0) : ∃ x ∈ l, f x > 0 := by
  induction l with
  | nil => simp [sumBy] at h
  | cons x xs ih =>
    simp only [sumBy] at h
    by_cases hx : f x > 0
    · exact ⟨x, by simp, hx⟩
    · have : sumBy f xs > 0 := by grind
      obtain ⟨y, hy, hfy⟩ := ih this
      exact ⟨y, by simp [hy], hfy⟩

private theorem sumBy_neg_exists {α} (f : α → Rat) (l : List α) (h : sumBy f l < 0) : ∃ x ∈ l, f x < 0 := by
  induction l with
  | nil => simp [sumBy] at h
  | cons x xs ih =>
    simp only [sumBy] at h
    by_cases hx : f x < 0
    · exact ⟨x, by simp, hx⟩
    · have : sumBy f xs < 0 := by grind
      obtain ⟨y, hy, hfy⟩ := ih this
      exact ⟨y, by simp [hy], hfy⟩

private theorem count_cons (x : St) (xs : List St) :
    unfrozenCount (x :: xs) = (if x.frozen then 0 else 1) + unfrozenCount xs := by
  unfold unfrozenCount
  cases hx : x.frozen <;> simp [hx] <;> omega

private theorem count_map_le (g : St → St) (hg : ∀ s, s.frozen = true → (g s).frozen = true) (l : List St) :
    unfrozenCount (l.map g) ≤ unfrozenCount l := by
  induction l with
  | nil => simp [unfrozenCount]
  | cons x xs ih =>
    rw [List.map_cons, count_cons, count_cons]
    cases hx : x.frozen with
    | true => simp [hg x hx]; exact ih
    | false => cases (g x).frozen <;> simp <;> omega

private theorem count_map_lt (g : St → St) (hg : ∀ s, s.frozen = true → (g s).frozen = true) (l : List St)
    (h : ∃ s ∈ l, s.frozen = false ∧ (g s).frozen = true) : unfrozenCount (l.map g) < unfrozenCount l := by
  induction l with
  | nil => simp at h
  | cons x xs ih =>
    obtain ⟨s, hs, hsf, hgs⟩ := h
    have hle := count_map_le g hg xs
    rw [List.map_cons, count_cons, count_cons]
    rcases List.mem_cons.mp hs with rfl | hs
    · simp [hsf, hgs]; omega
    · have := ih ⟨s, hs, hsf, hgs⟩
      cases hx : x.frozen with
      | true => simp [hg x hx]; exact this
      | false => cases (g x).frozen <;> simp <;> omega

private theorem count_of_flags (l l' : List St) (h : l'.map (·.frozen) = l.map (·.frozen)) :
    unfrozenCount l' = unfrozenCount l := by
  induction l generalizing l' with
  | nil => cases l' <;> simp_all [unfrozenCount]
  | cons x xs ih =>
    cases l' with
    | nil => simp at h
    | cons y ys =>
      simp only [List.map_cons, List.cons.injEq] at h
      rw [count_cons, count_cons, ih ys h.2, h.1]

private theorem count_zero_of_all (l : List St) (h : ∀ s ∈ l, s.frozen = true) : unfrozenCount l = 0 := by
  induction l with
  | nil => rfl
  | cons x xs ih =>
    rw [count_cons, h x (by simp), ih (fun s hs => h s (by simp [hs]))]
    simp

private theorem count_pos_of_not_all (l : List St) (h : allFrozen l = false) : unfrozenCount l > 0 := by
  induction l with
  | nil => simp [allFrozen] at h
  | cons x xs ih =>
    rw [count_cons]
    cases hx : x.frozen with
    | true =>
      have : allFrozen xs = false := by simpa [allFrozen, hx] using h
      have := ih this
      simp; omega
    | false => simp; omega

private theorem freezeOne_mono (a : Rat) (s : St) (h : s.frozen = true) : (freezeOne a s).frozen = true := by
  unfold freezeOne
  split
  · rfl
  · split
    · rfl
    · split
      · rfl
      · exact h

/-- 9.7.5.d–e: if some item is not frozen, at least one more is frozen afterwards (total violation zero:
all of them; positive: the items with a min violation, and there is one; negative: the items with a max
violation, and there is one). -/
private theorem finishPass_count (row : Bool) (l : List St) (hpos : unfrozenCount l > 0) :
    unfrozenCount (finishPass row l) < unfrozenCount l := by
  unfold finishPass
  simp only []
  have hc1 : unfrozenCount (l.map (fixMinMax row)) = unfrozenCount l := by
    apply count_of_flags
    rw [List.map_map]
    apply List.map_congr_left
    intro s _; simp [fixMinMax_frozen]
  rw [← hc1] at hpos ⊢
  generalize hl2 : l.map (fixMinMax row) = l2 at hpos ⊢
  by_cases hz : sumBy St.adj l2 = 0
  · have : unfrozenCount (l2.map (freezeOne (sumBy St.adj l2))) = 0 := by
      apply count_zero_of_all
      intro s hs
      obtain ⟨y, _, rfl⟩ := List.mem_map.mp hs
      simp [freezeOne, hz]
    omega
  · by_cases hgt : sumBy St.adj l2 > 0
    · obtain ⟨x, hx, hxadj⟩ := sumBy_pos_exists _ _ hgt
      apply count_map_lt _ (freezeOne_mono _)
      refine ⟨x, hx, ?_, ?_⟩
      · rw [← hl2] at hx
        obtain ⟨y, _, rfl⟩ := List.mem_map.mp hx
        rw [fixMinMax_frozen]
        exact fixMinMax_adj_ne row y (by grind)
      · unfold freezeOne
        simp [hz, hgt, hxadj]
    · have hlt : sumBy St.adj l2 < 0 := by grind
      obtain ⟨x, hx, hxadj⟩ := sumBy_neg_exists _ _ hlt
      apply count_map_lt _ (freezeOne_mono _)
      refine ⟨x, hx, ?_, ?_⟩
      · rw [← hl2] at hx
        obtain ⟨y, _, rfl⟩ := List.mem_map.mp hx
        rw [fixMinMax_frozen]
        exact fixMinMax_adj_ne row y (by grind)
      · unfold freezeOne
        simp [hz, hgt, hlt, hxadj]

/-- `flex_terminates`, one pass: as long as some item is not frozen, a pass of 9.7.5 freezes at
least one more item (and never unfreezes one). -/
theorem pass_freezes (row grow : Bool) (avail gap : Rat) (line line' : List St) (f f' : Rat)
    (hp : pass row grow avail gap line f = .ok (line', f')) (hnot : allFrozen line = false) :
    unfrozenCount line' < unfrozenCount line := by
  unfold pass at hp
  split at hp
  · cases hp
  · rename_i l1 hdist
    cases hp
    have hc : unfrozenCount l1 = unfrozenCount line := count_of_flags _ _ (distribute_flags _ _ _ _ hdist)
    have hpos := count_pos_of_not_all line hnot
    rw [← hc] at hpos ⊢
    exact finishPass_count row l1 hpos

/-- The only error a pass can raise is the `ZeroDivisionError` of 9.7.5.c. -/
theorem pass_error (row grow : Bool) (avail gap : Rat) (line : List St) (f : Rat) (e : PyErr)
    (hp : pass row grow avail gap line f = .error e) : ∃ site, e = .zeroDivision site := by
  unfold pass at hp
  split at hp
  · rename_i e' hdist; cases hp; exact distribute_error _ _ _ _ hdist
  · cases hp

/-- `flex_terminates`: the `while` loop of 9.7.5 ends within one pass per unfrozen item; the model
never reports non-termination when given that much fuel (`resolveLine` gives `line.length`). -/
theorem flex_terminates (row grow : Bool) (avail gap : Rat) :
    ∀ (fuel : Nat) (line : List St) (f : Rat), unfrozenCount line ≤ fuel →
      ∀ site, loop row grow avail gap fuel line f ≠ .error (.recursion site) := by
  intro fuel
  induction fuel with
  | zero =>
    intro line f hc site
    unfold loop
    cases hall : allFrozen line with
    | true => simp
    | false =>
      have := count_pos_of_not_all line hall
      omega
  | succ n ih =>
    intro line f hc site
    unfold loop
    cases hall : allFrozen line with
    | true => simp
    | false =>
      simp only [Bool.false_eq_true, if_false]
      cases hp : pass row grow avail gap line f with
      | error e =>
        simp only []
        obtain ⟨s', rfl⟩ := pass_error _ _ _ _ _ _ _ hp
        intro hcontra; cases hcontra
      | ok r =>
        obtain ⟨line', f'⟩ := r
        simp only []
        apply ih
        have := pass_freezes row grow avail gap line line' f f' hp hall
        omega

/-- When the loop ends normally every item is frozen. -/
theorem loop_all_frozen (row grow : Bool) (avail gap : Rat) :
    ∀ (fuel : Nat) (line res : List St) (f : Rat),
      loop row grow avail gap fuel line f = .ok res → allFrozen res = true := by
  intro fuel
  induction fuel with
  | zero =>
    intro line res f h
    unfold loop at h
    cases hall : allFrozen line with
    | true => simp [hall] at h; subst h; exact hall
    | false => simp [hall] at h
  | succ n ih =>
    intro line res f h
    unfold loop at h
    cases hall : allFrozen line with
    | true => simp [hall] at h; subst h; exact hall
    | false =>
      simp only [hall, Bool.false_eq_true, if_false] at h
      cases hp : pass row grow avail gap line f with
      | error e => simp [hp] at h
      | ok r =>
        obtain ⟨line', f'⟩ := r
        simp only [hp] at h
        exact ih _ _ _ h

private theorem unfrozenCount_le_length (l : List St) : unfrozenCount l ≤ l.length := by
  unfold unfrozenCount
  exact List.length_filter_le _ _

/-- `flex_terminates` for a whole line: `resolveLine` never runs out of fuel. -/
theorem resolveLine_terminates (row : Bool) (avail gap : Rat) (line : List St) (site : String) :
    resolveLine row avail gap line ≠ .error (.recursion site) := by
  unfold resolveLine
  simp only []
  intro h
  split at h
  · rename_i e he
    cases h
    exact flex_terminates row _ avail gap _ _ _ (by
      have := unfrozenCount_le_length (line.map (sizeInflexible (decide (lineHypSum gap line < avail))))
      simpa using this) site he
  · cases h

/-! ## Flex: 9.7 fills the line -/

/-- The share of the free space `R` that 9.7.5.c gives to an unfrozen item. -/
def share (grow : Bool) (R gsum ssum : Rat) (s : St) : Rat :=
  if grow then s.base + R * (s.it.grow / gsum) else s.base + R * (s.base * s.it.shrink / ssum)

/-- The item is "not stopped by min/max": 9.7.5.d leaves `t` unchanged. -/
def NotClamped (row : Bool) (s : St) (t : Rat) : Prop :=
  clamp (s.minMain row) t (s.maxMain row) = t

private theorem magLt_irrefl (m : Option Int) : magLt m m = false := by
  cases m <;> simp [magLt]

private theorem mapExcept_ok {α β ε} (f : α → Except ε β) (g : α → β) (l : List α)
    (h : ∀ x ∈ l, f x = .ok (g x)) : mapExcept f l = .ok (l.map g) := by
  induction l with
  | nil => rfl
  | cons x xs ih =>
    unfold mapExcept
    rw [h x (by simp), ih (fun y hy => h y (by simp [hy]))]
    rfl

/-- state of an item after 9.7.5.c (proportional share) and 9.7.5.d (clamp, signed adjustment) -/
def afterCD (row grow : Bool) (R gsum ssum : Rat) (s : St) : St :=
  if s.frozen then { s with adj := 0 }
  else { s with target := clamp (s.minMain row) (share grow R gsum ssum s) (s.maxMain row),
                adj := clamp (s.minMain row) (share grow R gsum ssum s) (s.maxMain row) - share grow R gsum ssum s }

private theorem sumBy_add {α} (f g : α → Rat) (l : List α) : sumBy (fun x => f x + g x) l = sumBy f l + sumBy g l := by
  induction l with
  | nil => simp [sumBy]; grind
  | cons x xs ih => simp only [sumBy, ih]; grind

private theorem sumBy_mul {α} (c : Rat) (f : α → Rat) (l : List α) : sumBy (fun x => c * f x) l = c * sumBy f l := by
  induction l with
  | nil => simp [sumBy]
  | cons x xs ih => simp only [sumBy, ih]; grind

private theorem sumBy_div {α} (c : Rat) (f : α → Rat) (l : List α) : sumBy (fun x => f x / c) l = sumBy f l / c := by
  induction l with
  | nil => simp only [sumBy]; grind
  | cons x xs ih => simp only [sumBy, ih]; grind

private theorem sumBy_map {α β} (f : β → Rat) (g : α → β) (l : List α) : sumBy f (l.map g) = sumBy (fun x => f (g x)) l := by
  induction l with
  | nil => rfl
  | cons x xs ih => simp only [List.map_cons, sumBy, ih]

private theorem sumBy_congr' {α} (f g : α → Rat) (l : List α) (h : ∀ x ∈ l, f x = g x) : sumBy f l = sumBy g l := by
  induction l with
  | nil => rfl
  | cons x xs ih =>
    simp only [sumBy]
    rw [h x (by simp), ih (fun y hy => h y (by simp [hy]))]

private theorem sumBy_zero {α} (f : α → Rat) (l : List α) (h : ∀ x ∈ l, f x = 0) : sumBy f l = 0 := by
  induction l with
  | nil => rfl
  | cons x xs ih =>
    simp only [sumBy, h x (by simp), ih (fun y hy => h y (by simp [hy]))]; grind

/-- the size an item has once it is frozen -/
def finalMain (s : St) : Rat := s.target + s.extra

/-- `Σ (target + extra)` after 9.7.5.c–d = `Σ usedMain` before + `R · Σ ratio` + `Σ adjustments`. -/
private theorem sum_afterCD (row grow : Bool) (R gsum ssum : Rat) (line : List St) :
    sumBy finalMain (line.map (afterCD row grow R gsum ssum)) =
      sumBy St.usedMain line +
        R * (if grow then sumBy (fun s => if s.frozen then 0 else s.it.grow) line / gsum
             else sumBy (fun s => if s.frozen then 0 else s.base * s.it.shrink) line / ssum) +
        sumBy St.adj (line.map (afterCD row grow R gsum ssum)) := by
  rw [sumBy_map, sumBy_map]
  have : ∀ s : St, finalMain (afterCD row grow R gsum ssum s) = (s.usedMain +
      R * (if grow then (if s.frozen then 0 else s.it.grow) / gsum
           else (if s.frozen then 0 else s.base * s.it.shrink) / ssum)) + (afterCD row grow R gsum ssum s).adj := by
    intro s
    unfold afterCD St.usedMain finalMain share
    cases hf : s.frozen <;> cases grow <;> simp <;> grind
  rw [sumBy_congr' _ _ _ (fun s _ => this s), sumBy_add, sumBy_add, sumBy_mul]
  cases grow
  · simp only [Bool.false_eq_true, if_false]; rw [sumBy_div]
  · simp only [if_true]; rw [sumBy_div]

private theorem freezeOne_fields (a : Rat) (s : St) :
    (freezeOne a s).target = s.target ∧ (freezeOne a s).extra = s.extra ∧ (freezeOne a s).adj = s.adj := by
  unfold freezeOne
  split
  · exact ⟨rfl, rfl, rfl⟩
  · split
    · exact ⟨rfl, rfl, rfl⟩
    · split <;> exact ⟨rfl, rfl, rfl⟩

/-- `flex_fill`, one pass of 9.7.5 (full strength: no hypothesis on the min / max sizes): if the unfrozen
flex factors sum to at least 1 and the denominators of 9.7.5.c are non-zero, the pass succeeds and
  * when it freezes every item (in particular when the min and max violations cancel,
    `Σ adjustments = 0`), what is left of the available main size is exactly minus the total
    violation: `available − Σ target − Σ outer extra − (n − 1)·gap = − Σ adjustments`;
  * so with cancelling violations the items, margins and gaps exactly fill the line. -/
theorem flex_fill_pass (row grow : Bool) (avail gap : Rat) (line : List St) (R : Rat)
    (hRdef : R = freeSpace avail gap line)
    (hufs : unfrozenFactorSum line ≥ 1)
    (hfactor : ∀ s ∈ line, s.frozen = false → s.factor = if grow then s.it.grow else s.it.shrink)
    (hden : grow = false → scaledShrinkSum line ≠ 0) :
    ∃ line', pass row grow avail gap line R = .ok (line', R) ∧
      (allFrozen line' = true → freeSpace avail gap line' = - sumBy St.adj line') ∧
      (sumBy St.adj line' = 0 → allFrozen line' = true ∧ freeSpace avail gap line' = 0) ∧
      line' = (line.map (afterCD row grow R (growSum line) (scaledShrinkSum line))).map
        (freezeOne (sumBy St.adj (line.map (afterCD row grow R (growSum line) (scaledShrinkSum line))))) := by
  have hR : remainingFree avail gap line R = (R, R) := by
    unfold remainingFree
    have : ¬ (unfrozenFactorSum line < 1) := Rat.not_lt.mpr hufs
    simp only [this, if_false, ← hRdef, magLt_irrefl, Bool.false_eq_true]
  -- in grow mode the grow factors of the unfrozen items sum to `unfrozenFactorSum`
  have hg : grow = true → growSum line ≠ 0 := by
    intro hgrow
    have : growSum line = unfrozenFactorSum line := by
      unfold growSum unfrozenFactorSum
      apply sumBy_congr'
      intro s hs
      cases hf : s.frozen with
      | true => simp
      | false => simp [hfactor s hs hf, hgrow]
    rw [this]; intro h0; rw [h0] at hufs
    exact absurd hufs (by decide)
  generalize hl2 : line.map (afterCD row grow R (growSum line) (scaledShrinkSum line)) = l2
  have hpass : pass row grow avail gap line R = .ok (l2.map (freezeOne (sumBy St.adj l2)), R) := by
    unfold pass
    rw [hR]
    simp only []
    have hdist : distribute grow R line = .ok (line.map fun s =>
        if s.frozen then s else { s with target := share grow R (growSum line) (scaledShrinkSum line) s }) := by
      unfold distribute
      by_cases h0 : (R == 0) = true
      · simp only [h0, if_true]
        congr 1
        apply List.map_congr_left
        intro s _
        unfold setBase share
        have hR0 : R = 0 := by simpa using h0
        cases s.frozen <;> cases grow <;> simp [hR0, Rat.zero_mul, Rat.add_zero]
      · simp only [h0, Bool.false_eq_true, if_false]
        apply mapExcept_ok
        intro s hs
        unfold distributeOne
        cases hf : s.frozen with
        | true => simp
        | false =>
          simp only [Bool.false_eq_true, if_false]
          cases hgrow : grow with
          | true =>
            have := hg hgrow
            simp only [if_true, beq_iff_eq, this, if_false]
            simp [share]
          | false =>
            have := hden hgrow
            simp only [Bool.false_eq_true, if_false, beq_iff_eq, this]
            simp [share]
    rw [hdist]
    simp only []
    congr 1
    -- 9.7.5.d / e
    unfold finishPass
    simp only []
    have hfix : (line.map fun s =>
        if s.frozen then s else { s with target := share grow R (growSum line) (scaledShrinkSum line) s }).map
          (fixMinMax row) = l2 := by
      rw [← hl2, List.map_map]
      apply List.map_congr_left
      intro s hs
      simp only [Function.comp, afterCD, fixMinMax]
      by_cases hf : s.frozen = true
      · simp [hf]
      · have hf' : s.frozen = false := by simpa using hf
        simp [hf', St.minMain, St.maxMain]
    rw [hfix]
  have hfinal : ∀ l : List St, allFrozen l = true → sumBy St.usedMain l = sumBy finalMain l := by
    intro l hall
    apply sumBy_congr'
    intro s hs
    have : s.frozen = true := by
      unfold allFrozen at hall
      exact (List.all_eq_true.mp hall) s hs
    simp [St.usedMain, finalMain, this]
  have hsumF : sumBy finalMain (l2.map (freezeOne (sumBy St.adj l2))) = sumBy finalMain l2 := by
    rw [sumBy_map]
    apply sumBy_congr'
    intro s _
    simp [finalMain, (freezeOne_fields _ s).1, (freezeOne_fields _ s).2.1]
  have hsumA : sumBy St.adj (l2.map (freezeOne (sumBy St.adj l2))) = sumBy St.adj l2 := by
    rw [sumBy_map]
    apply sumBy_congr'
    intro s _
    exact (freezeOne_fields _ s).2.2
  have hacc : allFrozen (l2.map (freezeOne (sumBy St.adj l2))) = true →
      freeSpace avail gap (l2.map (freezeOne (sumBy St.adj l2))) =
        - sumBy St.adj (l2.map (freezeOne (sumBy St.adj l2))) := by
    intro hall
    unfold freeSpace
    rw [hfinal _ hall, hsumF, hsumA, List.length_map, ← hl2, sum_afterCD, List.length_map]
    have hR' : R = avail - sumBy St.usedMain line - gap * ((line.length : Int) - 1 : Int) := hRdef
    cases hgrow : grow with
    | true =>
      simp only [if_true]
      have h1 := hg hgrow
      have : sumBy (fun s => if s.frozen then 0 else s.it.grow) line = growSum line := rfl
      rw [this]
      have : growSum line / growSum line = 1 := by grind
      grind
    | false =>
      simp only [Bool.false_eq_true, if_false]
      have h1 := hden hgrow
      have : sumBy (fun s => if s.frozen then 0 else s.base * s.it.shrink) line = scaledShrinkSum line := rfl
      rw [this]
      have : scaledShrinkSum line / scaledShrinkSum line = 1 := by grind
      grind
  refine ⟨l2.map (freezeOne (sumBy St.adj l2)), hpass, hacc, ?_, rfl⟩
  intro hz
  rw [hsumA] at hz
  have hall : allFrozen (l2.map (freezeOne (sumBy St.adj l2))) = true := by
    unfold allFrozen
    simp only [List.all_map, List.all_eq_true]
    intro s _
    simp [Function.comp, freezeOne, hz]
  refine ⟨hall, ?_⟩
  rw [hacc hall, hsumA, hz]; rfl

private theorem sizeInflexible_factor (grow : Bool) (s : St) :
    (sizeInflexible grow s).factor = if grow then (sizeInflexible grow s).it.grow else (sizeInflexible grow s).it.shrink := by
  unfold sizeInflexible
  cases grow
  · simp only [Bool.false_eq_true, if_false]; split <;> rfl
  · simp only [if_true]; split <;> rfl

private theorem freeSpace_setMain (row : Bool) (avail gap : Rat) (line : List St) :
    freeSpace avail gap (line.map fun s =>
      if row then { s with width := some s.target } else { s with height := some s.target }) = freeSpace avail gap line := by
  unfold freeSpace
  rw [List.length_map, sumBy_map]
  congr 2
  apply sumBy_congr'
  intro s _
  cases row <;> simp [St.usedMain]

/-- if no unfrozen item is stopped by its min / max sizes at its share, the adjustments of the pass are all zero -/
private theorem adj_zero_of_notClamped (row grow : Bool) (R gsum ssum : Rat) (line : List St)
    (hclamp : ∀ s ∈ line, s.frozen = false → NotClamped row s (share grow R gsum ssum s)) :
    sumBy St.adj (line.map (afterCD row grow R gsum ssum)) = 0 := by
  apply sumBy_zero
  intro x hx
  obtain ⟨y, hy, rfl⟩ := List.mem_map.mp hx
  unfold afterCD
  cases hf : y.frozen with
  | true => simp
  | false =>
    have := hclamp y hy hf
    unfold NotClamped at this
    simp [this]; grind

/-- `flex_fill`, single pass with explicit shares: on a line where some item can flex (`hnot`), the unfrozen
flex factors sum to at least 1 (`hufs`: otherwise only that fraction of the free space is distributed, and see
`Witness.C12.fractional_factor_sum`), the shrink denominators are non-zero (`hden`) and no flexing
item is stopped by its min / max sizes at its proportional share (`hclamp`), 9.7 ends after one pass with
`Σ target + Σ outer extra + (n − 1)·gap = available main size`; the shares are
`base + free·grow/Σgrow` resp. `base + free·(shrink·base)/Σ(shrink·base)`.
(When an item *is* stopped by its min / max size the freed space is redistributed by the next passes:
`flex_fill_all_passes`, and the regression examples of `Witness.C12`.) -/
theorem flex_fill_one_pass (row : Bool) (avail gap : Rat) (line : List St)
    (hnot : allFrozen (line.map (sizeInflexible (decide (lineHypSum gap line < avail)))) = false)
    (hufs : unfrozenFactorSum (line.map (sizeInflexible (decide (lineHypSum gap line < avail)))) ≥ 1)
    (hden : decide (lineHypSum gap line < avail) = false →
      scaledShrinkSum (line.map (sizeInflexible (decide (lineHypSum gap line < avail)))) ≠ 0)
    (hclamp : ∀ s ∈ line.map (sizeInflexible (decide (lineHypSum gap line < avail))), s.frozen = false →
      NotClamped row s (share (decide (lineHypSum gap line < avail))
        (freeSpace avail gap (line.map (sizeInflexible (decide (lineHypSum gap line < avail)))))
        (growSum (line.map (sizeInflexible (decide (lineHypSum gap line < avail)))))
        (scaledShrinkSum (line.map (sizeInflexible (decide (lineHypSum gap line < avail))))) s)) :
    ∃ res, resolveLine row avail gap line = .ok res ∧ allFrozen res = true ∧ freeSpace avail gap res = 0 := by
  generalize hgrow : decide (lineHypSum gap line < avail) = grow at *
  generalize hl0 : line.map (sizeInflexible grow) = l0 at *
  obtain ⟨line', hpass, _, hzero, hline'⟩ := flex_fill_pass row grow avail gap l0 (freeSpace avail gap l0) rfl hufs
    (by
      intro s hs _
      rw [← hl0] at hs
      obtain ⟨y, _, rfl⟩ := List.mem_map.mp hs
      exact sizeInflexible_factor grow y)
    hden
  have hadj0 := adj_zero_of_notClamped row grow (freeSpace avail gap l0) (growSum l0) (scaledShrinkSum l0) l0 hclamp
  have hadj : sumBy St.adj line' = 0 := by
    rw [hline', sumBy_map]
    rw [← hadj0]
    apply sumBy_congr'
    intro s _
    exact (freezeOne_fields _ s).2.2
  obtain ⟨hall, hfree⟩ := hzero hadj
  refine ⟨line'.map fun s => if row then { s with width := some s.target } else { s with height := some s.target }, ?_, ?_, ?_⟩
  · unfold resolveLine
    simp only [hgrow, hl0]
    have hlen : l0.length = line.length := by rw [← hl0, List.length_map]
    have hloop : loop row grow avail gap line.length l0 (freeSpace avail gap l0) = .ok line' := by
      cases hn : line.length with
      | zero =>
        have : line = [] := List.eq_nil_of_length_eq_zero hn
        subst this; simp at hl0; subst hl0
        simp [allFrozen] at hnot
      | succ n =>
        unfold loop
        simp only [hnot, Bool.false_eq_true, if_false, hpass]
        unfold loop
        simp [hall]
    rw [hlen, hloop]
  · unfold allFrozen at *
    simp only [List.all_map, List.all_eq_true] at *
    intro s hs
    have := hall s hs
    cases row <;> simpa using this
  · rw [freeSpace_setMain]; exact hfree

/-! ## Flex: step 12, justify-content and auto margins -/

def mainPos (row : Bool) (s : St) : Rat := if row then s.posX else s.posY
def marginMain (row : Bool) (s : St) : Rat := if row then s.marginWidth else s.marginHeight

/-- positions given by the recurrence "next = this + margin box + between + gap" -/
def chainFrom (row : Bool) (step : Rat) : List St → Rat → List Rat
  | [], _ => []
  | s :: rest, p => p :: chainFrom row step rest (p + marginMain row s + step)

private theorem placeMain_noStretch (row : Bool) (j : Justify) (free gap growths : Rat) (n : Nat)
    (hj : (j == .stretch && growths != 0) = false) :
    ∀ (line : List St) (pos : Rat) (first : Bool),
      (placeMain row j free gap growths n line pos first).map (mainPos row) =
        chainFrom row (justifyBetween j free n + gap) line (if first then pos else pos + gap) ∧
      (placeMain row j free gap growths n line pos first).map (marginMain row) = line.map (marginMain row) := by
  intro line
  induction line with
  | nil => intro pos first; simp [placeMain, chainFrom]
  | cons s rest ih =>
    intro pos first
    unfold placeMain
    simp only [hj, Bool.false_eq_true, if_false]
    cases row with
    | true =>
      simp only [if_true, List.map_cons, chainFrom]
      have := ih ((if first then pos else pos + gap) + ({ s with posX := if first then pos else pos + gap } : St).marginWidth + justifyBetween j free n) false
      simp only [Bool.false_eq_true, if_false] at this
      constructor
      · rw [this.1]
        simp [mainPos, marginMain, St.marginWidth, St.borderWidth]
        congr 1; grind
      · rw [this.2]; simp [marginMain, St.marginWidth, St.borderWidth]
    | false =>
      simp only [Bool.false_eq_true, if_false, List.map_cons, chainFrom]
      have := ih ((if first then pos else pos + gap) + ({ s with posY := if first then pos else pos + gap } : St).marginHeight + justifyBetween j free n) false
      simp only [Bool.false_eq_true, if_false] at this
      constructor
      · rw [this.1]
        simp [mainPos, marginMain, St.marginHeight, St.borderHeight]
        congr 1; grind
      · rw [this.2]; simp [marginMain, St.marginHeight, St.borderHeight]

/-- free space left after the last item -/
def justifyEnd (j : Justify) (free : Rat) (n : Nat) : Rat :=
  match j with
  | .«end» | .flexEnd | .right => 0
  | .center => free / 2
  | .spaceAround => free / n / 2
  | .spaceEvenly => free / (n + 1 : Nat)
  | .spaceBetween => if n > 1 then 0 else free
  | _ => free

theorem justify_split (j : Justify) (free : Rat) (m : Nat) :
    justifyStart j free (m + 1) + (m : Rat) * justifyBetween j free (m + 1) + justifyEnd j free (m + 1) = free := by
  have h0 : (0:Rat) ≤ (m : Rat) := Rat.natCast_nonneg
  have h1 : ((m + 1 : Nat) : Rat) = (m : Rat) + 1 := by push_cast; rfl
  have h2 : ((m + 1 + 1 : Nat) : Rat) = (m : Rat) + 2 := by push_cast; grind
  have h3 : (m : Rat) + 1 ≠ 0 := by grind
  have h4 : (m : Rat) + 2 ≠ 0 := by grind
  cases j <;> simp only [justifyStart, justifyBetween, justifyEnd, h1, h2] <;> try grind
  -- space-between
  by_cases hm : m = 0
  · subst hm; simp; grind
  · have : m + 1 > 1 := by omega
    have hm' : (m : Rat) ≠ 0 := by
      intro h; apply hm; exact_mod_cast h
    simp only [this, if_true, Nat.add_sub_cancel]
    grind

/-- end of the margin box of the last item of a chain starting at `p` -/
def chainEnd (row : Bool) (step : Rat) : List St → Rat → Rat
  | [], p => p
  | [s], p => p + marginMain row s
  | s :: rest, p => chainEnd row step rest (p + marginMain row s + step)

private theorem chainEnd_eq (row : Bool) (step : Rat) (s : St) (rest : List St) (p : Rat) :
    chainEnd row step (s :: rest) p = p + sumBy (marginMain row) (s :: rest) + (rest.length : Rat) * step := by
  induction rest generalizing s p with
  | nil => simp [chainEnd, sumBy]; grind
  | cons t ts ih =>
    simp only [chainEnd]
    rw [ih]
    simp only [sumBy, List.length_cons]
    push_cast
    grind

private theorem marginMain_eq_outer (row : Bool) (s : St) : marginMain row s = s.outerMainNonAuto row := by
  cases row <;> simp [marginMain, St.outerMainNonAuto, St.marginWidth, St.marginHeight]

/-- `justify`: without auto margins (and outside the `stretch` quirk) the items of a line are placed
one after the other from `justifyStart`, consecutive margin boxes separated by the gap plus the
`justify-content` share, and what is left after the last one is `justifyEnd`: together they fill
the main size exactly. -/
theorem justify (c : Container) (mainSize growths : Rat) (s : St) (rest : List St)
    (hauto : countAutoMain c.row (s :: rest) = 0)
    (hst : (effectiveJustify c.reverse c.justify == .stretch && growths != 0) = false) :
    let j := effectiveJustify c.reverse c.justify
    let line := s :: rest
    let free := lineFree c.row mainSize c.mainGap line
    let step := justifyBetween j free line.length + c.mainGap
    (step12 c mainSize growths line).map (mainPos c.row) = chainFrom c.row step line (justifyStart j free line.length) ∧
    chainEnd c.row step line (justifyStart j free line.length) + justifyEnd j free line.length = mainSize := by
  intro j line free step
  constructor
  · unfold step12
    have hauto' : countAutoMain c.row line = 0 := hauto
    simp only [hauto', bne_self_eq_false, Bool.false_eq_true, if_false]
    have := (placeMain_noStretch c.row j free c.mainGap growths line.length hst line
      (justifyStart j free line.length) true).1
    simpa using this
  · rw [chainEnd_eq]
    have hsplit := justify_split j free rest.length
    have hlen : line.length = rest.length + 1 := rfl
    have hfree : free = mainSize - sumBy (St.outerMainNonAuto c.row) line - c.mainGap * (rest.length : Rat) := by
      show lineFree c.row mainSize c.mainGap (s :: rest) = _
      unfold lineFree
      simp only [List.length_cons]
      push_cast
      grind
    have hsum : sumBy (marginMain c.row) line = sumBy (St.outerMainNonAuto c.row) line :=
      sumBy_congr' _ _ _ (fun x _ => marginMain_eq_outer c.row x)
    rw [hsum, hlen]
    show justifyStart j free (rest.length + 1) + sumBy (St.outerMainNonAuto c.row) line +
      (rest.length : Rat) * (justifyBetween j free (rest.length + 1) + c.mainGap) + justifyEnd j free (rest.length + 1) = mainSize
    grind

def autosOf (row : Bool) (s : St) : Nat :=
  if row then (if s.ml.isNone then 1 else 0) + (if s.mr.isNone then 1 else 0)
  else (if s.mt.isNone then 1 else 0) + (if s.mb.isNone then 1 else 0)

private theorem countAutoMain_foldl (row : Bool) (line : List St) (n : Nat) :
    line.foldl (fun n s =>
      if row then n + (if s.ml.isNone then 1 else 0) + (if s.mr.isNone then 1 else 0)
      else n + (if s.mt.isNone then 1 else 0) + (if s.mb.isNone then 1 else 0)) n =
    n + (line.map (autosOf row)).sum := by
  induction line generalizing n with
  | nil => simp
  | cons s rest ih =>
    simp only [List.foldl_cons, List.map_cons, List.sum_cons]
    rw [ih]
    cases row <;> simp [autosOf] <;> omega

private theorem countAutoMain_eq (row : Bool) (line : List St) :
    countAutoMain row line = (line.map (autosOf row)).sum := by
  unfold countAutoMain
  rw [countAutoMain_foldl]; simp

private theorem outer_setAuto (row : Bool) (v : Rat) (s : St) :
    (setAutoMain row v s).outerMainNonAuto row = s.outerMainNonAuto row + (autosOf row s : Rat) * v := by
  cases row
  · simp only [setAutoMain, St.outerMainNonAuto, St.borderHeight, autosOf, Bool.false_eq_true, if_false]
    cases s.mt <;> cases s.mb <;> simp [lenOr0] <;> grind
  · simp only [setAutoMain, St.outerMainNonAuto, St.borderWidth, autosOf, if_true]
    cases s.ml <;> cases s.mr <;> simp [lenOr0] <;> grind

private theorem sum_setAuto (row : Bool) (v : Rat) (line : List St) :
    sumBy (St.outerMainNonAuto row) (line.map (setAutoMain row v)) =
      sumBy (St.outerMainNonAuto row) line + ((line.map (autosOf row)).sum : Nat) * v := by
  induction line with
  | nil => simp [sumBy]; grind
  | cons s rest ih =>
    simp only [List.map_cons, sumBy, List.sum_cons, ih, outer_setAuto]
    push_cast
    grind

/-- `justify`, auto margins (full strength): when a line has auto main-axis margins they take the whole
*positive* free space, each the same share, so that the margin boxes and gaps fill the main size exactly;
with negative free space they are zero and the overflow is left as it is (`min 0 free`, which step 12 then
hands to `justify-content`). -/
theorem auto_margins_absorb (row : Bool) (mainSize gap : Rat) (line : List St)
    (h : countAutoMain row line ≠ 0) :
    lineFree row mainSize gap
      (line.map (setAutoMain row (max 0 (lineFree row mainSize gap line) / (countAutoMain row line : Nat)))) =
      min 0 (lineFree row mainSize gap line) := by
  have hc : ((countAutoMain row line : Nat) : Rat) ≠ 0 := by
    intro h0; apply h; exact_mod_cast h0
  by_cases hpos : 0 ≤ lineFree row mainSize gap line
  · rw [Rat.max_def, Rat.min_def]
    simp only [hpos, if_true]
    unfold lineFree at *
    rw [sum_setAuto, ← countAutoMain_eq, List.length_map]
    grind
  · have hneg : lineFree row mainSize gap line < 0 := by grind
    have hle : lineFree row mainSize gap line ≤ 0 := by grind
    rw [Rat.max_def, Rat.min_def]
    simp only [hpos, if_false]
    have hle' : ¬ (0 ≤ lineFree row mainSize gap line) := hpos
    unfold lineFree at *
    rw [sum_setAuto, ← countAutoMain_eq, List.length_map]
    grind

/-- the margins step 12 gives are never negative -/
theorem auto_margins_nonneg (free : Rat) (n : Nat) : 0 ≤ max 0 free / (n : Rat) := by
  have h1 : (0 : Rat) ≤ max 0 free := by rw [Rat.max_def]; split <;> grind
  by_cases hn : n = 0
  · subst hn; simp [Rat.div_def]
  · have h2 : (0 : Rat) < (n : Rat) := by exact_mod_cast Nat.pos_of_ne_zero hn
    rw [Rat.div_def]
    exact Rat.mul_nonneg h1 (Rat.le_of_lt (Rat.inv_pos.mpr h2))

/-! ## Flex: steps 11 and 14, cross-axis alignment -/

def crossPos (row : Bool) (s : St) : Rat := if row then s.posY else s.posX
def marginCross (row : Bool) (s : St) : Rat := if row then s.marginHeight else s.marginWidth
def noAutoCross (row : Bool) (s : St) : Prop := if row then s.mt.isSome ∧ s.mb.isSome else s.ml.isSome ∧ s.mr.isSome

/-- `align` (step 14): without auto cross margins an item is put at the start of its line,
flush with its end (`flex-end`, `end`, `self-end`), or centred: the space before and after its
margin box is equal. -/
private theorem align_cross_aux (row : Bool) (alignItems : Align) (cross posCross : Rat) (s : St)
    (hauto : noAutoCross row s) (a : Align) (ha : a = resolveAlign alignItems s.it.alignSelf)
    (s' : St) (hs' : s' = step13Aux row alignItems cross posCross s) :
    marginCross row s' = marginCross row s ∧
    (isEndAlign a = true → crossPos row s' + marginCross row s' = posCross + cross) ∧
    (isEndAlign a = false → a = .center →
      crossPos row s' - posCross = (posCross + cross) - (crossPos row s' + marginCross row s')) ∧
    (isEndAlign a = false → a ≠ .center → crossPos row s' = posCross) := by
  unfold step13Aux at hs'
  rw [← ha] at hs'
  cases row with
  | true =>
    obtain ⟨h1, h2⟩ := hauto
    have e1 : s.mt.isNone = false := by cases hm : s.mt <;> simp_all
    have e2 : s.mb.isNone = false := by cases hm : s.mb <;> simp_all
    simp only [e1, e2, if_true, Bool.false_eq_true, if_false, Nat.add_zero, bne_self_eq_false] at hs'
    by_cases hend : isEndAlign a = true
    · simp only [hend, if_true] at hs'
      subst hs'
      simp [crossPos, marginCross, St.marginHeight, St.borderHeight, hend]
      grind
    · have hend' : isEndAlign a = false := by simpa using hend
      simp only [hend', Bool.false_eq_true, if_false] at hs'
      by_cases hc : a = .center
      · have : (a == Align.center) = true := by simp [hc]
        simp only [this, if_true] at hs'
        subst hs'
        simp [crossPos, marginCross, St.marginHeight, St.borderHeight, hc]
        grind
      · have : (a == Align.center) = false := by simp [hc]
        simp only [this, Bool.false_eq_true, if_false] at hs'
        subst hs'
        simp [crossPos, marginCross, St.marginHeight, St.borderHeight, hc]
        grind
  | false =>
    obtain ⟨h1, h2⟩ := hauto
    have e1 : s.ml.isNone = false := by cases hm : s.ml <;> simp_all
    have e2 : s.mr.isNone = false := by cases hm : s.mr <;> simp_all
    simp only [e1, e2, Bool.false_eq_true, if_false, Nat.add_zero, bne_self_eq_false] at hs'
    by_cases hend : isEndAlign a = true
    · simp only [hend, if_true] at hs'
      subst hs'
      simp [crossPos, marginCross, St.marginWidth, St.borderWidth, hend]
      grind
    · have hend' : isEndAlign a = false := by simpa using hend
      simp only [hend', Bool.false_eq_true, if_false] at hs'
      by_cases hc : a = .center
      · have : (a == Align.center) = true := by simp [hc]
        simp only [this, if_true] at hs'
        subst hs'
        simp [crossPos, marginCross, St.marginWidth, St.borderWidth, hc]
        grind
      · have : (a == Align.center) = false := by simp [hc]
        simp only [this, Bool.false_eq_true, if_false] at hs'
        subst hs'
        simp [crossPos, marginCross, St.marginWidth, St.borderWidth, hc]
        grind

theorem align_cross (row : Bool) (alignItems : Align) (cross posCross : Rat) (s : St)
    (hauto : noAutoCross row s) (a : Align) (ha : a = resolveAlign alignItems s.it.alignSelf)
    (s' : St) (hs' : s' = step13 row alignItems cross posCross s) :
    marginCross row s' = marginCross row s ∧
    (isEndAlign a = true → crossPos row s' + marginCross row s' = posCross + cross) ∧
    (isEndAlign a = false → a = .center →
      crossPos row s' - posCross = (posCross + cross) - (crossPos row s' + marginCross row s')) ∧
    (isEndAlign a = false → a ≠ .center → crossPos row s' = posCross) := by
  have hm : marginCross row (setCross row posCross s) = marginCross row s := by
    cases row <;> simp [setCross, marginCross, St.marginHeight, St.marginWidth, St.borderHeight, St.borderWidth]
  have := align_cross_aux row alignItems cross posCross (setCross row posCross s)
    (by cases row <;> simpa [noAutoCross, setCross] using hauto) a
    (by rw [ha]; cases row <;> simp [setCross]) s' (by rw [hs']; rfl)
  rw [hm] at this
  exact this

/-- `align`, auto cross margins (step 13; regression of repair 4ac1c09): an item with an auto cross-axis margin is
put at the cross start of its own line before its margins are resolved. -/
theorem auto_cross_margin_positioned (row : Bool) (alignItems : Align) (cross posCross : Rat) (s : St)
    (hauto : ¬ noAutoCross row s) :
    crossPos row (step13 row alignItems cross posCross s) = posCross := by
  unfold step13 step13Aux
  cases row with
  | true =>
    have hne : (((if s.mt.isNone then 1 else 0) + (if s.mb.isNone then 1 else 0) : Nat) != 0) = true := by
      unfold noAutoCross at hauto
      cases hm1 : s.mt <;> cases hm2 : s.mb <;> simp_all
    simp only [setCross, if_true, hne]
    split <;> simp [crossPos]
  | false =>
    have hne : (((if s.ml.isNone then 1 else 0) + (if s.mr.isNone then 1 else 0) : Nat) != 0) = true := by
      unfold noAutoCross at hauto
      cases hm1 : s.ml <;> cases hm2 : s.mr <;> simp_all
    simp only [setCross, Bool.false_eq_true, if_false, hne, if_true]
    split <;> simp [crossPos]

/-- `align`, stretch (step 11): an item whose cross size is `auto`, aligned `stretch` (or `normal`)
and without auto cross margins gets the cross size that makes its margin box exactly as large as its line. -/
theorem stretch_fills_line (row : Bool) (alignItems : Align) (cross : Rat) (s : St)
    (hstretch : resolveAlign alignItems s.it.alignSelf = .stretch) (hsize : s.styleCrossAuto row = true)
    (hauto : noAutoCross row s) :
    (step11 row alignItems cross s).outerCross row = cross := by
  unfold step11
  simp only [hstretch, beq_self_eq_true, hsize, Bool.and_self, if_true]
  cases row with
  | true =>
    obtain ⟨h1, h2⟩ := hauto
    cases hmt : s.mt with
    | none => simp [hmt] at h1
    | some mt =>
      cases hmb : s.mb with
      | none => simp [hmb] at h2
      | some mb =>
        simp [St.outerCross, St.borderHeight, lenOr0]
        grind
  | false =>
    obtain ⟨h1, h2⟩ := hauto
    cases hml : s.ml with
    | none => simp [hml] at h1
    | some ml =>
      cases hmr : s.mr with
      | none => simp [hmr] at h2
      | some mr =>
        simp [St.outerCross, St.borderWidth, lenOr0]
        grind

/-! ## Flex: order-modified document order on the whole layout -/

def ids (l : List St) : List Nat := l.map (·.it.id)

private theorem mapExcept_proj {α β γ ε} (f : α → Except ε β) (ga : α → γ) (gb : β → γ)
    (h : ∀ x y, f x = .ok y → gb y = ga x) :
    ∀ (l : List α) (l' : List β), mapExcept f l = .ok l' → l'.map gb = l.map ga := by
  intro l
  induction l with
  | nil => intro l' h'; simp [mapExcept] at h'; subst h'; rfl
  | cons x xs ih =>
    intro l' h'
    unfold mapExcept at h'
    split at h'
    · cases h'
    · rename_i y hy
      split at h'
      · cases h'
      · rename_i ys hys
        cases h'
        simp [h x y hy, ih ys hys]

private theorem map_ids (f : St → St) (hf : ∀ s, (f s).it = s.it) (l : List St) : ids (l.map f) = ids l := by
  unfold ids
  rw [List.map_map]
  apply List.map_congr_left
  intro s _; simp [hf]

private theorem distributeOne_it (grow : Bool) (r g sh : Rat) (s s' : St)
    (h : distributeOne grow r g sh s = .ok s') : s'.it = s.it := by
  unfold distributeOne at h
  split at h
  · cases h; rfl
  · split at h
    · split at h
      · cases h
      · cases h; rfl
    · split at h
      · cases h; rfl
      · cases h; rfl

private theorem setBase_it (s : St) : (setBase s).it = s.it := by unfold setBase; split <;> rfl
private theorem fixMin_it (row : Bool) (s : St) : (fixMinMax row s).it = s.it := by
  unfold fixMinMax; split <;> rfl
private theorem freezeOne_it (a : Rat) (s : St) : (freezeOne a s).it = s.it := by
  unfold freezeOne
  split
  · rfl
  · split
    · rfl
    · split <;> rfl

private theorem distribute_ids (grow : Bool) (r : Rat) (l l' : List St) (h : distribute grow r l = .ok l') :
    ids l' = ids l := by
  unfold distribute at h
  split at h
  · cases h; exact map_ids _ setBase_it l
  · exact mapExcept_proj _ (fun s => s.it.id) (fun s => s.it.id)
      (fun x y hxy => by rw [distributeOne_it _ _ _ _ x y hxy]) _ _ h

private theorem pass_ids (row grow : Bool) (avail gap : Rat) (line line' : List St) (f f' : Rat)
    (hp : pass row grow avail gap line f = .ok (line', f')) : ids line' = ids line := by
  unfold pass at hp
  split at hp
  · cases hp
  · rename_i l1 hdist
    cases hp
    unfold finishPass
    simp only []
    rw [map_ids _ (freezeOne_it _), map_ids _ (fixMin_it row)]
    exact distribute_ids _ _ _ _ hdist

private theorem loop_ids (row grow : Bool) (avail gap : Rat) :
    ∀ (fuel : Nat) (line res : List St) (f : Rat),
      loop row grow avail gap fuel line f = .ok res → ids res = ids line := by
  intro fuel
  induction fuel with
  | zero =>
    intro line res f h
    unfold loop at h
    cases hall : allFrozen line with
    | true => simp [hall] at h; subst h; rfl
    | false => simp [hall] at h
  | succ n ih =>
    intro line res f h
    unfold loop at h
    cases hall : allFrozen line with
    | true => simp [hall] at h; subst h; rfl
    | false =>
      simp only [hall, Bool.false_eq_true, if_false] at h
      cases hp : pass row grow avail gap line f with
      | error e => simp [hp] at h
      | ok r =>
        obtain ⟨line', f'⟩ := r
        simp only [hp] at h
        rw [ih _ _ _ h, pass_ids _ _ _ _ _ _ _ _ hp]

private theorem sizeInflexible_it (grow : Bool) (s : St) : (sizeInflexible grow s).it = s.it := by
  unfold sizeInflexible
  cases grow
  · simp only [Bool.false_eq_true, if_false]; split <;> rfl
  · simp only [if_true]; split <;> rfl

private theorem resolveLine_ids (row : Bool) (avail gap : Rat) (line res : List St)
    (h : resolveLine row avail gap line = .ok res) : ids res = ids line := by
  unfold resolveLine at h
  simp only [] at h
  split at h
  · cases h
  · rename_i l1 hl
    cases h
    rw [map_ids _ (by intro s; split <;> rfl), loop_ids _ _ _ _ _ _ _ _ hl, map_ids _ (sizeInflexible_it _)]

def lineIds (ls : List Line) : List (List Nat) := ls.map fun l => ids l.items

private theorem step7_it (row : Bool) (s : St) : (step7 row s).it = s.it := by
  unfold step7
  simp only []
  split
  · rfl
  · split <;> rfl

private theorem step11_it (row : Bool) (ai : Align) (cross : Rat) (s : St) : (step11 row ai cross s).it = s.it := by
  unfold step11
  split
  · split
    · split <;> rfl
    · split <;> rfl
  · rfl

private theorem setAutoMain_it (row : Bool) (v : Rat) (s : St) : (setAutoMain row v s).it = s.it := by
  unfold setAutoMain; split <;> rfl

private theorem placeMain_ids (row : Bool) (j : Justify) (free gap growths : Rat) (n : Nat) :
    ∀ (line : List St) (pos : Rat) (first : Bool), ids (placeMain row j free gap growths n line pos first) = ids line := by
  intro line
  induction line with
  | nil => intro pos first; rfl
  | cons s rest ih =>
    intro pos first
    unfold placeMain
    simp only [ids, List.map_cons] at ih ⊢
    rw [ih]
    congr 1
    cases row
    · simp
    · simp only [if_true]; split <;> rfl

private theorem step12_ids (c : Container) (mainSize growths : Rat) (line : List St) :
    ids (step12 c mainSize growths line) = ids line := by
  unfold step12
  simp only []
  rw [placeMain_ids]
  split
  · exact map_ids _ (setAutoMain_it _ _) line
  · rfl

private theorem setCross_it (row : Bool) (v : Rat) (s : St) : (setCross row v s).it = s.it := by
  unfold setCross; split <;> rfl

private theorem step13Aux_it (row : Bool) (ai : Align) (cross pos : Rat) (s : St) : (step13Aux row ai cross pos s).it = s.it := by
  unfold step13Aux
  simp only []
  repeat' split
  all_goals rfl

private theorem step13_it (row : Bool) (ai : Align) (cross pos : Rat) (s : St) : (step13 row ai cross pos s).it = s.it := by
  unfold step13
  rw [step13Aux_it, setCross_it]

private theorem step13Lines_ids (row : Bool) (ai : Align) :
    ∀ (ls : List Line) (pos : Rat), lineIds (step13Lines row ai ls pos) = lineIds ls := by
  intro ls
  induction ls with
  | nil => intro pos; rfl
  | cons l rest ih =>
    intro pos
    simp only [step13Lines, lineIds, List.map_cons] at ih ⊢
    rw [ih, map_ids _ (step13_it row ai l.cross pos)]

private theorem addCross_it (row : Bool) (v : Rat) (s : St) : (addCross row v s).it = s.it := by
  unfold addCross; split <;> rfl

private theorem step16_ids (row : Bool) (ac : AlignContent) (extra gap : Rat) (n : Nat) :
    ∀ (ls : List Line) (tr : Rat) (first : Bool), lineIds (step16 row ac extra gap n ls tr first) = lineIds ls := by
  intro ls
  induction ls with
  | nil => intro tr first; rfl
  | cons l rest ih =>
    intro tr first
    unfold step16
    simp only []
    split
    · simp only [lineIds, List.map_cons] at ih ⊢
      rw [ih, map_ids _ (addCross_it row _)]
    · simp only [lineIds, List.map_cons] at ih ⊢
      rw [ih, map_ids _ (addCross_it row _)]

private theorem crossPos_addCross (row : Bool) (d : Rat) (s : St) :
    crossPos row (addCross row d s) = crossPos row s + d := by
  cases row <;> simp [crossPos, addCross]

/-- `align`, multi-line (step 16; regression of repair 10a14ee): `align-content` moves all the items of a line by
one and the same translation, so the offsets that `align-self` / auto margins gave them inside their line
(step 13–14) are kept, and the cross size of the lines is unchanged. -/
theorem step16_keeps_offsets (row : Bool) (ac : AlignContent) (extra gap : Rat) (n : Nat) :
    ∀ (ls : List Line) (tr : Rat) (first : Bool),
      Rel2 (fun (l l' : Line) => l'.cross = l.cross ∧ ∃ d : Rat, l'.items = l.items.map (addCross row d))
        ls (step16 row ac extra gap n ls tr first) := by
  intro ls
  induction ls with
  | nil => intro tr first; unfold step16; exact .nil
  | cons l rest ih =>
    intro tr first
    unfold step16
    simp only []
    split
    · exact .cons ⟨rfl, _, rfl⟩ (ih _ _)
    · exact .cons ⟨rfl, _, rfl⟩ (ih _ _)

/-- two items of the same line keep their relative cross position through step 16 -/
theorem step16_relative (row : Bool) (d : Rat) (a b : St) :
    crossPos row (addCross row d a) - crossPos row (addCross row d b) = crossPos row a - crossPos row b := by
  rw [crossPos_addCross, crossPos_addCross]; grind

private theorem lineCrosses_ids (c : Container) (lines : List (List St)) :
    lineIds (lineCrosses c lines) = lines.map ids := by
  unfold lineCrosses
  have h1 : ∀ (ls : List Line), lineIds (clampSingleLine ls) = lineIds ls := by
    intro ls
    unfold clampSingleLine
    split <;> rfl
  rw [h1]
  unfold initialCrosses
  split
  · rfl
  · simp [lineIds, List.map_map]

private theorem stretchLines_ids (c : Container) (ls : List Line) : lineIds (stretchLines c ls) = lineIds ls := by
  unfold stretchLines
  split
  · split
    · simp only []
      split
      · simp [lineIds, List.map_map]
      · rfl
    · rfl
  · rfl

private theorem alignLines_ids (c : Container) (ls : List Line) : lineIds (alignLines c ls).1 = lineIds ls := by
  unfold alignLines
  simp only []
  split
  · exact step16_ids _ _ _ _ _ _ _ _
  · rfl

private theorem finalRect_id (s : St) : (finalRect s).id = s.it.id := rfl

/-- `order` on the whole layout: the boxes that come out of `flex_layout` are the items in
order-modified document order (stable sort by `order`), cut into the lines of step 5, the lines
taken in reverse order for `wrap-reverse`, the items of each line in reverse order for
`row-reverse` / `column-reverse`; none is lost or duplicated. -/
theorem layout_order (c : Container) (items : List Item) (r : Result) (h : layout c items = .ok r) :
    r.rects.map (·.id) =
      ((flexLines c (step3 c.row (sortByOrder items) 0 0)
          (mainSizeOf c (step3 c.row (sortByOrder items) 0 0))).map ids).flatten := by
  unfold layout at h
  simp only [bind, Except.bind] at h
  split at h
  · cases h
  · rename_i lines hlines
    simp only [pure, Except.pure, Except.ok.injEq] at h
    subst h
    simp only []
    have hres : lines.map ids = (flexLines c (step3 c.row (sortByOrder items) 0 0)
        (mainSizeOf c (step3 c.row (sortByOrder items) 0 0))).map ids :=
      mapExcept_proj _ ids ids (fun x y hxy => resolveLine_ids _ _ _ _ _ hxy) _ _ hlines
    rw [← hres]
    -- every later stage keeps the ids of every line
    have key : ∀ (ls : List Line), ((ls.map fun l => l.items.map finalRect).flatten).map (·.id) = (lineIds ls).flatten := by
      intro ls
      induction ls with
      | nil => rfl
      | cons l rest ih =>
        simp only [List.map_cons, List.flatten_cons, List.map_append, lineIds] at ih ⊢
        rw [ih]
        congr 1
        simp [ids, List.map_map, finalRect_id]
    rw [key, alignLines_ids, step13Lines_ids]
    have h12 : ∀ (ls : List Line) (ms g : Rat),
        lineIds (ls.map fun l => { l with items := step12 c ms g l.items }) = lineIds ls := by
      intro ls ms g
      simp only [lineIds, List.map_map]
      apply List.map_congr_left
      intro l _; simp [step12_ids]
    have h11 : ∀ (ls : List Line),
        lineIds (ls.map fun l => { l with items := l.items.map (step11 c.row c.alignItems l.cross) }) = lineIds ls := by
      intro ls
      simp only [lineIds, List.map_map]
      apply List.map_congr_left
      intro l _; simp [map_ids _ (step11_it c.row c.alignItems l.cross)]
    rw [h12, h11, stretchLines_ids, lineCrosses_ids, List.map_map]
    congr 1
    apply List.map_congr_left
    intro l _
    simp [map_ids _ (step7_it c.row)]

/-! ## Grid: `_intersect` -/

section Grid
open Wp.Grid

/-- `intersect`: `_intersect` is the overlap test of the half-open intervals `[p₁, p₁+s₁)`, `[p₂, p₂+s₂)`. -/
theorem intersect_iff (p1 s1 p2 s2 : Int) :
    intersect p1 s1 p2 s2 = true ↔ (p1 < p2 + s2 ∧ p2 < p1 + s1) := by
  simp [intersect]

/-- … i.e. for non-empty intervals, the two intervals share a track. -/
theorem intersect_iff_common (p1 s1 p2 s2 : Int) (h1 : 0 < s1) (h2 : 0 < s2) :
    intersect p1 s1 p2 s2 = true ↔ ∃ t : Int, (p1 ≤ t ∧ t < p1 + s1) ∧ (p2 ≤ t ∧ t < p2 + s2) := by
  rw [intersect_iff]
  constructor
  · intro ⟨ha, hb⟩
    exact ⟨max p1 p2, by omega, by omega⟩
  · intro ⟨t, ⟨a, b⟩, ⟨c, d⟩⟩
    omega

theorem intersect_comm (p1 s1 p2 s2 : Int) : intersect p1 s1 p2 s2 = intersect p2 s2 p1 s1 := by
  simp [intersect, Bool.and_comm]

/-- Two areas that do not intersect share no cell. -/
theorem areaIntersects_false_iff (a : Area) (positions : List Area) :
    areaIntersects a positions = false ↔
      ∀ b ∈ positions, ¬ (intersect a.1 a.2.2.1 b.1 b.2.2.1 = true ∧ intersect a.2.1 a.2.2.2 b.2.1 b.2.2.2 = true) := by
  unfold areaIntersects intersectWithChildren
  rw [Bool.eq_false_iff]
  simp only [ne_eq, List.any_eq_true, not_exists, not_and, Bool.and_eq_true]

/-! ## Grid: `_get_placement` on numeric lines -/

private theorem getLine_numeric (n : Int) (lines : List (List String)) (side : String) :
    getLine false (some n) none lines side = .ok { span := false, number := some n, ident := none, coord := some (n - 1) } := by
  simp [getLine, pure, Except.pure, bind, Except.bind]

private theorem getLine_span (n : Option Int) (lines : List (List String)) (side : String) :
    getLine true n none lines side = .ok { span := true, number := n, ident := none, coord := none } := by
  cases n <;> simp [getLine, pure, Except.pure, bind, Except.bind]

theorem placement_line_line (a b : Int) (lines : List (List String)) :
    getPlacement (lineNo a) (lineNo b) lines =
      .ok (some (if a < b then (a - 1, b - a) else if a = b then (a - 1, 1) else (b - 1, a - b))) := by
  simp only [getPlacement, lineNo, isAutoOrSpan, getLine_numeric, bind, Except.bind, pure, Except.pure]
  simp
  by_cases h1 : a < b
  · have : ¬ (b - 1 - (a - 1) < 0) := by omega
    have h0 : ¬ (b - 1 - (a - 1) = 0) := by omega
    simp [h1, this, h0]; omega
  · by_cases h2 : a = b
    · subst h2; simp
    · have : b - 1 - (a - 1) < 0 := by omega
      have h0 : ¬ (-(b - 1 - (a - 1)) = 0) := by omega
      simp [h1, h2, this, h0]; omega

theorem placement_line_auto (a : Int) (lines : List (List String)) :
    getPlacement (lineNo a) .auto lines = .ok (some (a - 1, 1)) := by
  simp [getPlacement, lineNo, isAutoOrSpan, getLine_numeric, bind, Except.bind, pure, Except.pure]

theorem placement_line_span (a n : Int) (hn : 0 < n) (lines : List (List String)) :
    getPlacement (lineNo a) (.mk true (some n) none) lines = .ok (some (a - 1, n)) := by
  simp only [getPlacement, lineNo, isAutoOrSpan, getLine_numeric, getLine_span, bind, Except.bind, pure, Except.pure]
  have h1 : ¬ (n = 0) := by omega
  have h2 : ¬ (n < 0) := by omega
  simp [numOr1, h1, h2]

theorem placement_span_line (n b : Int) (hn : 0 < n) (lines : List (List String)) :
    getPlacement (.mk true (some n) none) (lineNo b) lines = .ok (some (b - 1 - n, n)) := by
  simp only [getPlacement, lineNo, isAutoOrSpan, getLine_numeric, getLine_span, bind, Except.bind, pure, Except.pure]
  have h1 : ¬ (n = 0) := by omega
  have h2 : ¬ (n < 0) := by omega
  simp [numOr1, h1]
  have h3 : ¬ (b - 1 - (b - 1 - n) < 0) := by omega
  have h4 : ¬ (b - 1 - (b - 1 - n) = 0) := by omega
  simp [h3, h4]
  omega

theorem placement_auto_line (b : Int) (lines : List (List String)) :
    getPlacement .auto (lineNo b) lines = .ok (some (b - 2, 1)) := by
  simp only [getPlacement, lineNo, isAutoOrSpan, getLine_numeric, bind, Except.bind, pure, Except.pure]
  have h3 : ¬ (b - 1 - (b - 1 - 1) < 0) := by omega
  have h4 : ¬ (b - 1 - (b - 1 - 1) = 0) := by omega
  simp [h3, h4]
  omega

theorem placement_none (s e : Place) (hs : isAutoOrSpan s = true) (he : isAutoOrSpan e = true)
    (lines : List (List String)) : getPlacement s e lines = .ok none := by
  simp [getPlacement, hs, he, pure, Except.pure]

/-! ## Grid: px and fr tracks partition the container -/

/-- a fixed (`px`) track or a flexible (`fr`) track, as `_get_sizing_functions` returns them -/
inductive PxFr : (Breadth × Breadth) → Prop
  | px (q : Rat) (h : 0 ≤ q) : PxFr (.px q, .px q)
  | fr (f : Rat) (h : 0 ≤ f) : PxFr (.auto, .fr f)

def pxSum : List (Breadth × Breadth) → Rat
  | [] => 0
  | fn :: r => (match fn.2 with | .px q => q | _ => 0) + pxSum r

def frSum : List (Breadth × Breadth) → Rat
  | [] => 0
  | fn :: r => frValue fn.2 + frSum r

/-- the track after 1.1–1.2.5 when no item contributes -/
def prepTrack (fn : Breadth × Breadth) : TSize :=
  match fn.2 with
  | .px q => { base := q, limit := some q }
  | _ => { base := 0, limit := some 0 }

/-- the final size of a track: its fixed size, or `flex fraction × factor` -/
def finalTrack (ff : Rat) (fn : Breadth × Breadth) : TSize :=
  match fn.2 with
  | .px q => { base := q, limit := some q }
  | .fr f => { base := ff * f, limit := some 0 }
  | _ => { base := 0, limit := some 0 }

private theorem zipWith3_replicate_nil (dirX : Bool) (fns : List (Breadth × Breadth)) (ts : List TSize)
    (h : ts.length = fns.length) :
    zipWith3 (fun f t c => fitNonSpanning dirX f t c) fns ts (List.replicate ts.length []) = ts := by
  induction fns generalizing ts with
  | nil => cases ts <;> simp_all [zipWith3]
  | cons f fs ih =>
    cases ts with
    | nil => simp at h
    | cons t tr =>
      simp only [List.length_cons, List.replicate_succ, zipWith3]
      rw [ih tr (by simpa using h)]
      simp [fitNonSpanning]

private theorem prepare_empty (fns : List (Breadth × Breadth)) (pbox : Rat) (start : Int) (dirX : Bool)
    (hfns : ∀ fn ∈ fns, PxFr fn) :
    prepareTracks fns pbox [] start dirX = .ok (fns.map prepTrack) := by
  unfold prepareTracks
  simp only [assignChildren, checkSpanning, List.filter_nil, List.foldlM_nil, List.length_nil, List.range_zero,
    List.zip_nil_right, List.forM_eq_forM, List.forM_nil, bind, Except.bind, pure, Except.pure]
  rw [zipWith3_replicate_nil dirX fns _ (by simp)]
  congr 1
  rw [List.map_map]
  apply List.map_congr_left
  intro fn hfn
  cases hfns fn hfn with
  | px q h =>
    simp only [Function.comp, initTrack, prepTrack]
    have : max q q = q := by grind
    simp [this]
  | fr f h => simp [Function.comp, initTrack, prepTrack]

private theorem sumBase_prep (fns : List (Breadth × Breadth)) (hfns : ∀ fn ∈ fns, PxFr fn) :
    sumBase (fns.map prepTrack) = pxSum fns := by
  induction fns with
  | nil => rfl
  | cons fn r ih =>
    simp only [List.map_cons, sumBase, pxSum]
    rw [ih (fun x hx => hfns x (by simp [hx]))]
    cases hfns fn (by simp) <;> simp [prepTrack]

private theorem prepTrack_limit (fn : Breadth × Breadth) : (prepTrack fn).limit = some (prepTrack fn).base := by
  unfold prepTrack; split <;> rfl

private theorem maximize_prep (d : Rat) (hd : d > 0) (fns : List (Breadth × Breadth)) (free : Rat) :
    maximize d (fns.map prepTrack) free = (fns.map prepTrack, free) := by
  induction fns generalizing free with
  | nil => rfl
  | cons fn r ih =>
    simp only [List.map_cons, maximize, prepTrack_limit]
    have : (prepTrack fn).base + d > (prepTrack fn).base := by grind
    simp only [this, if_true]
    have h0 : free - ((prepTrack fn).base - (prepTrack fn).base) = free := by grind
    rw [h0, ih]
    congr 2
    cases h : prepTrack fn with
    | mk b l =>
      have := prepTrack_limit fn
      rw [h] at this
      simp at this ⊢
      exact this.symm

private theorem frLeftover_prep (fns : List (Breadth × Breadth)) (hfns : ∀ fn ∈ fns, PxFr fn) :
    frLeftover (List.zip (fns.map prepTrack) fns) = 0 := by
  induction fns with
  | nil => rfl
  | cons fn r ih =>
    simp only [List.map_cons, List.zip_cons_cons, frLeftover]
    rw [ih (fun x hx => hfns x (by simp [hx]))]
    cases hfns fn (by simp) <;> simp [prepTrack, isFr] <;> grind

private theorem frFactorSum_prep (fns : List (Breadth × Breadth)) (hfns : ∀ fn ∈ fns, PxFr fn) (i : Nat) :
    frFactorSum [] (List.zip (fns.map prepTrack) fns) i = frSum fns := by
  induction fns generalizing i with
  | nil => rfl
  | cons fn r ih =>
    simp only [List.map_cons, List.zip_cons_cons, frFactorSum, frSum]
    rw [ih (fun x hx => hfns x (by simp [hx]))]
    cases hfns fn (by simp) <;> simp [isFr, frValue]

private theorem frMark_prep (hyp : Rat) (hh : 0 ≤ hyp) (fns : List (Breadth × Breadth)) (hfns : ∀ fn ∈ fns, PxFr fn)
    (i : Nat) (free : Rat) (stop : Bool) :
    frMark hyp (List.zip (fns.map prepTrack) fns) i ([], free, stop) = ([], free, stop) := by
  induction fns generalizing i with
  | nil => rfl
  | cons fn r ih =>
    simp only [List.map_cons, List.zip_cons_cons, frMark]
    have hcond : (!([] : List Nat).contains i && isFr fn.2 && decide (hyp * frValue fn.2 < (prepTrack fn).base)) = false := by
      cases hfns fn (by simp) with
      | px q h => simp [isFr]
      | fr f h =>
        simp only [isFr, frValue, prepTrack, Bool.and_true, Bool.and_eq_false_imp]
        intro _
        have : 0 ≤ hyp * f := Rat.mul_nonneg hh h
        exact decide_eq_false (Rat.not_lt.mpr this)
    simp only [hcond, Bool.false_eq_true, if_false]
    exact ih (fun x hx => hfns x (by simp [hx])) _

private theorem frExpand_prep (ff : Rat) (hff : 0 ≤ ff) (fns : List (Breadth × Breadth)) (hfns : ∀ fn ∈ fns, PxFr fn)
    (i : Nat) (free : Rat) :
    frExpand ff [] (List.zip (fns.map prepTrack) fns) i (some free) =
      (fns.map (finalTrack ff), some (free - ff * frSum fns)) := by
  induction fns generalizing i free with
  | nil => simp [frExpand, frSum]; grind
  | cons fn r ih =>
    have ihr := ih (fun x hx => hfns x (by simp [hx]))
    simp only [List.map_cons, List.zip_cons_cons, frExpand]
    cases hfns fn (by simp) with
    | px q h =>
      simp only [isFr, Bool.false_and, Bool.false_eq_true, if_false, ihr, frSum, frValue]
      simp [prepTrack, finalTrack]; grind
    | fr f h =>
      by_cases hpos : ff * f > 0
      · have hc : (isFr (Breadth.fr f) && !([] : List Nat).contains i &&
            decide (ff * frValue (Breadth.fr f) > (prepTrack (Breadth.auto, Breadth.fr f)).base)) = true := by
          simp [isFr, frValue, prepTrack, hpos]
        simp only [Option.map_some, ihr, frSum, frValue]
        simp [prepTrack, finalTrack]; grind
      · have hc : (isFr (Breadth.fr f) && !([] : List Nat).contains i &&
            decide (ff * frValue (Breadth.fr f) > (prepTrack (Breadth.auto, Breadth.fr f)).base)) = false := by
          simp [isFr, frValue, prepTrack, hpos]
        have hz : ff * f = 0 := by
          have : 0 ≤ ff * f := Rat.mul_nonneg hff h
          grind
        simp only [ihr, frSum, frValue]
        simp [prepTrack, finalTrack, hz]; grind

private theorem sumBase_final (ff : Rat) (fns : List (Breadth × Breadth)) (hfns : ∀ fn ∈ fns, PxFr fn) :
    sumBase (fns.map (finalTrack ff)) = pxSum fns + ff * frSum fns := by
  induction fns with
  | nil => simp [sumBase, pxSum, frSum]; grind
  | cons fn r ih =>
    simp only [List.map_cons, sumBase, pxSum, frSum]
    rw [ih (fun x hx => hfns x (by simp [hx]))]
    cases hfns fn (by simp) <;> simp [finalTrack, frValue] <;> grind

private theorem frSum_nonneg (fns : List (Breadth × Breadth)) (hfns : ∀ fn ∈ fns, PxFr fn) : 0 ≤ frSum fns := by
  induction fns with
  | nil => simp [frSum]
  | cons fn r ih =>
    simp only [frSum]
    have := ih (fun x hx => hfns x (by simp [hx]))
    cases hfns fn (by simp) <;> simp [frValue] <;> grind

private theorem rat_div_pos (x y : Rat) (hx : 0 < x) (hy : 0 < y) : 0 < x / y := by
  rw [Rat.div_def]; exact Rat.mul_pos hx (Rat.inv_pos.mpr hy)

private theorem length_pos_of_ne_nil {α} (l : List α) (h : l ≠ []) : 0 < l.length := by
  cases l <;> simp_all

/-- `tracks_partition`: px and fr tracks (as produced by `_get_sizing_functions`), no item
contribution, a definite container size `b`, flex factors summing to at least 1 and positive free
space: `_resolve_tracks_sizes` succeeds, every px track keeps its size, every fr track gets
`factor × free / Σ factors`, and the tracks together with the gaps fill the container exactly. -/
theorem tracks_partition (fns : List (Breadth × Breadth)) (b gap : Rat) (start : Int) (dirX stretch : Bool)
    (hfns : ∀ fn ∈ fns, PxFr fn) (hne : fns ≠ [])
    (hsum : frSum fns ≥ 1)
    (hfree : b - pxSum fns - ((fns.length : Int) - 1 : Int) * gap > 0) :
    let free := b - pxSum fns - ((fns.length : Int) - 1 : Int) * gap
    resolveTracks fns (some b) [] start dirX gap stretch = .ok (fns.map (finalTrack (free / frSum fns))) ∧
    sumBase (fns.map (finalTrack (free / frSum fns))) + ((fns.length : Int) - 1 : Int) * gap = b := by
  intro free
  have hS : frSum fns ≠ 0 := by grind
  have hSpos : frSum fns > 0 := by grind
  have hff : 0 ≤ free / frSum fns := Rat.le_of_lt (rat_div_pos _ _ hfree hSpos)
  constructor
  · unfold resolveTracks
    simp only [prepare_empty fns b start dirX hfns, bind, Except.bind, Option.map_some]
    have hfree0 : tracksFree b gap (fns.map prepTrack) = free := by
      unfold tracksFree
      rw [sumBase_prep fns hfns, List.length_map]
    rw [hfree0]
    have hlen : (fns.map prepTrack).length ≠ 0 := by
      rw [List.length_map]; exact Nat.pos_iff_ne_zero.mp (length_pos_of_ne_nil fns hne)
    have hd : free / ((fns.map prepTrack).length : Nat) > 0 := by
      have : (0 : Rat) < ((fns.map prepTrack).length : Nat) := by
        have := Nat.pos_of_ne_zero hlen
        exact_mod_cast this
      exact rat_div_pos _ _ hfree this
    have hmax : maximizeStep (fns.map prepTrack) (some free) = .ok (fns.map prepTrack, some free) := by
      unfold maximizeStep
      have hfree' : free > 0 := hfree
      simp only [hfree', if_true, beq_iff_eq, hlen, if_false, maximize_prep _ hd, pure, Except.pure]
    rw [hmax]
    simp only []
    -- 1.4
    have hpass : frPass (List.zip (fns.map prepTrack) fns) [] free = (free / frSum fns, [], free, true) := by
      unfold frPass
      simp only [frLeftover_prep fns hfns, frFactorSum_prep fns hfns]
      have hm : max 1 (frSum fns) = frSum fns := by grind
      have h0 : free + 0 = free := by grind
      rw [hm, h0, frMark_prep _ hff fns hfns]
    have hflex : flexStep (List.zip (fns.map prepTrack) fns) (some free) =
        .ok (free / frSum fns, [], some free) := by
      unfold flexStep
      have : ¬ (free ≤ 0) := by grind
      simp only [this, if_false]
      unfold frLoop
      simp only [hpass, if_true, pure, Except.pure]
    rw [hflex]
    simp only [frExpand_prep _ hff fns hfns, pure, Except.pure]
    congr 1
    unfold stretchStep
    have hz : free - free / frSum fns * frSum fns = 0 := by
      have := Rat.div_mul_cancel (a := free) hS
      grind
    simp only [hz]
    have : ¬ ((0 : Rat) > 0) := by grind
    simp [this]
  · rw [sumBase_final _ fns hfns]
    have := Rat.div_mul_cancel (a := free) hS
    grind

/-- full-strength numeric placement, for reference (false: `Witness.C12.negative_line_numbers`):
a negative line number `-k` denotes the k-th line from the end of the explicit grid.  What holds is
that every number `a` is taken as the 0-based line `a - 1`: right for positive numbers only. -/
theorem placement_numeric_partial (a b n : Int) (ha : 0 < a) (_hb : 0 < b) (hn : 0 < n)
    (lines : List (List String)) :
    getPlacement (lineNo a) (lineNo b) lines =
      .ok (some (if a < b then (a - 1, b - a) else if a = b then (a - 1, 1) else (b - 1, a - b))) ∧
    getPlacement (lineNo a) .auto lines = .ok (some (a - 1, 1)) ∧
    getPlacement (lineNo a) (.mk true (some n) none) lines = .ok (some (a - 1, n)) ∧
    getPlacement (.mk true (some n) none) (lineNo b) lines = .ok (some (b - 1 - n, n)) ∧
    getPlacement .auto (lineNo b) lines = .ok (some (b - 2, 1)) ∧
    (0 ≤ a - 1 ∧ 1 ≤ (if a < b then b - a else if a = b then 1 else a - b)) :=
  ⟨placement_line_line a b lines, placement_line_auto a lines, placement_line_span a n hn lines,
   placement_span_line n b hn lines, placement_auto_line b lines, by omega, by
    split
    · omega
    · split <;> omega⟩

/-! ## Grid: auto-placement (step 1.4) never overlaps -/

private theorem scanSecond_free (ffr : Bool) (fs fe ss se : Place) (fl sl : List (List String)) (is2 : Int)
    (positions : List Area) :
    ∀ (l : List Int) (fi : Int) a fsz fi',
      scanSecond ffr fs fe ss se fl sl is2 positions l fi = .ok (some (a, fsz), fi') →
      areaIntersects a positions = false := by
  intro l
  induction l with
  | nil => intro fi a fsz fi' h; simp [scanSecond, pure, Except.pure] at h
  | cons s rest ih =>
    intro fi a fsz fi' h
    unfold scanSecond at h
    simp only [bind, Except.bind] at h
    cases h1 : placeAt fs fe fl fi with
    | error e => simp [h1] at h
    | ok p =>
      obtain ⟨fi1, fsz1⟩ := p
      simp only [h1] at h
      cases h2 : placeAt ss se sl s with
      | error e => simp [h2] at h
      | ok q =>
        obtain ⟨si, ssz⟩ := q
        simp only [h2] at h
        by_cases hc : (areaIntersects (mkArea ffr fi1 fsz1 si ssz) positions || decide (si + ssz > is2)) = true
        · simp only [hc, if_true] at h
          exact ih _ _ _ _ h
        · simp only [hc, pure, Except.pure] at h
          cases h
          simp only [Bool.or_eq_true, not_or, Bool.not_eq_true] at hc
          exact hc.1

/-- The `while True` search of the free branch only ever returns a free place. -/
theorem freeLoop_free (ffr : Bool) (fs fe ss se : Place) (fl sl : List (List String)) (is1 is2 : Int)
    (positions : List Area) :
    ∀ (fuel : Nat) (cf cs if2 : Int) a fsz cf' cs' if2' fi,
      freeLoop ffr fs fe ss se fl sl is1 is2 positions fuel cf cs if2 = .ok (a, fsz, cf', cs', if2', fi) →
      areaIntersects a positions = false := by
  intro fuel
  induction fuel with
  | zero => intro cf cs if2 a fsz cf' cs' if2' fi h; simp [freeLoop, throw, throwThe, MonadExceptOf.throw] at h
  | succ n ih =>
    intro cf cs if2 a fsz cf' cs' if2' fi h
    unfold freeLoop at h
    simp only [bind, Except.bind] at h
    cases h1 : scanSecond ffr fs fe ss se fl sl is2 positions (rangeInt cs is2) cf with
    | error e => simp [h1] at h
    | ok r =>
      obtain ⟨found, fi1⟩ := r
      simp only [h1] at h
      cases found with
      | none => simp only [] at h; exact ih _ _ _ _ _ _ _ _ _ h
      | some p =>
        obtain ⟨a1, fsz1⟩ := p
        simp only [pure, Except.pure] at h
        cases h
        exact scanSecond_free _ _ _ _ _ _ _ _ _ _ _ _ _ _ h1

/-- dense packing, second axis given: the returned rows are free. -/
theorem denseLocked_free (ffr : Bool) (fs fe : Place) (fl : List (List String)) (si ssz cfirst : Int)
    (positions : List Area) :
    ∀ (fuel : Nat) (k fi fsz : Int),
      denseLocked ffr fs fe fl si ssz cfirst positions fuel k = .ok (fi, fsz) →
      areaIntersects (mkArea ffr fi fsz si ssz) positions = false := by
  intro fuel
  induction fuel with
  | zero => intro k fi fsz h; simp [denseLocked, throw, throwThe, MonadExceptOf.throw] at h
  | succ n ih =>
    intro k fi fsz h
    unfold denseLocked at h
    simp only [bind, Except.bind] at h
    cases h1 : placeAt fs fe fl k with
    | error e => simp [h1] at h
    | ok p =>
      obtain ⟨fi1, fsz1⟩ := p
      simp only [h1] at h
      by_cases hlt : fi1 < cfirst
      · simp only [hlt, if_true] at h; exact ih _ _ _ h
      · simp only [hlt, if_false] at h
        by_cases hc : areaIntersects (mkArea ffr fi1 fsz1 si ssz) positions = true
        · simp only [hc, if_true] at h; exact ih _ _ _ h
        · simp only [hc, pure, Except.pure] at h
          cases h
          simpa using hc

/-- sparse packing, second axis given: the returned rows are free. -/
theorem sparseLocked_free (ffr : Bool) (fs fe : Place) (fl : List (List String)) (si ssz : Int)
    (positions : List Area) :
    ∀ (fuel : Nat) (cf : Int) (cf' fi fsz : Int),
      sparseLocked ffr fs fe fl si ssz positions fuel cf = .ok (cf', fi, fsz) →
      areaIntersects (mkArea ffr fi fsz si ssz) positions = false := by
  intro fuel
  induction fuel with
  | zero => intro cf cf' fi fsz h; simp [sparseLocked, throw, throwThe, MonadExceptOf.throw] at h
  | succ n ih =>
    intro cf cf' fi fsz h
    unfold sparseLocked at h
    simp only [bind, Except.bind] at h
    cases h1 : placeAt fs fe fl cf with
    | error e => simp [h1] at h
    | ok p =>
      obtain ⟨fi1, fsz1⟩ := p
      simp only [h1] at h
      by_cases hlt : fi1 < cf
      · simp only [hlt, if_true] at h; exact ih _ _ _ _ h
      · simp only [hlt, if_false] at h
        by_cases hc : areaIntersects (mkArea ffr fi1 fsz1 si ssz) positions = true
        · simp only [hc, if_true] at h; exact ih _ _ _ _ h
        · simp only [hc, pure, Except.pure] at h
          cases h
          simpa using hc

/-- sparse packing, second axis given: the cursor never moves backwards (`cf ≤ cf'`) and the item is placed at or
after the cursor (`cf' ≤ fi`): css-grid 8.5 "increment the cursor's row position until …". Holds since repair
cd18f00 (the first axis is resolved from the cursor, not from a stale local). -/
theorem sparseLocked_cursor (ffr : Bool) (fs fe : Place) (fl : List (List String)) (si ssz : Int)
    (positions : List Area) :
    ∀ (fuel : Nat) (cf : Int) (cf' fi fsz : Int),
      sparseLocked ffr fs fe fl si ssz positions fuel cf = .ok (cf', fi, fsz) → cf ≤ cf' ∧ cf' ≤ fi := by
  intro fuel
  induction fuel with
  | zero => intro cf cf' fi fsz h; simp [sparseLocked, throw, throwThe, MonadExceptOf.throw] at h
  | succ n ih =>
    intro cf cf' fi fsz h
    unfold sparseLocked at h
    simp only [bind, Except.bind] at h
    cases h1 : placeAt fs fe fl cf with
    | error e => simp [h1] at h
    | ok p =>
      obtain ⟨fi1, fsz1⟩ := p
      simp only [h1] at h
      by_cases hlt : fi1 < cf
      · simp only [hlt, if_true] at h
        have := ih _ _ _ _ h
        exact ⟨by omega, this.2⟩
      · simp only [hlt, if_false] at h
        by_cases hc : areaIntersects (mkArea ffr fi1 fsz1 si ssz) positions = true
        · simp only [hc, if_true] at h
          have := ih _ _ _ _ h
          exact ⟨by omega, this.2⟩
        · simp only [hc, pure, Except.pure] at h
          cases h
          exact ⟨Int.le_refl _, by omega⟩

private theorem step14DenseGiven_disjoint (ctx : PCtx) (st st' : PState) (it : GItem) (si ssz : Int)
    (h : step14DenseGiven ctx st it si ssz = .ok st') :
    ∃ a, st'.positions = st.positions ++ [(it.id, a)] ∧ areaIntersects a st.areas = false := by
  unfold step14DenseGiven at h
  simp only [bind, Except.bind] at h
  cases h1 : denseLocked ctx.firstFlowRow (itemFirst ctx.flowColumn it).1 (itemFirst ctx.flowColumn it).2
      ctx.flines si ssz ctx.implicitFirst1 st.areas countBound ctx.implicitFirst1 with
  | error e => simp [h1] at h
  | ok r =>
    obtain ⟨fi, fsz⟩ := r
    simp only [h1, pure, Except.pure] at h
    cases h
    exact ⟨_, rfl, denseLocked_free _ _ _ _ _ _ _ _ _ _ _ _ h1⟩

private theorem step14DenseFree_disjoint (ctx : PCtx) (st st' : PState) (it : GItem)
    (h : step14DenseFree ctx st it = .ok st') :
    ∃ a, st'.positions = st.positions ++ [(it.id, a)] ∧ areaIntersects a st.areas = false := by
  unfold step14DenseFree at h
  simp only [bind, Except.bind] at h
  cases h1 : freeLoop ctx.firstFlowRow (itemFirst ctx.flowColumn it).1 (itemFirst ctx.flowColumn it).2
      (itemSecond ctx.flowColumn it).1 (itemSecond ctx.flowColumn it).2 ctx.flines ctx.slines
      ctx.implicitSecond1 ctx.implicitSecond2 st.areas whileBound ctx.implicitFirst1 ctx.implicitSecond1
      st.implicitFirst2 with
  | error e => simp [h1] at h
  | ok r =>
    obtain ⟨a, fsz, cf, cs, if2, fi⟩ := r
    simp only [h1, pure, Except.pure] at h
    cases h
    exact ⟨_, rfl, freeLoop_free _ _ _ _ _ _ _ _ _ _ _ _ _ _ _ _ _ _ _ _ h1⟩

private theorem step14SparseGiven_disjoint (ctx : PCtx) (st st' : PState) (it : GItem) (si ssz : Int)
    (h : step14SparseGiven ctx st it si ssz = .ok st') :
    ∃ a, st'.positions = st.positions ++ [(it.id, a)] ∧ areaIntersects a st.areas = false := by
  unfold step14SparseGiven at h
  simp only [bind, Except.bind] at h
  cases h1 : sparseLocked ctx.firstFlowRow (itemFirst ctx.flowColumn it).1 (itemFirst ctx.flowColumn it).2
      ctx.flines si ssz st.areas countBound
      (if si < st.cursorSecond then st.cursorFirst + 1 else st.cursorFirst) with
  | error e => simp [h1] at h
  | ok r =>
    obtain ⟨cf, fi, fsz⟩ := r
    simp only [h1, pure, Except.pure] at h
    cases h
    exact ⟨_, rfl, sparseLocked_free _ _ _ _ _ _ _ _ _ _ _ _ h1⟩

private theorem step14SparseFree_disjoint (ctx : PCtx) (st st' : PState) (it : GItem)
    (h : step14SparseFree ctx st it = .ok st') :
    ∃ a, st'.positions = st.positions ++ [(it.id, a)] ∧ areaIntersects a st.areas = false := by
  unfold step14SparseFree at h
  simp only [bind, Except.bind] at h
  cases h1 : freeLoop ctx.firstFlowRow (itemFirst ctx.flowColumn it).1 (itemFirst ctx.flowColumn it).2
      (itemSecond ctx.flowColumn it).1 (itemSecond ctx.flowColumn it).2 ctx.flines ctx.slines
      ctx.implicitSecond1 ctx.implicitSecond2 st.areas whileBound st.cursorFirst st.cursorSecond
      st.implicitFirst2 with
  | error e => simp [h1] at h
  | ok r =>
    obtain ⟨a, fsz, cf, cs, if2, fi⟩ := r
    simp only [h1, pure, Except.pure] at h
    cases h
    exact ⟨_, rfl, freeLoop_free _ _ _ _ _ _ _ _ _ _ _ _ _ _ _ _ _ _ _ _ h1⟩

/-- Step 1.4 for one item appends exactly one area, which intersects no area placed before. -/
theorem step14_disjoint (ctx : PCtx) (st st' : PState) (it : GItem)
    (h : step14 ctx st it = .ok st') :
    ∃ a, st'.positions = st.positions ++ [(it.id, a)] ∧ areaIntersects a st.areas = false := by
  unfold step14 at h
  simp only [bind, Except.bind] at h
  cases hsp : getPlacement (itemSecond ctx.flowColumn it).1 (itemSecond ctx.flowColumn it).2 ctx.slines with
  | error e => simp [hsp] at h
  | ok sp =>
    simp only [hsp] at h
    cases hd : ctx.dense <;> cases sp <;> simp only [hd] at h
    · exact step14SparseFree_disjoint _ _ _ _ h
    · exact step14SparseGiven_disjoint _ _ _ _ _ _ h
    · exact step14DenseFree_disjoint _ _ _ _ h
    · exact step14DenseGiven_disjoint _ _ _ _ _ _ h

private theorem mem_rangeInt (a b t : Int) : t ∈ rangeInt a b ↔ a ≤ t ∧ t < b := by
  unfold rangeInt
  simp only [List.mem_map, List.mem_range]
  constructor
  · rintro ⟨k, hk, rfl⟩; omega
  · intro ⟨h1, h2⟩
    exact ⟨(t - a).toNat, by omega, by omega⟩

/-- the tracks of one positioned item that count as occupied for the locked first-axis placement `fp` -/
def occupiedBy (fp : Int × Int) (ffr : Bool) (a : Area) : List Int :=
  if ffr then (if intersect a.2.1 a.2.2.2 fp.1 fp.2 then rangeInt a.1 (a.1 + a.2.2.1) else [])
  else (if intersect a.1 a.2.2.1 fp.1 fp.2 then rangeInt a.2.1 (a.2.1 + a.2.2.2) else [])

private theorem occupied_foldl (fp : Int × Int) (ffr : Bool) (positions : List Area) (acc : List Int) :
    positions.foldl (fun acc (x, y, w, h) =>
      if ffr then
        if intersect y h fp.1 fp.2 then acc ++ rangeInt x (x + w) else acc
      else
        if intersect x w fp.1 fp.2 then acc ++ rangeInt y (y + h) else acc) acc =
    acc ++ (positions.map (occupiedBy fp ffr)).flatten := by
  induction positions generalizing acc with
  | nil => simp
  | cons a rest ih =>
    obtain ⟨x, y, w, h⟩ := a
    simp only [List.foldl_cons, List.map_cons, List.flatten_cons]
    rw [ih]
    cases ffr <;> simp only [occupiedBy, Bool.false_eq_true, if_false, if_true] <;> split <;> simp

private theorem mem_occupied (fp : Int × Int) (ffr : Bool) (positions : List Area) (t : Int) :
    t ∈ occupiedTracks fp positions ffr ↔ ∃ a ∈ positions, t ∈ occupiedBy fp ffr a := by
  unfold occupiedTracks
  rw [occupied_foldl]
  simp only [List.nil_append, List.mem_flatten, List.mem_map]
  constructor
  · rintro ⟨l, ⟨a, ha, rfl⟩, ht⟩; exact ⟨a, ha, ht⟩
  · rintro ⟨a, ha, ht⟩; exact ⟨_, ⟨a, ha, rfl⟩, ht⟩

private theorem denseSecond_free (ss se : Place) (lines : List (List String)) (occupied : List Int) :
    ∀ (fuel : Nat) (track : Int) (p : Int × Int),
      denseSecond ss se lines occupied fuel track = .ok p →
      ∀ t, p.1 ≤ t → t < p.1 + p.2 → t ∉ occupied := by
  intro fuel
  induction fuel with
  | zero => intro track p h; simp [denseSecond, throw, throwThe, MonadExceptOf.throw] at h
  | succ n ih =>
    intro track p h
    unfold denseSecond at h
    by_cases hocc : occupied.contains track = true
    · simp only [hocc, if_true] at h
      exact ih _ _ h
    · simp only [hocc, Bool.false_eq_true, if_false, bind, Except.bind] at h
      have key : ∀ (q : Int × Int),
          (if (rangeInt q.1 (q.1 + q.2)).any occupied.contains = true then
            denseSecond ss se lines occupied n (track + 1) else pure q) = .ok p →
          ∀ t, p.1 ≤ t → t < p.1 + p.2 → t ∉ occupied := by
        intro q he
        by_cases hany : (rangeInt q.1 (q.1 + q.2)).any occupied.contains = true
        · simp only [hany, if_true] at he
          exact ih _ _ he
        · simp only [hany, Bool.false_eq_true, if_false, pure, Except.pure] at he
          cases he
          intro t h1 h2 hmem
          apply hany
          rw [List.any_eq_true]
          exact ⟨t, (mem_rangeInt _ _ _).mpr ⟨h1, h2⟩, by simpa using hmem⟩
      by_cases hss : (ss == Place.auto) = true
      · simp only [hss, if_true] at h
        generalize getPlacement! (lineNo (track + 1)) se lines = e at h
        cases e with
        | error err => cases h
        | ok q => exact key q h
      · simp only [hss, Bool.false_eq_true, if_false] at h
        generalize getPlacement! ss (lineNo (track + 1 + getSpan ss)) lines = e at h
        cases e with
        | error err => cases h
        | ok q => exact key q h

/-- `autoplace_disjoint`, step 1.2 with dense packing: an item locked to given rows (resp. columns)
is put on tracks that no item overlapping those rows occupies: its area overlaps no earlier area
(all areas having positive sizes). -/
theorem dense_second_disjoint (fp : Int × Int) (ss se : Place) (lines : List (List String))
    (positions : List Area) (ffr : Bool) (p : Int × Int)
    (h : getSecondPlacement fp ss se lines positions ffr true = .ok p)
    (hpos : ∀ a ∈ positions, 0 < a.2.2.1 ∧ 0 < a.2.2.2) (hp : 0 < p.2) :
    areaIntersects (mkArea ffr fp.1 fp.2 p.1 p.2) positions = false := by
  unfold getSecondPlacement at h
  simp only [if_true] at h
  have hfree := denseSecond_free ss se lines _ _ _ _ h
  rw [areaIntersects_false_iff]
  intro a ha ⟨hx, hy⟩
  obtain ⟨x, y, w, hh⟩ := a
  have hsz := hpos _ ha
  simp only at hsz
  cases ffr with
  | true =>
    simp only [mkArea, if_true] at hx hy
    obtain ⟨t, ⟨t1, t2⟩, ⟨t3, t4⟩⟩ := (intersect_iff_common _ _ _ _ hp hsz.1).mp hx
    apply hfree t t1 t2
    rw [mem_occupied]
    refine ⟨(x, y, w, hh), ha, ?_⟩
    have hy' : intersect y hh fp.1 fp.2 = true := by rw [intersect_comm]; exact hy
    simp only [occupiedBy, if_true, hy']
    exact (mem_rangeInt _ _ _).mpr ⟨t3, t4⟩
  | false =>
    simp only [mkArea, Bool.false_eq_true, if_false] at hx hy
    obtain ⟨t, ⟨t1, t2⟩, ⟨t3, t4⟩⟩ := (intersect_iff_common _ _ _ _ hp hsz.2).mp hy
    apply hfree t t1 t2
    rw [mem_occupied]
    refine ⟨(x, y, w, hh), ha, ?_⟩
    have hx' : intersect x w fp.1 fp.2 = true := by rw [intersect_comm]; exact hx
    simp only [occupiedBy, Bool.false_eq_true, if_false, hx', if_true]
    exact (mem_rangeInt _ _ _).mpr ⟨t3, t4⟩

/-- every area of `added` is disjoint from all areas before it (those of `base` and the earlier ones of `added`) -/
def DisjointFromEarlier (base : List Area) : List Area → Prop
  | [] => True
  | a :: rest => areaIntersects a base = false ∧ DisjointFromEarlier (base ++ [a]) rest

theorem autoplace_disjoint (ctx : PCtx) :
    ∀ (remaining : List GItem) (st st' : PState),
      remaining.foldlM (step14 ctx) st = .ok st' →
      ∃ added : List (Nat × Area),
        st'.positions = st.positions ++ added ∧
        added.map (·.1) = remaining.map (·.id) ∧
        DisjointFromEarlier st.areas (added.map (·.2)) := by
  intro remaining
  induction remaining with
  | nil =>
    intro st st' h
    simp only [List.foldlM, pure, Except.pure] at h
    cases h
    exact ⟨[], by simp, rfl, trivial⟩
  | cons it rest ih =>
    intro st st' h
    simp only [List.foldlM, bind, Except.bind] at h
    cases h1 : step14 ctx st it with
    | error e => simp [h1] at h
    | ok st1 =>
      simp only [h1] at h
      obtain ⟨a, hpos, hdis⟩ := step14_disjoint ctx st st1 it h1
      obtain ⟨added, hpos', hids, hd⟩ := ih st1 st' h
      refine ⟨(it.id, a) :: added, ?_, ?_, ?_⟩
      · rw [hpos', hpos]; simp
      · simp [hids]
      · simp only [List.map_cons, DisjointFromEarlier]
        refine ⟨hdis, ?_⟩
        have : st1.areas = st.areas ++ [a] := by simp [PState.areas, hpos]
        rw [← this]; exact hd

end Grid

/-! ## Ties to the generated tables (`Gen/FlexGridTables.lean`, regenerated from the source on every run)

An edit of a keyword set in flex.py / grid.py, or a change of behaviour of `_intersect`,
`_get_placement`, `_get_span` on the tabulated domain, changes the generated file and breaks one of
the `decide`s below. -/

section GenTies
open Wp.Grid Wp.Gen.FlexGrid

/-- the keywords accepted by the validators for the alignment properties -/
def contentKeywords : List String :=
  ["center", "space-between", "space-around", "space-evenly", "stretch", "normal", "flex-start", "flex-end",
   "start", "end", "left", "right"]
def selfKeywords : List String :=
  ["auto", "normal", "stretch", "center", "start", "end", "self-start", "self-end", "flex-start", "flex-end",
   "left", "right"]

/-- The graph of the real `_intersect` (positions -1..2, sizes 0..2) is the model's. -/
theorem intersect_graph_agrees :
    ∀ e ∈ intersectGraph, intersect e.1 e.2.1 e.2.2.1 e.2.2.2.1 = e.2.2.2.2 := by decide +kernel

/-- The graph of the real `_get_placement` on all numeric / span / auto pairs is the model's. -/
theorem placement_graph_agrees :
    ∀ e ∈ placementGraph, (getPlacement e.1 e.2.1 [[], [], [], []]).toOption = some e.2.2 := by
  decide +kernel

theorem span_graph_agrees : ∀ e ∈ spanGraph, getSpan e.1 = e.2 := by decide +kernel

/-- flex step 12.2: the model's "packed to the end" justify-content keywords are the source's set. -/
theorem flex_justify_end_set :
    ∀ kw ∈ contentKeywords, ∀ j, Drive.Flex.justify? kw = some j →
      (decide (Flex.justifyStart j 1 1 = 1) = flexJustifyEnd.contains kw) := by decide +kernel

/-- flex step 14: the model's end-aligned align-self keywords are the source's set. -/
theorem flex_align_self_end_set :
    ∀ kw ∈ selfKeywords, ∀ a, Drive.Flex.align? kw = some a →
      (Flex.isEndAlign a = flexAlignSelfEnd.contains kw) := by decide +kernel

/-- flex step 16: the align-content keywords that move the lines by the whole extra space. -/
theorem flex_align_content_end_set :
    ∀ kw ∈ contentKeywords, ∀ a, Drive.Flex.alignContent? kw = some a →
      (decide (Flex.alignContentShift a 1 1 = some 1) = flexAlignContentEnd.contains kw) := by decide +kernel

/-- grid step 3.5 and 1.5: the keyword classes of the model are the source's sets. -/
theorem grid_content_sets :
    ∀ kw ∈ contentKeywords, ∀ a, Drive.Grid.contentAlign? kw = some a →
      ((a == .endLike) = gridJustifyContentEnd.contains kw) ∧
      ((a == .endLike) = gridAlignContentEnd.contains kw) ∧
      (isStretchContent a = tracksJustifyStretch.contains kw) ∧
      (isStretchContent a = tracksAlignStretch.contains kw) := by decide +kernel

/-- grid step 4: justify-self / align-self classes. -/
theorem grid_self_sets :
    ∀ kw ∈ selfKeywords, ∀ a, Drive.Grid.selfAlign? kw = some a →
      ((a == .endLike || a == .right) = gridJustifySelfEnd.contains kw) ∧
      ((a == .endLike) = gridAlignSelfEnd.contains kw) ∧
      (isStretch a = gridJustifySelfStretch.contains kw) ∧
      (isStretch a = gridAlignSelfStretch.contains kw) := by decide +kernel

end GenTies

/-! ## Flex: 9.7 fills the line whatever the number of passes -/

/-- `flex_fill_pass` for a pass in the middle of the loop: `f` is the (scaled) initial free space
carried by the loop; the `int(log10 ·)` test must not replace the remaining free space by it. -/
theorem flex_fill_pass_any (row grow : Bool) (avail gap : Rat) (line : List St) (f : Rat)
    (hmag : magLt (magnitude f) (magnitude (freeSpace avail gap line)) = false)
    (hufs : unfrozenFactorSum line ≥ 1)
    (hfactor : ∀ s ∈ line, s.frozen = false → s.factor = if grow then s.it.grow else s.it.shrink)
    (hden : grow = false → scaledShrinkSum line ≠ 0) :
    ∃ line', pass row grow avail gap line f = .ok (line', f) ∧
      (allFrozen line' = true → freeSpace avail gap line' = - sumBy St.adj line') ∧
      (sumBy St.adj line' = 0 → allFrozen line' = true ∧ freeSpace avail gap line' = 0) := by
  obtain ⟨line', hp, hacc, hzero, _⟩ :=
    flex_fill_pass row grow avail gap line (freeSpace avail gap line) rfl hufs hfactor hden
  refine ⟨line', ?_, hacc, hzero⟩
  have hnot : ¬ (unfrozenFactorSum line < 1) := Rat.not_lt.mpr hufs
  have h1 : remainingFree avail gap line f = (f, freeSpace avail gap line) := by
    unfold remainingFree
    simp only [hnot, if_false, hmag, Bool.false_eq_true]
  have h2 : remainingFree avail gap line (freeSpace avail gap line) =
      (freeSpace avail gap line, freeSpace avail gap line) := by
    unfold remainingFree
    simp only [hnot, if_false, magLt_irrefl, Bool.false_eq_true]
  unfold pass at hp ⊢
  rw [h2] at hp
  rw [h1]
  simp only [] at hp ⊢
  cases hd : distribute grow (freeSpace avail gap line) line with
  | error e => simp [hd] at hp
  | ok l =>
    simp only [hd] at hp ⊢
    cases hp
    rfl

/-- states of the `while` loop reachable from `(line, f)` -/
inductive Reach (row grow : Bool) (avail gap : Rat) : List St → Rat → List St → Rat → Prop
  | refl (l : List St) (f : Rat) : Reach row grow avail gap l f l f
  | step {l l1 l2 : List St} {f f1 f2 : Rat} (hnot : allFrozen l = false)
      (hp : pass row grow avail gap l f = .ok (l1, f1)) (h : Reach row grow avail gap l1 f1 l2 f2) :
      Reach row grow avail gap l f l2 f2

/-- Whatever the number of passes, the result of the loop is the output of one last pass. -/
theorem loop_last_pass (row grow : Bool) (avail gap : Rat) :
    ∀ (fuel : Nat) (line res : List St) (f : Rat),
      loop row grow avail gap fuel line f = .ok res → allFrozen line = false →
      ∃ l' f' f'', Reach row grow avail gap line f l' f' ∧ allFrozen l' = false ∧
        pass row grow avail gap l' f' = .ok (res, f'') := by
  intro fuel
  induction fuel with
  | zero =>
    intro line res f h hnot
    unfold loop at h
    simp [hnot] at h
  | succ n ih =>
    intro line res f h hnot
    unfold loop at h
    simp only [hnot, Bool.false_eq_true, if_false] at h
    cases hp : pass row grow avail gap line f with
    | error e => simp [hp] at h
    | ok r =>
      obtain ⟨l1, f1⟩ := r
      simp only [hp] at h
      cases hall : allFrozen l1 with
      | true =>
        have : res = l1 := by
          cases n <;> (unfold loop at h; simp [hall] at h; exact h.symm)
        subst this
        exact ⟨line, f, f1, .refl _ _, hnot, hp⟩
      | false =>
        obtain ⟨l', f', f'', hr, hn', hp'⟩ := ih l1 res f1 h hall
        exact ⟨l', f', f'', .step hnot hp hr, hn', hp'⟩

/-- the factor chosen in 9.7.3 is kept by every pass -/
private theorem pass_factor (row grow : Bool) (avail gap : Rat) (line line' : List St) (f f' : Rat)
    (hp : pass row grow avail gap line f = .ok (line', f'))
    (h : ∀ s ∈ line, s.factor = if grow then s.it.grow else s.it.shrink) :
    ∀ s ∈ line', s.factor = if grow then s.it.grow else s.it.shrink := by
  -- every element of `line'` is the image of an element of `line` with the same `factor` and `it`
  have key : line'.map (fun s => (s.factor, s.it.grow, s.it.shrink)) =
      line.map (fun s => (s.factor, s.it.grow, s.it.shrink)) := by
    unfold pass at hp
    split at hp
    · cases hp
    · rename_i l1 hdist
      cases hp
      unfold finishPass
      simp only [List.map_map]
      have h1 : l1.map (fun s => (s.factor, s.it.grow, s.it.shrink)) =
          line.map (fun s => (s.factor, s.it.grow, s.it.shrink)) := by
        unfold distribute at hdist
        split at hdist
        · cases hdist
          rw [List.map_map]
          apply List.map_congr_left
          intro s _
          simp only [Function.comp, setBase]
          split <;> rfl
        · refine mapExcept_proj _ (fun s => (s.factor, s.it.grow, s.it.shrink))
            (fun s => (s.factor, s.it.grow, s.it.shrink)) ?_ _ _ hdist
          intro x y hxy
          unfold distributeOne at hxy
          split at hxy
          · cases hxy; rfl
          · split at hxy
            · split at hxy
              · cases hxy
              · cases hxy; rfl
            · split at hxy <;> (cases hxy; rfl)
      rw [← h1]
      apply List.map_congr_left
      intro s _
      simp only [Function.comp]
      have e1 : (fixMinMax row s).factor = s.factor ∧ (fixMinMax row s).it = s.it := by
        unfold fixMinMax
        split <;> exact ⟨rfl, rfl⟩
      have e2 : ∀ a (t : St), (freezeOne a t).factor = t.factor ∧ (freezeOne a t).it = t.it := by
        intro a t
        unfold freezeOne
        split
        · exact ⟨rfl, rfl⟩
        · split
          · exact ⟨rfl, rfl⟩
          · split <;> exact ⟨rfl, rfl⟩
      rw [(e2 _ _).1, (e2 _ _).2, e1.1, e1.2]
  intro s hs
  have hmem : (s.factor, s.it.grow, s.it.shrink) ∈ line.map (fun s => (s.factor, s.it.grow, s.it.shrink)) := by
    rw [← key]; exact List.mem_map.mpr ⟨s, hs, rfl⟩
  obtain ⟨t, ht, heq⟩ := List.mem_map.mp hmem
  have := h t ht
  simp only [Prod.mk.injEq] at heq
  rw [← heq.1, ← heq.2.1, ← heq.2.2]; exact this

private theorem reach_factor (row grow : Bool) (avail gap : Rat) (l l' : List St) (f f' : Rat)
    (hr : Reach row grow avail gap l f l' f')
    (h : ∀ s ∈ l, s.factor = if grow then s.it.grow else s.it.shrink) :
    ∀ s ∈ l', s.factor = if grow then s.it.grow else s.it.shrink := by
  induction hr with
  | refl => exact h
  | step _ hp _ ih => exact ih (pass_factor _ _ _ _ _ _ _ _ hp h)

/-- `flex_fill` for every number of passes, full strength (no hypothesis on min / max sizes): run the 9.7.5 loop
on a line prepared by 9.7.3. However many passes freeze items on their minimum or maximum main size (9.7.5.d–e:
the space they free or take is redistributed by the following passes), if the pass that freezes the last items
distributes the whole free space (`hlast`: factor sum ≥ 1, magnitude test inactive, non-zero denominators), then
what is left of the available main size is exactly minus the total violation of that last pass:
`available − Σ target − Σ outer extra − (n − 1)·gap = − Σ adjustments`.  In particular the line is exactly filled
when the last violations cancel (`flex_fill_exact`); otherwise every item still flexing was stopped by its
minimum (overflow) or its maximum (space left), which is what css-flexbox 9.7 prescribes. -/
theorem flex_fill_all_passes (row grow : Bool) (avail gap : Rat) (fuel : Nat) (line res : List St) (f : Rat)
    (hfactor : ∀ s ∈ line, s.factor = if grow then s.it.grow else s.it.shrink)
    (hloop : loop row grow avail gap fuel line f = .ok res) (hnot : allFrozen line = false) :
    ∃ l' f', Reach row grow avail gap line f l' f' ∧ allFrozen l' = false ∧
      (magLt (magnitude f') (magnitude (freeSpace avail gap l')) = false →
       unfrozenFactorSum l' ≥ 1 →
       (grow = false → scaledShrinkSum l' ≠ 0) →
       allFrozen res = true ∧ freeSpace avail gap res = - sumBy St.adj res) := by
  obtain ⟨l', f', f'', hr, hn', hp'⟩ := loop_last_pass row grow avail gap fuel line res f hloop hnot
  refine ⟨l', f', hr, hn', ?_⟩
  intro hmag hufs hden
  have hfac := reach_factor _ _ _ _ _ _ _ _ hr hfactor
  obtain ⟨line', hp, hacc, _⟩ := flex_fill_pass_any row grow avail gap l' f' hmag hufs
    (fun s hs _ => hfac s hs) hden
  rw [hp'] at hp
  cases hp
  have hall := loop_all_frozen row grow avail gap fuel line res f hloop
  exact ⟨hall, hacc hall⟩

/-- `flex_fill`, exact: under the hypotheses of `flex_fill_all_passes`, when the violations of the last pass
cancel (in particular when no item of the last pass is stopped by its min / max size) the items, their margins,
borders, paddings and the gaps exactly fill the container's main size. -/
theorem flex_fill_exact (row grow : Bool) (avail gap : Rat) (fuel : Nat) (line res : List St) (f : Rat)
    (hfactor : ∀ s ∈ line, s.factor = if grow then s.it.grow else s.it.shrink)
    (hloop : loop row grow avail gap fuel line f = .ok res) (hnot : allFrozen line = false)
    (hcancel : sumBy St.adj res = 0) :
    ∃ l' f', Reach row grow avail gap line f l' f' ∧ allFrozen l' = false ∧
      (magLt (magnitude f') (magnitude (freeSpace avail gap l')) = false →
       unfrozenFactorSum l' ≥ 1 →
       (grow = false → scaledShrinkSum l' ≠ 0) →
       freeSpace avail gap res = 0) := by
  obtain ⟨l', f', hr, hn', h⟩ := flex_fill_all_passes row grow avail gap fuel line res f hfactor hloop hnot
  refine ⟨l', f', hr, hn', ?_⟩
  intro hmag hufs hden
  have := (h hmag hufs hden).2
  rw [this, hcancel]; rfl

/-! ## Flex: targets stay within the min / max main sizes -/

/-- the target main size respects the item's min / max main sizes (the maximum when it is not below the minimum,
the minimum wins otherwise: css-flexbox 9.7.5.d "clamped by its used min and max main sizes") -/
def MainBounded (row : Bool) (s : St) : Prop :=
  s.minMain row ≤ s.target ∧ ∀ m, s.maxMain row = some m → s.minMain row ≤ m → s.target ≤ m

/-- the same for the hypothetical main size (what step 3 computes) -/
def HypBounded (row : Bool) (s : St) : Prop :=
  s.minMain row ≤ s.hyp ∧ ∀ m, s.maxMain row = some m → s.minMain row ≤ m → s.hyp ≤ m

private theorem clamp_bounds (mn x : Rat) (mx : Option Rat) :
    mn ≤ clamp mn x mx ∧ ∀ m, mx = some m → mn ≤ m → clamp mn x mx ≤ m := by
  unfold clamp
  constructor
  · rw [Rat.max_def]; split <;> grind
  · intro m hm hle
    subst hm
    simp only [capMax]
    rw [Rat.max_def, Rat.min_def]; split <;> (try split) <;> grind

private theorem forall2_mem_right {α β} {R : α → β → Prop} :
    ∀ {l : List α} {l' : List β}, Rel2 R l l' → ∀ y ∈ l', ∃ x ∈ l, R x y := by
  intro l l' h
  induction h with
  | nil => intro y hy; simp at hy
  | cons hxy _ ih =>
    intro y hy
    rcases List.mem_cons.mp hy with rfl | hy
    · exact ⟨_, by simp, hxy⟩
    · obtain ⟨x, hx, hr⟩ := ih y hy
      exact ⟨x, by simp [hx], hr⟩

private theorem mapExcept_forall2 {α β ε} (f : α → Except ε β) :
    ∀ (l : List α) (l' : List β), mapExcept f l = .ok l' → Rel2 (fun x y => f x = .ok y) l l' := by
  intro l
  induction l with
  | nil => intro l' h; simp [mapExcept] at h; subst h; exact .nil
  | cons x xs ih =>
    intro l' h
    unfold mapExcept at h
    split at h
    · cases h
    · rename_i y hy
      split at h
      · cases h
      · rename_i ys hys
        cases h
        exact .cons hy (ih ys hys)

/-- what 9.7.5.c keeps of an item: its style, its frozen flag and, when it is frozen, its target -/
private def Kept (x y : St) : Prop := y.it = x.it ∧ y.frozen = x.frozen ∧ (x.frozen = true → y.target = x.target)

private theorem distributeOne_kept (grow : Bool) (r g sh : Rat) (x y : St)
    (h : distributeOne grow r g sh x = .ok y) : Kept x y := by
  unfold distributeOne at h
  split at h
  · rename_i hf; cases h; exact ⟨rfl, rfl, fun _ => rfl⟩
  · rename_i hf
    have hf' : x.frozen = false := by simpa using hf
    split at h
    · split at h
      · cases h
      · cases h; exact ⟨rfl, rfl, fun hc => by simp [hf'] at hc⟩
    · split at h <;> (cases h; exact ⟨rfl, rfl, fun hc => by simp [hf'] at hc⟩)

private theorem distribute_kept (grow : Bool) (r : Rat) (l l' : List St) (h : distribute grow r l = .ok l') :
    ∀ y ∈ l', ∃ x ∈ l, Kept x y := by
  unfold distribute at h
  split at h
  · cases h
    intro y hy
    obtain ⟨x, hx, rfl⟩ := List.mem_map.mp hy
    refine ⟨x, hx, ?_⟩
    unfold setBase
    split
    · exact ⟨rfl, rfl, fun _ => rfl⟩
    · rename_i hf
      exact ⟨rfl, rfl, fun hc => absurd hc hf⟩
  · intro y hy
    obtain ⟨x, hx, hxy⟩ := forall2_mem_right
      (mapExcept_forall2 (distributeOne grow r (growSum l) (scaledShrinkSum l)) l l' h) y hy
    exact ⟨x, hx, distributeOne_kept _ _ _ _ _ _ hxy⟩

private theorem bounded_congr (row : Bool) (a b : St) (hit : b.it = a.it) (ht : b.target = a.target) :
    MainBounded row a → MainBounded row b := by
  unfold MainBounded St.minMain St.maxMain
  rw [hit, ht]
  exact id

/-- one pass of 9.7.5 leaves every target within the min / max main sizes, provided the items that were already
frozen are. -/
theorem pass_bounded (row grow : Bool) (avail gap : Rat) (line line' : List St) (f f' : Rat)
    (hp : pass row grow avail gap line f = .ok (line', f'))
    (hinv : ∀ s ∈ line, s.frozen = true → MainBounded row s) : ∀ s ∈ line', MainBounded row s := by
  unfold pass at hp
  split at hp
  · cases hp
  · rename_i l1 hdist
    cases hp
    intro s hs
    unfold finishPass at hs
    simp only [] at hs
    obtain ⟨y2, hy2, rfl⟩ := List.mem_map.mp hs
    obtain ⟨y, hy, rfl⟩ := List.mem_map.mp hy2
    obtain ⟨x, hx, hit, hfr, htg⟩ := distribute_kept _ _ _ _ hdist y hy
    apply bounded_congr row (fixMinMax row y) _ (freezeOne_it _ _) (freezeOne_fields _ _).1
    unfold fixMinMax
    by_cases hf : y.frozen = true
    · simp only [hf, if_true]
      have hxf : x.frozen = true := by rw [← hfr]; exact hf
      exact bounded_congr row x _ hit (htg hxf) (hinv x hx hxf)
    · simp only [hf, if_false]
      have := clamp_bounds (y.minMain row) y.target (y.maxMain row)
      exact ⟨this.1, this.2⟩

/-- the loop of 9.7.5 ends with every target within the min / max main sizes -/
theorem loop_bounded (row grow : Bool) (avail gap : Rat) :
    ∀ (fuel : Nat) (line res : List St) (f : Rat), loop row grow avail gap fuel line f = .ok res →
      (∀ s ∈ line, s.frozen = true → MainBounded row s) → ∀ s ∈ res, MainBounded row s := by
  intro fuel
  induction fuel with
  | zero =>
    intro line res f h hinv
    unfold loop at h
    cases hall : allFrozen line with
    | true =>
      simp [hall] at h; subst h
      intro s hs
      exact hinv s hs ((List.all_eq_true.mp hall) s hs)
    | false => simp [hall] at h
  | succ n ih =>
    intro line res f h hinv
    unfold loop at h
    cases hall : allFrozen line with
    | true =>
      simp [hall] at h; subst h
      intro s hs
      exact hinv s hs ((List.all_eq_true.mp hall) s hs)
    | false =>
      simp only [hall, Bool.false_eq_true, if_false] at h
      cases hp : pass row grow avail gap line f with
      | error e => simp [hp] at h
      | ok r =>
        obtain ⟨line', f'⟩ := r
        simp only [hp] at h
        have hb := pass_bounded row grow avail gap line line' f f' hp hinv
        exact ih _ _ _ h (fun s hs _ => hb s hs)

private theorem sizeInflexible_inv (grow row : Bool) (u : St) (h : HypBounded row u)
    (hfr : (sizeInflexible grow u).frozen = true) : MainBounded row (sizeInflexible grow u) := by
  cases grow <;> (
    unfold sizeInflexible at hfr ⊢
    simp only [Bool.false_eq_true, if_false, if_true] at hfr ⊢
    split
    · exact h
    · rename_i hc; simp [hc] at hfr)

/-- `flex_fill`, "within min / max sizes" (full strength, any number of passes): whatever 9.7 does on a line whose
hypothetical main sizes respect the min / max main sizes (what step 3 computes: `initSt_hypBounded`), every used
main size it returns is at least the item's minimum, and at most its maximum when that is not below the minimum. -/
theorem flex_within_minmax (row : Bool) (avail gap : Rat) (line res : List St)
    (hhyp : ∀ s ∈ line, HypBounded row s) (h : resolveLine row avail gap line = .ok res) :
    ∀ s ∈ res, MainBounded row s := by
  unfold resolveLine at h
  simp only [] at h
  split at h
  · cases h
  · rename_i l hloop
    cases h
    intro s hs
    obtain ⟨y, hy, rfl⟩ := List.mem_map.mp hs
    have hb := loop_bounded row _ avail gap _ _ _ _ hloop (by
      intro t ht hfr
      obtain ⟨u, hu, rfl⟩ := List.mem_map.mp ht
      exact sizeInflexible_inv _ row u (hhyp u hu) hfr) y hy
    cases row
    · exact bounded_congr false y _ rfl rfl hb
    · exact bounded_congr true y _ rfl rfl hb

/-- step 3 gives hypothetical main sizes within the min / max main sizes -/
theorem initSt_hypBounded (row : Bool) (i : Item) (px py : Rat) : HypBounded row (initSt row i px py) := by
  have h := clamp_bounds (if row then i.minW else i.minH)
    (initSt row i px py).base (if row then i.sMaxW else i.sMaxH)
  unfold HypBounded St.minMain St.maxMain
  have e1 : (initSt row i px py).it = i := by unfold initSt; simp only []
  have e2 : (initSt row i px py).hyp = clamp (if row then i.minW else i.minH) (initSt row i px py).base
      (if row then i.sMaxW else i.sMaxH) := by unfold initSt; simp only []
  rw [e1, e2]
  exact ⟨h.1, h.2⟩

/-- every item state produced by step 3 has its hypothetical main size within its min / max main sizes -/
theorem step3_hypBounded (row : Bool) :
    ∀ (items : List Item) (px py : Rat), ∀ s ∈ step3 row items px py, HypBounded row s := by
  intro items
  induction items with
  | nil => intro px py s hs; simp [step3] at hs
  | cons i rest ih =>
    intro px py s hs
    unfold step3 at hs
    simp only [] at hs
    rcases List.mem_cons.mp hs with rfl | hs
    · exact initSt_hypBounded row i px py
    · split at hs
      · exact ih _ _ s hs
      · exact ih _ _ s hs

/-- `flex_within_minmax` on what `flex_layout` really feeds to 9.7: the lines are made of step-3 states. -/
theorem flex_within_minmax_layout (row : Bool) (items : List Item) (avail gap : Rat) (res : List St)
    (h : resolveLine row avail gap (step3 row items 0 0) = .ok res) : ∀ s ∈ res, MainBounded row s :=
  flex_within_minmax row avail gap _ res (step3_hypBounded row items 0 0) h

/-! ## Flex: what 9.7 leaves is what step 12 sees (9.7 ↔ step 12 refinement) -/

/-- what no step of 9.7 touches: the style, the outer extra and the margins -/
def mainFrame (s : St) : Item × Rat × Len × Len × Len × Len := (s.it, s.extra, s.ml, s.mr, s.mt, s.mb)

/-- `main_outer_extra` is exactly what the border box adds to the main size plus the non-auto main margins
(true of every step-3 state since repair b901ca9 counts the paddings: `initSt_frameOk`) -/
def FrameOk (row : Bool) (fr : Item × Rat × Len × Len × Len × Len) : Prop :=
  fr.2.1 = if row then fr.1.pl + fr.1.pr + fr.1.bl + fr.1.br + lenOr0 fr.2.2.1 + lenOr0 fr.2.2.2.1
           else fr.1.pt + fr.1.pb + fr.1.bt + fr.1.bb + lenOr0 fr.2.2.2.2.1 + lenOr0 fr.2.2.2.2.2

theorem initSt_frameOk (row : Bool) (i : Item) (px py : Rat) : FrameOk row (mainFrame (initSt row i px py)) := by
  unfold FrameOk mainFrame initSt
  cases row <;> cases h : usedBasis _ i <;> simp [h] <;> grind

/-- every item state produced by step 3 has `main_outer_extra` = paddings + borders + non-auto main margins -/
theorem step3_frameOk (row : Bool) :
    ∀ (items : List Item) (px py : Rat), ∀ s ∈ step3 row items px py, FrameOk row (mainFrame s) := by
  intro items
  induction items with
  | nil => intro px py s hs; simp [step3] at hs
  | cons i rest ih =>
    intro px py s hs
    unfold step3 at hs
    simp only [] at hs
    rcases List.mem_cons.mp hs with rfl | hs
    · exact initSt_frameOk row i px py
    · split at hs
      · exact ih _ _ s hs
      · exact ih _ _ s hs

private theorem pass_frame (row grow : Bool) (avail gap : Rat) (line line' : List St) (f f' : Rat)
    (hp : pass row grow avail gap line f = .ok (line', f')) : line'.map mainFrame = line.map mainFrame := by
  unfold pass at hp
  split at hp
  · cases hp
  · rename_i l1 hdist
    cases hp
    unfold finishPass
    simp only [List.map_map]
    have h1 : l1.map mainFrame = line.map mainFrame := by
      unfold distribute at hdist
      split at hdist
      · cases hdist
        rw [List.map_map]
        apply List.map_congr_left
        intro s _
        simp only [Function.comp, setBase]
        split <;> rfl
      · refine mapExcept_proj _ mainFrame mainFrame ?_ _ _ hdist
        intro x y hxy
        unfold distributeOne at hxy
        split at hxy
        · cases hxy; rfl
        · split at hxy
          · split at hxy
            · cases hxy
            · cases hxy; rfl
          · split at hxy <;> (cases hxy; rfl)
    rw [← h1]
    apply List.map_congr_left
    intro s _
    simp only [Function.comp]
    have e1 : mainFrame (fixMinMax row s) = mainFrame s := by unfold fixMinMax; split <;> rfl
    have e2 : ∀ a (t : St), mainFrame (freezeOne a t) = mainFrame t := by
      intro a t
      unfold freezeOne
      split
      · rfl
      · split
        · rfl
        · split <;> rfl
    rw [e2, e1]

private theorem loop_frame (row grow : Bool) (avail gap : Rat) :
    ∀ (fuel : Nat) (line res : List St) (f : Rat),
      loop row grow avail gap fuel line f = .ok res → res.map mainFrame = line.map mainFrame := by
  intro fuel
  induction fuel with
  | zero =>
    intro line res f h
    unfold loop at h
    cases hall : allFrozen line with
    | true => simp [hall] at h; subst h; rfl
    | false => simp [hall] at h
  | succ n ih =>
    intro line res f h
    unfold loop at h
    cases hall : allFrozen line with
    | true => simp [hall] at h; subst h; rfl
    | false =>
      simp only [hall, Bool.false_eq_true, if_false] at h
      cases hp : pass row grow avail gap line f with
      | error e => simp [hp] at h
      | ok r =>
        obtain ⟨line', f'⟩ := r
        simp only [hp] at h
        rw [ih _ _ _ h, pass_frame _ _ _ _ _ _ _ _ hp]

/-- 9.7 ↔ step 12: on the line returned by 9.7 (`resolveLine`), the free space that step 12 computes from the
border boxes, non-auto margins and gaps (`lineFree`) is the free space that 9.7 accounted for (`freeSpace`), as soon
as `main_outer_extra` is what the border box and margins add (`FrameOk`, true of every step-3 state).  So a line
that 9.7 fills exactly (`flex_fill_exact`) leaves nothing to `justify-content`, and a line it could not fill leaves
exactly minus the total violation (`flex_fill_all_passes`). -/
theorem lineFree_eq_freeSpace (row : Bool) (avail gap : Rat) (line res : List St)
    (hfr : ∀ s ∈ line, FrameOk row (mainFrame s)) (h : resolveLine row avail gap line = .ok res) :
    lineFree row avail gap res = freeSpace avail gap res := by
  unfold resolveLine at h
  simp only [] at h
  split at h
  · cases h
  · rename_i l hloop
    cases h
    have hall := loop_all_frozen row _ avail gap _ _ _ _ hloop
    have hframe := loop_frame row _ avail gap _ _ _ _ hloop
    unfold lineFree freeSpace
    rw [List.length_map, sumBy_map, sumBy_map]
    congr 2
    apply sumBy_congr'
    intro y hy
    have hyf : y.frozen = true := (List.all_eq_true.mp hall) y hy
    have hyfr : FrameOk row (mainFrame y) := by
      have hmem : mainFrame y ∈ l.map mainFrame := List.mem_map.mpr ⟨y, hy, rfl⟩
      rw [hframe, List.map_map] at hmem
      obtain ⟨t, ht, heq⟩ := List.mem_map.mp hmem
      have htf : ∀ g : Bool, mainFrame (sizeInflexible g t) = mainFrame t := by
        intro g
        cases g <;> (
          unfold sizeInflexible
          simp only [Bool.false_eq_true, if_false, if_true]
          split <;> rfl)
      simp only [Function.comp] at heq
      rw [← heq, htf]
      exact hfr t ht
    unfold FrameOk mainFrame at hyfr
    cases row
    · simp only [Bool.false_eq_true, if_false] at hyfr ⊢
      simp [St.outerMainNonAuto, St.borderHeight, St.usedMain, lenOr0, hyf, hyfr]
      grind
    · simp only [if_true] at hyfr ⊢
      simp [St.outerMainNonAuto, St.borderWidth, St.usedMain, lenOr0, hyf, hyfr]
      grind

/-- steps 7 and 11 only touch the cross axis: the free space of step 12 is not affected by them -/
theorem lineFree_cross_steps (row : Bool) (alignItems : Align) (cross mainSize gap : Rat) (line : List St) :
    lineFree row mainSize gap ((line.map (step7 row)).map (step11 row alignItems cross)) =
      lineFree row mainSize gap line := by
  unfold lineFree
  rw [List.length_map, List.length_map, sumBy_map, sumBy_map]
  congr 2
  apply sumBy_congr'
  intro s _
  have h7 : (step7 row s).outerMainNonAuto row = s.outerMainNonAuto row := by
    unfold step7 St.outerMainNonAuto St.borderWidth St.borderHeight
    cases row
    · simp only [Bool.false_eq_true, if_false]
      cases hm1 : s.mt <;> cases hm2 : s.mb <;> cases hw : s.width <;> simp [lenOr0]
    · simp only [if_true]
  have h11 : ∀ t : St, (step11 row alignItems cross t).outerMainNonAuto row = t.outerMainNonAuto row := by
    intro t
    unfold step11 St.outerMainNonAuto St.borderWidth St.borderHeight
    cases row
    · simp only [Bool.false_eq_true, if_false]
      split
      · split <;> rfl
      · rfl
    · simp only [if_true]
      split
      · split <;> rfl
      · rfl
  rw [h11, h7]

/-- `flex_fill`, document level: on a line of step-3 states that 9.7 fills exactly, step 12 finds no free space
left: items, paddings, borders, margins and gaps fill the container's main size. -/
theorem flex_line_fills_main (row : Bool) (alignItems : Align) (cross avail gap : Rat) (items : List Item)
    (res : List St) (h : resolveLine row avail gap (step3 row items 0 0) = .ok res)
    (hfill : freeSpace avail gap res = 0) :
    lineFree row avail gap ((res.map (step7 row)).map (step11 row alignItems cross)) = 0 := by
  rw [lineFree_cross_steps, lineFree_eq_freeSpace row avail gap _ res ?_ h, hfill]
  intro s hs
  exact step3_frameOk row items 0 0 s hs

/-! ## Flex: step 9, `align-content: stretch` -/

private theorem sumBy_cross_add (e : Rat) (ls : List Line) :
    sumBy Line.cross (ls.map fun l => { l with cross := l.cross + e }) = sumBy Line.cross ls + (ls.length : Rat) * e := by
  induction ls with
  | nil => simp [sumBy]; grind
  | cons l rest ih =>
    simp only [List.map_cons, sumBy, ih, List.length_cons]
    push_cast
    grind

/-- `align`, multi-line: with `align-content: stretch` (or `normal`) and a definite cross size, the
lines are stretched so that lines and cross gaps fill the container's cross size exactly. -/
theorem stretch_lines_fill (c : Container) (ls : List Line) (d : Rat) (hne : ls ≠ [])
    (hac : (c.alignContent == .normal || c.alignContent == .stretch) = true)
    (hd : crossDefinite c = some d) :
    crossSum c.crossGap (stretchLines c ls) = d := by
  unfold stretchLines
  simp only [hac, if_true, hd]
  by_cases hz : (d - crossSum c.crossGap ls != 0) = true
  · simp only [hz, if_true]
    unfold crossSum
    rw [sumBy_cross_add, List.length_map]
    have hn : (ls.length : Rat) ≠ 0 := by
      have : ls.length ≠ 0 := by cases ls <;> simp_all
      exact_mod_cast this
    have := Rat.div_mul_cancel (a := d - (sumBy Line.cross ls + c.crossGap * (((ls.length : Int) - 1 : Int) : Rat))) hn
    unfold crossSum at this
    grind
  · simp only [hz, Bool.false_eq_true, if_false]
    have : d - crossSum c.crossGap ls = 0 := by simpa using hz
    grind

/-! ## Non-vacuity: the hypotheses of the theorems above are met by concrete, non-trivial inputs -/

section Examples

/-- an empty item `flex: g s b px` -/
def exItem (id : Nat) (order : Int) (g sh b : Rat) : Item :=
  { id := id, order := order, grow := g, shrink := sh, basis := .px b, sWidth := none, sHeight := none,
    sMinW := none, sMaxW := none, sMinH := none, sMaxH := none, ml := some 0, mr := some 0,
    mt := some 0, mb := some 0, pl := 0, pr := 0, pt := 0, pb := 0, bl := 0, br := 0, bt := 0,
    bb := 0, alignSelf := .auto }

def exLine (l : List Item) : List St := step3 true l 0 0

instance (row : Bool) (s : St) (t : Rat) : Decidable (NotClamped row s t) := by
  unfold NotClamped; infer_instance

-- order: 1 0 1 0 → the two `0` first, each pair in document order
example : (sortByOrder [exItem 0 1 0 1 10, exItem 1 0 0 1 10, exItem 2 1 0 1 10, exItem 3 0 0 1 10]).map (·.id) =
    [1, 3, 0, 2] := by decide +kernel

-- lines: 45 + 10 + 45 fits in 100, the third item (40) does not
example : (collectLines true 100 10 (exLine [exItem 0 0 0 1 45, exItem 1 0 0 1 45, exItem 2 0 0 1 40]) [] 0).map
    (·.length) = [2, 1] := by decide +kernel

-- flex_terminates / flex_fill_one_pass: `flex: 1 1 0` and `flex: 2 1 0` in 90px → 30 and 60
example :
    let line := exLine [exItem 0 0 1 1 0, exItem 1 0 2 1 0]
    let l0 := line.map (sizeInflexible (decide (lineHypSum 0 line < 90)))
    allFrozen l0 = false ∧ unfrozenFactorSum l0 ≥ 1 ∧
    (∀ s ∈ l0, s.frozen = false →
      NotClamped true s (share (decide (lineHypSum 0 line < 90)) (freeSpace 90 0 l0) (growSum l0) (scaledShrinkSum l0) s)) ∧
    (resolveLine true 90 0 line).toOption.map (List.map (·.target)) = some [30, 60] := by
  decide +kernel

-- shrink: `flex: 0 1 60px` and `flex: 0 3 20px` in 60px → bases weighted by shrink·base (60 and 60)
example :
    let line := exLine [exItem 0 0 0 1 60, exItem 1 0 0 3 20]
    let l0 := line.map (sizeInflexible (decide (lineHypSum 0 line < 60)))
    allFrozen l0 = false ∧ unfrozenFactorSum l0 ≥ 1 ∧ scaledShrinkSum l0 ≠ 0 ∧
    (∀ s ∈ l0, s.frozen = false →
      NotClamped true s (share (decide (lineHypSum 0 line < 60)) (freeSpace 60 0 l0) (growSum l0) (scaledShrinkSum l0) s)) ∧
    (resolveLine true 60 0 line).toOption.map (List.map (·.target)) = some [50, 10] := by
  decide +kernel

def exContainer (j : Justify) : Container :=
  { row := true, reverse := false, wrap := .nowrap, width := 100, height := some 10, mainGap := 5, crossGap := 0,
    justify := j, alignItems := .normal, alignContent := .normal }

-- justify: two 20px items, gap 5, `space-around` in 100px: positions 13.75 and 66.25
example :
    let line := (exLine [exItem 0 0 0 0 20, exItem 1 0 0 0 20]).map fun s => { s with width := some 20 }
    countAutoMain true line = 0 ∧
    (step12 (exContainer .spaceAround) 100 0 line).map (mainPos true) = [55/4, 265/4] := by
  decide +kernel

-- auto margins: one auto margin takes the 60px that are free
example :
    let line := (exLine [exItem 0 0 0 0 20, exItem 1 0 0 0 20]).map fun s => { s with width := some 20, ml := none }
    countAutoMain true line ≠ 0 ∧ lineFree true 100 0 line = 60 := by
  decide +kernel

open Wp.Grid in
example : intersect 0 2 1 3 = true ∧ intersect 0 1 1 1 = false := by decide

open Wp.Grid in
example : getPlacement (lineNo 2) (lineNo 4) [[], [], [], []] = .ok (some (1, 2)) ∧
    getPlacement (lineNo 4) (lineNo 2) [[], [], [], []] = .ok (some (1, 2)) ∧
    getPlacement (.mk true (some 2) none) (lineNo 4) [[]] = .ok (some (1, 2)) := by
  refine ⟨?_, ?_, ?_⟩
  · rw [placement_line_line]; rfl
  · rw [placement_line_line]; rfl
  · rw [placement_span_line 2 4 (by decide)]; rfl

open Wp.Grid in
/-- three automatic items on a grid of two columns where cell (0, 0) is taken: step 1.4 succeeds
(so the premise of `autoplace_disjoint` is satisfiable) and fills (1,0), (0,1), (1,1). -/
example :
    let ctx : PCtx := PCtx.mk true false false [[], []] [[], [], []] 0 0 2
    let st : PState := PState.mk [(9, (0, 0, 1, 1))] 0 0 1
    let it (n : Nat) : GItem := { (default : GItem) with id := n }
    ([it 0, it 1, it 2].foldlM (step14 ctx) st).toOption.map (·.positions) =
      some [(9, (0, 0, 1, 1)), (0, (1, 0, 1, 1)), (1, (0, 1, 1, 1)), (2, (1, 1, 1, 1))] := by
  decide +kernel

open Wp.Grid in
-- tracks_partition: `20px 1fr 3fr` with a 4px gap in 108px: free = 80, 1fr = 20
example :
    let fns : List (Breadth × Breadth) := [(.px 20, .px 20), (.auto, .fr 1), (.auto, .fr 3)]
    frSum fns ≥ 1 ∧ (108 : Rat) - pxSum fns - ((fns.length : Int) - 1 : Int) * 4 > 0 ∧
    (resolveTracks fns (some 108) [] 0 true 4 true).toOption.map (List.map (·.base)) = some [20, 20, 60] := by
  decide +kernel

-- lines_maximal / align: hypotheses are satisfiable (non-negative sizes; an item without auto margins)
example : (∀ s ∈ exLine [exItem 0 0 0 1 45, exItem 1 0 0 1 45, exItem 2 0 0 1 40], 0 ≤ (10 : Rat) + s.outerHyp) ∧
    ((exLine [exItem 0 0 0 1 45]).all fun s => s.mt.isSome && s.mb.isSome) = true := by decide +kernel

open Wp.Grid in
-- dense_second_disjoint: an item locked to row 0 of a grid whose cells (0,0) and (1,0) are taken goes to column 2
example : (getSecondPlacement (0, 1) .auto .auto [[], [], []] [(0, 0, 1, 1), (1, 0, 1, 1)] true true).toOption =
    some (2, 1) := by decide +kernel

-- layout_order: `order: 1 0 1`, row-reverse: the boxes come out as 2, 0, 1 (sorted 1, 0, 2 → reversed)
example :
    let c : Container := { exContainer .normal with reverse := true }
    let items := [exItem 0 1 0 1 10, exItem 1 0 0 1 10, exItem 2 1 0 1 10]
    (layout c items).toOption.map (fun r => r.rects.map (·.id)) = some [2, 0, 1] := by decide +kernel

-- flex_fill_all_passes: column container of 100px, `flex: 1 1 0; min-height: 60px` and `flex: 1 1 0`:
-- the first pass freezes the first item on its minimum, the second pass gives the rest to the other: 60 + 40
example :
    let line := step3 false [{ exItem 0 0 1 1 0 with sMinH := some 60 }, exItem 1 0 1 1 0] 0 0
    let l0 := line.map (sizeInflexible (decide (lineHypSum 0 line < 100)))
    allFrozen l0 = false ∧
    ((pass false true 100 0 l0 (freeSpace 100 0 l0)).toOption.map (fun r => unfrozenCount r.1)) = some 1 ∧
    (resolveLine false 100 0 line).toOption.map (List.map (·.target)) = some [60, 40] := by
  decide +kernel

-- flex_fill_all_passes / flex_fill_exact with a max violation (the repaired 9.7.5.d): `flex: 1 1 0; max-width: 10px` and
-- `flex: 1 1 0` in 100px: the first pass freezes the first item on its maximum (total violation -40), the second
-- pass gives the 90px that are left to the other; the violations of the last pass cancel and the line is filled
example :
    let line := step3 true [{ exItem 0 0 1 1 0 with sMaxW := some 10 }, exItem 1 0 1 1 0] 0 0
    let l0 := line.map (sizeInflexible (decide (lineHypSum 0 line < 100)))
    allFrozen l0 = false ∧
    ((pass true true 100 0 l0 (freeSpace 100 0 l0)).toOption.map (fun r => (unfrozenCount r.1, sumBy St.adj r.1))) =
      some (1, -40) ∧
    (resolveLine true 100 0 line).toOption.map (fun r => (r.map (·.target), sumBy St.adj r, freeSpace 100 0 r)) =
      some ([10, 90], 0, 0) := by
  decide +kernel

-- flex_fill_all_passes when the last violations do not cancel: `flex: 0 1 80px; min-width: 70px` twice in 100px:
-- both items end on their minimum, the line overflows by exactly the total violation (40 = 2 x 20)
example :
    let line := step3 true [{ exItem 0 0 0 1 80 with sMinW := some 70 }, { exItem 1 0 0 1 80 with sMinW := some 70 }] 0 0
    (resolveLine true 100 0 line).toOption.map (fun r => (r.map (·.target), sumBy St.adj r, freeSpace 100 0 r)) =
      some ([70, 70], 40, -40) := by
  decide +kernel

open Wp.Grid in
-- sparseLocked_cursor: an item locked to column 0 whose row 0 is taken: the cursor goes from 0 to 1, the item to row 1
example : (sparseLocked true .auto .auto [[], [], []] 0 1 [(0, 0, 1, 1)] countBound 0).toOption = some (1, 1, 1) := by
  decide +kernel

-- auto_cross_margin_positioned / step16_keeps_offsets: hypotheses are satisfiable
example : ((exLine [exItem 0 0 0 1 45]).map fun s => { s with ml := none }).all (fun s => s.ml.isNone) = true ∧
    (∀ s : St, s.ml = none → ¬ noAutoCross false s) := by
  refine ⟨by decide +kernel, ?_⟩
  intro s h; simp [noAutoCross, h]

-- lineFree_eq_freeSpace / flex_line_fills_main (the repair b901ca9 at theorem level): two `flex: 1 1 0; padding: 0 10px`
-- items in 100px: 9.7 fills the line (30 + 30 of content, 40 of paddings) and step 12 finds nothing left
example :
    let items := [{ exItem 0 0 1 1 0 with pl := 10, pr := 10 }, { exItem 1 0 1 1 0 with pl := 10, pr := 10 }]
    (resolveLine true 100 0 (step3 true items 0 0)).toOption.map
      (fun r => (freeSpace 100 0 r, lineFree true 100 0 r, r.map (·.target))) = some (0, 0, [30, 30]) := by
  decide +kernel

-- stretch_lines_fill: two lines of 10 and 30 in a 100px high wrapping row container with a 4px row gap
example :
    let c : Container := { exContainer .normal with wrap := .wrap, height := some 100, crossGap := 4 }
    let ls : List Line := [{ items := [], cross := 10 }, { items := [], cross := 30 }]
    crossDefinite c = some 100 ∧ (stretchLines c ls).map (·.cross) = [38, 58] := by decide +kernel

end Examples

end Wp.C12
