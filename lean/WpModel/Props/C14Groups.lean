/-
C14 — page groups (`:nth(an+b of name)`): `_includes_resume_at` / `_update_page_groups` on `resume_at`
structures that are single paths (what block-level page breaks produce: `{i: {j: … None}}`).
The `ValueError` of the tuple unpacking in `_includes_resume_at` is unreachable on such paths, the test is
exactly "the group's path is a prefix-path of `resume_at`", and the groups created stay single paths.
-/
import WpModel.Model.PageGroups
import WpModel.Model.PageDoc

namespace Wp.C14
open Wp Wp.PageGroups

/-- `resume_at` contains the path `p` (every key present, every intermediate value a dict). -/
def hasPath : RA → List Nat → Bool
  | _, [] => true
  | .none, _ :: _ => false
  | .dict es, k :: rest =>
    match es.lookup k with
    | Option.none => false
    | some sub => match rest with
      | [] => true
      | _ :: _ => hasPath sub rest

/-- **includes = prefix test, and total**: on a single-path group `{k: {…: None}}` the function never
raises and answers whether `resume_at` goes through that path. -/
theorem includes_is_prefix_test (r : RA) (k : Nat) (path : List Nat) :
    includes r (chainDict (k :: path)) = .ok (hasPath r (k :: path)) := by
  induction path generalizing r k with
  | nil =>
    cases r with
    | none => simp [chainDict, includes, hasPath]
    | dict es =>
      simp only [chainDict, includes, hasPath]
      cases es.lookup k <;> rfl
  | cons j rest ih =>
    cases r with
    | none => simp [chainDict, includes, hasPath]
    | dict es =>
      simp only [chainDict, includes, hasPath]
      cases hl : es.lookup k with
      | none => rfl
      | some sub =>
        simp only
        have := ih sub j
        simp only [chainDict] at this
        rw [this]

example : (match includes (chainDict [0, 3, 1]) (chainDict [0, 3]) with | .ok b => b | _ => false) = true := by decide
example : (match includes (chainDict [0, 2]) (chainDict [0, 3]) with | .ok b => !b | _ => false) = true := by decide

/-- A page that resumes inside the element of a group (its path extends the group's) keeps the group. -/
theorem includes_extension (p q : List Nat) (k : Nat) :
    hasPath (chainDict (k :: p ++ q)) (k :: p) = true := by
  induction p generalizing k with
  | nil =>
    simp only [List.cons_append, List.nil_append, hasPath, chainDict, REntries.lookup, beq_self_eq_true, ↓reduceIte]
  | cons j rest ih =>
    have := ih j
    simp only [List.cons_append, hasPath, chainDict, REntries.lookup, beq_self_eq_true, ↓reduceIte] at this ⊢
    exact this

/-- Groups whose `resume_at` are single paths. -/
def ChainGroups (gs : List Group) : Prop := ∀ g ∈ gs, ∃ k path, g.resume = chainDict (k :: path)

/-- The first loop of `_update_page_groups` never raises on single-path groups: each group is kept
(index + 1) exactly when `resume_at` goes through its path, else dropped; the survivors stay single
paths. -/
theorem step_groups_total (r : RA) (gs : List Group) (h : ChainGroups gs) :
    ∃ gs', stepGroups r gs = .ok gs' ∧ ChainGroups gs' ∧ gs'.length ≤ gs.length := by
  induction gs with
  | nil => exact ⟨[], rfl, (by unfold ChainGroups; intro g hg; cases hg), Nat.le_refl _⟩
  | cons g rest ih =>
    obtain ⟨k, path, hk⟩ := h g (by simp)
    obtain ⟨rest', e, hc, hl⟩ := ih (fun x hx => h x (by simp [hx]))
    cases hp : hasPath r (k :: path)
    · refine ⟨rest', ?_, hc, by simp only [List.length_cons]; omega⟩
      simp [stepGroups, hk, includes_is_prefix_test, e, hp]
    · refine ⟨{ g with index := g.index + 1 } :: rest', ?_, ?_, by simp only [List.length_cons]; omega⟩
      · simp [stepGroups, hk, includes_is_prefix_test, e, hp]
      · intro x hx
        rcases List.mem_cons.mp hx with rfl | hx
        · exact ⟨k, path, hk⟩
        · exact hc x hx

/-- The deep copy extended along its path is again a single path. -/
theorem extend_leaf_chain (p ext : List Nat) :
    extendLeaf (chainDict p) ext = chainDict (p ++ ext) := by
  induction p with
  | nil => simp [chainDict, extendLeaf]
  | cons j rest ih =>
    simp only [chainDict, extendLeaf, extendLeaf.extendEntries, List.cons_append]
    rw [ih]

/-- **page groups stay single paths.**  When `resume_at` is a single path (block-level breaks) and the
existing groups are, `_update_page_groups` can only fail in the descent through the box tree
(`children[index]`), never in `_includes_resume_at`, and the groups it returns are single paths again —
so by induction over the pages the `ValueError` of the unpacking is unreachable. -/
theorem update_page_groups_chains (gs : List Group) (k : Nat) (p : List Nat) (isAny : Bool) (name : String)
    (root : Elt) (h : ChainGroups gs) (gs' : List Group)
    (hu : updatePageGroups gs (chainDict (k :: p)) isAny name root = .ok gs') : ChainGroups gs' := by
  obtain ⟨s, es, hc, _⟩ := step_groups_total (chainDict (k :: p)) gs h
  unfold updatePageGroups at hu
  simp only [es] at hu
  by_cases c1 : (isAny || name.isEmpty) = true
  · rw [if_pos c1] at hu
    simp only [Except.ok.injEq] at hu; subst hu; exact hc
  · rw [if_neg c1] at hu
    by_cases c2 : lastNameIs s name = true
    · rw [if_pos c2] at hu
      simp only [Except.ok.injEq] at hu; subst hu; exact hc
    · rw [if_neg c2] at hu
      unfold appendGroup at hu
      cases hd : descend (chainDict (k :: p)) root with
      | error e => simp [hd] at hu
      | ok r =>
        obtain ⟨elt, pth⟩ := r
        simp only [hd] at hu
        cases hf : findNamed name elt with
        | none => simp only [hf, Except.ok.injEq] at hu; subst hu; exact hc
        | some ext =>
          simp only [hf, Except.ok.injEq] at hu
          subst hu
          intro g hg
          rcases List.mem_append.mp hg with hg | hg
          · exact hc g hg
          · simp only [List.mem_singleton] at hg
            subst hg
            exact ⟨k, p ++ ext, extend_leaf_chain (k :: p) ext⟩

/-- In the documents of the model every page resumes at a single path `{0: {body index: None | {j: None}}}`,
so the theorems above apply to the whole run of `remake_page` over a document. -/
theorem resume_of_is_chain (s : PageDoc.Section) : ∃ p, PageDoc.resumeOf s = chainDict (0 :: s.bodyIndex :: p) := by
  unfold PageDoc.resumeOf
  cases hi : s.innerIndex with
  | none => exact ⟨[], by simp [chainDict]⟩
  | some j =>
    cases j with
    | zero => exact ⟨[], by simp [chainDict]⟩
    | succ j => exact ⟨[j + 1], by simp [chainDict]⟩

end Wp.C14
