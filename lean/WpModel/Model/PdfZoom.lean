/-
C19 — every coordinate that `pdf/__init__.py::generate_pdf`, `pdf/anchors.py::add_links`,
`document.py::Document.make_bookmark_tree` / `anchors.py::make_page_bookmark_tree` and `Page.paint` derive from
the layout, as functions of `zoom`.  Hand-written mirror.

  scale = zoom * 0.75
  matrix = Matrix(scale, 0, 0, -scale, 0, page.height * scale)
  MediaBox = [left, top, right, bottom]         left = -scale * bleed.left, right = left + scale * (w + bl + br) …
  page_rectangle = (left / scale, top / scale, (right - left) / scale, (bottom - top) / scale)   (ZeroDivisionError)
  stream.transform(d=-1, f=page.height * scale)         → `1 0 0 -1 0 f cm`
  Page.paint: stream.transform(a=scale, d=scale)        → `s 0 0 s 0 0 cm`
  bleed = {k: v * scale};  TrimBox = Media ± bleed;  BleedBox = Trim ∓ min(10 * zoom, bleed)   (cap scaled by zoom
             since d924a7c: zoom-linear for zoom ≥ 0)
  add_links: Rect = transform_point(x1, y1), transform_point(x2, y2) for internal / external links
             names += [name, [page /XYZ x y 0]] with (x, y) = transform_point(anchor)
  /Dests name tree: `sorted(pdf_names, key=key_bytes)` — the bytes pydyf writes for the key (ASCII as is, otherwise
             BOM_UTF16_BE + UTF-16-BE; since 09da5a8)
  make_bookmark_tree(scale, transform_pages=True): Matrix(a=scale, d=-scale, f=page.height * scale)
  numbers are written by pydyf `_to_bytes`: integer-valued floats as ints, others `f'{x:f}'.rstrip('0')`.
No Mathlib: linked into the driver.
-/
import WpModel.Model.CopyPages

namespace Wp.PdfZoom
open Wp Wp.CopyPages

/-- `weasyprint/matrix.py::Matrix(a, b, c, d, e, f)`: rows `[a b 0] [c d 0] [e f 1]`. -/
structure Matrix where
  a : Rat
  b : Rat
  c : Rat
  d : Rat
  e : Rat
  f : Rat
  deriving Repr, DecidableEq, BEq, Inhabited

/-- `Matrix.transform_point(x, y)` = first row of `[[x, y, 1]] @ self`, columns 0 and 1:
`sum(row[k] * self[k][j] for k in range(3))`. -/
def Matrix.transformPoint (m : Matrix) (x y : Rat) : Rat × Rat :=
  (0 + x * m.a + y * m.c + 1 * m.e, 0 + x * m.b + y * m.d + 1 * m.f)

/-- `scale = zoom * 0.75` (72 PDF points per inch / 96 CSS px per inch). -/
def scale (zoom : Rat) : Rat := zoom * (3 / 4)

/-- `Matrix(scale, 0, 0, -scale, 0, page.height * scale)` (also what `make_bookmark_tree` builds with
`transform_pages=True`: `Matrix(a=scale, d=-scale, f=page.height * scale)`). -/
def pageMatrix (s : Rat) (p : Page) : Matrix := ⟨s, 0, 0, -s, 0, p.height * s⟩

structure Box4 where
  x1 : Rat
  y1 : Rat
  x2 : Rat
  y2 : Rat
  deriving Repr, DecidableEq, BEq, Inhabited

def mediaLeft (s : Rat) (p : Page) : Rat := -s * p.bleed.left
def mediaTop (s : Rat) (p : Page) : Rat := -s * p.bleed.top
def pageWidth (s : Rat) (p : Page) : Rat := s * (p.width + p.bleed.left + p.bleed.right)
def pageHeight (s : Rat) (p : Page) : Rat := s * (p.height + p.bleed.top + p.bleed.bottom)

/-- `MediaBox = [left, top, right, bottom]`. -/
def mediaBox (s : Rat) (p : Page) : Box4 :=
  let left := mediaLeft s p
  let top := mediaTop s p
  ⟨left, top, left + pageWidth s p, top + pageHeight s p⟩

/-- `bleed = {key: value * scale …}`; `trim_left = left + bleed['left']` … -/
def trimBox (s : Rat) (p : Page) : Box4 :=
  let m := mediaBox s p
  ⟨m.x1 + p.bleed.left * s, m.y1 + p.bleed.top * s, m.x2 - p.bleed.right * s, m.y2 - p.bleed.bottom * s⟩

/-- Python `min(10 * zoom, x)` (the first argument wins a tie: same value). -/
def minCap (z x : Rat) : Rat := if x < 10 * z then x else 10 * z

/-- `bleed_left = trim_left - min(10 * zoom, bleed['left'])` … with `bleed[k] = page.bleed[k] * scale`,
`scale = zoom * 0.75` (the cap is in PDF points *of the unzoomed page*: 10 pt × zoom). -/
def bleedBox (z : Rat) (p : Page) : Box4 :=
  let s := scale z
  let t := trimBox s p
  ⟨t.x1 - minCap z (p.bleed.left * s), t.y1 - minCap z (p.bleed.top * s),
   t.x2 + minCap z (p.bleed.right * s), t.y2 + minCap z (p.bleed.bottom * s)⟩

/-- `page_rectangle`, evaluated only under `s ≠ 0` (see `generatePdf`). -/
def pageRectangle (s : Rat) (p : Page) : Box4 :=
  let m := mediaBox s p
  ⟨m.x1 / s, m.y1 / s, (m.x2 - m.x1) / s, (m.y2 - m.y1) / s⟩

/-- A link annotation: `Rect = [x1, y1, x2, y2]` with both corners through `matrix.transform_point`. -/
structure Annot where
  kind : LinkKind
  target : String
  rect : Box4
  deriving Repr, DecidableEq, BEq, Inhabited

def linkRect (m : Matrix) (r : Rect) : Box4 :=
  let p1 := m.transformPoint r.x1 r.y1
  let p2 := m.transformPoint r.x2 r.y2
  ⟨p1.1, p1.2, p2.1, p2.2⟩

/-- `add_links`: annotations only for `link_type in ('internal', 'external')`. -/
def annots (m : Matrix) (links : List Link) : List Annot :=
  (links.filter (fun l => l.kind ≠ .attachment)).map (fun l => ⟨l.kind, l.target, linkRect m l.rect⟩)

/-- A named destination `[name, [page /XYZ x y 0]]`. -/
structure Dest where
  name : String
  page : Nat
  x : Rat
  y : Rat
  deriving Repr, DecidableEq, BEq, Inhabited

def dests (m : Matrix) (pageIndex : Nat) (anchors : List Anchor) : List Dest :=
  anchors.map (fun a => let q := m.transformPoint a.x a.y; ⟨a.name, pageIndex, q.1, q.2⟩)

structure PagePdf where
  media : Box4
  trim : Box4
  bleed : Box4
  rectangle : Box4
  /-- `f` of `stream.transform(d=-1, f=page.height * scale)` -/
  flipF : Rat
  /-- `a = d` of `Page.paint`'s `stream.transform(a=scale, d=scale)` -/
  paintScale : Rat
  annots : List Annot
  deriving Repr, DecidableEq, BEq, Inhabited

/-- One iteration of the page loop of `generate_pdf` (geometry only); `s = scale z`. -/
def pagePdf (z : Rat) (p : Page) (links : List Link) : PagePdf :=
  let s := scale z
  { media := mediaBox s p, trim := trimBox s p, bleed := bleedBox z p, rectangle := pageRectangle s p,
    flipF := p.height * s, paintScale := s, annots := annots (pageMatrix s p) links }

/-! ### Bookmarks: `make_bookmark_tree` / `make_page_bookmark_tree` -/

/-- `while temp < previous_level: temp += 1 + skipped_levels.pop()`; the stack top is the list head. -/
def popWhile (prev : Nat) (temp : Nat) : List Nat → Except PyErr (Nat × List Nat)
  | [] => if temp < prev then .error (.indexError "skipped_levels.pop") else .ok (temp, [])
  | k :: rest => if temp < prev then popWhile prev (temp + 1 + k) rest else .ok (temp, k :: rest)

/-- State of the loop: `skipped_levels` (top first) and `previous_level`. -/
structure BmState where
  skipped : List Nat
  prev : Nat
  deriving Repr, DecidableEq, Inhabited

/-- The update of `skipped_levels` for one bookmark:
```
if level > previous_level: skipped_levels.append(level - previous_level - 1)
else:
    temp = level
    while temp < previous_level: temp += 1 + skipped_levels.pop()
    if temp > previous_level: skipped_levels.append(temp - previous_level - 1)
``` -/
def newSkipped (st : BmState) (level : Nat) : Except PyErr (List Nat) :=
  if level > st.prev then .ok ((level - st.prev - 1) :: st.skipped)
  else
    match popWhile st.prev level st.skipped with
    | .error e => .error e
    | .ok (temp, stack) => .ok (if temp > st.prev then (temp - st.prev - 1) :: stack else stack)

/-- `depth = level - sum(skipped_levels); assert depth == len(skipped_levels); assert depth >= 1`. -/
def checkDepth (skipped : List Nat) (level : Nat) : Except PyErr Nat :=
  let depth : Int := (level : Int) - ((skipped.foldl (· + ·) 0 : Nat) : Int)
  if depth ≠ (skipped.length : Int) then .error (.assertFailed "depth==len(skipped_levels)")
  else if depth < 1 then .error (.assertFailed "depth>=1")
  else .ok depth.toNat

/-- One bookmark of `make_page_bookmark_tree`: new state and `depth` (both asserts included). -/
def bookmarkStep (st : BmState) (level : Nat) : Except PyErr (BmState × Nat) :=
  match newSkipped st level with
  | .error e => .error e
  | .ok skipped =>
    match checkDepth skipped level with
    | .error e => .error e
    | .ok depth => .ok (⟨skipped, level⟩, depth)

/-- A flattened outline item in document order (= pre-order of the tree: every new subtree is appended to the
children of the latest item one level up). -/
structure Outline where
  depth : Nat
  label : String
  page : Nat
  x : Rat
  y : Rat
  closed : Bool
  deriving Repr, DecidableEq, BEq, Inhabited

def pageOutlines (s : Rat) (pageIndex : Nat) (p : Page) (st : BmState) :
    List Bookmark → Except PyErr (List Outline × BmState)
  | [] => .ok ([], st)
  | b :: rest =>
    match bookmarkStep st b.level with
    | .error e => .error e
    | .ok (st', depth) =>
      match pageOutlines s pageIndex p st' rest with
      | .error e => .error e
      | .ok (out, st'') =>
        let q := (pageMatrix s p).transformPoint b.x b.y
        .ok (⟨depth, b.label, pageIndex, q.1, q.2, b.closed⟩ :: out, st'')

def docOutlines (s : Rat) (pageIndex : Nat) (st : BmState) : List Page → Except PyErr (List Outline)
  | [] => .ok []
  | p :: rest =>
    match pageOutlines s pageIndex p st p.bookmarks with
    | .error e => .error e
    | .ok (out, st') =>
      match docOutlines s (pageIndex + 1) st' rest with
      | .error e => .error e
      | .ok out' => .ok (out ++ out')

/-! ### The document -/

structure PdfOut where
  pages : List PagePdf
  /-- `sorted(pdf_names, key=key_bytes)`: names are distinct (`resolve_links` keeps the first of each), so the order
  is the byte order of the keys as written (`keyBytes`). -/
  names : List Dest
  outlines : List Outline
  deriving Repr, DecidableEq, BEq, Inhabited

/-- page loop over `zip(document.pages, page_links_and_anchors)`. -/
def pagesPdf (z : Rat) : List Page → List (List Link × List Anchor) → List PagePdf
  | p :: ps, la :: las => pagePdf z p la.1 :: pagesPdf z ps las
  | _, _ => []

def allDests (s : Rat) (pageIndex : Nat) : List Page → List (List Link × List Anchor) → List Dest
  | p :: ps, la :: las => dests (pageMatrix s p) pageIndex la.2 ++ allDests s (pageIndex + 1) ps las
  | _, _ => []

/-- `c.encode('utf-16-be')` of one character: two bytes, or a surrogate pair (four bytes) above the BMP. -/
def utf16be (c : Char) : List Nat :=
  let n := c.toNat
  if n < 0x10000 then [n / 256, n % 256]
  else
    let v := n - 0x10000
    let hi := 0xD800 + v / 0x400
    let lo := 0xDC00 + v % 0x400
    [hi / 256, hi % 256, lo / 256, lo % 256]

/-- `key_bytes` of `generate_pdf`: `name.encode('ascii')` if `name.isascii()`, else
`BOM_UTF16_BE + name.encode('utf-16-be')` — the bytes `pydyf.String(name)` puts in the file. -/
def keyBytes (name : String) : List Nat :=
  if name.toList.all (fun c => c.toNat < 128) then name.toList.map Char.toNat
  else 0xFE :: 0xFF :: name.toList.flatMap utf16be

/-- Python's `bytes` comparison: lexicographic on the byte values, a proper prefix first (`a ≤ b`). -/
def bytesLe : List Nat → List Nat → Bool
  | [], _ => true
  | _ :: _, [] => false
  | a :: as, b :: bs => if a < b then true else if b < a then false else bytesLe as bs

/-- `sorted(pdf_names, key=key_bytes)` (a stable sort, as `mergeSort` is). -/
def sortDests (ds : List Dest) : List Dest := ds.mergeSort (fun a b => bytesLe (keyBytes a.name) (keyBytes b.name))

/-- `generate_pdf(document, target, zoom, **options)`, the layout-derived part.
* `ZeroDivisionError`: `left / scale` in the first iteration of the page loop ⇔ `scale = 0` and there is a page;
* `IndexError` / `AssertionError`: `make_page_bookmark_tree` (reached after the page loop);
* `needsHtml` (variant `pdf/ua-1`): `pdfua` calls `document.build_element_structure` once per page stream, which reads
  `document._html` → `AttributeError` on a document made by the constructor alone (no `_html`, or `None` on its
  copies) that has at least one page; with no page the loop does not run (`page_number = -1` before it). -/
def generatePdf (zoom : Rat) (needsHtml : Bool) (d : Document) : Except PyErr PdfOut :=
  let s := scale zoom
  if s = 0 ∧ d.pages ≠ [] then .error (.zeroDivision "generate_pdf.page_rectangle")
  else
    let la := resolveLinks d.pages
    match docOutlines s 0 ⟨[], 0⟩ d.pages with
    | .error e => .error e
    | .ok outlines =>
      if needsHtml ∧ d.hasHtml = false ∧ d.pages ≠ [] then .error (.noneAttribute "Document._html")
      else .ok { pages := pagesPdf zoom d.pages la, names := sortDests (allDests s 0 d.pages la), outlines := outlines }

/-! ### pydyf number formatting -/

def roundHalfEven (q : Rat) : Int :=
  let f := q.floor
  let r := q - (f : Rat)
  if r < 1 / 2 then f else if 1 / 2 < r then f + 1 else if f % 2 = 0 then f else f + 1

def pad6 (n : Nat) : String :=
  let s := toString n
  String.ofList (List.replicate (6 - s.length) '0') ++ s

def rstrip0 (s : String) : String := String.ofList (s.toList.reverse.dropWhile (· = '0')).reverse

/-- pydyf `_to_bytes(float)`: `str(int(x))` if `x.is_integer()` else `f'{x:f}'.rstrip('0')` (`%f` rounds the exact
binary value half-to-even at 6 decimals; `0.0000001` prints `0.`). -/
def pdfNum (q : Rat) : String :=
  if q.den = 1 then toString q.num
  else
    let neg := decide (q < 0)
    let a := if neg then -q else q
    let n := (roundHalfEven (a * 1000000)).toNat
    (if neg then "-" else "") ++ rstrip0 (toString (n / 1000000) ++ "." ++ pad6 (n % 1000000))

end Wp.PdfZoom
