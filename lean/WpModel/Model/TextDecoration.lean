/-
C19 — `weasyprint/css/__init__.py::text_decoration(key, value, parent_value, cascaded)`: the propagation of the
text-decoration-* properties from an element to its descendants (they are not inherited; `ComputedStyle` calls this
function with the parent's computed value).  Hand-written mirror, branch for branch.

  text_properties = ('text_decoration_color', 'text_decoration_style', 'text_decoration_thickness')
  if key in text_properties:      if not cascaded: value = parent_value
  elif key == 'text_decoration_line':
      if parent_value != 'none':  if value == 'none': value = parent_value  else: value = value | parent_value
  return value

`text_decoration_line` is `'none'` or a Python `set` of keywords: the set of a cascaded value is the very object stored
in the declaration of the style-sheet rule, shared by every element the rule matches and by every render that uses the
sheet — the union must be a new set (`value | parent_value`, never `value |= parent_value`).  In the model values are
immutable; the harness checks on the real function that the arguments are unchanged.  No Mathlib.
-/
import WpModel.Model.Wire

namespace Wp.TextDecoration
open Wp

inductive Line where
  | underline | overline | lineThrough | blink
  deriving Repr, DecidableEq, BEq, Inhabited

def Line.name : Line → String
  | .underline => "underline" | .overline => "overline" | .lineThrough => "line-through" | .blink => "blink"

def Line.ofString? : String → Option Line
  | "underline" => some .underline | "overline" => some .overline | "line-through" => some .lineThrough
  | "blink" => some .blink | _ => none

def allLines : List Line := [.underline, .overline, .lineThrough, .blink]

/-- A computed value: `'none'`, a set of lines (as a membership predicate over the four keywords), or any other value
(colour, style keyword, thickness: an opaque identity). -/
inductive Val where
  | none
  | lines (has : Line → Bool)
  | other (id : Nat)
  deriving Inhabited

inductive Key where
  | color | style | thickness | line
  /-- any other property name: the function returns `value` -/
  | unrelated
  deriving Repr, DecidableEq, BEq, Inhabited

def Key.ofString? : String → Option Key
  | "text_decoration_color" => some .color | "text_decoration_style" => some .style
  | "text_decoration_thickness" => some .thickness | "text_decoration_line" => some .line
  | _ => some .unrelated

/-- `value | parent_value` on sets. -/
def union (a b : Line → Bool) : Line → Bool := fun l => a l || b l

/-- `parent_value != 'none'` / `value == 'none'`: a set is never equal to the string. -/
def Val.isNone : Val → Bool
  | .none => true
  | _ => false

/-- `text_decoration(key, value, parent_value, cascaded)`.  (`value | parent_value` with a non-set operand would be a
`TypeError`; the validator only produces `'none'` or a set for text-decoration-line, so are the model's inputs for that
key — other shapes are passed through.) -/
def textDecoration (key : Key) (value parent : Val) (cascaded : Bool) : Val :=
  match key with
  | .color | .style | .thickness => if !cascaded then parent else value
  | .line =>
    if !parent.isNone then
      if value.isNone then parent
      else
        match value, parent with
        | .lines a, .lines b => .lines (union a b)
        | v, _ => v
    else value
  | .unrelated => value

/-- Canonical printing: the lines in the fixed order of `allLines`, joined by `+`. -/
def Val.render : Val → String
  | .none => "none"
  | .lines has => "{" ++ "+".intercalate ((allLines.filter has).map Line.name) ++ "}"
  | .other id => "v" ++ toString id

end Wp.TextDecoration
