/-
Python numbers as they reach `pydyf` and the f-strings of `weasyprint/pdf/stream.py`.

  `Num.int i`  a Python `int`
  `Num.flt q`  a Python `float` whose exact (binary) value is the rational `q`

  `Num.toBytes`  = `pydyf._to_bytes`            (ints: `str`; floats: integral → `str(int(x))`, else `f'{x:f}'.rstrip('0')`)
  `Num.pyStr`    = `str(x)` / `f'{x}'`          (used by the ExtGState keys `f'a{alpha}'`, `f'A{alpha}'`)

`f'{x:f}'` is the correctly rounded (half-to-even on the exact binary value) 6-decimal expansion; quirks kept:
`1e-9 → '0.'`, `-1e-9 → '-0.'`.  `str(float)` is modelled by the exact finite expansion, which is what Python's
shortest round-trip repr prints for the dyadic values with few digits the harness uses (assumption recorded in
py/props/c16.py; exponent notation `1e-05`, `1e+16` is outside the model).
No Mathlib: linked into the driver.
-/
import WpModel.Model.Wire

namespace Wp.Pdf
open Wp

inductive Num where
  | int (i : Int)
  | flt (q : Rat)
  | none            -- Python `None` where a number is expected (a CSS Color 4 `none` component kept by tinycss2)
  deriving DecidableEq, Repr, Inhabited

namespace Num

def val : Num → Rat
  | int i => (i : Rat)
  | flt q => q
  | none => 0

/-- The value as Python compares it (`None == 0` is false). -/
def key : Num → Option Rat
  | int i => some (i : Rat)
  | flt q => some q
  | none => Option.none

/-- Left-pad with zeros to `n` characters. -/
def padZeros (n : Nat) (s : String) : String :=
  String.ofList (List.replicate (n - s.length) '0') ++ s

/-- `s.rstrip('0')`. -/
def rstripZeros (s : String) : String :=
  String.ofList (s.toList.reverse.dropWhile (· == '0')).reverse

/-- Round a non-negative rational half-to-even to a natural number. -/
def roundHalfEven (q : Rat) : Nat :=
  let fl := q.floor
  let rem := q - (fl : Rat)
  let up := if rem > 1/2 then true else if rem < 1/2 then false else fl % 2 != 0
  (if up then fl + 1 else fl).toNat

/-- `f'{x:f}'` for the float whose exact value is `q`. -/
def fmt6 (q : Rat) : String :=
  let a := if q < 0 then -q else q
  let r := roundHalfEven (a * 1000000)
  (if q < 0 then "-" else "") ++ toString (r / 1000000) ++ "." ++ padZeros 6 (toString (r % 1000000))

def isInteger (q : Rat) : Bool := q.den == 1

/-- `pydyf._to_bytes`. -/
def toBytes : Num → String
  | int i => toString i
  | flt q => if isInteger q then toString q.num else rstripZeros (fmt6 q)
  | none => "None"      -- `str(None).encode('ascii')`: what pydyf writes for a `None` operand

/-- Digits of the fractional part `r / d` (0 ≤ r < d), at most `fuel` of them, stopping when exact. -/
def fracDigits (d : Nat) : Nat → Nat → List Char
  | 0, _ => []
  | fuel + 1, r =>
    if r == 0 then [] else
      let r10 := r * 10
      Char.ofNat (48 + r10 / d) :: fracDigits d fuel (r10 % d)

/-- `str(x)`. -/
def pyStr : Num → String
  | int i => toString i
  | flt q =>
    if isInteger q then toString q.num ++ ".0"
    else
      let a := if q < 0 then -q else q
      let ip := a.floor.toNat
      let r := a.num.toNat - ip * a.den
      (if q < 0 then "-" else "") ++ toString ip ++ "." ++ String.ofList (fracDigits a.den 60 r)
  | none => "None"

end Num

/-- Wire form: `i<int>` or `f<rat>`. -/
def Num.parse? (s : String) : Option Num :=
  if s == "none" then some Num.none else
  match s.toList with
  | 'i' :: rest => (String.ofList rest).toInt?.map Num.int
  | 'f' :: rest => (parseRat (String.ofList rest)).map Num.flt
  | _ => none

def _root_.Wp.Sx.num? (x : Sx) : Option Num := x.atom?.bind Num.parse?

end Wp.Pdf
