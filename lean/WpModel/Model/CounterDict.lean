/-
C19 — the caller's `CounterStyle` dictionary across renders: the head of `css/__init__.py::get_all_computed_styles`

  for style in html._ua_counter_style():          # a copy of HTML5_UA_COUNTER_STYLE
      for key, value in style.items(): counter_style[key] = value
  … find_stylesheets / user style sheets: every `@counter-style name {…}` rule does `counter_style[name] = descriptors`

(`doc` below = the rules whose name `counters.py::parse_counter_style_name` accepts: not `none`, and `decimal` / `disc`
only while the dictionary does not hold them — never, once the UA styles are in; name validation itself is C15's.)
`counter_style` is the object given to `HTML.render(counter_style=…)` (a new `CounterStyle()` when `None`): a Python
dict, insertion-ordered, shared by every render the caller hands it to.  Values are opaque tags.  No Mathlib.
-/
import WpModel.Model.Wire

namespace Wp.CounterDict

abbrev Dict := List (String × String)

def dget (d : Dict) (k : String) : Option String :=
  match d with
  | [] => none
  | (k', v) :: rest => if k' = k then some v else dget rest k

/-- `d[k] = v`: an existing key keeps its position. -/
def dset (d : Dict) (k v : String) : Dict :=
  match d with
  | [] => [(k, v)]
  | (k', v') :: rest => if k' = k then (k, v) :: rest else (k', v') :: dset rest k v

/-- successive `d[k] = v` -/
def setAll (d : Dict) : List (String × String) → Dict
  | [] => d
  | (k, v) :: rest => setAll (dset d k v) rest

/-- What one render writes into the dictionary it is given: the UA styles, then the document's rules in order. -/
def renderStyles (ua doc : List (String × String)) (cs : Dict) : Dict := setAll (setAll cs ua) doc

/-- A history of renders sharing one dictionary: the dictionary after each render. -/
def runRenders (ua : List (String × String)) : Dict → List (List (String × String)) → List Dict
  | _, [] => []
  | cs, doc :: rest => renderStyles ua doc cs :: runRenders ua (renderStyles ua doc cs) rest

end Wp.CounterDict
