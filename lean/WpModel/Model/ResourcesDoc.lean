/-
C20 — document-level composition of the resource loaders, in the order of `Document._render` and
`generate_pdf`:

  render:  find_stylesheets (with @import / @font-face → add_font_face interleaved)   [css + font fetches]
           build_formatting_structure (img / embed / object / list-style-image / content: url())
           layout_backgrounds (background-image)                                      [image fetches, one cache]
  write:   per page add_annotations (rel=attachment links, one fetch per distinct target), page.paint
           (drawing an SVG image — referenced by URL, or an inline <svg> element of the document — fetches its
           <image> elements through get_image_from_uri — same cache,
           forced MIME type 'image/*' — and calls the fetcher directly for an external <use>; whatever is
           raised while an SVG is drawn is caught by SVGImage.draw: the rest of that SVG is not drawn)
           metadata attachments (<link rel=attachment>)
           _use_references → get_x_object  (PNG images held as LazyLocalImage are read from disk here)
           pdf.write                       (JPEG images held as LazyLocalImage are read from disk here)

An `<image>` without `href` fetches nothing (799e002).  Fetches made while an SVG is drawn are followed to any depth
(`Model/ResourcesSvg.lean`): an SVG image shown inside an SVG image is drawn with its own references, except when it is
already being drawn (`_drawing` flag, 9598d29).

The first escaping exception ends the stage (and the run).  No Mathlib.
-/
import WpModel.Model.Resources
import WpModel.Model.ResourcesSvg

namespace Wp.Res.Doc
open Wp Wp.Res

inductive ImgKind where
  | img | embed | object | background | listStyle | content | borderImage | maskBorder
  | inlineSvg      -- an `<svg>` element of the HTML document (html.py `handle_svg`): no URL of its own
  deriving Repr, BEq, DecidableEq, Inhabited

/-- A reference to an image in the document, with its *resolved* URL (`none`: attribute missing,
empty, or relative without base URL). -/
structure ImgRef where
  kind : ImgKind
  url : Option String
  alt : Option String            -- `alt` attribute (img only)
  orient : Orient
  forcedMime : Option String     -- `type` attribute of embed / object
  inline : Option Nat := none    -- inline `<svg>`: identity of the element (its `<image>` / `<use>` elements: `svgInfo`)
  deriving Repr, BEq, DecidableEq, Inhabited

structure Document where
  device : String
  styles : List StyleEl
  images : List ImgRef           -- in fetch order (tree order, then backgrounds)
  metaAttachments : List String
  annotAttachments : List String
  fetcher : Fetcher
  opts : Opts
  fs : Fs                        -- the local file system at write time
  svgInfo : List (Nat × List SvgItem) := []   -- content id of an SVG ↦ what drawing it fetches

/-- Replay the stylesheet trace with the real `add_font_face` at every `font` action. -/
def interp (fetcher : Fetcher) :
    FontState → List Act → List Ev × List Nat × List (Option Nat) × Option Exc
  | _, [] => ([], [], [], none)
  | st, .rule i :: rest =>
    let (log, rules, inst, err) := interp fetcher st rest
    (log, i :: rules, inst, err)
  | st, .ev e :: rest =>
    let (log, rules, inst, err) := interp fetcher st rest
    (e :: log, rules, inst, err)
  | st, .font face :: rest =>
    let (st', out) := addFontFace fetcher st face
    match out.err with
    | some e => (out.log, [], [out.installed], some e)
    | none =>
      let (log, rules, inst, err) := interp fetcher st' rest
      (out.log ++ log, rules, out.installed :: inst, err)

/-- Boxes generated for an image reference given what `get_image_from_uri` returned. -/
def refBoxes (r : ImgRef) (image : Option Img) : List BoxOut :=
  match r.kind with
  | .img => handleImg r.url r.alt image
  | .embed => handleEmbed r.url image
  | .object => handleObject r.url image
  | .inlineSvg => [.replaced]        -- `handle_svg`: `[make_replaced_box(element, box, SVGImage(element, base_url, …))]`
  | _ => match image with
    | some _ => [.replaced]
    | none => []

/-- The image stage: every reference with a URL calls `get_image_from_uri` on the shared cache. -/
def runRefs (fetcher : Fetcher) (opts : Opts) :
    Cache → List ImgRef → List Ev × List (List BoxOut) × Cache × Option Exc
  | cache, [] => ([], [], cache, none)
  | cache, r :: rest =>
    match r.url with
    | none =>
      let (log, boxes, c, err) := runRefs fetcher opts cache rest
      (log, refBoxes r none :: boxes, c, err)
    | some u =>
      if u == "" then
        let (log, boxes, c, err) := runRefs fetcher opts cache rest
        (log, refBoxes r none :: boxes, c, err)
      else
        let (cache', evs, out) := getImage cache fetcher opts ⟨u, r.orient, r.forcedMime⟩
        match out with
        | .error e => (evs, [], cache', some e)
        | .ok image =>
          let (log, boxes, c, err) := runRefs fetcher opts cache' rest
          (evs ++ log, refBoxes r image :: boxes, c, err)

/-- Local paths read when the given images are embedded; stops at the first missing file. -/
def readLocal (fs : Fs) : List String → List String × Option Exc
  | [] => ([], none)
  | p :: rest =>
    match fs p with
    | none => ([p], some ⟨"FileNotFoundError", p⟩)
    | some _ =>
      let (ps, err) := readLocal fs rest
      (p :: ps, err)

/-- Distinct `LazyLocalImage` paths of the loaded images of a given format, in cache order. -/
def localPaths (cache : Cache) (fmt : String) : List String :=
  (cache.reverse.filterMap (fun (_, v) => match v with
    | some (.raster f (.lazyLocal p) _) => if f == fmt then some p else none
    | _ => none)).eraseDups

/-- The SVG image shown by a reference (`<img>`, `<embed>`, `<object>`), if any: its content id. -/
def svgOfRef (opts : Opts) (cache : Cache) (r : ImgRef) : Option (String × Nat) :=
  match r.kind, r.url with
  -- an inline `<svg>` is an `SVGImage` of its own, not held by the cache (no cache key has this form: no space)
  | .inlineSvg, _ => r.inline.map (fun c => ("inline-svg", c))
  | _, some u =>
    if u == "" then none
    else match cache.find? (Req.key ⟨u, r.orient, r.forcedMime⟩ opts) with
      | some (some (.svg c)) => some (Req.key ⟨u, r.orient, r.forcedMime⟩ opts, c)
      | _ => none
  | _, none => none

/-- The pass of `draw_stacking_context` in which the image of a reference is painted: backgrounds, border images and
mask borders of the block-level boxes first, then the in-flow inline-level content (replaced boxes, `::before` images,
inline `<svg>`), then the list markers (outside markers are absolutely positioned boxes). -/
def ImgKind.paintPass : ImgKind → Nat
  | .background | .borderImage | .maskBorder => 0
  | .listStyle => 2
  | _ => 1

/-- The references in the order their images are painted (each reference sits in a block of its own, in document order;
`refs` is in fetch order, which keeps the document order inside each pass). -/
def paintOrder (refs : List ImgRef) : List ImgRef :=
  refs.filter (·.kind.paintPass == 0) ++ refs.filter (·.kind.paintPass == 1) ++ refs.filter (·.kind.paintPass == 2)

/-- `page.paint`: every SVG image shown (cache key of the `SVGImage`, content id) is drawn, in document order, with
everything it includes (`Svg.drawObject`; the depth bound is never reached: `Wp.C20.Svg.svg_drawing_terminates`). -/
def paintSvgs (fetcher : Fetcher) (opts : Opts) (info : List (Nat × List SvgItem)) :
    Cache → List (String × Nat) → Cache × List Ev
  | cache, [] => (cache, [])
  | cache, (key, c) :: rest =>
    let (c1, e1, _) := Svg.drawObject fetcher opts info ((Svg.nestedKeys opts info).length + 2) [] cache key c
    let (c2, e2) := paintSvgs fetcher opts info c1 rest
    (c2, e1 ++ e2)

/-- pdf/__init__.py `generate_pdf`: the `/Names /EmbeddedFiles` name tree of the catalog is made only
`if pdf_attachments:` — when at least one attachment was really embedded (`write_pdf_attachment` returned a file
specification, not `None`); it then holds one name per embedded file.  `none`: no name tree in the catalog. -/
def embeddedFilesTree (embedded : List Nat) : Option Nat :=
  if embedded.isEmpty then none else some embedded.length

structure DocOut where
  cssLog : List Ev := []            -- stylesheet and font fetch events, in order
  rules : List Nat := []
  fontLog : List Ev := []           -- (kept empty: font events are interleaved in `cssLog`)
  fontInstalled : List (Option Nat) := []
  imageLog : List Ev := []
  boxes : List (List BoxOut) := []
  render : Except Exc Unit := .ok ()
  attachLog : List Ev := []
  paintLog : List Ev := []          -- fetches made while SVG images are drawn
  embedded : List Nat := []         -- metadata attachments embedded
  annots : List (Option Nat) := []  -- per attachment link: embedded content or none
  opens : List String := []         -- local files read behind the fetcher's back
  write : Except Exc Unit := .ok ()

def run (d : Document) : DocOut :=
  let css := findStylesheets d.device d.styles
  let (log, rules, inst, fontErr) := interp d.fetcher {} css.acts
  let o : DocOut := { cssLog := log, rules := rules, fontInstalled := inst }
  match (match fontErr with | some e => some e | none => css.err) with
  | some e => { o with render := .error e, write := .error e }
  | none =>
    let (ilog, boxes, cache, ierr) := runRefs d.fetcher d.opts [] d.images
    let o := { o with imageLog := ilog, boxes := boxes }
    match ierr with
    | some e => { o with render := .error e, write := .error e }
    | none =>
      -- write_pdf
      match annotAttachments d.fetcher [] d.annotAttachments with
      | (evs, .error e) => { o with attachLog := evs, write := .error e }
      | (evs, .ok annots) =>
        let painted := paintSvgs d.fetcher d.opts d.svgInfo cache ((paintOrder d.images).filterMap (svgOfRef d.opts cache))
        let cache := painted.1
        let o := { o with attachLog := evs, annots := annots, paintLog := painted.2 }
        match metadataAttachments d.fetcher d.metaAttachments with
        | (evs', .error e) => { o with attachLog := evs ++ evs', write := .error e }
        | (evs', .ok embedded) =>
          let o := { o with attachLog := evs ++ evs', embedded := embedded }
          match readLocal d.fs (localPaths cache "PNG") with
          | (ps, some e) => { o with opens := ps, write := .error e }
          | (ps, none) =>
            let (ps', err) := readLocal d.fs (localPaths cache "JPEG")
            { o with opens := ps ++ ps', write := match err with | some e => .error e | none => .ok () }

end Wp.Res.Doc
