/-
C20 — two more places where a failed fetch must stay invisible:

  weasyprint/layout/background.py   `layout_box_backgrounds`: the image list of a multi-layer `background-image`
                                    (a `url()` layer that cannot be loaded stays in the list as `None`) and the
                                    `zip(images, *map(cycle, [size, clip, repeat, origin, position, attachment]))`
                                    that gives every layer its own values; `box.background = None` shortcut
  weasyprint/document.py            `DiskCache` (`__getitem__`, `__setitem__`, `__contains__`), the dict-like used
                                    when the `cache` option is a folder, under `get_image_from_uri`
                                    (`if key in cache: return cache[key]` … `cache[key] = image`)

No Mathlib.
-/
import WpModel.Model.ResourcesDoc

namespace Wp.Res.Bg
open Wp Wp.Res

/-! ## `layout_box_backgrounds` -/

/-- One `(type, value)` entry of the computed `background-image`. -/
inductive BgImage where
  | url (u : Option String)     -- `('url', value)`: the resolved URL
  | noneKw                      -- `('none', None)`
  | gradient (id : Nat)         -- `('linear-gradient' | 'radial-gradient', Gradient)`
  deriving Repr, BEq, DecidableEq, Inhabited

/-- The six per-layer lists of the style, as value identities (`cycle`d by the zip). -/
structure LayerStyle where
  sizes : List Nat
  clips : List Nat
  repeats : List Nat
  origins : List Nat
  positions : List Nat
  attachments : List Nat
  deriving Repr, BEq, DecidableEq, Inhabited

/-- What a layer paints: nothing (`None`: the keyword `none`, or an image that could not be loaded), a fetched
image, a gradient. -/
inductive LayerImg where
  | absent
  | present
  | gradient (id : Nat)
  deriving Repr, BEq, DecidableEq, Inhabited

/-- `bool(image)` in `any(images)`. -/
def LayerImg.truthy : LayerImg → Bool
  | .absent => false
  | _ => true

structure Layer where
  image : LayerImg
  size : Nat
  clip : Nat
  «repeat» : Nat
  origin : Nat
  position : Nat
  attachment : Nat
  deriving Repr, BEq, DecidableEq, Inhabited

/-- The `get_image_from_uri(url=value, orientation=orientation)` call of a layer, as an image reference. -/
def layerRef (orient : Orient) : BgImage → Doc.ImgRef
  | .url u => ⟨.background, u, none, orient, none, none⟩
  | _ => ⟨.background, none, none, orient, none, none⟩

/-- The entry of `images` for a layer, given the boxes `Doc.refBoxes` gives for its reference. -/
def layerImg : BgImage → List BoxOut → LayerImg
  | .gradient id, _ => .gradient id
  | .noneKw, _ => .absent
  | .url _, boxes => if boxes == [.replaced] then .present else .absent

/-- `next(cycle(l))` at step `i` (`none`: the list is empty, the zip yields nothing). -/
def cycleAt (l : List Nat) (i : Nat) : Option Nat := l[i % l.length]?

/-- Layer `i` of `zip(images, cycle(sizes), cycle(clips), …)`. -/
def layerAt (st : LayerStyle) (i : Nat) (img : LayerImg) : Option Layer := do
  pure ⟨img, ← cycleAt st.sizes i, ← cycleAt st.clips i, ← cycleAt st.repeats i, ← cycleAt st.origins i,
        ← cycleAt st.positions i, ← cycleAt st.attachments i⟩

def zipLayersFrom (st : LayerStyle) : Nat → List LayerImg → List Layer
  | _, [] => []
  | i, img :: rest =>
    match layerAt st i img with
    | some layer => layer :: zipLayersFrom st (i + 1) rest
    | Option.none => []          -- an exhausted (empty) iterator ends the zip

def zipLayers (st : LayerStyle) (images : List LayerImg) : List Layer := zipLayersFrom st 0 images

/-- A box as `layout_box_backgrounds` reads it. -/
structure BgBox where
  hidden : Bool            -- `style['visibility'] != 'visible'` (`hidden` or `collapse`: af29a5d)
  transparent : Bool       -- `get_color(style, 'background_color').alpha == 0`
  isPage : Bool            -- `box is page`: "Pages need a background for bleed box"
  orient : Orient          -- `style['image_orientation']`
  images : List BgImage    -- `style['background_image']`
  style : LayerStyle
  deriving Repr, BEq, DecidableEq, Inhabited

def zipImgs : List BgImage → List (List BoxOut) → List LayerImg
  | b :: bs, x :: xs => layerImg b x :: zipImgs bs xs
  | _, _ => []

/-- `layout_box_backgrounds` (background part): the new cache, the fetch events, and `box.background`
(`none`: `box.background = None`; `some layers`) or the exception that escapes. -/
def layoutBackground (fetcher : Fetcher) (opts : Opts) (cache : Cache) (b : BgBox) :
    Cache × List Ev × Except Exc (Option (List Layer)) :=
  if b.hidden then
    -- `images = []`, transparent colour
    (cache, [], .ok (if b.isPage then some [] else Option.none))
  else
    match Doc.runRefs fetcher opts cache (b.images.map (layerRef b.orient)) with
    | (evs, _, cache', some e) => (cache', evs, .error e)
    | (evs, boxes, cache', Option.none) =>
      let imgs := zipImgs b.images boxes
      if b.transparent && !imgs.any LayerImg.truthy && !b.isPage then (cache', evs, .ok Option.none)
      else (cache', evs, .ok (some (zipLayers b.style imgs)))

/-! ## `DiskCache` under `get_image_from_uri` -/

/-- A value stored in the cache: an image (or the `None` of a failed load), or a byte string (`LazyImage` data). -/
inductive CVal where
  | img (v : Option Img)
  | bytes (content : Nat)
  deriving Repr, BEq, DecidableEq, Inhabited

/-- `DiskCache`: `_memory_cache` (non-bytes values) and the keys that have a file in the folder. -/
structure DiskCache where
  memory : List (String × Option Img) := []
  files : List (String × Nat) := []
  deriving Repr, BEq, DecidableEq, Inhabited

/-- `key in cache`: `key in self._memory_cache or self._path_from_key(key).exists()`. -/
def DiskCache.contains (c : DiskCache) (key : String) : Bool :=
  (Cache.find? c.memory key).isSome || (c.files.lookup key).isSome

/-- `cache[key]`: `if key in self._memory_cache: return self._memory_cache[key]` else read the file. -/
def DiskCache.get (c : DiskCache) (key : String) : Except Exc CVal :=
  match Cache.find? c.memory key with
  | some v => .ok (.img v)
  | Option.none =>
    match c.files.lookup key with
    | some content => .ok (.bytes content)
    | Option.none => .error ⟨"FileNotFoundError", key⟩

/-- `cache[key] = value`: bytes go to disk, anything else to memory. -/
def DiskCache.set (c : DiskCache) (key : String) : CVal → DiskCache
  | .bytes content => { c with files := (key, content) :: c.files }
  | .img v => { c with memory := (key, v) :: c.memory }

/-- `get_image_from_uri` on a `DiskCache` (same code, other container). -/
def getImageDisk (cache : DiskCache) (fetcher : Fetcher) (opts : Opts) (req : Req) :
    DiskCache × List Ev × Except Exc CVal :=
  if cache.contains (req.key opts) then
    match cache.get (req.key opts) with
    | .ok v => (cache, [], .ok v)
    | .error e => (cache, [], .error e)
  else
    let (evs, fetched) := fetch (fetcher req.url) req.url (imageBody req)
    let outcome : Except Exc Img := match fetched with
      | .error e => .error e
      | .ok (filename, content, mime) => decideImage req opts filename content mime
    match outcome with
    | .ok img => (cache.set (req.key opts) (.img (some img)), evs, .ok (.img (some img)))
    | .error e =>
      if e.isUrlFetching || e.isImageLoading then (cache.set (req.key opts) (.img Option.none), evs, .ok (.img Option.none))
      else (cache, evs, .error e)

def runImagesDisk (fetcher : Fetcher) :
    DiskCache → List (Opts × Req) → List (List Ev × Except Exc CVal) × DiskCache
  | cache, [] => ([], cache)
  | cache, (opts, req) :: rest =>
    let (cache', evs, out) := getImageDisk cache fetcher opts req
    let (outs, final) := runImagesDisk fetcher cache' rest
    ((evs, out) :: outs, final)

end Wp.Res.Bg
