/-
C09, vertical half — "consecutive lines are stacked by line-height without gaps or overlaps":
`css/computed_values.py::strut_layout`, the height / margin / baseline assignments at the end of
`split_text_box` and `split_inline_box` (half-leading), and `layout/inline.py::line_box_verticality`,
`aligned_subtree_verticality`, `inline_box_verticality`, `translate_subtree`, with the final part of
`get_next_linebox` (`line.baseline`, `line.height`, translation to `position_y`), for a line box
holding text boxes and inline boxes with any `font-size`, `line-height`, `vertical-align`, vertical
border / padding.

Pango's metrics (height and baseline of a line of text at a font size, the ex ratio of
`character_ratio`) are inputs (`VStyle.textHeight`, `textBaseline`, `ex`): assumed component.
Mirrors the code: `translate_subtree` moves a `top` / `bottom` aligned inline box with its whole
subtree, except the nested `top` / `bottom` boxes, which are subtrees of their own (fix 5152049).
No Mathlib: linked into the driver.
-/
import WpModel.Model.Wire

namespace Wp.LV
open Wp

inductive VAlign where
  | baseline | middle | textTop | textBottom | top | bottom
  /-- a length (`sub`, `super`, percentages and lengths are computed to px) -/
  | len (q : Rat)
  deriving Repr, DecidableEq, Inhabited

def VAlign.isTopBottom : VAlign → Bool
  | .top => true
  | .bottom => true
  | _ => false

inductive LineHeight where
  | normal
  | px (q : Rat)
  | num (q : Rat)
  deriving Repr, DecidableEq, Inhabited

/-- what the vertical layout reads of a box's style and used values -/
structure VStyle where
  fs : Rat
  lh : LineHeight
  va : VAlign
  /-- used border-top, padding-top, padding-bottom, border-bottom widths -/
  bt : Rat
  pt : Rat
  pb : Rat
  bb : Rat
  /-- Pango: logical height and baseline of a line of text in this font -/
  textHeight : Rat
  textBaseline : Rat
  /-- `character_ratio(style, 'x')` -/
  ex : Rat
  deriving Repr, Inhabited

/-- the tree of a line box after `split_inline_box`, before vertical placement -/
inductive VNode where
  | text (st : VStyle)
  | box (st : VStyle) (kids : List VNode)
  deriving Repr, Inhabited

/-- `strut_layout(style)` → (used line-height, baseline from the top of the line-height) -/
def strutLayout (st : VStyle) : Rat × Rat :=
  if st.fs = 0 then (0, 0) else
  match st.lh with
  | .normal => (st.textHeight, st.textBaseline)
  | .px q => (q, st.textBaseline + (q - st.textHeight) / 2)
  | .num q => (q * st.fs, st.textBaseline + (q * st.fs - st.textHeight) / 2)

/-- a placed box: `position_y`, `height`, `margin_top`, `margin_bottom`, `baseline`, and for inline
boxes the vertical border / padding, the style bits read again later, the children -/
inductive VBox where
  | text (y h mt mb base : Rat) (va : VAlign)
  | box (y h mt mb base : Rat) (st : VStyle) (kids : List VBox)
  deriving Repr, Inhabited

def VBox.y : VBox → Rat
  | .text y _ _ _ _ _ => y
  | .box y _ _ _ _ _ _ => y

def VBox.base : VBox → Rat
  | .text _ _ _ _ b _ => b
  | .box _ _ _ _ b _ _ => b

def VBox.va : VBox → VAlign
  | .text _ _ _ _ _ va => va
  | .box _ _ _ _ _ st _ => st.va

/-- `margin_height()` -/
def VBox.marginHeight : VBox → Rat
  | .text _ h mt mb _ _ => h + mt + mb
  | .box _ h mt mb _ st _ => h + mt + mb + st.bt + st.pt + st.pb + st.bb

def VBox.setY (y : Rat) : VBox → VBox
  | .text _ h mt mb b va => .text y h mt mb b va
  | .box _ h mt mb b st kids => .box y h mt mb b st kids

mutual
/-- the end of `split_text_box` / `split_inline_box`: height, half-leading margins, baseline -/
def build : VNode → VBox
  | .text st =>
    let lh := (strutLayout st).1
    let half := (lh - st.textHeight) / 2
    .text 0 st.textHeight half half (st.textBaseline + half) st.va
  | .box st kids =>
    let sl := strutLayout st
    let half := (sl.1 - st.fs) / 2
    .box 0 st.fs (half - st.bt - st.pt) (half - st.bb - st.pb) sl.2 st (buildL kids)
def buildL : List VNode → List VBox
  | [] => []
  | n :: ns => build n :: buildL ns
end

/-- running (max_y, min_y); `none` = no box seen yet -/
abbrev Ext := Option (Rat × Rat)

def Ext.add (e : Ext) (top bottom : Rat) : Ext :=
  match e with
  | none => some (bottom, top)
  | some (mx, mn) => some (if bottom > mx then bottom else mx, if top < mn then top else mn)

def Ext.merge (e : Ext) (o : Ext) : Ext :=
  match o with
  | none => e
  | some (mx, mn) => e.add mn mx

/-- extents `max_y − min_y` of the `top` / `bottom` subtrees met (`sub_positions`) -/
abbrev Pending := List Rat

/-- the baseline of a child in `inline_box_verticality`, from its `vertical-align` -/
def childBaseline (pst : VStyle) (pbase pmt baselineY : Rat) (va : VAlign) (cMarginHeight cBase : Rat) : Rat :=
  match va with
  | .baseline => baselineY
  | .middle =>
    let oneEx := pst.fs * pst.ex
    baselineY - (oneEx + cMarginHeight) / 2 + cBase
  | .textTop => baselineY - pbase + pmt + pst.bt + pst.pt + cBase
  | .textBottom => baselineY - pbase + pmt + pst.bt + pst.pt + pst.fs - cMarginHeight + cBase
  | .top => 0
  | .bottom => 0
  | .len q => baselineY - q

mutual
/-- one child in `inline_box_verticality(box, top_bottom_subtrees, baseline_y)`; a `top` / `bottom`
child is laid out at once around its own baseline 0
(`aligned_subtree_verticality(subtree, …, baseline_y=0)` of the later pass) and its extent recorded. -/
def placeOne (pst : VStyle) (pbase pmt baselineY : Rat) : VBox → VBox × Ext × Pending
  | .text _ h mt mb b va =>
    let cby := childBaseline pst pbase pmt baselineY va (h + mt + mb) b
    let top := cby - b
    if va.isTopBottom then
      (.text top h mt mb b va, none, [h + mt + mb])
    else (.text top h mt mb b va, Ext.add none top (top + (h + mt + mb)), [])
  | .box _ h mt mb b st kids =>
    let mh := h + mt + mb + st.bt + st.pt + st.pb + st.bb
    let cby := childBaseline pst pbase pmt baselineY st.va mh b
    let top := cby - b
    if st.va.isTopBottom then
      let inner := placeKids st b mt 0 kids
      let sub := inner.2.1.add (0 - b) (0 - b + mh)
      (.box top h mt mb b st inner.1, none, (match sub with
        | some (mx, mn) => [mx - mn]
        | none => []) ++ inner.2.2)
    else
      let inner := placeKids st b mt cby kids
      (.box top h mt mb b st inner.1, (Ext.add none top (top + mh)).merge inner.2.1, inner.2.2)
/-- the `for child in box.children` loop -/
def placeKids (pst : VStyle) (pbase pmt baselineY : Rat) : List VBox → List VBox × Ext × Pending
  | [] => ([], none, [])
  | c :: cs =>
    let one := placeOne pst pbase pmt baselineY c
    let rest := placeKids pst pbase pmt baselineY cs
    (one.1 :: rest.1, one.2.1.merge rest.2.1, one.2.2 ++ rest.2.2)
end

/-- `aligned_subtree_verticality(box, top_bottom_subtrees, baseline_y)`: the children, then the
strut of the box itself -/
def placeSub (b : VBox) (baselineY : Rat) : VBox × Ext × Pending :=
  match b with
  | .box y h mt mb base st kids =>
    let inner := placeKids st base mt baselineY kids
    let top := baselineY - base
    let bottom := top + (VBox.box y h mt mb base st kids).marginHeight
    (.box y h mt mb base st inner.1, inner.2.1.add top bottom, inner.2.2)
  | t =>
    let top := baselineY - t.base
    (t, Ext.add none top (top + t.marginHeight), [])

mutual
/-- the part of `inline_box_verticality`'s (max_y, min_y) a placed child contributes: its margin box
and, for an inline box, its children's (a `top` / `bottom` child inside does not count, it is a
subtree of its own) -/
def extentChild : VBox → Ext
  | .text y h mt mb _ _ => Ext.add none y (y + h + mt + mb)
  | .box y h mt mb _ st kids =>
    (Ext.add none y (y + h + mt + mb + st.bt + st.pt + st.pb + st.bb)).merge (extentKids kids)
def extentKids : List VBox → Ext
  | [] => none
  | k :: ks => if k.va.isTopBottom then extentKids ks else (extentChild k).merge (extentKids ks)
end

/-- `(sub_max_y, sub_min_y)` of a placed `top` / `bottom` subtree: the extent of
`aligned_subtree_verticality(subtree, …, 0)`, read back from the placed boxes -/
def extentOf : VBox → Ext
  | .text y h mt mb _ _ => Ext.add none y (y + h + mt + mb)
  | .box y h mt mb b st kids =>
    (extentKids kids).add (0 - b) (0 - b + (VBox.box y h mt mb b st kids).marginHeight)

/-- the `dy` of `line_box_verticality` for a `top` / `bottom` subtree: `min_y - sub_min_y` (`top`) or
`max_y - sub_max_y` (`bottom`); its extent is recomputed from its placed boxes -/
def ownDy (minY maxY : Rat) (b : VBox) : Rat :=
  match extentOf b with
  | some (mx, mn) => if b.va = .top then minY - mn else maxY - mx
  | none => 0

mutual
/-- `translate_subtree` of every `top` / `bottom` subtree, all at once (since fix 5152049: the whole
subtree is moved, except the nested `top` / `bottom` subtrees, which are aligned on their own).
`carried` is the `dy` of the nearest enclosing `top` / `bottom` subtree (0 outside any). -/
def shift (minY maxY : Rat) (carried : Rat) : VBox → VBox
  | .text y h mt mb b va =>
    let dy := if va.isTopBottom then ownDy minY maxY (.text y h mt mb b va) else carried
    .text (y + dy) h mt mb b va
  | .box y h mt mb b st kids =>
    let dy := if st.va.isTopBottom then ownDy minY maxY (.box y h mt mb b st kids) else carried
    .box (y + dy) h mt mb b st (shiftL minY maxY dy kids)
def shiftL (minY maxY : Rat) (carried : Rat) : List VBox → List VBox
  | [] => []
  | k :: ks => shift minY maxY carried k :: shiftL minY maxY carried ks
end

mutual
def translateY (dy : Rat) : VBox → VBox
  | .text y h mt mb b va => .text (y + dy) h mt mb b va
  | .box y h mt mb b st kids => .box (y + dy) h mt mb b st (translateYL dy kids)
def translateYL (dy : Rat) : List VBox → List VBox
  | [] => []
  | k :: ks => translateY dy k :: translateYL dy ks
end

/-- a laid-out line: `position_y`, `height`, `baseline`, children -/
structure VLine where
  y : Rat
  height : Rat
  baseline : Rat
  kids : List VBox
  deriving Repr

/-- `line_box_verticality(line)` and the end of `get_next_linebox`.  `lineSt`: style of the line box
(the block's), `positionY`: where the line goes. -/
def layoutLine (lineSt : VStyle) (kids : List VNode) (positionY : Rat) : Except PyErr VLine :=
  let line := build (.box { lineSt with bt := 0, pt := 0, pb := 0, bb := 0 } kids)
  let placed := placeSub line 0
  match placed.2.1 with
  | none => .error (.assertFailed "top is not None")
  | some (mx0, mn) =>
    -- top / bottom subtrees may make the line higher
    let mx := placed.2.2.foldl (fun m e => if mn + e > m then mn + e else m) mx0
    match placed.1 with
    | .box _ _ _ _ _ _ placedKids =>
      let shifted := shiftL mn mx 0 placedKids
      let offsetY := positionY - mn
      .ok { y := positionY, height := mx - mn, baseline := 0 - mn, kids := translateYL offsetY shifted }
    | _ => .error (.assertFailed "line box")

end Wp.LV
