/-
C17 — the transformation matrix of a box (`anchors.py gather_anchors`, `matrix.py Matrix`), which
`draw_stacking_context` applies to the whole subtree and whose determinant decides the early return.

  Matrix.__matmul__ / determinant / transform_point / values  ↔ `M.mul` / `M.det` / `M.apply`
  the `transform` loop of gather_anchors                      ↔ `fnMatrix`, `transformationMatrix`

`rotate` and `skew` go through `math.cos / sin / tan` and are represented by the linear map they
produce (`linear`), so that the composition is modelled exactly.  No Mathlib.
-/
import WpModel.Model.RoundedBox

namespace Wp.Transform
open Wp Wp.Rounded

/-- `Matrix(a, b, c, d, e, f)` = `[[a, b, 0], [c, d, 0], [e, f, 1]]`. -/
structure M where
  a : Rat := 1
  b : Rat := 0
  c : Rat := 0
  d : Rat := 1
  e : Rat := 0
  f : Rat := 0
  deriving Repr, DecidableEq, Inhabited

/-- `p @ q`. -/
def M.mul (p q : M) : M :=
  { a := p.a * q.a + p.b * q.c, b := p.a * q.b + p.b * q.d,
    c := p.c * q.a + p.d * q.c, d := p.c * q.b + p.d * q.d,
    e := p.e * q.a + p.f * q.c + q.e, f := p.e * q.b + p.f * q.d + q.f }

/-- `Matrix.determinant` (third column is (0, 0, 1)). -/
def M.det (m : M) : Rat := m.a * m.d - m.c * m.b

/-- `Matrix.transform_point(x, y)`. -/
def M.apply (m : M) (x y : Rat) : Rat × Rat := (x * m.a + y * m.c + m.e, x * m.b + y * m.d + m.f)

def M.translation (x y : Rat) : M := { e := x, f := y }

/-- One function of the computed `transform` list. -/
inductive Fn where
  | scale (sx sy : Rat)
  | translate (x y : Dim)
  | matrix (a b c d e f : Rat)
  | linear (a b c d : Rat)          -- what rotate / skew produce
  deriving Repr, DecidableEq, Inhabited

/-- The matrix of one function; translations in % refer to the border box. -/
def fnMatrix (bw bh : Rat) : Fn → M
  | .scale sx sy => { a := sx, d := sy }
  | .translate x y => { e := percentage x bw, f := percentage y bh }
  | .matrix a b c d e f => { a := a, b := b, c := c, d := d, e := e, f := f }
  | .linear a b c d => { a := a, b := b, c := c, d := d }

/-- `box.transformation_matrix` as computed by `gather_anchors`: move the origin to the
transform-origin, apply the functions (each new one on the left), move back. -/
def transformationMatrix (bbx bby bw bh : Rat) (ox oy : Dim) (fns : List Fn) : M :=
  let originX := bbx + percentage ox bw
  let originY := bby + percentage oy bh
  let m := fns.foldl (fun m fn => (fnMatrix bw bh fn).mul m) (M.translation originX originY)
  (M.translation (-originX) (-originY)).mul m

end Wp.Transform
