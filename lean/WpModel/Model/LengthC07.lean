/-
C07 — absolute and font-relative length units.  Mirrors `weasyprint/css/computed_values.py` `length`
(the computer of width, margins, paddings, …) over the unit table regenerated from
`weasyprint/css/utils.py` `LENGTHS_TO_PIXELS` (Gen/UnitsC07).
No Mathlib, no Std: linked into the driver.
-/
import WpModel.Model.Wire
import WpModel.Gen.UnitsC07

namespace Wp.Len07
open Wp

/-- A specified value reaching `length`: one of the keywords the function passes through, or a
`Dimension(value, unit)` (`unit = none` for the unitless zero, `some "%"` for percentages). -/
inductive Spec where
  | keyword (s : String)
  | dim (value : Rat) (unit : Option String)
  deriving Repr, BEq, DecidableEq

/-- What `length` returns: a keyword, a bare number (`pixels_only`), or a `Dimension`. -/
inductive Computed where
  | keyword (s : String)
  | number (q : Rat)
  | dim (value : Rat) (unit : Option String)
  deriving Repr, BEq, DecidableEq

/-- The font context `length` reads: `style['font_size']` (or the `font_size` argument),
`style.root_style['font_size']`, `character_ratio(style, 'x')`, `character_ratio(style, '0')`. -/
structure FontCtx where
  fontSize : Rat
  rootFontSize : Rat
  exRatio : Rat
  chRatio : Rat

/-- `LENGTHS_TO_PIXELS[unit]` on the generated table. -/
def factor (unit : String) : Option Rat := Gen.UnitsC07.lengthsToPixels.lookup unit

/-- `length(style, name, value, font_size, pixels_only)`. -/
def length (ctx : FontCtx) (pixelsOnly : Bool) : Spec → Computed
  | .keyword s => .keyword s                       -- 'auto', 'content', 'from-font'
  | .dim value unit =>
    if value == 0 then (if pixelsOnly then .number 0 else .dim 0 (some "px"))   -- ZERO_PIXELS
    else
      let finish (result : Rat) : Computed := if pixelsOnly then .number result else .dim result (some "px")
      match unit with
      | none => .dim value unit
      | some u =>
        if u == "px" then (if pixelsOnly then .number value else .dim value unit)
        else match factor u with
          | some k => finish (value * k)
          | none =>
            if u == "ex" then finish (value * ctx.fontSize * ctx.exRatio)
            else if u == "ch" then finish (value * ctx.fontSize * ctx.chRatio)
            else if u == "em" then finish (value * ctx.fontSize)
            else if u == "rem" then finish (value * ctx.rootFontSize)
            else .dim value unit                   -- a percentage: no conversion
 
/-! ### `get_length`: which tokens are lengths -/

/-- A tinycss2 token as `get_length` reads it. -/
inductive LTok where
  | number (value : Rat)
  | dimension (value : Rat) (unit lowerUnit : String)   -- `token.unit` as written, `token.lower_unit`
  | percentage (value : Rat)
  | other
  deriving Repr, BEq, DecidableEq

/-- `LENGTH_UNITS = set(LENGTHS_TO_PIXELS) | {'ex', 'em', 'ch', 'rem'}` (generated). -/
def lengthUnits : List String :=
  Gen.UnitsC07.lengthsToPixels.map Prod.fst ++ Gen.UnitsC07.relativeUnits

/-- `get_length(token, negative, percentage)`: the unit is compared **as written** (case-sensitive) and is the
one carried by the returned `Dimension`. -/
def getLength (negative percentage : Bool) (t : LTok) : Option Spec :=
  match t with
  | .percentage v =>
    if percentage && (negative || v ≥ 0) then some (.dim v (some "%")) else none
  | .dimension v u _ =>
    if lengthUnits.contains u && (negative || v ≥ 0) then some (.dim v (some u)) else none
  | .number v => if v == 0 then some (.dim 0 none) else none
  | .other => none

/-- Pixels of an absolute length (`none` for units outside the table). -/
def toPx (value : Rat) (unit : String) : Option Rat := (factor unit).map (value * ·)

end Wp.Len07
