/-
Mirror of `weasyprint/matrix.py` (`Matrix`, `__matmul__`, `transform_point`) restricted to affine
matrices (third column `(0, 0, 1)`, which is what `Matrix(a, b, c, d, e, f)` builds and what `@`
preserves), and of `weasyprint/anchors.py`: `rectangle_aabb`, `gather_anchors`.

`gather_anchors` is modelled on the rational fragment of `transform` (scale / translate / matrix;
`rotate` and `skew` go through `math.cos/sin/tan` and have no exact rational image) and without the
form-input branch (`is_input()` is false for every box of the fragment).
No Mathlib: linked into the driver.
-/
import WpModel.Model.Wire

namespace Wp.Anchors
open Wp

/-- `Matrix(a, b, c, d, e, f)` = `[[a, b, 0], [c, d, 0], [e, f, 1]]`. -/
structure Matrix where
  a : Rat := 1
  b : Rat := 0
  c : Rat := 0
  d : Rat := 1
  e : Rat := 0
  f : Rat := 0
  deriving Repr, BEq, DecidableEq

/-- `self @ other` (row-vector convention: a point is transformed by `self` first, then `other`). -/
def Matrix.mul (m n : Matrix) : Matrix :=
  { a := m.a * n.a + m.b * n.c, b := m.a * n.b + m.b * n.d
    c := m.c * n.a + m.d * n.c, d := m.c * n.b + m.d * n.d
    e := m.e * n.a + m.f * n.c + n.e, f := m.e * n.b + m.f * n.d + n.f }

/-- `matrix.transform_point(x, y)` = first two entries of `[x, y, 1] @ matrix`. -/
def Matrix.transformPoint (m : Matrix) (x y : Rat) : Rat × Rat :=
  (x * m.a + y * m.c + m.e, x * m.b + y * m.d + m.f)

def min4 (a b c d : Rat) : Rat := min (min (min a b) c) d
def max4 (a b c d : Rat) : Rat := max (max (max a b) c) d

structure Rect where
  x1 : Rat
  y1 : Rat
  x2 : Rat
  y2 : Rat
  deriving Repr, BEq, DecidableEq

/-- `rectangle_aabb(matrix, pos_x, pos_y, width, height)`; `matrix = None` is `none`
(a `Matrix` object is a non-empty list and therefore always truthy). -/
def rectangleAabb (m : Option Matrix) (x y w h : Rat) : Rect :=
  match m with
  | none => ⟨x, y, x + w, y + h⟩
  | some m =>
    let p1 := m.transformPoint x y
    let p2 := m.transformPoint (x + w) y
    let p3 := m.transformPoint x (y + h)
    let p4 := m.transformPoint (x + w) (y + h)
    ⟨min4 p1.1 p2.1 p3.1 p4.1, min4 p1.2 p2.2 p3.2 p4.2,
     max4 p1.1 p2.1 p3.1 p4.1, max4 p1.2 p2.2 p3.2 p4.2⟩

/-- A computed `<length-percentage>` (`Dimension(value, unit)`, unit `px` or `%`). -/
inductive Dim where
  | px (v : Rat)
  | pct (v : Rat)
  deriving Repr, BEq, DecidableEq

/-- `percentage(value, refer_to)` for a non-auto value. -/
def percentage (v : Dim) (referTo : Rat) : Rat :=
  match v with
  | .px q => q
  | .pct q => referTo * q / 100

/-- One entry of the computed `transform` list (rational fragment). -/
inductive TOp where
  | scale (sx sy : Rat)
  | translate (tx ty : Dim)
  | matrix (a b c d e f : Rat)
  deriving Repr, BEq, DecidableEq

/-- The class tests `gather_anchors` makes: `InlineBox` (no transform), `TextBox`/`LineBox` (no link). -/
inductive Kind where
  | inline | text | line | other
  deriving Repr, BEq, DecidableEq

/-- What `gather_anchors` reads from one box. -/
inductive GBox where
  | mk (kind : Kind)
       (transform : List TOp) (originX originY : Dim)
       (bx bY bw bh : Rat)                     -- border box x, y, width, height
       (hx hy hw hh : Rat)                     -- hit_area()
       (label : String)                        -- bookmark_label ('' and None are both falsy)
       (level : Option Int)                    -- style['bookmark_level'], 'none' = none
       (state : String)
       (link : Option (String × String))       -- style['link'] = ('url', (type, target))
       (isAttachment : Bool)                   -- box.is_attachment()
       (anchor : Option String)                -- style['anchor'] (None and '' are falsy)
       (children : List GBox)
  deriving Repr

structure Link where
  type : String
  target : String
  rect : Rect
  deriving Repr, BEq, DecidableEq

structure Bookmark where
  level : Int
  label : String
  x : Rat
  y : Rat
  state : String
  deriving Repr, BEq, DecidableEq

structure AnchorEntry where
  name : String
  rect : Rect
  deriving Repr, BEq, DecidableEq

/-- The three containers `gather_anchors` fills (`anchors` is an insertion-ordered dict). -/
structure Acc where
  anchors : List AnchorEntry := []
  links : List Link := []
  bookmarks : List Bookmark := []
  deriving Repr

/-- The loop `for name, args in box.style['transform']: … matrix = Matrix(a, …, f) @ matrix`. -/
def applyOps (bw bh : Rat) : List TOp → Matrix → Matrix
  | [], m => m
  | op :: rest, m =>
    let step : Matrix := match op with
      | .scale sx sy => { a := sx, d := sy }
      | .translate tx ty => { e := percentage tx bw, f := percentage ty bh }
      | .matrix a b c d e f => ⟨a, b, c, d, e, f⟩
    applyOps bw bh rest (step.mul m)

/-- `box.transformation_matrix` of a transformed box. -/
def boxMatrix (transform : List TOp) (ox oy : Dim) (bx bY bw bh : Rat) : Matrix :=
  let originX := bx + percentage ox bw
  let originY := bY + percentage oy bh
  let m := applyOps bw bh transform { e := originX, f := originY }
  (({ e := -originX, f := -originY } : Matrix)).mul m

def hasName (name : String) : List AnchorEntry → Bool
  | [] => false
  | a :: rest => a.name == name || hasName name rest

/-- The matrix in force for a box and its descendants. -/
def matrixFor (kind : Kind) (transform : List TOp) (ox oy : Dim) (bx bY bw bh : Rat)
    (parent : Option Matrix) : Option Matrix :=
  if !transform.isEmpty && kind != .inline then
    let tm := boxMatrix transform ox oy bx bY bw bh
    match parent with
    | some p => some (tm.mul p)
    | none => some tm
  else parent

/-- `has_bookmark = bookmark_label and bookmark_level` (`'none'` has become `None`; 0 is falsy). -/
def hasBookmark (label : String) (level : Option Int) : Bool :=
  label != "" && (match level with | none => false | some l => l != 0)

/-- `has_link = link and not isinstance(box, (boxes.TextBox, boxes.LineBox))`. -/
def hasLink (kind : Kind) (link : Option (String × String)) : Bool :=
  link.isSome && kind != .text && kind != .line

/-- `has_anchor = anchor_name and anchor_name not in anchors`. -/
def hasAnchor (anchor : Option String) (anchors : List AnchorEntry) : Bool :=
  match anchor with
  | none => false
  | some n => n != "" && !hasName n anchors

/-- `if has_link: … links.append((link_type, target, rectangle, box))`. -/
def linkStep (kind : Kind) (hx hy hw hh : Rat) (link : Option (String × String)) (isAttachment : Bool)
    (m : Option Matrix) (acc : Acc) : Acc :=
  if hasLink kind link then
    match link with
    | some (ty, target) =>
      let rect := rectangleAabb m hx hy hw hh
      let ty := if ty == "external" && isAttachment then "attachment" else ty
      { acc with links := acc.links ++ [⟨ty, target, rect⟩] }
    | none => acc
  else acc

/-- `bookmark_x, bookmark_y = pos_x, pos_y; if matrix: bookmark_x, bookmark_y = matrix.transform_point(pos_x, pos_y)`
(fresh variables: `pos_x, pos_y` stay the hit-area corner for the anchor branch). -/
def bookmarkPos (m : Option Matrix) (hx hy : Rat) : Rat × Rat :=
  match m with
  | some mm => mm.transformPoint hx hy
  | none => (hx, hy)

/-- `bookmarks.append((bookmark_level, bookmark_label, (pos_x, pos_y), state))`. -/
def bookmarkStep (label : String) (level : Option Int) (state : String) (pos : Rat × Rat) (acc : Acc) : Acc :=
  if hasBookmark label level then
    match level with
    | some l => { acc with bookmarks := acc.bookmarks ++ [⟨l, label, pos.1, pos.2, state⟩] }
    | none => acc
  else acc

/-- `if has_anchor: pos_x1, … = pos_x, pos_y, pos_x + width, pos_y + height; if matrix: …` -/
def anchorStep (anchor : Option String) (m : Option Matrix) (pos : Rat × Rat) (hw hh : Rat) (acc : Acc) : Acc :=
  if hasAnchor anchor acc.anchors then
    match anchor with
    | some n =>
      let p1 := match m with
        | some mm => mm.transformPoint pos.1 pos.2
        | none => pos
      let p2 := match m with
        | some mm => mm.transformPoint (pos.1 + hw) (pos.2 + hh)
        | none => (pos.1 + hw, pos.2 + hh)
      { acc with anchors := acc.anchors ++ [⟨n, ⟨p1.1, p1.2, p2.1, p2.2⟩⟩] }
    | none => acc
  else acc

/-- The body of `gather_anchors` for one box (everything before the recursion on children). -/
def visit (kind : Kind) (hx hy hw hh : Rat) (label : String) (level : Option Int) (state : String)
    (link : Option (String × String)) (isAttachment : Bool) (anchor : Option String)
    (m : Option Matrix) (acc : Acc) : Acc :=
  anchorStep anchor m (hx, hy) hw hh
    (bookmarkStep label level state (bookmarkPos m hx hy) (linkStep kind hx hy hw hh link isAttachment m acc))

mutual
/-- `gather_anchors(box, anchors, links, bookmarks, forms, parent_matrix)`. -/
def gather : GBox → Option Matrix → Acc → Acc
  | .mk kind transform ox oy bx bY bw bh hx hy hw hh label level state link att anchor kids,
    parent, acc =>
    let m := matrixFor kind transform ox oy bx bY bw bh parent
    let acc := visit kind hx hy hw hh label level state link att anchor m acc
    gatherList kids m acc
/-- `for child in box.all_children(): gather_anchors(child, …, matrix, …)`. -/
def gatherList : List GBox → Option Matrix → Acc → Acc
  | [], _, acc => acc
  | b :: rest, m, acc => gatherList rest m (gather b m acc)
end

/-- `Page.__init__`: fresh containers, no parent matrix. -/
def gatherPage (root : GBox) : Acc := gather root none {}

/-- `add_links`: the rectangle of a link annotation / the `/XYZ` point of a named destination, for the
page matrix built by `generate_pdf` (`Matrix(scale, 0, 0, -scale, 0, page.height * scale)`). -/
def pageMatrix (scale height : Rat) : Matrix := ⟨scale, 0, 0, -scale, 0, height * scale⟩

def annotRect (m : Matrix) (r : Rect) : Rect :=
  let p1 := m.transformPoint r.x1 r.y1
  let p2 := m.transformPoint r.x2 r.y2
  ⟨p1.1, p1.2, p2.1, p2.2⟩

end Wp.Anchors
