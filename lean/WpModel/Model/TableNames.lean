/-
Named pages around a table (C04 / css-page-3 "page" property), from the elements as written to the page names the
layout uses:

  * the computed `page` (weasyprint/css/__init__.py, `key == 'page' and value == 'auto'`): `auto` takes the parent's
    value (`""` on the root);
  * the box tree: a paragraph / empty block is a leaf; the table wrapper is anonymous (its `page` is the table
    element's), its children are the top captions, the table box - where `TableBox.page_values` stops the descent, so
    the names written on row groups, rows and cells are never read - and the bottom captions;
  * `page_values` / `block_level_page_name` (`TableBreaks.pageValues`, `pageNameBetween`, tied to the real functions by
    the section page-values);
  * `block_container_layout` (layout/block.py): `force_break = page_name or force_page_break(...)`, and on a forced
    break `next_page['page'] = child.page_values()[0]`, which `make_page` gives to the page type.

No Mathlib: linked into `driver_c04`.
-/
import WpModel.Model.TableBreaks

namespace Wp.TableNames
open Wp Wp.TableBreaks

/-- Elements with the `page` value as written (`""` = auto). -/
inductive NElem where
  | block (page : String) (kids : List NElem)
  | para (page : String)
  | table (page : String) (topCaptions bottomCaptions : List String)
  deriving Repr, Inhabited

/-- Computed value: `auto` inherits. -/
def used (declared inherited : String) : String := if declared.isEmpty then inherited else declared

def leafP (page : String) : PBox := .mk false true page []

mutual
def toP (inherited : String) : NElem → PBox
  | .block p kids => .mk false true (used p inherited) (toPs (used p inherited) kids)
  | .para p => leafP (used p inherited)
  | .table p tops bottoms =>
    let u := used p inherited
    .mk false true u (tops.map (fun c => leafP (used c u)) ++ [PBox.mk true true u []] ++
      bottoms.map (fun c => leafP (used c u)))
def toPs (inherited : String) : List NElem → List PBox
  | [] => []
  | e :: rest => toP inherited e :: toPs inherited rest
end

/-- The table box inside the wrapper of a table element. -/
def tableP (inherited p : String) : PBox := .mk true true (used p inherited) []

/-- The four places where the layout of [previous][table][next] asks `block_level_page_name`: before the table,
between the last top caption and the table box, between the table box and the first bottom caption, after the
table.  `none` where there is no such boundary. -/
def nameBoundaries (inherited : String) (prev : NElem) (p : String) (tops bottoms : List String) (next : NElem) :
    List (Option (PBox × PBox)) :=
  let u := used p inherited
  let w := toP inherited (.table p tops bottoms)
  [some (toP inherited prev, w),
   (tops.getLast?).map (fun c => (leafP (used c u), tableP inherited p)),
   (bottoms.head?).map (fun c => (tableP inherited p, leafP (used c u))),
   some (w, toP inherited next)]

/-- What was observed at one boundary of the rendered document. -/
structure NameObs where
  pageA : Nat            -- page of the last word before the boundary
  pageB : Nat            -- page of the first word after it
  nameB : String         -- name of the page type of page B
  deriving Repr, Inhabited

/-- A change to a non-empty name starts a new page of that name; a new page started at the boundary for any reason
(`fresh`: B's first word is the first content of its page and A is on an earlier page) has the start name of what
follows.  (A change to the empty name starts no page: known finding named-to-unnamed-no-break, not judged here.) -/
def nameOk (ab : PBox × PBox) (o : NameObs) (fresh : Bool) : Bool :=
  match pageNameBetween ab.1 ab.2 with
  | some n => if n.isEmpty then true else decide (o.pageA < o.pageB) && o.nameB == n
  | none => if fresh && decide (o.pageA < o.pageB) then o.nameB == (pageValues ab.2).1 else true

def namesBad (bs : List (Option (PBox × PBox))) (os : List (Option (NameObs × Bool))) : List Nat :=
  ((bs.zip os).zipIdx.filter (fun (bo, _) =>
    match bo with
    | (some ab, some (o, fresh)) => !nameOk ab o fresh
    | _ => false)).map Prod.snd

end Wp.TableNames
