/-
`wrap_table`'s moving loop over the *regenerated* `TABLE_WRAPPER_BOX_PROPERTIES` (Gen/TableWrapperProps.lean,
extracted from weasyprint/css/properties.py on every run):

    for name in properties.TABLE_WRAPPER_BOX_PROPERTIES:
        wrapper.style[name] = table.style[name]
        table.style[name] = properties.INITIAL_VALUES[name]

The wrapper is `anonymous_from(table)`: a non-inherited property that is not moved has its initial value on the
wrapper and stays on the table box.  `wrapTableGen` is `TableBreaks.wrapTable` with the two break properties routed
through the generated list; `Props/C04TableGen.wrapTableGen_eq_spec` states that this is the hand-written (spec) model,
and stops compiling when the tuple loses `break_before` or `break_after`.  No Mathlib.
-/
import WpModel.Gen.TableWrapperProps
import WpModel.Model.TableBreaks

namespace Wp.TableBreaks
open Wp

/-- One property through the loop: (value on the wrapper box, value on the table box); `auto` is the initial value of
the three break properties. -/
def moved (prop : String) (v : Brk) : Brk × Brk :=
  if Gen.wrapperProps.contains prop then (v, .auto) else (.auto, v)

def wrapTableGen (t : TableE) : BBox :=
  .mk true (moved "break_before" t.before).1 (moved "break_after" t.after).1
    (captionBoxes true t.parts ++
      [.mk true (moved "break_before" t.before).2 (moved "break_after" t.after).2 (sortGroups (wrapRows t.parts []))] ++
      captionBoxes false t.parts)

end Wp.TableBreaks
