/-
Absolutely positioned boxes: mirror of `weasyprint/layout/absolute.py`
  `absolute_width` (with its `handle_min_max_width` wrapper from `layout/min_max.py`),
  `absolute_height`, the translation applied by `absolute_block`, `absolute_replaced`,
  the containing-block choice and percentage resolution of `absolute_box_layout`
and of `relative_positioning` (`weasyprint/layout/block.py`).

`'auto'` is `none : Len`.  `shrink_to_fit(context, box, available)` is
`min(max(min_content, available), max_content)` (layout/preferred.py) with the two content widths as
parameters of the box.

No Mathlib: linked into the driver.
-/
import WpModel.Model.Wire

namespace Wp.Absolute
open Wp

/-- `auto → 0` (the `if box.margin_x == 'auto': box.margin_x = 0` statements). -/
def autoZero (l : Len) : Rat :=
  match l with
  | none => 0
  | some q => q

/-- Horizontal attributes of the box read / written by `absolute_width`. -/
structure HBox where
  left : Len
  right : Len
  width : Len
  ml : Len
  mr : Len
  pl : Rat
  pr : Rat
  bl : Rat
  br : Rat
  minW : Rat
  maxW : Option Rat      -- `none` = `inf`
  minC : Rat             -- min-content width (outer=False)
  maxC : Rat             -- max-content width (outer=False)
  posX : Rat
  deriving Repr, DecidableEq, Inhabited

def HBox.pb (b : HBox) : Rat := b.pl + b.pr + b.bl + b.br

/-- `shrink_to_fit(context, box, available_content_width)` -/
def shrinkToFit (b : HBox) (avail : Rat) : Rat := min (max b.minC avail) b.maxC

/-- `absolute_width.without_min_max`: the box after the call, `translate_box_width`, `translate_x`. -/
def absoluteWidthCore (b : HBox) (ltr : Bool) (cbX cbW : Rat) : HBox × Bool × Rat :=
  let pb := b.pb
  let dtx := cbX - b.posX
  match b.left, b.right, b.width with
  | none, none, none =>
    let ml := autoZero b.ml
    let mr := autoZero b.mr
    let avail := cbW - (pb + ml + mr)
    let b' := { b with ml := some ml, mr := some mr, width := some (shrinkToFit b avail) }
    if !ltr then (b', true, dtx + avail) else (b', false, 0)
  | some l, some r, some w =>
    let wfm := cbW - (r + l + w + pb)
    let b' : HBox :=
      match b.ml, b.mr with
      | none, none =>
        if w + pb + r + l ≤ cbW then { b with ml := some (wfm / 2), mr := some (wfm / 2) }
        else { b with ml := some (if ltr then 0 else wfm), mr := some (if ltr then wfm else 0) }
      | none, some mr => { b with ml := some (wfm - mr) }
      | some ml, none => { b with mr := some (wfm - ml) }
      | some ml, some mr => if ltr then { b with mr := some (wfm - ml) } else { b with ml := some (wfm - mr) }
    (b', false, l + dtx)
  | left, right, width =>
    let ml := autoZero b.ml
    let mr := autoZero b.mr
    let b := { b with ml := some ml, mr := some mr }
    let spacing := pb + ml + mr
    match left, right, width with
    | none, some r, none =>
      ({ b with width := some (shrinkToFit b (cbW - spacing - r)) }, true, cbW - r - spacing + dtx)
    | none, none, some _ =>
      if !ltr then (b, true, dtx + (cbW - (pb + ml + mr))) else (b, false, 0)
    | some l, none, none =>
      ({ b with width := some (shrinkToFit b (cbW - spacing - l)) }, false, l + dtx)
    | none, some r, some w => (b, false, cbW + dtx - (r + spacing + w))
    | some l, some r, none => ({ b with width := some (cbW - r - l - spacing) }, false, l + dtx)
    | some l, none, some _ => (b, false, l + dtx)
    -- unreachable (both handled above); Python falls through with `translate_x = 0`
    | none, none, none => (b, false, 0)
    | some _, some _, some _ => (b, false, 0)

/-- The same box with another `width`. -/
def HBox.setWidth (b : HBox) (w : Len) : HBox := { b with width := w }

/-- `box.width = w; box.margin_left, box.margin_right = computed_margins; result = function(box, *args)`
inside `handle_min_max_width`: the box is the one left by the previous call. -/
def rerun (b : HBox) (prev : HBox × Bool × Rat) (w : Rat) (ltr : Bool) (cbX cbW : Rat) : HBox × Bool × Rat :=
  absoluteWidthCore { prev.1 with width := some w, ml := b.ml, mr := b.mr } ltr cbX cbW

/-- `if box.width > box.max_width: …` -/
def maxStage (b : HBox) (r1 : HBox × Bool × Rat) (w1 : Rat) (ltr : Bool) (cbX cbW : Rat) : HBox × Bool × Rat :=
  match b.maxW with
  | some mx => if w1 > mx then rerun b r1 mx ltr cbX cbW else r1
  | none => r1

/-- `if box.width < box.min_width: …` -/
def minStage (b : HBox) (r2 : HBox × Bool × Rat) (w2 : Rat) (ltr : Bool) (cbX cbW : Rat) : HBox × Bool × Rat :=
  if w2 < b.minW then rerun b r2 b.minW ltr cbX cbW else r2

/-- The `handle_min_max_width` wrapper around `absolute_width`.  `box.width > box.max_width` with
`box.width == 'auto'` would be a `TypeError` (reported as `valueError "TypeError…"`). -/
def absoluteWidth (b : HBox) (ltr : Bool) (cbX cbW : Rat) : Except PyErr (HBox × Bool × Rat) :=
  let r1 := absoluteWidthCore b ltr cbX cbW
  match r1.1.width with
  | none => .error (.valueError "TypeError:width-auto-1")
  | some w1 =>
    let r2 := maxStage b r1 w1 ltr cbX cbW
    match r2.1.width with
    | none => .error (.valueError "TypeError:width-auto-2")
    | some w2 => .ok (minStage b r2 w2 ltr cbX cbW)

/-- Final `position_x` after `absolute_block`: `translate_x -= new_box.width` when asked, then
`new_box.translate(translate_x, …)`. -/
def finalX (r : HBox × Bool × Rat) : Except PyErr Rat :=
  match r.1.width with
  | none => .error (.valueError "TypeError:width-auto-3")
  | some w => .ok (r.1.posX + (if r.2.1 then r.2.2 - w else r.2.2))

/-- Vertical attributes read / written by `absolute_height`. -/
structure VBox where
  top : Len
  bottom : Len
  height : Len
  mt : Len
  mb : Len
  pt : Rat
  pbot : Rat
  bt : Rat
  bb : Rat
  posY : Rat
  deriving Repr, DecidableEq, Inhabited

def VBox.pb (b : VBox) : Rat := b.pt + b.pbot + b.bt + b.bb

/-- `absolute_height`: the box after the call, `translate_box_height`, `translate_y`. -/
def absoluteHeight (b : VBox) (cbY cbH : Rat) : VBox × Bool × Rat :=
  let pb := b.pb
  let dty := cbY - b.posY
  match b.top, b.bottom, b.height with
  | none, none, none =>
    ({ b with mt := some (autoZero b.mt), mb := some (autoZero b.mb) }, false, 0)
  | some t, some bo, some h =>
    let hfm := cbH - (t + bo + h + pb)
    let b' : VBox :=
      match b.mt, b.mb with
      | none, none => { b with mt := some (hfm / 2), mb := some (hfm / 2) }
      | none, some mb => { b with mt := some (hfm - mb) }
      | some mt, none => { b with mb := some (hfm - mt) }
      | some mt, some _ => { b with mb := some (hfm - mt) }
    (b', false, t + dty)
  | top, bottom, height =>
    let mt := autoZero b.mt
    let mb := autoZero b.mb
    let b := { b with mt := some mt, mb := some mb }
    let spacing := pb + mt + mb
    match top, bottom, height with
    | none, some bo, none => (b, true, cbH - bo - spacing + dty)
    | none, none, some _ => (b, false, 0)
    | some t, none, none => (b, false, t + dty)
    | none, some bo, some h => (b, false, cbH + dty - (bo + spacing + h))
    | some t, some bo, none => ({ b with height := some (cbH - bo - t - spacing) }, false, t + dty)
    | some t, none, some _ => (b, false, t + dty)
    | none, none, none => (b, false, 0)
    | some _, some _, some _ => (b, false, 0)

/-- Final `position_y` after `absolute_block`, `usedH` being `new_box.height` after the content
layout (equal to `box.height` when that is not auto). -/
def finalY (r : VBox × Bool × Rat) (usedH : Rat) : Rat :=
  r.1.posY + (if r.2.1 then r.2.2 - usedH else r.2.2)

/-- The attributes of a replaced box read / written by `absolute_replaced`, after
`inline_replaced_box_width_height` has set `width` and `height`. -/
structure RBox where
  left : Len
  right : Len
  top : Len
  bottom : Len
  ml : Len
  mr : Len
  mt : Len
  mb : Len
  width : Rat
  height : Rat
  pl : Rat
  pr : Rat
  bl : Rat
  br : Rat
  pt : Rat
  pbot : Rat
  bt : Rat
  bb : Rat
  posX : Rat
  posY : Rat
  deriving Repr, DecidableEq, Inhabited

def RBox.borderWidth (b : RBox) : Rat := b.width + b.pl + b.pr + b.bl + b.br
def RBox.borderHeight (b : RBox) : Rat := b.height + b.pt + b.pbot + b.bt + b.bb

/-- Horizontal half of `absolute_replaced`. -/
def absoluteReplacedH (b : RBox) (ltr : Bool) (cbX cbW : Rat) : RBox :=
  -- static position
  let b : RBox :=
    match b.left, b.right with
    | none, none =>
      if ltr then { b with left := some (b.posX - cbX) }
      else { b with right := some (cbX + cbW - b.posX) }
    | _, _ => b
  match b.left, b.right with
  | some l, some r =>
    match b.ml, b.mr with
    | some ml, some mr =>
      -- over-constrained
      let mw := b.borderWidth + ml + mr
      if ltr then { b with right := some (cbW - (mw + l)) }
      else { b with left := some (cbW - (mw + r)) }
    | ml, mr =>
      let remaining := cbW - (b.borderWidth + l + r)
      match ml, mr with
      | none, none =>
        if remaining ≥ 0 then { b with ml := some (remaining / 2), mr := some (remaining / 2) }
        else { b with ml := some (if ltr then 0 else remaining),
                      mr := some (if ltr then remaining else 0) }
      | none, some mr => { b with ml := some (remaining - mr) }
      | some ml, _ => { b with mr := some (remaining - ml) }
  | left, right =>
    let ml := autoZero b.ml
    let mr := autoZero b.mr
    let b := { b with ml := some ml, mr := some mr }
    let remaining := cbW - (b.borderWidth + ml + mr)
    -- `if box.left == 'auto': box.left = remaining - box.right` (right is not auto here)
    let left' : Len := match left, right with
      | none, some r => some (remaining - r)
      | l, _ => l
    let right' : Len := match right, left' with
      | none, some l => some (remaining - l)
      | r, _ => r
    { b with left := left', right := right' }

/-- Vertical half of `absolute_replaced`. -/
def absoluteReplacedV (b : RBox) (cbY cbH : Rat) : RBox :=
  let b : RBox :=
    match b.top, b.bottom with
    | none, none => { b with top := some (b.posY - cbY) }
    | _, _ => b
  match b.top, b.bottom with
  | some t, some bo =>
    match b.mt, b.mb with
    | some mt, some mb =>
      { b with bottom := some (cbH - (b.borderHeight + mt + mb + t)) }
    | mt, mb =>
      let remaining := cbH - (b.borderHeight + t + bo)
      match mt, mb with
      | none, none => { b with mt := some (remaining / 2), mb := some (remaining / 2) }
      | none, some mb => { b with mt := some (remaining - mb) }
      | some mt, _ => { b with mb := some (remaining - mt) }
  | top, bottom =>
    let mt := autoZero b.mt
    let mb := autoZero b.mb
    let b := { b with mt := some mt, mb := some mb }
    let remaining := cbH - (b.borderHeight + mt + mb)
    let top' : Len := match top, bottom with
      | none, some bo => some (remaining - bo)
      | t, _ => t
    let bottom' : Len := match bottom, top' with
      | none, some t => some (remaining - t)
      | bo, _ => bo
    { b with top := top', bottom := bottom' }

/-- `absolute_replaced`: both halves, then `position_x = cb_x + left`, `position_y = cb_y + top`.
`cb_x + 'auto'` would be a `TypeError`. -/
def absoluteReplaced (b : RBox) (ltr : Bool) (cbX cbY cbW cbH : Rat) : Except PyErr RBox :=
  let b := absoluteReplacedV (absoluteReplacedH b ltr cbX cbW) cbY cbH
  match b.left, b.top with
  | some l, some t => .ok { b with posX := cbX + l, posY := cbY + t }
  | _, _ => .error (.valueError "TypeError:left-or-top-auto")

/-! ### Computed values with percentages (`layout/percent.py`) -/

/-- A computed `<length-percentage> | auto`. -/
inductive Dim where
  | auto
  | px (q : Rat)
  | pct (q : Rat)
  deriving Repr, DecidableEq, Inhabited

/-- `percentage(value, refer_to)` -/
def Dim.resolve (d : Dim) (referTo : Rat) : Len :=
  match d with
  | .auto => none
  | .px q => some q
  | .pct q => some (referTo * q / 100)

/-- A rectangle `(x, y, w, h)`. -/
structure Rect where
  x : Rat
  y : Rat
  w : Rat
  h : Rat
  deriving Repr, DecidableEq, Inhabited

/-- The geometry of the box `absolute_box_layout` picks its containing block from. -/
structure CBBox where
  isPage : Bool
  posX : Rat
  posY : Rat
  ml : Rat
  mt : Rat
  bl : Rat
  bt : Rat
  pl : Rat
  pt : Rat
  pr : Rat
  pbot : Rat
  width : Rat
  height : Rat
  deriving Repr, DecidableEq, Inhabited

/-- Page box → content box; any other box → padding box. -/
def containingRect (c : CBBox) : Rect :=
  if c.isPage then
    ⟨c.posX + c.ml + c.pl + c.bl, c.posY + c.mt + c.pt + c.bt, c.width, c.height⟩
  else
    ⟨c.posX + c.ml + c.bl, c.posY + c.mt + c.bt, c.width + c.pl + c.pr, c.height + c.pt + c.pbot⟩

/-- The heights of a containing block that `block_container_layout` knows of: `new_box.height` once its children
are laid out (the specified height, or the content's), and the used `min-height` / `max-height` (`none` = none). -/
structure CBHeights where
  content : Rat
  minH : Rat
  maxH : Option Rat
  deriving Repr, DecidableEq, Inhabited

/-- `new_box.height = max(min(new_box.height, new_box.max_height), new_box.min_height)`: the used height. -/
def CBHeights.used (c : CBHeights) : Rat :=
  max (match c.maxH with
    | some m => min c.content m
    | none => c.content) c.minH

/-- The height of the box at the moment its absolutely positioned children are laid out.  A `position: relative`
block lays them out inside `block_container_layout`, *before* the min/max clamp at the end of that function
(finding abs-cb-height-before-min-max); an absolutely positioned block lays them out in `absolute_block`, after
`block_container_layout` has returned the clamped height. -/
def cbHeightAtLayout (relative : Bool) (c : CBHeights) : Rat :=
  if relative then c.content else c.used

/-- Computed style of an absolutely positioned non-replaced block (content-box sizing). -/
structure AbsStyle where
  left : Dim
  right : Dim
  top : Dim
  bottom : Dim
  width : Dim
  height : Dim
  ml : Dim
  mr : Dim
  mt : Dim
  mb : Dim
  pl : Dim
  pr : Dim
  pt : Dim
  pbot : Dim
  bl : Rat
  br : Rat
  bt : Rat
  bb : Rat
  minW : Dim     -- auto → 0
  maxW : Dim     -- auto = none = inf
  minH : Dim
  maxH : Dim
  deriving Repr, DecidableEq, Inhabited

/-- `absolute_box_layout` + `absolute_block` for a block box whose content has min/max-content
widths `minC/maxC` and whose auto height is `hWide` when the used width reaches `maxC`, else `hNarrow`.  Returns the margin box
`(position_x, position_y, margin_width, margin_height)` and the used margins. -/
structure AbsResult where
  x : Rat
  y : Rat
  mw : Rat
  mh : Rat
  width : Rat
  height : Rat
  ml : Rat
  mr : Rat
  mt : Rat
  mb : Rat
  deriving Repr, DecidableEq

def absoluteBlock (st : AbsStyle) (cb : Rect) (ltr : Bool) (staticX staticY minC maxC hWide hNarrow : Rat) :
    Except PyErr AbsResult :=
  let pl := autoZero (st.pl.resolve cb.w)
  let pr := autoZero (st.pr.resolve cb.w)
  let pt := autoZero (st.pt.resolve cb.w)
  let pbot := autoZero (st.pbot.resolve cb.w)
  let hb : HBox := {
    left := st.left.resolve cb.w, right := st.right.resolve cb.w, width := st.width.resolve cb.w,
    ml := st.ml.resolve cb.w, mr := st.mr.resolve cb.w, pl := pl, pr := pr, bl := st.bl, br := st.br,
    minW := autoZero (st.minW.resolve cb.w), maxW := st.maxW.resolve cb.w,
    minC := minC, maxC := maxC, posX := staticX }
  let vb : VBox := {
    top := st.top.resolve cb.h, bottom := st.bottom.resolve cb.h, height := st.height.resolve cb.h,
    mt := st.mt.resolve cb.w, mb := st.mb.resolve cb.w, pt := pt, pbot := pbot, bt := st.bt, bb := st.bb,
    posY := staticY }
  match absoluteWidth hb ltr cb.x cb.w with
  | .error e => .error e
  | .ok rh =>
    match finalX rh, rh.1.width with
    | .error e, _ => .error e
    | _, none => .error (.valueError "TypeError:width-auto-4")
    | .ok x, some w =>
      let rv := absoluteHeight vb cb.y cb.h
      -- block_container_layout: auto height = content height, then clamped by max/min-height
      -- content height: the harness uses content that takes `hWide` when the used width holds its
      -- max-content width and `hNarrow` otherwise (two words of the fixed-pitch font, or a fixed block)
      let contentH := if w ≥ maxC then hWide else hNarrow
      let h0 := match rv.1.height with
        | some h => h
        | none => contentH
      let h1 := match st.maxH.resolve cb.h with
        | some mx => min h0 mx
        | none => h0
      let h := max h1 (autoZero (st.minH.resolve cb.h))
      let y := finalY rv h
      let ml := autoZero rh.1.ml
      let mr := autoZero rh.1.mr
      let mt := autoZero rv.1.mt
      let mb := autoZero rv.1.mb
      .ok ⟨x, y, w + hb.pb + ml + mr, h + vb.pb + mt + mb, w, h, ml, mr, mt, mb⟩

/-- `absolute_box_layout` for a replaced box whose `width` / `height` are specified (px or %):
percentages are resolved against the containing rectangle, `inline_replaced_box_width_height` keeps the
specified sizes, then `absolute_replaced`.  `none` sizes (auto) are outside this model (C13). -/
def absoluteReplacedDoc (st : AbsStyle) (cb : Rect) (ltr : Bool) (staticX staticY : Rat) :
    Except PyErr AbsResult :=
  match st.width.resolve cb.w, st.height.resolve cb.h with
  | some w, some h =>
    let rb : RBox := {
      left := st.left.resolve cb.w, right := st.right.resolve cb.w,
      top := st.top.resolve cb.h, bottom := st.bottom.resolve cb.h,
      ml := st.ml.resolve cb.w, mr := st.mr.resolve cb.w, mt := st.mt.resolve cb.w, mb := st.mb.resolve cb.w,
      width := w, height := h,
      pl := autoZero (st.pl.resolve cb.w), pr := autoZero (st.pr.resolve cb.w), bl := st.bl, br := st.br,
      pt := autoZero (st.pt.resolve cb.w), pbot := autoZero (st.pbot.resolve cb.w), bt := st.bt, bb := st.bb,
      posX := staticX, posY := staticY }
    match absoluteReplaced rb ltr cb.x cb.y cb.w cb.h with
    | .error e => .error e
    | .ok r =>
      let ml := autoZero r.ml
      let mr := autoZero r.mr
      let mt := autoZero r.mt
      let mb := autoZero r.mb
      .ok ⟨r.posX, r.posY, r.borderWidth + ml + mr, r.borderHeight + mt + mb, w, h, ml, mr, mt, mb⟩
  | _, _ => .error (.valueError "auto-size-not-modelled")

/-! ### `relative_positioning` (layout/block.py) -/

/-- The part of a box `relative_positioning` looks at. -/
inductive RelBox where
  | mk (relative : Bool) (rtl : Bool) (inlineOrLine : Bool)
       (left right top bottom : Dim) (x y : Rat) (kids : List RelBox)
  deriving Repr, Inhabited

mutual
/-- `Box.translate(dx, dy)` (children included). -/
def translateBox (dx dy : Rat) : RelBox → RelBox
  | .mk rel rtl inl l r t b x y kids => .mk rel rtl inl l r t b (x + dx) (y + dy) (translateKids dx dy kids)
def translateKids (dx dy : Rat) : List RelBox → List RelBox
  | [] => []
  | k :: ks => translateBox dx dy k :: translateKids dx dy ks
end

/-- The offset computed by `relative_positioning` for a relatively positioned box. -/
def relativeOffset (rtl : Bool) (left right top bottom : Dim) (cbW cbH : Rat) : Rat × Rat :=
  let l := left.resolve cbW
  let r := right.resolve cbW
  let t := top.resolve cbH
  let b := bottom.resolve cbH
  let dx := match l, r with
    | some l, some r => if !rtl then l else -r
    | some l, none => l
    | none, some r => -r
    | none, none => 0
  let dy := match t, b with
    | some t, _ => t
    | none, some b => -b
    | none, none => 0
  (dx, dy)

mutual
/-- `relative_positioning(box, (cb_width, cb_height))` applied to the box translated by `(ax, ay)`.
The accumulator makes the recursion structural: Python first translates the subtree
(`box.translate(dx, dy)`), then visits the (translated) children of inline / line boxes. -/
def relativeAcc (cbW cbH ax ay : Rat) : RelBox → RelBox
  | .mk rel rtl inl l r t b x y kids =>
    let off := if rel then relativeOffset rtl l r t b cbW cbH else (0, 0)
    let kids' := if inl then relativeKidsAcc cbW cbH (ax + off.1) (ay + off.2) kids
                 else translateKids (ax + off.1) (ay + off.2) kids
    .mk rel rtl inl l r t b (x + (ax + off.1)) (y + (ay + off.2)) kids'
def relativeKidsAcc (cbW cbH ax ay : Rat) : List RelBox → List RelBox
  | [] => []
  | k :: ks => relativeAcc cbW cbH ax ay k :: relativeKidsAcc cbW cbH ax ay ks
end

/-- `relative_positioning(box, (cb_width, cb_height))` -/
def relativePositioning (cbW cbH : Rat) (b : RelBox) : RelBox := relativeAcc cbW cbH 0 0 b

end Wp.Absolute
