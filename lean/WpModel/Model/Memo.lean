/-
C19 — the memoisation pattern of the per-render caches of `LayoutContext` (`strut_layouts` in
`css/computed_values.py::strut_layout`, `font_features`, `tables`, `dictionaries`):

  key = _font_style_cache_key(style, include_size=True)
  if key in context.strut_layouts: return context.strut_layouts[key]
  … measure with Layout(context, style), i.e. with the fonts of context.font_config …
  context.strut_layouts[key] = result; return result

The value is a function of the key **and of the render's environment** (the font configuration: the document's
@font-face rules), which the key does not contain — "recorded assumption: the key omits font_config, which is why the
cache lives per render" (DESIGN §4 C19).  `measure env key` is that function; a cache is an insertion-ordered dict.
No Mathlib.
-/
import WpModel.Model.Wire

namespace Wp.Memo

variable {ε κ ν : Type} [DecidableEq κ]

abbrev Table (κ ν : Type) := List (κ × ν)

def find (t : Table κ ν) (k : κ) : Option ν :=
  match t with
  | [] => none
  | (k', v) :: rest => if k' = k then some v else find rest k

/-- One memoised call with the cache `t` of the context, in the environment `env` of the render. -/
def memoGet (measure : ε → κ → ν) (env : ε) (t : Table κ ν) (k : κ) : ν × Table κ ν :=
  match find t k with
  | some v => (v, t)
  | none => (measure env k, (k, measure env k) :: t)

/-- The calls of one render, threading its cache. -/
def run (measure : ε → κ → ν) (env : ε) : Table κ ν → List κ → List ν × Table κ ν
  | t, [] => ([], t)
  | t, k :: rest =>
    let r := memoGet measure env t k
    let r' := run measure env r.2 rest
    (r.1 :: r'.1, r'.2)

/-- A process: renders `(environment, calls)` one after the other.  `fresh = true`: every render starts with a cache
of its own (`LayoutContext.__init__` creates it); `fresh = false`: the cache outlives the render (a class attribute,
a module-level dict). -/
def runRenders (measure : ε → κ → ν) (fresh : Bool) : Table κ ν → List (ε × List κ) → List (List ν)
  | _, [] => []
  | t, (env, ks) :: rest =>
    let r := run measure env (if fresh then [] else t) ks
    r.1 :: runRenders measure fresh r.2 rest

end Wp.Memo
