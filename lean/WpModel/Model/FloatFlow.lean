/-
Document-level float model: the part of `block_container_layout` (layout/block.py) that a sequence of
block-level floats, paragraphs of one-word lines, BFC roots and plain blocks goes through, all with
zero vertical margins (so no margin collapsing is involved):

  float      → `_out_of_flow_layout` → `float_layout` (clearance, `find_float_position`, append)
  paragraph  → `block_level_layout` (clearance) → one `avoid_collisions(outer=False)` per line box
               (`get_next_linebox`: width = the word, height = the strut = font size)
  BFC root   → `block_level_layout` (clearance) → `block_level_width` → `avoid_collisions(outer=False)`
  image      → `block_level_layout` (clearance) → `block_replaced_box_layout` → `avoid_collisions(outer=False)`
  block      → `block_level_layout` (clearance)

The observable output is the margin box of every float, the position and width of every line box,
the border box of every BFC root and the top of every plain block.
-/
import WpModel.Model.Floats

namespace Wp.Floats

inductive Item where
  | float (b : ABox)                                   -- `px`, `py` are set by the flow
  | para (clear : Clear) (fs : Rat) (words : List Rat)  -- one line per word, widths given
  | bfc (clear : Clear) (width : Len) (h ml mr : Rat)
  | block (clear : Clear) (h : Rat)
  | replaced (kind : Kind) (clear : Clear) (w h ml mr : Rat)  -- block-level image (`.replaced`) or table (`.tableWrapper`)
  deriving Repr, Inhabited

inductive Placed where
  | float (x y mw mh : Rat)
  | para (lines : List (Rat × Rat × Rat))   -- (position_x, position_y, width)
  | bfc (x y w h : Rat)                     -- border box
  | block (y : Rat)
  | replaced (x y w h : Rat)                -- border box
  deriving Repr, Inhabited

/-- `block_level_layout`: `position_y` after clearance (margins are 0). -/
def clearedY (shapes : List Shape) (c : Clear) (y : Rat) : Rat :=
  match getClearance shapes c y 0 with
  | some cl => y + cl
  | none => y

/-- The line boxes of a paragraph starting at `y`. -/
def layoutLines (shapes : List Shape) (cb : CB) (fs : Rat) :
    List Rat → Rat → Except PyErr (List (Rat × Rat × Rat) × Rat)
  | [], y => .ok ([], y)
  | w :: ws, y =>
    let line : ABox := ⟨cb.cx, y, 0, 0, 0, 0, w, fs, .none, .none, .line⟩
    match avoidCollisions shapes line cb false with
    | .error e => .error e
    | .ok p =>
      let x := if cb.rtl then p.x - w else p.x
      match layoutLines shapes cb fs ws (p.y + fs) with
      | .error e => .error e
      | .ok (rest, y') => .ok ((x, p.y, w) :: rest, y')

/-- One child of the container: new shapes, new `position_y`, what was placed. -/
def flowStep (cb : CB) (shapes : List Shape) (y : Rat) : Item → Except PyErr (List Shape × Rat × Placed)
  | .float b =>
    match floatPlace shapes { b with px := cb.cx, py := y } cb with
    | .error e => .error e
    | .ok (b', shapes') => .ok (shapes', y, .float b'.px b'.py b'.marginWidth b'.marginHeight)
  | .para c fs words =>
    match layoutLines shapes cb fs words (clearedY shapes c y) with
    | .error e => .error e
    | .ok (lines, y') => .ok (shapes, y', .para lines)
  | .bfc c width h ml mr =>
    let y0 := clearedY shapes c y
    -- block_level_width: auto width fills the containing block
    let w := match width with
      | some w => w
      | none => cb.w - (ml + mr)
    let box : ABox := ⟨cb.cx, y0, 0, 0, ml, mr, w, h, .none, c, .bfc⟩
    match avoidCollisions shapes box cb false with
    | .error e => .error e
    | .ok p =>
      -- `_in_flow_layout`: a box of height 0 without paddings / borders "collapses through": the parent's
      -- `position_y` does not advance, unless the box has clearance (then it restarts below the box)
      let y' := if h = 0 && (getClearance shapes c y 0).isNone then y else p.y + h
      .ok (shapes, y', .bfc (p.x + ml) p.y w h)
  | .block c h =>
    let y0 := clearedY shapes c y
    .ok (shapes, y0 + h, .block y0)
  | .replaced kind c w h ml mr =>
    -- `block_replaced_box_layout` / `block_box_layout` of a table wrapper: positioned by
    -- `avoid_collisions(outer=False)`; never collapses through
    let y0 := clearedY shapes c y
    let box : ABox := ⟨cb.cx, y0, 0, 0, ml, mr, w, h, .none, c, kind⟩
    match avoidCollisions shapes box cb false with
    | .error e => .error e
    | .ok p => .ok (shapes, p.y + h, .replaced (p.x + ml) p.y w h)

def flow (cb : CB) : List Shape → Rat → List Item → Except PyErr (List Placed)
  | _, _, [] => .ok []
  | shapes, y, it :: rest =>
    match flowStep cb shapes y it with
    | .error e => .error e
    | .ok (shapes', y', pl) =>
      match flow cb shapes' y' rest with
      | .error e => .error e
      | .ok out => .ok (pl :: out)

end Wp.Floats
