/-
Document-level float model: the part of `block_container_layout` (layout/block.py) that a sequence of
block-level floats, paragraphs of one-word lines (with floats met inside the lines), BFC roots and
plain blocks goes through; the vertical margins of in-flow siblings collapse (`collapse_margin` over the
adjoining margins; the container has a top padding, so nothing collapses through it):

  float      → `_out_of_flow_layout` → `float_layout` (clearance, `find_float_position`, append)
  paragraph  → `block_level_layout` (clearance) → one `avoid_collisions(outer=False)` per line box
               (`get_next_linebox`: width = the word, height = the strut = font size); floats met in the
               line after the word → `_out_of_flow_layout` of layout/inline.py (placed at once at the
               line's top when they fit in what is left of the line and no float is waiting, otherwise
               at the line's bottom, in order)
  BFC root   → `block_level_layout` (clearance) → `block_level_width` → `avoid_collisions(outer=False)`
  image      → `block_level_layout` (clearance) → `block_replaced_box_layout` → `avoid_collisions(outer=False)`
  block      → `block_level_layout` (clearance)

The observable output is the margin box of every float, the position and width of every line box,
the border box of every BFC root and the top of every plain block.

One float list.  `context.excluded_shapes` is the list on top of `context._excluded_shapes_lists`; when
`get_next_linebox` starts a line again it restores the floats *in place* from the copy taken before its loop
(`context.excluded_shapes[:] = excluded_shapes`, 58d1f9d), so the attribute and the stack's top are always the
same list and the floats laid out by an abandoned pass are gone.
-/
import WpModel.Model.Floats
import WpModel.Model.Absolute

namespace Wp.Floats

/-- One line of a paragraph (lines are separated by forced breaks, so a line's content does not depend
on the width it is given): `w0` = `inline_min_content_width(first_line=True)` of the line (the word's
width; 0 for a line holding only an inline-block, which has a break opportunity before it), `w`, `h` =
width and height of the laid-out line, and the floats met in the line after its content
(`<span style="float:…">`, without paddings or borders: `bw` is their content width). -/
structure LineSpec where
  w0 : Rat
  w : Rat
  h : Rat
  floats : List ABox
  deriving Repr, Inhabited

/-- `text-align` (`text_align_all`; `text-align-last` is auto). -/
inductive Align where
  | start | «end» | left | right | center
  deriving Repr, DecidableEq, Inhabited

/-- Computed style and content of a block-level float, as `float_layout` receives it
(content-box sizing; no min/max-height). -/
structure FloatSpec where
  side : FloatV
  clear : Clear
  width : Absolute.Dim
  height : Len                 -- px or auto
  ml : Absolute.Dim
  mr : Absolute.Dim
  mt : Absolute.Dim
  mb : Absolute.Dim
  pl : Absolute.Dim
  pr : Absolute.Dim
  pt : Absolute.Dim
  pb : Absolute.Dim
  bl : Rat
  br : Rat
  bt : Rat
  bb : Rat
  minW : Absolute.Dim          -- auto = 0
  maxW : Absolute.Dim          -- auto = none = inf
  minC : Rat                   -- min-content width of the content (outer=False)
  maxC : Rat
  hWide : Rat                  -- content height when the used width reaches `maxC` …
  hNarrow : Rat                -- … and otherwise
  deriving Repr, Inhabited

/-- The two re-runs of `handle_min_max_width` (layout/min_max.py) around `float_width`: once `box.width` is a
number `float_width` leaves it alone, so the wrapper is `max-width` first, then `min-width`. -/
def clampMinMax (minW : Rat) (maxW : Option Rat) (w : Rat) : Rat :=
  let w := match maxW with
    | some mx => if w > mx then mx else w
    | none => w
  if w < minW then minW else w

/-- `float_width` (layout/float.py) under its `handle_min_max_width` wrapper, as `float_layout` calls it for every
non-replaced float (`else: float_width(box, context, containing_block)`): an auto width becomes
`shrink_to_fit(context, box, available_width)` where `avail` = `containing_block.width` minus the float's own
margins, borders and paddings (CSS 2.1 §10.3.5); a specified width is kept; then max-width, then min-width. -/
def floatWidth (width : Len) (minW : Rat) (maxW : Option Rat) (minC maxC avail : Rat) : Rat :=
  clampMinMax minW maxW (match width with
    | some w => w
    | none => min (max minC avail) maxC)

/-- `float_width` for `box.width == 'auto'`. -/
def floatWidthAuto (minW : Rat) (maxW : Option Rat) (minC maxC avail : Rat) : Rat :=
  floatWidth none minW maxW minC maxC avail

/-- The beginning of `float_layout`: `resolve_percentages` against the containing block's width, auto
margins become 0, `float_width` under its min/max wrapper (auto → shrink-to-fit in the width the float's own
margins, borders and paddings leave), the height is the specified one or the content's.  The result is the box
handed to the placement part. -/
def floatResolve (f : FloatSpec) (cbW : Rat) : ABox :=
  let z := Absolute.autoZero
  let ml := z (f.ml.resolve cbW)
  let mr := z (f.mr.resolve cbW)
  let mt := z (f.mt.resolve cbW)
  let mb := z (f.mb.resolve cbW)
  let pl := z (f.pl.resolve cbW)
  let pr := z (f.pr.resolve cbW)
  let pt := z (f.pt.resolve cbW)
  let pb := z (f.pb.resolve cbW)
  let avail := cbW - (ml + mr + pl + pr + f.bl + f.br)
  let w := floatWidth (f.width.resolve cbW) (z (f.minW.resolve cbW)) (f.maxW.resolve cbW) f.minC f.maxC avail
  let h := match f.height with
    | some h => h
    | none => if w ≥ f.maxC then f.hWide else f.hNarrow
  ⟨0, 0, mt, mb, ml, mr, w + pl + pr + f.bl + f.br, h + pt + pb + f.bt + f.bb, f.side, f.clear, .bfc⟩

inductive Item where
  | float (b : ABox)                                   -- `px`, `py` are set by the flow
  | floatSpec (f : FloatSpec)                          -- a float given by its computed style
  | para (clear : Clear) (fs : Rat) (align : Align) (lines : List LineSpec) (mt mb : Rat)
  | bfc (clear : Clear) (width : Len) (h ml mr mt mb : Rat)
  | block (clear : Clear) (h mt mb : Rat)
  | replaced (kind : Kind) (clear : Clear) (w h ml mr : Rat)  -- block-level image (`.replaced`) or table (`.tableWrapper`)
  deriving Repr, Inhabited

/-- A placed line: `(position_x, position_y, width, height)` and the margin boxes of its floats, in
document order. -/
structure PlacedLine where
  x : Rat
  y : Rat
  w : Rat
  h : Rat
  floats : List (Rat × Rat × Rat × Rat)
  deriving Repr, Inhabited

inductive Placed where
  | float (x y mw mh : Rat)
  | para (lines : List PlacedLine)
  | bfc (x y w h : Rat)                     -- border box
  | block (y : Rat)
  | replaced (x y w h : Rat)                -- border box
  deriving Repr, Inhabited

/-- `collapse_margin(adjoining_margins)` (layout/block.py): `max(positives ∪ {0}) + min(negatives ∪ {0})`. -/
def collapseMargin (ms : List Rat) : Rat :=
  maxList 0 (ms.filter (fun m => decide (m ≥ 0))) + minList 0 (ms.filter (fun m => decide (m ≤ 0)))

/-- `block_level_layout`: the top border edge of an in-flow block whose parent's `position_y` is `y`
and whose top margin collapses with the adjoining margins to `cm`:
`top_border_edge = position_y + collapsed_margin + clearance` when there is clearance.
The flag tells whether clearance was applied (the adjoining margins are then forgotten). -/
def clearedTop (shapes : List Shape) (c : Clear) (y cm : Rat) : Rat × Bool :=
  match getClearance shapes c y cm with
  | some cl => (y + cm + cl, true)
  | none => (y + cm, false)

/-- `_out_of_flow_layout` of layout/inline.py, first pass over the floats met in a line: a float whose
width exceeds what is left of the line (`max_x - position_x`), or that comes after a float already
waiting, waits for the end of the line; the others are laid out at once at the line's top
(`float_layout`), and `max_x` shrinks by their margin width. -/
def inlinePass1 (cb : CB) (lineY : Rat) :
    List Shape → Rat → Bool → List ABox → Except PyErr (List Shape × List (ABox × Option (Rat × Rat × Rat × Rat)))
  | shapes, _, _, [] => .ok (shapes, [])
  | shapes, rem, waiting, b :: bs =>
    if decide (b.bw > rem) || waiting then
      match inlinePass1 cb lineY shapes rem true bs with
      | .error e => .error e
      | .ok (shapes', out) => .ok (shapes', (b, none) :: out)
    else
      match floatPlace shapes { b with px := cb.cx, py := lineY } cb with
      | .error e => .error e
      | .ok (b', shapes1) =>
        match inlinePass1 cb lineY shapes1 (rem - b.marginWidth) false bs with
        | .error e => .error e
        | .ok (shapes', out) => .ok (shapes', (b, some (b'.px, b'.py, b'.marginWidth, b'.marginHeight)) :: out)

/-- `get_next_linebox`, end of the line: the waiting floats are laid out, in order, at the line's bottom. -/
def inlinePass2 (cb : CB) (lineBottom : Rat) :
    List Shape → List (ABox × Option (Rat × Rat × Rat × Rat)) → Except PyErr (List Shape × List (Rat × Rat × Rat × Rat))
  | shapes, [] => .ok (shapes, [])
  | shapes, (_, some r) :: rest =>
    match inlinePass2 cb lineBottom shapes rest with
    | .error e => .error e
    | .ok (shapes', out) => .ok (shapes', r :: out)
  | shapes, (b, none) :: rest =>
    match floatPlace shapes { b with px := cb.cx, py := lineBottom } cb with
    | .error e => .error e
    | .ok (b', shapes1) =>
      match inlinePass2 cb lineBottom shapes1 rest with
      | .error e => .error e
      | .ok (shapes', out) => .ok (shapes', (b'.px, b'.py, b'.marginWidth, b'.marginHeight) :: out)

/-- `text_align(context, line, available_width, last)` of layout/inline.py for the non-justifying values:
the horizontal offset of a line of width `w` in `avail`. -/
def textAlign (a : Align) (rtl : Bool) (w avail : Rat) : Rat :=
  if w ≥ avail then 0 else
  let a' : Align := match a with
    | .left => if !rtl then .start else .«end»       -- `(align == 'left') ^ (direction == 'rtl')`
    | .right => if rtl then .start else .«end»
    | a => a
  match a' with
  | .start => 0
  | .center => (avail - w) / 2
  | _ => avail - w

/-- What one pass of the `while True` loop of `get_next_linebox` produces. -/
structure LineTry where
  shapes : List Shape                                         -- `context.excluded_shapes` after the pass
  marks : List (ABox × Option (Rat × Rat × Rat × Rat))        -- floats of the line: laid out / waiting
  x : Rat                                                     -- `line.position_x` after `text_align`
  y : Rat
  deriving Repr, Inhabited

/-- The `while True` loop of `get_next_linebox`, from the position `(px, py, avail)` returned by the
previous `avoid_collisions`; `lbw` = `linebox.width` on entry, `cand` = `candidate_height`; `shapes0` =
the copy of `excluded_shapes` taken before the loop, which is also the content of the list at the start of every
pass (`context.excluded_shapes[:] = excluded_shapes` before a restart).
One pass: `split_inline_box` (the floats met in the line are laid out or deferred), `avoid_collisions`
on the laid-out line box for the width that `text_align` distributes, stop if the line is not higher
than the candidate height; otherwise try the real line against the floats that existed before the line
and stop (keeping the floats of this pass: `context.excluded_shapes[:] = new_excluded_shapes`) if it stays where
it is, else start again from the new position. -/
def lineLoop (cb : CB) (strut : Rat) (align : Align) (l : LineSpec) (shapes0 : List Shape) :
    Nat → Rat → Rat → Rat → Rat → Rat → Except PyErr LineTry
  | 0, _, _, _, _, _ => .error (.recursion "get_next_linebox:loop")
  | fuel + 1, px, py, avail, lbw, cand =>
    match inlinePass1 cb py shapes0 (avail - l.w) false l.floats with
    | .error e => .error e
    | .ok (shapes1, marks) =>
      -- `linebox.width, linebox.height = line.width, line.height`: at this point the height of the line
      -- returned by `split_inline_box` is still the strut's line height (`line_box_verticality` comes later)
      let split : ABox := ⟨px, py, 0, 0, 0, 0, l.w, strut, .none, .none, .line⟩
      let laid : ABox := ⟨px, py, 0, 0, 0, 0, l.w, l.h, .none, .none, .line⟩
      match avoidCollisions shapes1 split cb false with
      | .error e => .error e
      | .ok p2 =>
        let off := textAlign align cb.rtl l.w p2.avail
        let x := if cb.rtl then px + (-off - l.w) else px + off
        if l.h ≤ cand then .ok ⟨shapes1, marks, x, py⟩ else
        match avoidCollisions shapes0 laid cb false with
        | .error e => .error e
        | .ok p3 =>
          let same := if !cb.rtl then p3.x = px ∧ p3.y = py else p3.x + l.w = px + lbw ∧ p3.y = py
          if same then .ok ⟨shapes1, marks, x, py⟩
          else lineLoop cb strut align l shapes0 fuel p3.x p3.y p3.avail l.w l.h

/-- `get_next_linebox` for one line starting at `y`: the first `avoid_collisions` is made with the
min-content width of the line's first word and the strut height when floats exist, and with an empty
box otherwise. -/
def nextLinebox (cb : CB) (strut : Rat) (align : Align) (shapes : List Shape) (l : LineSpec) (y : Rat) :
    Except PyErr LineTry :=
  let w0 := if shapes.isEmpty then 0 else l.w0
  let h0 := if shapes.isEmpty then 0 else strut
  let first : ABox := ⟨cb.cx, y, 0, 0, 0, 0, w0, h0, .none, .none, .line⟩
  match avoidCollisions shapes first cb false with
  | .error e => .error e
  | .ok p => lineLoop cb strut align l shapes 3 p.x p.y p.avail w0 h0

/-- The line boxes of a paragraph starting at `y`. -/
def layoutLines (cb : CB) (fs : Rat) (align : Align) :
    List Shape → List LineSpec → Rat → Except PyErr (List Shape × List PlacedLine × Rat)
  | shapes, [], y => .ok (shapes, [], y)
  | shapes, l :: ls, y =>
    match nextLinebox cb fs align shapes l y with
    | .error e => .error e
    | .ok t =>
      -- the floats laid out on the line stay where `float_layout` put them: `line_box_verticality` skips
      -- floats and `line.translate(offset_x, offset_y, ignore_floats=True)` does not move them
      match inlinePass2 cb (t.y + l.h) t.shapes t.marks with
      | .error e => .error e
      | .ok (shapes2, rects) =>
        match layoutLines cb fs align shapes2 ls (t.y + l.h) with
        | .error e => .error e
        | .ok (shapes3, rest, y') => .ok (shapes3, ⟨t.x, t.y, l.w, l.h, rects⟩ :: rest, y')

/-- State of the flow: floats so far, the parent's `position_y`, the adjoining margins. -/
structure FlowState where
  shapes : List Shape
  y : Rat
  adj : List Rat
  deriving Repr, Inhabited

/-- A block-level float: `_out_of_flow_layout`: `child.position_y += collapse_margin(adjoining_margins)`,
then `float_layout`. -/
def flowFloat (cb : CB) (st : FlowState) (b : ABox) : Except PyErr (FlowState × Placed) :=
  match floatPlace st.shapes { b with px := cb.cx, py := st.y + collapseMargin st.adj } cb with
  | .error e => .error e
  | .ok (b', shapes') =>
    .ok ({ st with shapes := shapes' }, .float b'.px b'.py b'.marginWidth b'.marginHeight)

/-- One child of the container: new state, what was placed. -/
def flowStep (cb : CB) (st : FlowState) : Item → Except PyErr (FlowState × Placed)
  | .float b => flowFloat cb st b
  | .floatSpec f => flowFloat cb st (floatResolve f cb.w)
  | .para c fs align lines mt mb =>
    let top := clearedTop st.shapes c st.y (collapseMargin (st.adj ++ [mt]))
    match layoutLines cb fs align st.shapes lines top.1 with
    | .error e => .error e
    | .ok (shapes', placed, y') => .ok (⟨shapes', y', [mb]⟩, .para placed)
  | .bfc c width h ml mr mt mb =>
    let top := clearedTop st.shapes c st.y (collapseMargin (st.adj ++ [mt]))
    -- block_level_width: auto width fills the containing block
    let w := match width with
      | some w => w
      | none => cb.w - (ml + mr)
    let box : ABox := ⟨cb.cx, top.1 - mt, mt, mb, ml, mr, w, h, .none, c, .bfc⟩
    match avoidCollisions st.shapes box cb false with
    | .error e => .error e
    | .ok p =>
      -- `_in_flow_layout`: a box of height 0 without paddings / borders / margins "collapses through":
      -- the parent's `position_y` does not advance, unless the box has clearance (then it restarts below
      -- the box).  A BFC root has already consumed the adjoining margins for its own position, so the
      -- parent continues with `[margin_bottom]` only (the margin of the previous sibling is forgotten).
      let st' : FlowState := if h = 0 && !top.2 then ⟨st.shapes, st.y, [mb]⟩ else ⟨st.shapes, p.y + mt + h, [mb]⟩
      .ok (st', .bfc (p.x + ml) (p.y + mt) w h)
  | .block c h mt mb =>
    let top := clearedTop st.shapes c st.y (collapseMargin (st.adj ++ [mt]))
    let st' : FlowState := if h = 0 && !top.2 then st else ⟨st.shapes, top.1 + h, [mb]⟩
    .ok (st', .block top.1)
  | .replaced kind c w h ml mr =>
    -- `block_replaced_box_layout` / `block_box_layout` of a table wrapper: positioned by
    -- `avoid_collisions(outer=False)`; never collapses through; no vertical margins here
    let top := clearedTop st.shapes c st.y (collapseMargin (st.adj ++ [0]))
    let box : ABox := ⟨cb.cx, top.1, 0, 0, ml, mr, w, h, .none, c, kind⟩
    match avoidCollisions st.shapes box cb false with
    | .error e => .error e
    | .ok p => .ok (⟨st.shapes, p.y + h, [0]⟩, .replaced (p.x + ml) p.y w h)

def flowFrom (cb : CB) : FlowState → List Item → Except PyErr (List Placed)
  | _, [] => .ok []
  | st, it :: rest =>
    match flowStep cb st it with
    | .error e => .error e
    | .ok (st', pl) =>
      match flowFrom cb st' rest with
      | .error e => .error e
      | .ok out => .ok (pl :: out)

def flow (cb : CB) (shapes : List Shape) (y : Rat) (items : List Item) : Except PyErr (List Placed) :=
  flowFrom cb ⟨shapes, y, []⟩ items

end Wp.Floats
