/-
Document-level float model: the part of `block_container_layout` (layout/block.py) that a sequence of
block-level floats, paragraphs of one-word lines (with floats met inside the lines), BFC roots and
plain blocks goes through; the vertical margins of in-flow siblings collapse (`collapse_margin` over the
adjoining margins; the container has a top padding, so nothing collapses through it):

  float      → `_out_of_flow_layout` → `float_layout` (clearance, `find_float_position`, append)
  paragraph  → `block_level_layout` (clearance) → one `avoid_collisions(outer=False)` per line box
               (`get_next_linebox`: width = the word, height = the strut = font size); floats met in the
               line after the word → `_out_of_flow_layout` of layout/inline.py (placed at once at the
               line's top when they fit in what is left of the line and no float is waiting, otherwise
               at the line's bottom, in order)
  BFC root   → `block_level_layout` (clearance) → `block_level_width` → `avoid_collisions(outer=False)`
  image      → `block_level_layout` (clearance) → `block_replaced_box_layout` → `avoid_collisions(outer=False)`
  block      → `block_level_layout` (clearance)

The observable output is the margin box of every float, the position and width of every line box,
the border box of every BFC root and the top of every plain block.
-/
import WpModel.Model.Floats

namespace Wp.Floats

/-- One line of a paragraph: the width of its (single) word and the floats met in the line after
that word (`<span style="float:…">`, without paddings or borders: `bw` is their content width). -/
structure LineSpec where
  w : Rat
  floats : List ABox
  deriving Repr, Inhabited

inductive Item where
  | float (b : ABox)                                   -- `px`, `py` are set by the flow
  | para (clear : Clear) (fs : Rat) (lines : List LineSpec) (mt mb : Rat)
  | bfc (clear : Clear) (width : Len) (h ml mr mt mb : Rat)
  | block (clear : Clear) (h mt mb : Rat)
  | replaced (kind : Kind) (clear : Clear) (w h ml mr : Rat)  -- block-level image (`.replaced`) or table (`.tableWrapper`)
  deriving Repr, Inhabited

/-- A placed line: `(position_x, position_y, width)` and the margin boxes of its floats, in document order. -/
structure PlacedLine where
  x : Rat
  y : Rat
  w : Rat
  floats : List (Rat × Rat × Rat × Rat)
  deriving Repr, Inhabited

inductive Placed where
  | float (x y mw mh : Rat)
  | para (lines : List PlacedLine)
  | bfc (x y w h : Rat)                     -- border box
  | block (y : Rat)
  | replaced (x y w h : Rat)                -- border box
  deriving Repr, Inhabited

/-- `collapse_margin(adjoining_margins)` (layout/block.py): `max(positives ∪ {0}) + min(negatives ∪ {0})`. -/
def collapseMargin (ms : List Rat) : Rat :=
  maxList 0 (ms.filter (fun m => decide (m ≥ 0))) + minList 0 (ms.filter (fun m => decide (m ≤ 0)))

/-- `block_level_layout`: the top border edge of an in-flow block whose parent's `position_y` is `y`
and whose top margin collapses with the adjoining margins to `cm`:
`top_border_edge = position_y + collapsed_margin + clearance` when there is clearance.
The flag tells whether clearance was applied (the adjoining margins are then forgotten). -/
def clearedTop (shapes : List Shape) (c : Clear) (y cm : Rat) : Rat × Bool :=
  match getClearance shapes c y cm with
  | some cl => (y + cm + cl, true)
  | none => (y + cm, false)

/-- `_out_of_flow_layout` of layout/inline.py, first pass over the floats met in a line: a float whose
width exceeds what is left of the line (`max_x - position_x`), or that comes after a float already
waiting, waits for the end of the line; the others are laid out at once at the line's top
(`float_layout`), and `max_x` shrinks by their margin width. -/
def inlinePass1 (cb : CB) (lineY : Rat) :
    List Shape → Rat → Bool → List ABox → Except PyErr (List Shape × List (ABox × Option (Rat × Rat × Rat × Rat)))
  | shapes, _, _, [] => .ok (shapes, [])
  | shapes, rem, waiting, b :: bs =>
    if decide (b.bw > rem) || waiting then
      match inlinePass1 cb lineY shapes rem true bs with
      | .error e => .error e
      | .ok (shapes', out) => .ok (shapes', (b, none) :: out)
    else
      match floatPlace shapes { b with px := cb.cx, py := lineY } cb with
      | .error e => .error e
      | .ok (b', shapes1) =>
        match inlinePass1 cb lineY shapes1 (rem - b.marginWidth) false bs with
        | .error e => .error e
        | .ok (shapes', out) => .ok (shapes', (b, some (b'.px, b'.py, b'.marginWidth, b'.marginHeight)) :: out)

/-- `get_next_linebox`, end of the line: the waiting floats are laid out, in order, at the line's bottom. -/
def inlinePass2 (cb : CB) (lineBottom : Rat) :
    List Shape → List (ABox × Option (Rat × Rat × Rat × Rat)) → Except PyErr (List Shape × List (Rat × Rat × Rat × Rat))
  | shapes, [] => .ok (shapes, [])
  | shapes, (_, some r) :: rest =>
    match inlinePass2 cb lineBottom shapes rest with
    | .error e => .error e
    | .ok (shapes', out) => .ok (shapes', r :: out)
  | shapes, (b, none) :: rest =>
    match floatPlace shapes { b with px := cb.cx, py := lineBottom } cb with
    | .error e => .error e
    | .ok (b', shapes1) =>
      match inlinePass2 cb lineBottom shapes1 rest with
      | .error e => .error e
      | .ok (shapes', out) => .ok (shapes', (b'.px, b'.py, b'.marginWidth, b'.marginHeight) :: out)

/-- The line boxes of a paragraph starting at `y`. -/
def layoutLines (cb : CB) (fs : Rat) :
    List Shape → List LineSpec → Rat → Except PyErr (List Shape × List PlacedLine × Rat)
  | shapes, [], y => .ok (shapes, [], y)
  | shapes, l :: ls, y =>
    let line : ABox := ⟨cb.cx, y, 0, 0, 0, 0, l.w, fs, .none, .none, .line⟩
    match avoidCollisions shapes line cb false with
    | .error e => .error e
    | .ok p =>
      let x := if cb.rtl then p.x - l.w else p.x
      match inlinePass1 cb p.y shapes (p.avail - l.w) false l.floats with
      | .error e => .error e
      | .ok (shapes1, marks0) =>
        -- `line_box_verticality`: every float placed on the line is moved to the line's top
        -- (`dy = min_y - subtree.position_y`), wherever `find_float_position` had put it; the box is the
        -- one stored in `excluded_shapes`, so the shape moves too (known finding
        -- inline-float-snapped-to-line-top)
        let shapes1 := shapes1.take shapes.length ++
          (shapes1.drop shapes.length).map (fun s => { s with y := p.y })
        let marks := marks0.map (fun m => (m.1, m.2.map (fun r => (r.1, p.y, r.2.2.1, r.2.2.2))))
        match inlinePass2 cb (p.y + fs) shapes1 marks with
        | .error e => .error e
        | .ok (shapes2, rects) =>
          match layoutLines cb fs shapes2 ls (p.y + fs) with
          | .error e => .error e
          | .ok (shapes3, rest, y') => .ok (shapes3, ⟨x, p.y, l.w, rects⟩ :: rest, y')

/-- State of the flow: floats so far, the parent's `position_y`, the adjoining margins. -/
structure FlowState where
  shapes : List Shape
  y : Rat
  adj : List Rat
  deriving Repr, Inhabited

/-- One child of the container: new state, what was placed. -/
def flowStep (cb : CB) (st : FlowState) : Item → Except PyErr (FlowState × Placed)
  | .float b =>
    -- `_out_of_flow_layout`: `child.position_y += collapse_margin(adjoining_margins)`
    match floatPlace st.shapes { b with px := cb.cx, py := st.y + collapseMargin st.adj } cb with
    | .error e => .error e
    | .ok (b', shapes') =>
      .ok ({ st with shapes := shapes' }, .float b'.px b'.py b'.marginWidth b'.marginHeight)
  | .para c fs lines mt mb =>
    let top := clearedTop st.shapes c st.y (collapseMargin (st.adj ++ [mt]))
    match layoutLines cb fs st.shapes lines top.1 with
    | .error e => .error e
    | .ok (shapes', placed, y') => .ok (⟨shapes', y', [mb]⟩, .para placed)
  | .bfc c width h ml mr mt mb =>
    let top := clearedTop st.shapes c st.y (collapseMargin (st.adj ++ [mt]))
    -- block_level_width: auto width fills the containing block
    let w := match width with
      | some w => w
      | none => cb.w - (ml + mr)
    let box : ABox := ⟨cb.cx, top.1 - mt, mt, mb, ml, mr, w, h, .none, c, .bfc⟩
    match avoidCollisions st.shapes box cb false with
    | .error e => .error e
    | .ok p =>
      -- `_in_flow_layout`: a box of height 0 without paddings / borders / margins "collapses through":
      -- the parent's `position_y` does not advance, unless the box has clearance (then it restarts below
      -- the box).  A BFC root has already consumed the adjoining margins for its own position, so the
      -- parent continues with `[margin_bottom]` only (the margin of the previous sibling is forgotten).
      let st' : FlowState := if h = 0 && !top.2 then ⟨st.shapes, st.y, [mb]⟩ else ⟨st.shapes, p.y + mt + h, [mb]⟩
      .ok (st', .bfc (p.x + ml) (p.y + mt) w h)
  | .block c h mt mb =>
    let top := clearedTop st.shapes c st.y (collapseMargin (st.adj ++ [mt]))
    let st' : FlowState := if h = 0 && !top.2 then st else ⟨st.shapes, top.1 + h, [mb]⟩
    .ok (st', .block top.1)
  | .replaced kind c w h ml mr =>
    -- `block_replaced_box_layout` / `block_box_layout` of a table wrapper: positioned by
    -- `avoid_collisions(outer=False)`; never collapses through; no vertical margins here
    let top := clearedTop st.shapes c st.y (collapseMargin (st.adj ++ [0]))
    let box : ABox := ⟨cb.cx, top.1, 0, 0, ml, mr, w, h, .none, c, kind⟩
    match avoidCollisions st.shapes box cb false with
    | .error e => .error e
    | .ok p => .ok (⟨st.shapes, p.y + h, [0]⟩, .replaced (p.x + ml) p.y w h)

def flowFrom (cb : CB) : FlowState → List Item → Except PyErr (List Placed)
  | _, [] => .ok []
  | st, it :: rest =>
    match flowStep cb st it with
    | .error e => .error e
    | .ok (st', pl) =>
      match flowFrom cb st' rest with
      | .error e => .error e
      | .ok out => .ok (pl :: out)

def flow (cb : CB) (shapes : List Shape) (y : Rat) (items : List Item) : Except PyErr (List Placed) :=
  flowFrom cb ⟨shapes, y, []⟩ items

end Wp.Floats
