/-
Model of pydyf's serializer as WeasyPrint uses it (`pydyf.PDF.write` without object streams, `Object.indirect`,
`Dictionary.data`, `Array.data`, `String.data`, `_to_bytes`, `Stream.data` without compression), and an executable
checker for the file structure of a classic (cross-reference table) PDF: header, `startxref`, table, trailer `/Size`,
every in-use entry pointing at `n g obj`.

Bytes are `List Char` with one `Char` (code point < 256) per byte; on the wire they are hexadecimal.
pydyf is third-party code: this model is tied to the installed pydyf by the `file-writer` / `pydyf-data` correspondence
sections of py/props/c16.py (real `PDF.write` on generated object lists and on the `pydyf.PDF` of every generated
document).  md5 (file identifier) and zlib (object streams, `/FlateDecode`) are outside the model: the identifier hash is
an input, compressed object streams are read by py/harness/pdfread.py only.
No Mathlib.
-/
import WpModel.Model.PdfNum

namespace Wp.PdfFile
open Wp Wp.Pdf

abbrev Bytes := List Char

/-! ## Decimal numbers (`str(int)`, `f'{n:010}'`) -/

def digitChar (d : Nat) : Char := Char.ofNat (48 + d % 10)

/-- `str(n)` for a non-negative int. -/
def natStr (n : Nat) : Bytes :=
  if _h : n < 10 then [digitChar n] else natStr (n / 10) ++ [digitChar (n % 10)]
termination_by n
decreasing_by omega

/-- `f'{n:0{w}}'`: zero padded to at least `w` characters. -/
def padNat (w n : Nat) : Bytes := List.replicate (w - (natStr n).length) '0' ++ natStr n

def digitVal? (c : Char) : Option Nat :=
  if '0' ≤ c ∧ c ≤ '9' then some (c.toNat - 48) else none

/-- Decimal value of a non-empty digit string (leading zeros allowed). -/
def parseNatFrom : Nat → Bytes → Option Nat
  | acc, [] => some acc
  | acc, c :: cs => match digitVal? c with
    | some d => parseNatFrom (acc * 10 + d) cs
    | none => none

def parseNat (b : Bytes) : Option Nat := if b.isEmpty then none else parseNatFrom 0 b

def str (s : String) : Bytes := s.toList

/-! ## Object data (`Dictionary.data`, `Array.data`, `String.data`, `_to_bytes`, `Stream.data`) -/

/-- What WeasyPrint puts into pydyf containers. -/
inductive PVal where
  | raw (b : Bytes)                    -- `bytes`: written as they are (references `b'3 0 R'`, `b'true'` …)
  | text (s : Bytes)                   -- `str`: `str(item).encode('ascii')` (names such as `'/Page'`)
  | num (n : Num)                      -- int / float / None through `_to_bytes`
  | pstring (s : Bytes)                -- `pydyf.String` of ASCII text or bytes
  | array (items : List PVal)
  | dict (entries : List (Bytes × PVal))
  | stream (items : List PVal) (extra : List (Bytes × PVal))   -- `pydyf.Stream(stream, extra, compress=False)`

/-- `re.sub(rb'([\\\(\)])', rb'\\\1', …)`: backslash before `\`, `(`, `)`. -/
def escapeString : Bytes → Bytes
  | [] => []
  | c :: cs => if c = '\\' ∨ c = '(' ∨ c = ')' then '\\' :: c :: escapeString cs else c :: escapeString cs

def joinWith (sep : Bytes) : List Bytes → Bytes
  | [] => []
  | [x] => x
  | x :: xs => x ++ sep ++ joinWith sep xs

mutual
  /-- `_to_bytes(item)` / `item.data`. -/
  def PVal.data : PVal → Bytes
    | .raw b => b
    | .text s => s
    | .num n => n.toBytes.toList
    | .pstring s => '(' :: escapeString s ++ [')']
    | .array items => '[' :: joinWith [' '] (dataList items) ++ [']']
    | .dict entries => str "<<" ++ dictBody entries ++ str ">>"
    | .stream items extra =>
      -- extra = Dictionary(self.extra.copy()); extra['Length'] = len(stream)  (replaces an existing key in place)
      let body := joinWith ['\n'] (dataList items)
      str "<<" ++ dictBodyLen extra body.length false ++ str ">>" ++ str "\nstream\n" ++ body ++ str "\nendstream"
  def dataList : List PVal → List Bytes
    | [] => []
    | v :: vs => v.data :: dataList vs
  /-- `b''.join(b'/' + key + b' ' + value for …)`. -/
  def dictBody : List (Bytes × PVal) → Bytes
    | [] => []
    | (k, v) :: rest => '/' :: k ++ ' ' :: v.data ++ dictBody rest
  /-- The same with `extra['Length'] = n` applied first: on a Python dict the assignment keeps the position of an
  existing key and appends a new one. -/
  def dictBodyLen : List (Bytes × PVal) → Nat → Bool → Bytes
    | [], n, found => if found then [] else str "/Length " ++ (Num.int n).toBytes.toList
    | (k, v) :: rest, n, found =>
      if k = str "Length" then '/' :: k ++ ' ' :: (Num.int n).toBytes.toList ++ dictBodyLen rest n true
      else '/' :: k ++ ' ' :: v.data ++ dictBodyLen rest n found
end

/-! ## The file (`PDF.write`, classic cross-reference table) -/

/-- One entry of `pdf.objects` at write time: `number` is its index (`add_object`). -/
structure PObject where
  generation : Nat
  free : Bool
  data : Bytes
  deriving Repr

/-- `Object.indirect` for the object at index `number`. -/
def header (number generation : Nat) : Bytes := natStr number ++ ' ' :: natStr generation ++ str " obj\n"

def indirect (number : Nat) (o : PObject) : Bytes := header number o.generation ++ o.data ++ str "\nendobj"

/-- `reference`. -/
def reference (number generation : Nat) : Bytes := natStr number ++ ' ' :: natStr generation ++ str " R"

/-- `write_line`: content plus `\n`. -/
def line (content : Bytes) : Bytes := content ++ ['\n']

/-- The objects section: every non-free object as a line, with the offset each one is written at
(`object_.offset = self.current_position`; a free object keeps offset 0). -/
def writeObjects : Nat → Nat → List PObject → Bytes × List Nat
  | _, _, [] => ([], [])
  | pos, number, o :: os =>
    if o.free then
      let r := writeObjects pos (number + 1) os
      (r.1, 0 :: r.2)
    else
      let l := line (indirect number o)
      let r := writeObjects (pos + l.length) (number + 1) os
      (l ++ r.1, pos :: r.2)

/-- `f'{offset:010} {generation:05} {free} '` as a line. -/
def xrefEntry (offset : Nat) (o : PObject) : Bytes :=
  line (padNat 10 offset ++ ' ' :: padNat 5 o.generation ++ ' ' :: (if o.free then 'f' else 'n') :: [' '])

def xrefEntries : List Nat → List PObject → Bytes
  | off :: offs, o :: os => xrefEntry off o ++ xrefEntries offs os
  | _, _ => []

/-- `b'%PDF-' + version` and the binary comment line. -/
def fileHeader (version : Bytes) : Bytes :=
  line (str "%PDF-" ++ version) ++ line ['%', Char.ofNat 0xf0, Char.ofNat 0x9f, Char.ofNat 0x96, Char.ofNat 0xa4]

/-- Trailer options: `/Info` reference when `pdf.info` is not empty, `/ID` when an identifier is asked for
(`identifier` already resolved to bytes: the md5 of the object data when `True`). -/
structure Trailer where
  root : Nat × Nat
  info : Option (Nat × Nat)
  ident : Option (Bytes × Bytes)      -- (identifier, data_hash)

/-- `/Root`, `/Info`, `/ID`, `>>`. -/
def trailerMid (t : Trailer) : Bytes :=
  line (str "/Root " ++ reference t.root.1 t.root.2) ++
  (match t.info with | some i => line (str "/Info " ++ reference i.1 i.2) | none => []) ++
  (match t.ident with
    | some (a, b) => line (str "/ID [" ++ (PVal.pstring a).data ++ ' ' :: (PVal.pstring b).data ++ [']'])
    | none => []) ++
  line (str ">>")

def trailerLines (size : Nat) (t : Trailer) (xrefPos : Nat) : Bytes :=
  line (str "trailer") ++ (line (str "<<") ++ (line (str "/Size " ++ natStr size) ++ (trailerMid t ++
  (line (str "startxref") ++ (line (natStr xrefPos) ++ line (str "%%EOF"))))))

structure Written where
  bytes : Bytes
  offsets : List Nat
  xrefPos : Nat

/-- `PDF.write(output, version, identifier, compress)` when no object stream is used. -/
def writeFile (version : Bytes) (objs : List PObject) (t : Trailer) : Written :=
  let h := fileHeader version
  let body := writeObjects h.length 0 objs
  let xrefPos := h.length + body.1.length
  let table := line (str "xref") ++ line ('0' :: ' ' :: natStr objs.length) ++ xrefEntries body.2 objs
  { bytes := h ++ body.1 ++ table ++ trailerLines objs.length t xrefPos, offsets := body.2, xrefPos := xrefPos }

/-- `version >= b'1.5' and compress` (a comparison of byte strings). -/
def usesObjectStreams (version : String) (compress : Bool) : Bool := compress && decide (version ≥ "1.5")

/-! ## Checker for the structure of a classic-xref file -/

def startsWith : Bytes → Bytes → Bool
  | _, [] => true
  | [], _ :: _ => false
  | b :: bs, p :: ps => b == p && startsWith bs ps

/-- Bytes up to (not including) the first `\n`, and the rest after it. -/
def splitLine : Bytes → Bytes × Bytes
  | [] => ([], [])
  | c :: cs => if c = '\n' then ([], cs) else let r := splitLine cs; (c :: r.1, r.2)

/-- One 20-byte entry `oooooooooo ggggg k \n`. -/
def parseEntry (b : Bytes) : Option (Nat × Nat × Bool) :=
  let e := b.take 20
  if e.length ≠ 20 then none else
  match parseNat (e.take 10), parseNat ((e.drop 11).take 5), e[10]?, e[16]?, e[17]?, e[18]?, e[19]? with
  | some off, some gen, some ' ', some ' ', some k, some ' ', some '\n' =>
    if k = 'n' then some (off, gen, false) else if k = 'f' then some (off, gen, true) else none
  | _, _, _, _, _, _, _ => none

/-- Check `count` entries starting at object number `number`; `file` is the whole file. -/
def checkEntries (file : Bytes) : Nat → Nat → Bytes → Bool
  | 0, _, _ => true
  | count + 1, number, table =>
    match parseEntry table with
    | none => false
    | some (off, gen, free) =>
      (free || startsWith (file.drop off) (header number gen)) && checkEntries file count (number + 1) (table.drop 20)

/-- The last three lines must be `startxref`, a number, `%%EOF`: returns the number. -/
def parseTail (file : Bytes) : Option Nat :=
  match file.reverse with
  | '\n' :: 'F' :: 'O' :: 'E' :: '%' :: '%' :: '\n' :: rest =>
    let r := splitLine rest            -- reversed digits up to the previous '\n'
    if startsWith r.2 (str "startxref").reverse then parseNat r.1.reverse else none
  | _ => none

def containsLine (l : Bytes) : Bytes → Nat → Bool
  | _, 0 => false
  | b, fuel + 1 =>
    if b.isEmpty then false else
    let r := splitLine b
    r.1 == l || containsLine l r.2 fuel

/-- The checker: header, tail, `xref` + one subsection `0 n`, `n` well-formed entries whose in-use offsets point at
`i g obj`, and a trailer line `/Size n`.  Returns the object count and the table position. -/
def checkFile (file : Bytes) : Option (Nat × Nat) :=
  if !startsWith file (str "%PDF-") then none else
  match parseTail file with
  | none => none
  | some xrefPos =>
    let t := file.drop xrefPos
    let l1 := splitLine t
    if l1.1 ≠ str "xref" then none else
    let l2 := splitLine l1.2
    if !startsWith l2.1 ['0', ' '] then none else
    match parseNat (l2.1.drop 2) with
    | none => none
    | some n =>
      if !checkEntries file n 0 l2.2 then none else
      let after := l2.2.drop (20 * n)
      if !startsWith after (str "trailer\n") then none else
      if containsLine (str "/Size " ++ natStr n) after 64 then some (n, xrefPos) else none

end Wp.PdfFile
