/-
C07 — computed values of images that are gradients.  Mirrors, branch for branch, weasyprint/css/computed_values.py

  background_image (a tuple of layers), image (one image: border-image-source, mask-border-source,
  list-style-image; registered by `fix:` e161f80), compute_position, length_or_percentage_tuple

over `length` of Model/LengthC07.  Which properties have which computer, and which properties' validators take a
gradient at all, is regenerated at run time (Gen/NumericC07 `imageComputers`, `gradientValued`).
No Mathlib, no Std: linked into the driver.
-/
import WpModel.Model.Wire
import WpModel.Model.LengthC07
import WpModel.Model.TracksC07
import WpModel.Gen.NumericC07

namespace Wp.Grad07
open Wp Wp.Len07 Wp.Tracks07

abbrev Dim := Rat × Option String

/-- What the computers read and write of a `LinearGradient` / `RadialGradient` object. -/
structure Gradient where
  stops : List (Option Dim)            -- `stop_positions`: a Dimension or None per colour stop
  center : Option (Dim × Dim)          -- radial only: `(origin_x, pos_x, origin_y, pos_y)`, the two positions
  explicitSize : Option (List Dim)     -- radial only, when `size_type == 'explicit'`: `size`
  deriving Repr, BEq, DecidableEq

/-- One `(type, value)` pair. -/
inductive Image where
  | other (kind : String)              -- ('none', None), ('url', …): left as they are
  | linear (g : Gradient)
  | radial (g : Gradient)
  deriving Repr, BEq, DecidableEq

def computeDim (ctx : FontCtx) (d : Dim) : Dim := lengthDim ctx d.1 d.2

/-- The body of the `for type_, value in values:` loop of `background_image`. -/
def computeImage (ctx : FontCtx) : Image → Image
  | .other k => .other k
  | .linear g => .linear { g with stops := g.stops.map (Option.map (computeDim ctx)) }
  | .radial g =>
    .radial { stops := g.stops.map (Option.map (computeDim ctx)),
              center := g.center.map fun c => (computeDim ctx c.1, computeDim ctx c.2),
              explicitSize := g.explicitSize.map (List.map (computeDim ctx)) }

/-- `background_image(style, name, values)`. -/
def backgroundImage (ctx : FontCtx) (layers : List Image) : List Image := layers.map (computeImage ctx)

/-- `image(style, name, value)`: `background_image(style, name, (value,))`, the value itself returned. -/
def image (ctx : FontCtx) (value : Image) : Image :=
  match backgroundImage ctx [value] with
  | [v] => v
  | _ => value        -- unreachable

/-- The computer registered for a property (generated at run time): `"background_image"`, `"image"`, or none. -/
def imageComputer (name : String) : Option String := Gen.NumericC07.imageComputers.lookup name

/-- `COMPUTER_FUNCTIONS[name](style, name, value)` when it is one of the two, on the value the validator built
(`layers` for background-image, one image otherwise); without a computer the value stays as specified. -/
def computeProperty (ctx : FontCtx) (name : String) (layers : List Image) : List Image :=
  match imageComputer name with
  | some "background_image" => backgroundImage ctx layers
  | some "image" => layers.map (image ctx)
  | _ => layers

/-! ### "Every length is in px" -/

def dimDone (d : Dim) : Bool := unitDone d.2
def dimKnown (d : Dim) : Bool := unitKnown d.2

def optAll (p : Dim → Bool) : Option Dim → Bool
  | none => true
  | some d => p d

def Gradient.all (p : Dim → Bool) (g : Gradient) : Bool :=
  g.stops.all (optAll p) &&
  (match g.center with | none => true | some c => p c.1 && p c.2) &&
  (match g.explicitSize with | none => true | some l => l.all p)

def Image.all (p : Dim → Bool) : Image → Bool
  | .other _ => true
  | .linear g => g.stops.all (optAll p)
  | .radial g => g.all p

end Wp.Grad07
