/-
C09 — which branches of `split_first_line` a call takes, recomputed from the model's own pieces
(`shortText`, `step1`, `step3Texts`, `step3BreakPoint`, `canBreakWord` …).  Used only to *measure* the
generators (branch histogram of the evidence, "branches never hit"); it takes no part in the
correspondence or in the theorems.
-/
import WpModel.Model.LineBreak

namespace Wp.LBTrace
open Wp Wp.Py Wp.Pango Wp.LB

def allBranches : List String :=
  ["s1:no-width", "s1:word+letter", "s1:ratio", "s1:short=text", "s1:fallback-whole", "s1:truncated", "s1:kept",
   "x:step2-nowrap", "x:step2-fits", "x:step3-nextword-empty", "x:step3-no-collapse", "x:step3-char-not-space",
   "x:step3-retry-fits", "x:step3-retry-wraps", "x:step3-retry-empty-first-line", "x:step3-overflow-no-nextword",
   "s3:first-line-fits", "s3:first-line-overflows", "s3:breakpoint-none", "s3:breakpoint-negative",
   "s3:breakpoint-zero", "s3:breakpoint-positive", "s5:rewrap", "s5:rewrap-clamped", "s5:no",
   "r:none", "r:newline", "r:space", "r:inside-word", "error"]

/-- tags of step 5 -/
def step5Tags (st : Style) (maxW : MaxW) (a b : Bool) (line : Line) : List String :=
  match maxW with
  | .fin W =>
    if W - line.width < 0 ∧ canBreakWord st a b = true then
      (if W < 0 then ["s5:rewrap-clamped"] else ["s5:rewrap"])
    else ["s5:no"]
  | _ => ["s5:no"]

def trace (st : Style) (text : Text) (maxWidth : MaxW) (a b : Bool) : List String :=
  let maxW := if st.ws.textWrap then maxWidth else .none
  let s1 : List String × Except PyErr Draft :=
    match maxW with
    | .fin W =>
      if st.fs ≠ 0 then
        let short := shortText true st.fs text W
        let kind := if short = text then "s1:short=text"
          else if st.fs * Gen.LineBreak.ratio > W then "s1:word+letter" else "s1:ratio"
        ([kind], step1 true st text W)
      else (["s1:no-width"], .ok (draftFull st text maxWidth))
    | _ => (["s1:no-width"], .ok (draftFull st text maxWidth))
  match s1.2 with
  | .error _ => s1.1 ++ ["error"]
  | .ok d =>
    let t1 := s1.1 ++ (match maxW with
      | .fin W =>
        if st.fs ≠ 0 then
          let short := shortText true st.fs text W
          if d.short = text ∧ short ≠ text then ["s1:fallback-whole"]
          else if d.text ≠ text then ["s1:truncated"] else ["s1:kept"]
        else []
      | _ => [])
    let result := finish st d maxW a b
    let rtag := match result with
      | .error _ => ["error"]
      | .ok r =>
        match r.resume with
        | none => ["r:none"]
        | some k =>
          if ((text.take k).drop r.length).any (· == '\n') then ["r:newline"]
          else if (text.take k).getLast? == some ' ' then ["r:space"] else ["r:inside-word"]
    if maxW = .none then t1 ++ ["x:step2-nowrap"] ++ rtag
    else if d.line.resume = none ∧ maxW.ge d.line.width then t1 ++ ["x:step2-fits"] ++ rtag
    else
      let flt := (step3Texts d maxW).1
      let slt := (step3Texts d maxW).2
      let t3 := t1 ++ [if maxW.ge d.line.width then "s3:first-line-fits" else "s3:first-line-overflows"]
      match step3BreakPoint d flt with
      | .error _ => t3 ++ ["error"]
      | .ok bp =>
        let tb := t3 ++ [match bp with
          | none => "s3:breakpoint-none"
          | some k => if k < 0 then "s3:breakpoint-negative" else if k = 0 then "s3:breakpoint-zero"
            else "s3:breakpoint-positive"]
        let nextWord := rstripSp (sliceTo slt bp)
        if nextWord ≠ [] then
          if st.ws.spaceCollapse then
            match Py.get slt (orInt bp (-1)) "second_line_text" with
            | .error _ => tb ++ ["error"]
            | .ok c =>
              if c = ' ' then
                let lay := d.lay.setText (flt ++ nextWord)
                let line := firstLine st.fs lay
                match line.resume with
                | none =>
                  if flt ≠ [] then tb ++ ["x:step3-retry-fits"] ++ rtag
                  else tb ++ ["x:step3-retry-empty-first-line"] ++ step5Tags st maxW a b line ++ rtag
                | some _ => tb ++ ["x:step3-retry-wraps"] ++ step5Tags st maxW a b line ++ rtag
              else tb ++ ["x:step3-char-not-space"] ++ step5Tags st maxW a b d.line ++ rtag
          else tb ++ ["x:step3-no-collapse"] ++ step5Tags st maxW a b d.line ++ rtag
        else if flt ≠ [] then tb ++ ["x:step3-nextword-empty"] ++ rtag
        else tb ++ ["x:step3-overflow-no-nextword"] ++ step5Tags st maxW a b d.line ++ rtag

end Wp.LBTrace
