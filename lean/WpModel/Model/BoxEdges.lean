/-
Model of the geometry helpers of `weasyprint/formatting_structure/boxes.py` `Box` (C05 clauses (a)(f)(g):
every layout function positions children with them):

  padding_width/height, border_width/height, margin_width/height,
  content_box_x/y, padding_box_x/y, border_box_x/y, translate

`position_x/y` is the top-left corner of the *margin* box.  No Mathlib: linked into the driver.
-/
import WpModel.Model.Wire

namespace Wp.BoxEdges
open Wp

/-- Used values of a laid-out box. -/
structure EBox where
  x : Rat
  y : Rat
  w : Rat
  h : Rat
  ml : Rat
  mr : Rat
  mt : Rat
  mb : Rat
  pl : Rat
  pr : Rat
  pt : Rat
  pb : Rat
  bl : Rat
  br : Rat
  bt : Rat
  bb : Rat
  deriving Repr, DecidableEq

namespace EBox

def paddingWidth (b : EBox) : Rat := b.w + b.pl + b.pr
def paddingHeight (b : EBox) : Rat := b.h + b.pt + b.pb
def borderWidth (b : EBox) : Rat := b.paddingWidth + b.bl + b.br
def borderHeight (b : EBox) : Rat := b.paddingHeight + b.bt + b.bb
def marginWidth (b : EBox) : Rat := b.borderWidth + b.ml + b.mr
def marginHeight (b : EBox) : Rat := b.borderHeight + b.mt + b.mb
def contentBoxX (b : EBox) : Rat := b.x + b.ml + b.pl + b.bl
def contentBoxY (b : EBox) : Rat := b.y + b.mt + b.pt + b.bt
def paddingBoxX (b : EBox) : Rat := b.x + b.ml + b.bl
def paddingBoxY (b : EBox) : Rat := b.y + b.mt + b.bt
def borderBoxX (b : EBox) : Rat := b.x + b.ml
def borderBoxY (b : EBox) : Rat := b.y + b.mt

end EBox

/-- A box with its children (`all_children()`), and whether `style['float'] != 'none'`. -/
inductive ETree where
  | mk (box : EBox) (floated : Bool) (kids : List ETree)
  deriving Repr

mutual
/-- `Box.translate(dx, dy, ignore_floats)`:
```python
if dx == dy == 0: return
self.position_x += dx; self.position_y += dy
for child in self.all_children():
    if not (ignore_floats and child.is_floated()):
        child.translate(dx, dy, ignore_floats)
``` -/
def translate (dx dy : Rat) (ignoreFloats : Bool) : ETree → ETree
  | .mk b f kids =>
    if dx = 0 ∧ dy = 0 then .mk b f kids
    else .mk { b with x := b.x + dx, y := b.y + dy } f (translateKids dx dy ignoreFloats kids)
def translateKids (dx dy : Rat) (ignoreFloats : Bool) : List ETree → List ETree
  | [] => []
  | .mk b f kids :: rest =>
    (if ignoreFloats && f then .mk b f kids else translate dx dy ignoreFloats (.mk b f kids))
      :: translateKids dx dy ignoreFloats rest
end

mutual
/-- Preorder positions. -/
def positions : ETree → List (Rat × Rat)
  | .mk b _ kids => (b.x, b.y) :: positionsKids kids
def positionsKids : List ETree → List (Rat × Rat)
  | [] => []
  | t :: ts => positions t ++ positionsKids ts
end

end Wp.BoxEdges
