/-
Counter scoping while boxes are built: mirror of `weasyprint/formatting_structure/build.py`
  `update_counters`, the scope push / pop of `element_to_box`, `before_after_to_box`, `marker_to_box`
  (text markers), the `counter()/counters()/target-counter()/target-counters()` items of
  `compute_content_list`, `TargetCollector.store_target` / `lookup_target` / `check_pending_targets`
  (`css/targets.py`) as far as the printed text depends on them.

Representation: a Python stack `[outermost, …, innermost]` is the Lean list `innermost :: … :: [outermost]`;
`counter_scopes` likewise has the current (deepest) set first.  `counters()` prints the stack reversed.
Python failure points (`counter_values[name].pop()` on a missing key / empty list, the two `assert`s,
`counter_scopes[-1]` on an empty list) are explicit.

No Mathlib, no Std: linked into the compiled driver.
-/
import WpModel.Model.Counters

namespace Wp.Counters

/-- `counter_values`: name → stack (innermost first). -/
abbrev Values := List (String × List Int)
/-- `counter_scopes`: one set of names per open element depth (deepest first). -/
abbrev Scopes := List (List String)

def vget (vs : Values) (n : String) : Option (List Int) :=
  match vs with
  | [] => none
  | (k, st) :: rest => if k = n then some st else vget rest n

def vset (vs : Values) (n : String) (st : List Int) : Values :=
  match vs with
  | [] => [(n, st)]
  | (k, s) :: rest => if k = n then (k, st) :: rest else (k, s) :: vset rest n st

/-- `counter_values.pop(name)`. -/
def verase (vs : Values) (n : String) : Values :=
  match vs with
  | [] => []
  | (k, s) :: rest => if k = n then verase rest n else (k, s) :: verase rest n

structure CState where
  values : Values
  scopes : Scopes
  deriving Repr, DecidableEq

/-- The state `element_to_box` creates for the root: `{'footnote': [0]}`, `[{'footnote'}]`. -/
def initState : CState := ⟨[("footnote", [0])], [["footnote"]]⟩

/-- One `(name, value)` of `counter-reset`:
`if name in sibling_scopes: counter_values[name].pop() else: sibling_scopes.add(name)`;
`counter_values.setdefault(name, []).append(value)`. -/
def resetOne (st : CState) (name : String) (value : Int) : Except CErr CState :=
  match st.scopes with
  | [] => .error .indexError
  | sib :: outer =>
    if sib.contains name then
      match vget st.values name with
      | none => .error .keyError
      | some [] => .error .indexError
      | some (_ :: stack) => .ok ⟨vset st.values name (value :: stack), sib :: outer⟩
    else
      .ok ⟨vset st.values name (value :: (vget st.values name).getD []), (sib ++ [name]) :: outer⟩

/-- Shared by `counter-set` (`values[-1] = value`) and `counter-increment` (`values[-1] += value`):
`values = counter_values.setdefault(name, []); if not values: assert name not in sibling_scopes;
sibling_scopes.add(name); values.append(0)`. -/
def touchOne (f : Int → Int) (st : CState) (name : String) : Except CErr CState :=
  match st.scopes with
  | [] => .error .indexError
  | sib :: outer =>
    match (vget st.values name).getD [] with
    | [] =>
      if sib.contains name then .error .assertion
      else .ok ⟨vset st.values name [f 0], (sib ++ [name]) :: outer⟩
    | top :: stack => .ok ⟨vset st.values name (f top :: stack), sib :: outer⟩

def foldPairs (f : CState → String → Int → Except CErr CState) :
    List (String × Int) → CState → Except CErr CState
  | [], st => .ok st
  | (n, v) :: rest, st => do foldPairs f rest (← f st n v)

/-- `display`: `('none',)`, a value containing `'list-item'`, anything else. -/
inductive Disp where
  | none | listItem | other
  deriving Repr, DecidableEq

/-- The counter properties of a computed style. `incr = none` is `counter_increment == 'auto'`. -/
structure Ops where
  disp : Disp
  reset : List (String × Int)
  set : List (String × Int)
  incr : Option (List (String × Int))
  deriving Repr, DecidableEq

/-- `update_counters(state, style)`. -/
def updateCounters (st : CState) (o : Ops) : Except CErr CState := do
  let st ← foldPairs resetOne o.reset st
  let st ← foldPairs (fun s n v => touchOne (fun _ => v) s n) o.set st
  let incr := match o.incr with
    | some l => l
    | none => if o.disp = .listItem then [("list-item", 1)] else []
  foldPairs (fun s n v => touchOne (fun t => t + v) s n) incr st

/-- `counter_scopes.append(set())`. -/
def pushScope (st : CState) : CState := ⟨st.values, [] :: st.scopes⟩

/-- `for name in counter_scopes.pop(): counter_values[name].pop(); if not counter_values[name]:
counter_values.pop(name)`. -/
def popNames : List String → Values → Except CErr Values
  | [], vs => .ok vs
  | n :: rest, vs =>
    match vget vs n with
    | none => .error .keyError
    | some [] => .error .indexError
    | some [_] => popNames rest (verase vs n)
    | some (_ :: stack) => popNames rest (vset vs n stack)

def popScope (st : CState) : Except CErr CState :=
  match st.scopes with
  | [] => .error .indexError
  | top :: outer => do pure ⟨← popNames top st.values, outer⟩

/-- The items of a `content` list that print counters. -/
inductive Item where
  | str (s : String)
  | counter (name : String) (style : CName)
  | counters (name : String) (sep : String) (style : CName)
  | targetCounter (anchor : String) (name : String) (style : CName)
  | targetCounters (anchor : String) (name : String) (sep : String) (style : CName)
  deriving Repr, DecidableEq

structure Pseudo where
  ops : Ops
  content : List Item
  deriving Repr, DecidableEq

/-- An element as far as counters are concerned.
`listStyle`: `list_style_type` (`none` is the keyword `none`); `markerContent`: the `content` of
`::marker` when it is not `normal`; `anchor`: the `anchor` computed value. -/
inductive Elem where
  | mk (ops : Ops) (listStyle : Option CName) (markerContent : Option (List Item))
      (anchor : Option String) (before after : Option Pseudo) (kids : List Elem)
  deriving Repr

/-- What the traversal of `element_to_box` needs from the counter state: the three mutations and the
read access used by `counter()` / `counters()` / markers / target snapshots.  The implementation's
state (`implMachine`: `counter_values` + `counter_scopes`) and the reference semantics
(`Spec.machine`: a stack of frames) are two instances; `Props/C15.lean` proves they agree. -/
structure Machine (σ : Type) where
  update : σ → Ops → Except CErr σ
  push : σ → σ
  pop : σ → Except CErr σ
  stack : σ → String → Option (List Int)      -- `counter_values.get(name)`, innermost first

def implMachine : Machine CState :=
  { update := updateCounters, push := pushScope, pop := popScope, stack := fun st n => vget st.values n }

/-- A `cached_counter_values` snapshot, as far as it is read: name ↦ stack. -/
abbrev Snapshot := String → Option (List Int)

/-- Target snapshots: anchor → `cached_counter_values` of the first box stored under it. -/
abbrev Targets := List (String × Snapshot)

def tget (ts : Targets) (a : String) : Option Snapshot :=
  match ts with
  | [] => none
  | (k, v) :: rest => if k = a then some v else tget rest a

/-- `store_target`: only a pending item is filled, i.e. the first box wins. -/
def storeTarget (ts : Targets) (a : String) (vs : Snapshot) : Targets :=
  match tget ts a with
  | some _ => ts
  | none => ts ++ [(a, vs)]

/-- `separator.join(render_value(v, style) for v in stack)` (stack outermost first in Python). -/
def renderStack (cs : Styles) (style : CName) (sep : String) (stack : List Int) : Except CErr String := do
  let parts ← stack.reverse.mapM fun v => renderValueTop cs v style
  pure (sep.intercalate parts)

/-- The loop of `compute_content_list` over counter items; a target that is not `up-to-date` ends the
loop (`break`): the text collected so far is kept. -/
def evalContent (cs : Styles) (targets : Targets) (values : Snapshot) : List Item → String → Except CErr String
  | [], acc => .ok acc
  | .str s :: rest, acc => evalContent cs targets values rest (acc ++ s)
  | .counter name style :: rest, acc =>
    if style = .named "none" then evalContent cs targets values rest acc
    else do
      let v := ((values name).getD [0]).headD 0
      let t ← renderValueTop cs v style
      evalContent cs targets values rest (acc ++ t)
  | .counters name sep style :: rest, acc =>
    if style = .named "none" then evalContent cs targets values rest acc
    else do
      let t ← renderStack cs style sep ((values name).getD [0])
      evalContent cs targets values rest (acc ++ t)
  | .targetCounter anchor name style :: rest, acc =>
    if style = .named "none" then evalContent cs targets values rest acc
    else match tget targets anchor with
      | none => .ok acc
      | some tv => do
        let v := ((tv name).getD [0]).headD 0
        let t ← renderValueTop cs v style
        evalContent cs targets values rest (acc ++ t)
  | .targetCounters anchor name sep style :: rest, acc =>
    if style = .named "none" then evalContent cs targets values rest acc
    else match tget targets anchor with
      | none => .ok acc
      | some tv => do
        let t ← renderStack cs style sep ((tv name).getD [0])
        evalContent cs targets values rest (acc ++ t)

/-- An observed generated box: `marker` / `before` / `after` and its text. -/
structure Obs where
  kind : String
  text : String
  deriving Repr, DecidableEq

/-- `marker_to_box` (text markers): the marker text, `none` when no marker box is produced. -/
def markerText (cs : Styles) (targets : Targets) (values : Snapshot)
    (listStyle : Option CName) (markerContent : Option (List Item)) : Except CErr (Option String) := do
  match markerContent with
  | some items =>
    let t ← evalContent cs targets values items ""
    pure (if t.isEmpty then none else some t)
  | none =>
    match listStyle with
    | none => pure none
    | some style =>
      let v := ((values "list-item").getD [0]).headD 0
      let t ← renderMarker cs style v
      pure (if t.isEmpty then none else some t)

section Traversal
variable {σ : Type} (m : Machine σ)

/-- `before_after_to_box`: counters of the pseudo-element's style, then its content. -/
def pseudoRun (cs : Styles) (targets : Targets) (kind : String) (p : Option Pseudo) (st : σ) :
    Except CErr (List Obs × σ) :=
  match p with
  | none => .ok ([], st)
  | some p => do
    let st ← m.update st p.ops
    let t ← evalContent cs targets (m.stack st) p.content ""
    pure ([⟨kind, t⟩], st)

structure RunOut (σ : Type) where
  obs : List Obs
  state : σ
  stored : Targets

mutual
/-- `element_to_box` restricted to counters.  `targets`: the snapshots known to `lookup_target`
(all of them in the final text, see `buildTexts`); `stored`: the snapshots stored so far. -/
def elemRun (cs : Styles) (targets : Targets) : Elem → σ → Targets → Except CErr (RunOut σ)
  | .mk ops listStyle markerContent anchor before after kids, st, stored =>
    if ops.disp = .none then .ok ⟨[], st, stored⟩
    else do
      let st ← m.update st ops
      let st := m.push st
      let marker ← if ops.disp = .listItem then markerText cs targets (m.stack st) listStyle markerContent
                   else pure none
      let obsM : List Obs := match marker with
        | some t => [⟨"marker", t⟩]
        | none => []
      let (obsB, st) ← pseudoRun m cs targets "before" before st
      let stored := match anchor with
        | some a => storeTarget stored a (m.stack st)
        | none => stored
      let r ← kidsRun cs targets kids st stored
      let (obsA, st) ← pseudoRun m cs targets "after" after r.state
      let st ← m.pop st
      pure ⟨obsM ++ obsB ++ r.obs ++ obsA, st, r.stored⟩
def kidsRun (cs : Styles) (targets : Targets) : List Elem → σ → Targets → Except CErr (RunOut σ)
  | [], st, stored => .ok ⟨[], st, stored⟩
  | k :: rest, st, stored => do
    let r1 ← elemRun cs targets k st stored
    let r2 ← kidsRun cs targets rest r1.state r1.stored
    pure ⟨r1.obs ++ r2.obs, r2.state, r2.stored⟩
end

/-- The texts after `check_pending_targets`: a first traversal stores every target, the printed
texts are those of a traversal in which every stored target is `up-to-date`. -/
def buildTextsWith (cs : Styles) (root : Elem) (init : σ) : Except CErr (List Obs) := do
  let r1 ← elemRun m cs [] root init []
  let r2 ← elemRun m cs r1.stored root init []
  pure r2.obs

end Traversal

/-- `build_formatting_structure` as far as counters are printed. -/
def buildTexts (cs : Styles) (root : Elem) : Except CErr (List Obs) :=
  buildTextsWith implMachine cs root initState

/-! ### Reference semantics (CSS 2.1 §12.4, css-lists-3 "creating and inheriting counters")

A stack of *frames*, one per open element, innermost first: the frame of an element holds the counter
instances created by its children (by `counter-reset`, or implicitly by `counter-set` /
`counter-increment` when no instance is in scope).  `counter-reset` on a child replaces the instance
an earlier sibling (or the same element) put into the frame, otherwise adds one; `counter-set` and
`counter-increment` act on the innermost instance; leaving the element drops its frame. -/
namespace Spec

abbrev Frame := List (String × Int)
abbrev Frames := List Frame

def flookup : Frame → String → Option Int
  | [], _ => none
  | (k, v) :: rest, n => if k = n then some v else flookup rest n

/-- Replace the instance of `n` in the frame, or add one. -/
def fset : Frame → String → Int → Frame
  | [], n, v => [(n, v)]
  | (k, x) :: rest, n, v => if k = n then (k, v) :: rest else (k, x) :: fset rest n v

def fmodify : Frame → String → (Int → Int) → Frame
  | [], _, _ => []
  | (k, x) :: rest, n, g => if k = n then (k, g x) :: rest else (k, x) :: fmodify rest n g

/-- The instances of `n` in scope, innermost first. -/
def stack : Frames → String → List Int
  | [], _ => []
  | f :: rest, n => match flookup f n with
    | some v => v :: stack rest n
    | none => stack rest n

def reset : Frames → String → Int → Frames
  | [], _, _ => []
  | f :: rest, n, v => fset f n v :: rest

/-- Apply `g` to the innermost instance of `n`; `none` when no instance is in scope. -/
def modifyInner (g : Int → Int) (n : String) : Frames → Option Frames
  | [] => none
  | f :: rest => match flookup f n with
    | some _ => some (fmodify f n g :: rest)
    | none => (modifyInner g n rest).map (f :: ·)

def touch (g : Int → Int) : Frames → String → Frames
  | [], _ => []
  | f :: rest, n => match modifyInner g n (f :: rest) with
    | some fr => fr
    | none => (f ++ [(n, g 0)]) :: rest

def foldPairs (f : Frames → String → Int → Frames) : List (String × Int) → Frames → Frames
  | [], fr => fr
  | (n, v) :: rest, fr => foldPairs f rest (f fr n v)

def update (fr : Frames) (o : Ops) : Frames :=
  let fr := foldPairs reset o.reset fr
  let fr := foldPairs (fun s n v => touch (fun _ => v) s n) o.set fr
  let incr := match o.incr with
    | some l => l
    | none => if o.disp = .listItem then [("list-item", 1)] else []
  foldPairs (fun s n v => touch (fun t => t + v) s n) incr fr

/-- The effective `counter-increment` of an element (`auto` = the implicit list-item increment). -/
def effIncr (o : Ops) : List (String × Int) :=
  match o.incr with
  | some l => l
  | none => if o.disp = .listItem then [("list-item", 1)] else []

/-- css-lists-3 §4.5 order: counters are reset, then **incremented, then set**.  `update` above (and
`update_counters` in build.py) set first and increment afterwards: finding `counter-set-before-increment`;
`C15.update_order_partial` shows the two agree on every counter that the element does not both set and
increment. -/
def updateCss (fr : Frames) (o : Ops) : Frames :=
  let fr := foldPairs reset o.reset fr
  let fr := foldPairs (fun s n v => touch (fun t => t + v) s n) (effIncr o) fr
  foldPairs (fun s n v => touch (fun _ => v) s n) o.set fr

def optStack (l : List Int) : Option (List Int) := if l.isEmpty then none else some l

def machine : Machine Frames :=
  { update := fun fr o => .ok (update fr o)
    push := fun fr => [] :: fr
    pop := fun fr => .ok fr.tail
    stack := fun fr n => optStack (stack fr n) }

/-- The root's frame stack: the `footnote` counter exists before the root element. -/
def init : Frames := [[("footnote", 0)]]

/-- `Spec.counters`: the texts of all generated boxes under the reference semantics. -/
def counters (cs : Styles) (root : Elem) : Except CErr (List Obs) :=
  buildTextsWith machine cs root init

end Spec

end Wp.Counters
