/-
C07 — computed values of grid track lists.  Mirrors, branch for branch, weasyprint/css/computed_values.py

  _compute_track_breadth, _track_size (with its recursion into `repeat()`), grid_template, grid_auto

over `length` of Model/LengthC07 (unit table regenerated from css/utils.py).  A track list is what the validator
`grid_template` of properties.py builds: line-name tuples at even indexes, track sections at odd indexes.
No Mathlib, no Std: linked into the driver.
-/
import WpModel.Model.Wire
import WpModel.Model.LengthC07

namespace Wp.Tracks07
open Wp Wp.Len07

/-- A track breadth: `'auto'` / `'min-content'` / `'max-content'`, or a `Dimension` (length, percentage, `fr`). -/
inductive Breadth where
  | kw (s : String)
  | dim (value : Rat) (unit : Option String)
  deriving Repr, BEq, DecidableEq

/-- One element of a track list. -/
inductive Track where
  | names (l : List String)                   -- a tuple of line names (even index)
  | breadth (b : Breadth)
  | minmax (a b : Breadth)                    -- ('minmax()', a, b)
  | fitContent (value : Rat) (unit : Option String)   -- ('fit-content()', Dimension)
  | rep (count : String) (tracks : List Track)        -- ('repeat()', n | 'auto-fill' | 'auto-fit', [tracks])
  | other (tag : String)                      -- any other tuple: no branch of `_track_size` takes it
  deriving Repr, BEq

/-- `length(style, name, value)` on a `Dimension`, as a `Dimension` again (`pixels_only=False`). -/
def lengthDim (ctx : FontCtx) (v : Rat) (u : Option String) : Rat × Option String :=
  match length ctx false (.dim v u) with
  | .dim v' u' => (v', u')
  | .number q => (q, some "px")        -- unreachable without pixels_only
  | .keyword _ => (v, u)               -- unreachable on a Dimension

/-- `_compute_track_breadth(style, name, value)` on a breadth (it returns `None` on anything else). -/
def computeBreadth (ctx : FontCtx) : Breadth → Breadth
  | .kw s => .kw s
  | .dim v u =>
    if u == some "fr" then .dim v u
    else
      let r := lengthDim ctx v u
      .dim r.1 r.2

mutual
/-- The track-section branch of `_track_size`: what is appended for one odd-index value (`[]`: nothing). -/
def trackSection (ctx : FontCtx) : Track → List Track
  | .breadth b => [.breadth (computeBreadth ctx b)]
  | .minmax a b => [.minmax (computeBreadth ctx a) (computeBreadth ctx b)]
  | .fitContent v u => let r := lengthDim ctx v u; [.fitContent r.1 r.2]
  | .rep n ts => [.rep n (trackSize ctx true ts)]
  | .names l => [.names l]               -- a validator never puts names at an odd index; kept as is by no branch
  | .other _ => []
/-- `_track_size(style, name, values)`: `even` = the index of the head is even (a line-name tuple, kept as is). -/
def trackSize (ctx : FontCtx) : Bool → List Track → List Track
  | _, [] => []
  | true, t :: rest => t :: trackSize ctx false rest
  | false, t :: rest => trackSection ctx t ++ trackSize ctx true rest
end

/-- What `grid_template(style, name, values)` gets: `'none'`, a `('subgrid', …)` tuple, or a track list. -/
inductive Template where
  | none
  | subgrid
  | tracks (ts : List Track)
  deriving Repr, BEq

/-- `grid_template` (computer of `grid-template-columns` / `-rows`). -/
def gridTemplate (ctx : FontCtx) : Template → Template
  | .none => .none
  | .subgrid => .subgrid
  | .tracks ts => .tracks (trackSize ctx true ts)

/-- `grid_auto` (computer of `grid-auto-columns` / `-rows`): a flat list of track sizes, no line names, and no
`repeat()` branch. -/
def gridAuto (ctx : FontCtx) : List Track → List Track
  | [] => []
  | .breadth b :: rest => .breadth (computeBreadth ctx b) :: gridAuto ctx rest
  | .minmax a b :: rest => .minmax (computeBreadth ctx a) (computeBreadth ctx b) :: gridAuto ctx rest
  | .fitContent v u :: rest => (let r := lengthDim ctx v u; .fitContent r.1 r.2) :: gridAuto ctx rest
  | _ :: rest => gridAuto ctx rest

/-! ### "Every length is in px" -/

/-- The unit of a computed dimension: px, a percentage, `fr`, or none. -/
def unitDone (u : Option String) : Bool := u == some "px" || u == some "%" || u == some "fr" || u == none

def Breadth.done : Breadth → Bool
  | .kw _ => true
  | .dim _ u => unitDone u

mutual
def Track.done : Track → Bool
  | .names _ => true
  | .breadth b => b.done
  | .minmax a b => a.done && b.done
  | .fitContent _ u => unitDone u
  | .rep _ ts => tracksDone ts
  | .other _ => true
def tracksDone : List Track → Bool
  | [] => true
  | t :: rest => t.done && tracksDone rest
end

/-- The unit of a specified dimension is one the validators let through: a length unit, `%`, `fr`, or none (0). -/
def unitKnown (u : Option String) : Bool :=
  match u with
  | none => true
  | some w => lengthUnits.contains w || w == "%" || w == "fr"

def Breadth.known : Breadth → Bool
  | .kw _ => true
  | .dim _ u => unitKnown u

mutual
def Track.known : Track → Bool
  | .names _ => true
  | .breadth b => b.known
  | .minmax a b => a.known && b.known
  | .fitContent _ u => unitKnown u
  | .rep _ ts => tracksKnown ts
  | .other _ => true
def tracksKnown : List Track → Bool
  | [] => true
  | t :: rest => t.known && tracksKnown rest
end

end Wp.Tracks07
