/-
Fixed boxes repeated on pages whose page areas differ, and fixed boxes nested in fixed boxes: mirror of
`make_page` (layout/page.py: `page.fixed_boxes = […]`, then `absolute_layout(context, absolute_box, page,
positioned_boxes, …)` over the growing list) and of `layout_fixed_boxes` (layout/__init__.py):

    for page in pages:                       # the other pages
        for box in page.fixed_boxes:
            absolute_boxes = []
            absolute_box, _ = absolute_box_layout(context, box, containing_page, absolute_boxes, …)
            yield absolute_box
            while absolute_boxes:            # fixed boxes met inside the fixed box, generation by generation
                new_absolute_boxes = []
                for box in absolute_boxes:
                    absolute_layout(context, box, containing_page, new_absolute_boxes, …)
                absolute_boxes = new_absolute_boxes

Every box of the tree — the collected fixed box and every fixed box nested in it at any depth — is laid out by
`absolute_box_layout` against `containing_page`, the page it is being drawn on: its containing block is that page's
area (`absolute_box_layout`: `PageBox` → content box), never the area of the page its source lies on.  The position
is computed by the model of `absolute_block` (`Model/Absolute.lean`).

No Mathlib: linked into the driver.
-/
import WpModel.Model.Wire
import WpModel.Model.Absolute
import WpModel.Model.Positioned

namespace Wp.Positioned
open Wp Wp.Absolute

/-- Computed style of a fixed box with px sizes: offsets (auto, px or %), size, margins. -/
structure FixedStyle where
  left : Dim
  right : Dim
  top : Dim
  bottom : Dim
  w : Rat
  h : Rat
  ml : Rat
  mr : Rat
  mt : Rat
  mb : Rat
  deriving Repr, DecidableEq, Inhabited

/-- A fixed box of the source with the fixed boxes nested in it (through any static / relative / absolute
descendants: a `fixed` placeholder always goes to the `fixed_boxes` list, which is never re-bound). -/
inductive FixedTree where
  | mk (id : Nat) (st : FixedStyle) (late : Bool) (kids : List FixedTree)
  deriving Repr, Inhabited

def FixedTree.late : FixedTree → Bool
  | .mk _ _ late _ => late

def FixedStyle.toAbs (st : FixedStyle) : AbsStyle :=
  { left := st.left, right := st.right, top := st.top, bottom := st.bottom, width := .px st.w, height := .px st.h,
    ml := .px st.ml, mr := .px st.mr, mt := .px st.mt, mb := .px st.mb,
    pl := .px 0, pr := .px 0, pt := .px 0, pbot := .px 0, bl := 0, br := 0, bt := 0, bb := 0,
    minW := .auto, maxW := .auto, minH := .auto, maxH := .auto }

/-- `absolute_box_layout(context, box, containing_page, …)`: the margin box position of a fixed box on a page whose
area is `area` (static position = the area's origin; the harness always gives one offset per axis). -/
def fixedPos (area : Rect) (st : FixedStyle) : Except PyErr (Rat × Rat) :=
  match absoluteBlock st.toAbs area true area.x area.y 0 0 0 0 with
  | .ok r => .ok (r.x, r.y)
  | .error e => .error e

mutual
/-- One collected fixed box and everything nested in it, laid out against `area`, in tree order. -/
def layoutTree (area : Rect) : FixedTree → Except PyErr (List (Nat × Rat × Rat))
  | .mk id st _ kids =>
    match fixedPos area st, layoutTrees area kids with
    | .ok (x, y), .ok rest => .ok ((id, x, y) :: rest)
    | .error e, _ => .error e
    | _, .error e => .error e
def layoutTrees (area : Rect) : List FixedTree → Except PyErr (List (Nat × Rat × Rat))
  | [] => .ok []
  | t :: ts =>
    match layoutTree area t, layoutTrees area ts with
    | .ok a, .ok b => .ok (a ++ b)
    | .error e, _ => .error e
    | _, .error e => .error e
end

/-- `page.fixed_boxes`: the top-level fixed boxes of the page that `make_page` meets in time. -/
def collectedT (own : List FixedTree) : List FixedTree := own.filter (fun t => !t.late)

/-- The top-level fixed boxes drawn on page `i`, in tree order (`layout_document`): those collected on the earlier
pages, the page's own (laid out by `make_page`), those collected on the later pages. -/
def pageTrees (pages : List (List FixedTree)) (i : Nat) : List FixedTree :=
  ((pages.take i).map collectedT).flatten ++ (pages.getD i []) ++ ((pages.drop (i + 1)).map collectedT).flatten

/-- The whole document: for every page, every fixed box drawn on it with its position; `areas[i]` is the page
area (content box of the page box) of page `i`. -/
def layoutFixedDoc (areas : List Rect) (pages : List (List FixedTree)) :
    List (Except PyErr (List (Nat × Rat × Rat))) :=
  (List.range pages.length).map (fun i => layoutTrees (areas.getD i default) (pageTrees pages i))

/-! ### The content of a fixed box at the page bottom (`absolute_block`, `_in_flow_layout`)

`make_page` lays the page's own fixed boxes out with `bottom_space = 0`, `layout_fixed_boxes` repeats them with
`bottom_space = -inf`; `absolute_block` adds the translation it is going to apply
(`bottom_space += -box.position_y if translate_box_height else translate_y`) and lays the content out at the
static position; `_in_flow_layout` keeps a child block unless it may break (`page_is_empty_with_no_children` is true
for the first child) and its content bottom overflows `context.page_bottom - bottom_space`. -/

/-- `bottom_space` inside `absolute_block` (`none` = `-inf`). -/
def absBottomSpace (base : Option Rat) (r : VBox × Bool × Rat) : Option Rat :=
  base.map (fun b => b + (if r.2.1 then -r.1.posY else r.2.2))

/-- How many of the in-flow child blocks (heights given; no margins, borders or paddings) stay in this fragment:
`y` = position of the next child, `first` = no child laid out yet, `limit` = `page_bottom - bottom_space`. -/
def keptFrom (limit : Option Rat) : Rat → Bool → List Rat → Nat
  | _, _, [] => 0
  | y, first, h :: hs =>
    if !first && (match limit with
        | some l => decide (y + h > l)
        | none => false) then 0
    else 1 + keptFrom limit (y + h) false hs

/-- The number of child blocks of a fixed box drawn in its (first) fragment: `base = some 0` on the page the box is
declared on (`make_page`), `none` on every other page (`layout_fixed_boxes`). -/
def fixedKept (base : Option Rat) (pageBottom : Rat) (vb : VBox) (cbY cbH : Rat) (heights : List Rat) : Nat :=
  let r := absoluteHeight vb cbY cbH
  keptFrom ((absBottomSpace base r).map (fun bs => pageBottom - bs))
    (vb.posY + autoZero r.1.mt + vb.bt + vb.pt) true heights

end Wp.Positioned
