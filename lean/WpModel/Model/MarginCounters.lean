/-
Counters in page-margin boxes: mirror of the counter part of `make_margin_boxes` / `make_box`
(weasyprint/layout/page.py): every generated margin box works on its **own** deep copy of the page state —
`margin_state = copy.deepcopy(state)`, `counter_scopes.append(set())`, `build.update_counters(margin_state,
box.style)`, then `content_to_boxes(…, counter_values, …)` — so the `counter-reset` / `-set` / `-increment` of a
margin box are visible in its own content only ("@margins mustn't manipulate page-context counters").
`box.style` is the style after `_standardize_page_based_counters` (no `pages`, `auto` increments emptied): the
harness reads it from the yielded box.
No Mathlib, no Std: linked into the compiled driver.
-/
import WpModel.Model.CounterScope

namespace Wp.MarginCounters
open Wp.Counters

/-- One generated margin box: its counter declarations and its `content` items. -/
abbrev MBox := Ops × List Item

/-- The text of one margin box on a page whose state is `st`. -/
def marginBoxText (cs : Styles) (st : CState) (b : MBox) : Except CErr String := do
  let st' ← updateCounters (pushScope st) b.1
  evalContent cs [] (fun n => vget st'.values n) b.2 ""

/-- The texts of the generated margin boxes of a page, in generation order. -/
def marginTexts (cs : Styles) (st : CState) : List MBox → Except CErr (List String)
  | [] => .ok []
  | b :: rest => do
    let t ← marginBoxText cs st b
    let ts ← marginTexts cs st rest
    pure (t :: ts)

end Wp.MarginCounters
