/-
Predictive model of the page-breaking part of `table_layout` (`weasyprint/layout/table.py`):
`group_layout`, `body_groups_layout`, `all_groups_layout`, for rows whose cells are never split
(every row has a known height and is placed whole or not at all — true of rows whose cells hold one
line and share padding and border widths; the harness checks it per document).

Mirrored branch for branch: forced breaks between rows and between row groups
(`block_level_page_break` + `force_page_break`, from the C04 model), the overflow test with the
`1e-9` fudge factor, the "page is empty" progress rule, `break-inside: avoid` on a row group (abort),
the header / footer attempt order of `all_groups_layout` (both, header only, footer only, none).
Not mirrored: `find_earlier_page_break` (an *avoided* break between two rows or groups that overflow):
the model reports `err:ValueError` there and the generators do not produce it.
No Mathlib: linked into `driver_c10`.
-/
import WpModel.Model.Wire
import WpModel.Model.Break

namespace Wp.TablePages
open Wp

/-- The 1e-9 fudge factor of `LayoutContext.overflows`. -/
def fudge : Rat := 1 / 1000000000

structure PRow where
  height : Rat
  before : Brk       -- break-before
  after : Brk        -- break-after
  deriving Repr

structure PGroup where
  rows : List PRow
  before : Brk
  after : Brk
  inside : Brk       -- break-inside
  deriving Repr

structure PTable where
  sp : Rat                      -- border_spacing_y (0 in the collapsing model)
  inside : Brk                  -- break-inside of the table
  header : Option PGroup
  footer : Option PGroup
  bodies : List PGroup
  deriving Repr

/-- `bottom_space`: `none` is `-inf` (`header_footer_bottom_space` on a non-empty page). -/
abbrev BSpace := Option Rat

/-- `context.overflows_page(bottom_space, y)`: `y > (page_bottom - bottom_space) * (1 + 1e-9)`. -/
def overflows (pageBottom : Rat) (bs : BSpace) (y : Rat) : Bool :=
  match bs with
  | none => false
  | some b => decide (y > (pageBottom - b) * (1 + fudge))

/-- `bottom_space + footer_height`. -/
def addSpace (bs : BSpace) (h : Rat) : BSpace := bs.map (· + h)

/-- Result of the row loop of `group_layout`. -/
structure RowsOut where
  placed : List (Nat × PRow)    -- rows kept, with their index in the group, in order
  y : Rat                       -- `position_y` after the loop
  resume : Option Nat           -- `resume_at = {index_row: None}`
  next : Option Brk             -- `next_page['break']` (`none` = 'any')
  gaveUp : Bool                 -- `return None, None, next_page` from inside the loop
  deriving Repr

/-- `block_level_page_break(previous_row, row)` for two table rows: the chains stop at the cells. -/
def rowBreak (prev row : PRow) : Brk := resolve [prev.after, row.before]

/-- The `for index_row, row in enumerate(group.children[skip:], start=skip)` loop.
`placed` is kept in reverse order (`acc`). -/
def rowsLoop (sp pageBottom : Rat) (bs : BSpace) (origEmpty : Bool) :
    Nat → List PRow → List (Nat × PRow) → Rat → Bool → Except PyErr RowsOut
  | _, [], acc, y, _ => .ok ⟨acc.reverse, y, none, none, false⟩
  | idx, row :: rest, acc, y, pageIsEmpty =>
    -- forced break between the previous row kept and this one
    let forced := match acc with
      | [] => none
      | (_, prev) :: _ => if forces false (rowBreak prev row) then some (rowBreak prev row) else none
    match forced with
    | some pb => .ok ⟨acc.reverse, y, some idx, some pb, false⟩
    | none =>
      let nextY := y + row.height + sp          -- `resume_at is None`: the spacing is added
      if !pageIsEmpty && overflows pageBottom bs nextY then
        match acc with
        | (_, prev) :: _ =>
          if avoids false (rowBreak prev row) then .error (.valueError "find_earlier_page_break")
          else .ok ⟨acc.reverse, y, some idx, none, false⟩
        | [] =>
          if origEmpty then .ok ⟨[], y, some idx, none, false⟩
          else .ok ⟨[], y, none, none, true⟩
      else rowsLoop sp pageBottom bs origEmpty (idx + 1) rest ((idx, row) :: acc) nextY false

/-- What `group_layout` returns. -/
inductive GroupOut where
  | none (next : Option Brk)                                   -- `None, None, next_page`
  | some (rows : List (Nat × PRow)) (y height : Rat) (resume : Option Nat) (next : Option Brk)
  deriving Repr

/-- `group_layout(group, position_y, bottom_space, page_is_empty, skip_stack)`; `skip` is the row
index of the skip stack (`none` = start of the group). -/
def groupLayout (sp pageBottom : Rat) (g : PGroup) (y : Rat) (bs : BSpace) (pageIsEmpty : Bool)
    (skip : Option Nat) : Except PyErr GroupOut :=
  let s := skip.getD 0        -- `skip = 0` at the start of the group
  match rowsLoop sp pageBottom bs pageIsEmpty s (g.rows.drop s) [] y pageIsEmpty with
  | .error e => .error e
  | .ok o =>
    if o.gaveUp then .ok (.none o.next)
    else
      -- "Do not keep the row group if we made a page break before any of its rows or with 'avoid'."
      let abort := o.resume.isSome && !pageIsEmpty && (avoids false g.inside || o.placed.isEmpty)
      if abort then .ok (.none o.next)
      else
        let height := if o.placed.isEmpty then o.y - y else o.y - y - sp
        .ok (.some o.placed y height o.resume o.next)

/-- A row group kept on the fragment: its index among the body groups, its rows, geometry. -/
structure PlacedGroup where
  index : Nat
  rows : List (Nat × PRow)
  y : Rat
  height : Rat
  deriving Repr

/-- `resume_at` of the table: `{group: None}` or `{group: {row: None}}`. -/
structure Resume where
  group : Nat
  row : Option Nat
  deriving Repr, DecidableEq

/-- Group index of a skip stack (`0` without one). -/
def skipGroup : Option Resume → Nat
  | none => 0
  | some r => r.group

/-- Row part of a skip stack. -/
def skipRow : Option Resume → Option Nat
  | none => none
  | some r => r.row

structure BodiesOut where
  groups : Option (List PlacedGroup)   -- `none`: `new_table_children is None`
  resume : Option Resume
  next : Option Brk
  y : Rat                              -- `end_position_y`
  deriving Repr

/-- `block_level_page_break(previous_group, group)`: the kept copy of the previous group (its last
kept row) against the next group and its first row. -/
def groupBreak (prev : PGroup) (prevLast : Option PRow) (g : PGroup) : Brk :=
  resolve ((match prevLast with | some r => [r.after] | none => []) ++ [prev.after] ++ [g.before] ++
           (match g.rows with | r :: _ => [r.before] | [] => []))

/-- Last kept row of a kept group (`new_table_children[-1].children[-1]`). -/
def PlacedGroup.lastRow (pg : PlacedGroup) : Option PRow :=
  match pg.rows.getLast? with
  | some r => some r.2
  | none => none

/-- `new_table_children` from the reversed accumulator. -/
def groupsOf (acc : List (PlacedGroup × PGroup)) : List PlacedGroup :=
  acc.reverse.map (fun (p : PlacedGroup × PGroup) => p.1)

/-- The loop of `body_groups_layout` over the body groups from index `idx`. -/
def bodiesLoop (sp pageBottom : Rat) (bs : BSpace) :
    Nat → List PGroup → List (PlacedGroup × PGroup) → Rat → Bool → Option Nat → Except PyErr BodiesOut
  | _, [], acc, y, _, _ => .ok ⟨some (groupsOf acc), none, none, y⟩
  | idx, g :: rest, acc, y, pageIsEmpty, skipRow =>
    let forced := match acc with
      | [] => none
      | (pg, prev) :: _ =>
        let pb := groupBreak prev pg.lastRow g
        if forces false pb then some pb else none
    match forced with
    | some pb => .ok ⟨some (groupsOf acc), some ⟨idx, none⟩, some pb, y⟩
    | none =>
      match groupLayout sp pageBottom g y bs pageIsEmpty skipRow with
      | .error e => .error e
      | .ok (.none next) =>
        (match acc with
         | (pg, prev) :: _ =>
           if avoids false (groupBreak prev pg.lastRow g) then
             .error (.valueError "find_earlier_page_break")
           else .ok ⟨some (groupsOf acc), some ⟨idx, none⟩, next, y⟩
         | [] => .ok ⟨none, none, next, y⟩)
      | .ok (.some rows gy height resume next) =>
        let acc' : List (PlacedGroup × PGroup) := ((⟨idx, rows, gy, height⟩ : PlacedGroup), g) :: acc
        let y' := y + height + sp
        match resume with
        | some r => .ok ⟨some (groupsOf acc'), some ⟨idx, some r⟩, next, y'⟩
        | none => bodiesLoop sp pageBottom bs (idx + 1) rest acc' y' false none

/-- `body_groups_layout(skip_stack, position_y, bottom_space, page_is_empty)`; the skip stack is given
in body-group coordinates. -/
def bodiesLayout (t : PTable) (pageBottom : Rat) (skip : Option Resume) (y : Rat) (bs : BSpace)
    (pageIsEmpty : Bool) : Except PyErr BodiesOut :=
  bodiesLoop t.sp pageBottom bs (skipGroup skip) (t.bodies.drop (skipGroup skip)) [] y pageIsEmpty (skipRow skip)

structure Fragment where
  header : Bool
  footer : Bool
  groups : List PlacedGroup
  resume : Option Resume
  next : Option Brk
  endY : Rat
  deriving Repr

/-- A header or footer laid out by `group_layout(…, header_footer_bottom_space, skip_stack=None,
page_is_empty=False)`: kept only when whole (`header and not resume_at`). Returns `height + sp`. -/
def hfHeight (t : PTable) (pageBottom : Rat) (g : Option PGroup) (y : Rat) (bs : BSpace) :
    Except PyErr (Option Rat) :=
  match g with
  | none => .ok none
  | some g =>
    match groupLayout t.sp pageBottom g y bs false none with
    | .error e => .error e
    | .ok (.none _) => .ok none
    | .ok (.some _ _ height resume _) => if resume.isSome then .ok none else .ok (some (height + t.sp))

/-- `avoid_breaks`: `break-inside` of the first body group at or after the skip position. -/
def avoidBreaks (t : PTable) (skip : Option Resume) : Bool :=
  match t.bodies.drop (skipGroup skip) with
  | g :: _ => avoids false g.inside
  | [] => false

def hasRows (t : PTable) : Bool := !t.bodies.isEmpty

/-- Keep the attempt? `new_table_children or not table_rows or not page_is_empty`. -/
def keepAttempt (t : PTable) (o : BodiesOut) (pageIsEmpty : Bool) : Bool :=
  (match o.groups with | some (_ :: _) => true | _ => false) || !hasRows t || !pageIsEmpty

/-- `return header, new_table_children, footer, end_position_y (+ footer_height), resume_at, next_page`
followed by the `new_table_children is None` test of `table_layout`. -/
def finish (hd ft : Bool) (o : BodiesOut) (footerH : Rat) : Option Fragment :=
  match o.groups with
  | none => none
  | some gs => some ⟨hd, ft, gs, o.resume, o.next, o.y + footerH⟩

/-- One attempt of `all_groups_layout`: lay the body groups out from `y` with `bs`, keep the result
(`some`) when something was placed, the table has no rows, or the page is not empty. -/
def attemptKept (t : PTable) (pageBottom : Rat) (skip : Option Resume) (pageIsEmpty : Bool)
    (hd ft : Bool) (y : Rat) (bs : BSpace) (e : Bool) (footerH : Rat) :
    Except PyErr (Option (Option Fragment)) :=
  match bodiesLayout t pageBottom skip y bs e with
  | .error err => .error err
  | .ok o => .ok (if keepAttempt t o pageIsEmpty then some (finish hd ft o footerH) else none)

/-- `all_groups_layout()`: `none` = the table is not placed on this page. `y` is `position_y`
(content top, plus one spacing on the first fragment). Attempts in the code's order: header and
footer; header only; footer only (only when there is no usable header from the start); neither. -/
def tableFragment (t : PTable) (pageBottom : Rat) (skip : Option Resume) (y : Rat) (bs : Rat)
    (pageIsEmpty : Bool) : Except PyErr (Option Fragment) :=
  let hfSpace : BSpace := if pageIsEmpty then some bs else none
  match hfHeight t pageBottom t.header y hfSpace, hfHeight t pageBottom t.footer y hfSpace with
  | .error e, _ => .error e
  | .ok _, .error e => .error e
  | .ok header, .ok footer =>
    let avoid := avoidBreaks t skip
    let last : Except PyErr (Option Fragment) :=
      match bodiesLayout t pageBottom skip y (some bs) pageIsEmpty with
      | .error e => .error e
      | .ok o => .ok (finish false false o 0)
    match header, footer with
    | some hh, some fh =>
      (match attemptKept t pageBottom skip pageIsEmpty true true (y + hh) (addSpace (some bs) fh) avoid fh with
       | .error e => .error e
       | .ok (some r) => .ok r
       | .ok none =>
         -- "We could not fit any content, drop the footer", then the header
         match attemptKept t pageBottom skip pageIsEmpty true false (y + hh) (some bs) avoid 0 with
         | .error e => .error e
         | .ok (some r) => .ok r
         | .ok none => last)
    | some hh, none =>
      (match attemptKept t pageBottom skip pageIsEmpty true false (y + hh) (some bs) avoid 0 with
       | .error e => .error e
       | .ok (some r) => .ok r
       | .ok none => last)
    | none, some fh =>
      (match attemptKept t pageBottom skip pageIsEmpty false true y (addSpace (some bs) fh) avoid fh with
       | .error e => .error e
       | .ok (some r) => .ok r
       | .ok none => last)
    | none, none => last

/-- `table_layout` as far as page breaking goes: the fragment of `all_groups_layout`, dropped again
when the table avoids breaks inside, was broken, and the page is not empty. -/
def tableLayout (t : PTable) (pageBottom : Rat) (skip : Option Resume) (y : Rat) (bs : Rat)
    (pageIsEmpty : Bool) : Except PyErr (Option Fragment) :=
  match tableFragment t pageBottom skip y bs pageIsEmpty with
  | .error e => .error e
  | .ok none => .ok none
  | .ok (some f) =>
    if f.resume.isSome && !pageIsEmpty && avoids false t.inside then .ok none else .ok (some f)

end Wp.TablePages
