/-
PM — the pagination model, stage 2c: multi-column containers.

Stage 1 (`Model/Paginate.lean`: nested block boxes and paragraphs of lines) extended with a `columns` box
(`column-count: n; column-gap: <length>; column-fill: balance | auto`, optional explicit `height`) whose children
are stage-1 boxes, some of them `column-span: all`.

Branch-for-branch transcription of
  weasyprint/layout/column.py  columns_layout, _create_column_box
  weasyprint/layout/block.py   block_box_layout (the columns call site and its second layout with a larger
                               bottom_space), block_level_layout, block_container_layout (is_column:
                               establishes a formatting context, is not stretched to the page bottom),
                               find_earlier_page_break (`is_column: continue`, `is_multicol`: a container is
                               never looked into), avoid_page_break / force_page_break (context.in_column)
plus own copies of the stage-1 functions over the extended box type (`ColBox`, `CFrag`).  The helpers of
stage 1 that do not mention boxes or fragments are reused as they are (`PStyle`, `Resume`, `Geo`, `breakLine`,
`collapseMargin`, `prepare` …).  `Props/C01Col.lean` proves that on documents without `columns` this model
*is* stage 1 (`embed_agrees`).

Follows /repo after the repairs 9436248 (the container's own top margin collapses with the margins before it),
b24b457 (the loop over `columns_and_blocks` stops only when a group continues on the next page), 94e08d4 (second
layout of a finished container only with a larger bottom space), 3162604 (`find_earlier_page_break` never goes into
a container), 0e65726 (column-width clamp: outside the grammar, `column-width` is `auto` here), d7e3d63 (a spanning
child is resumed at its own level: `column_skip_stack = {0: resume_at}`, `skip_stack[0]` handed back) and 24ce8bf
(`find_earlier_page_break` removes the bottom decoration of the box it cuts: `CFrag.cutEnd`).

Spanning children may be paragraphs, childless blocks or blocks with children (any stage-1 box).
Not modelled (outside the grammar): column-width ≠ auto, column-gap: normal / %, nested containers (the model treats an
inner container with `in_column` still set when it returns; the Python code resets the flag), footnotes, floats,
absolutely positioned boxes.
-/
import WpModel.Model.Paginate

namespace Wp.PMC
open Wp Wp.PM

/-- `LayoutContext`: stage 1 plus `in_column` and "bottom_space = inf" (the `next_box` probe of
`columns_layout`: every position overflows). -/
structure CCtx where
  pageBottom : Rat
  currentPage : Nat
  forcedBreak : Bool
  inColumn : Bool
  inf : Bool
  deriving Repr, Inhabited

def CCtx.base (c : CCtx) : Ctx :=
  { pageBottom := c.pageBottom, currentPage := c.currentPage, forcedBreak := c.forcedBreak }

/-- `context.overflows_page(bottom_space, y)`; with `bottom_space = inf` the bound is `-inf`. -/
def CCtx.overflowsPage (c : CCtx) (bs y : Rat) : Bool := c.inf || overflows (c.pageBottom - bs) y

/-- `avoid_page_break(v, context)` / `force_page_break(v, context)`. -/
def CCtx.avoidsB (c : CCtx) (v : Brk) : Bool := avoids c.inColumn v
def CCtx.forcesB (c : CCtx) (v : Brk) : Bool := forces c.inColumn v

/-- Column geometry of a container: `column-count`, `column-fill: balance`, `direction: ltr`, used content
width, used `column-gap` (a length; `column-width` is `auto`). -/
structure ColSpec where
  count : Nat
  balance : Bool
  ltr : Bool
  width : Rat
  gap : Rat := 0
  deriving Repr, Inhabited, BEq

inductive ColBox where
  | para (id : Nat) (n : Nat) (lineH : Rat) (st : PStyle)
  | block (id : Nat) (st : PStyle) (kids : List ColBox)
  /-- `flags[i]` = child `i` has `column-span: all`. -/
  | columns (id : Nat) (st : PStyle) (cs : ColSpec) (flags : List Bool) (kids : List ColBox)
  deriving Repr, Inhabited

def ColBox.st : ColBox → PStyle
  | .para _ _ _ st => st
  | .block _ st _ => st
  | .columns _ st _ _ _ => st

/-- Laid-out fragments.  `cols` is a multi-column container (a `BlockBox` whose children are column boxes and
spanning blocks, none of which has an `.index` attribute); `column` is an anonymous column box
(`is_column`), `x` its `position_x`. -/
inductive CFrag where
  | para (id : Nat) (idx : Nat) (st : PStyle) (n : Nat) (g : Geo) (lines : List (Nat × Rat))
  | block (id : Nat) (idx : Nat) (st : PStyle) (g : Geo) (kids : List CFrag)
  | cols (id : Nat) (idx : Nat) (st : PStyle) (g : Geo) (kids : List CFrag)
  | column (id : Nat) (st : PStyle) (x : Rat) (g : Geo) (kids : List CFrag)
  deriving Repr, Inhabited

def CFrag.st : CFrag → PStyle
  | .para _ _ st _ _ _ => st
  | .block _ _ st _ _ => st
  | .cols _ _ st _ _ => st
  | .column _ st _ _ _ => st
def CFrag.geo : CFrag → Geo
  | .para _ _ _ _ g _ => g
  | .block _ _ _ g _ => g
  | .cols _ _ _ g _ => g
  | .column _ _ _ g _ => g
def CFrag.idx : CFrag → Nat
  | .para _ i _ _ _ _ => i
  | .block _ i _ _ _ => i
  | .cols _ i _ _ _ => i
  | .column _ _ _ _ _ => 0
def CFrag.withIdx : CFrag → Nat → CFrag
  | .para id _ st n g ls, i => .para id i st n g ls
  | .block id _ st g ks, i => .block id i st g ks
  | .cols id _ st g ks, i => .cols id i st g ks
  | .column id st x g ks, _ => .column id st x g ks
def CFrag.isColumn : CFrag → Bool
  | .column _ _ _ _ _ => true
  | _ => false
/-- Block-level children (a paragraph's children are line boxes). -/
def CFrag.kids : CFrag → List CFrag
  | .para _ _ _ _ _ _ => []
  | .block _ _ _ _ ks => ks
  | .cols _ _ _ _ ks => ks
  | .column _ _ _ _ ks => ks
def CFrag.hasChildren : CFrag → Bool
  | .para _ _ _ _ _ ls => !ls.isEmpty
  | .block _ _ _ _ ks => !ks.isEmpty
  | .cols _ _ _ _ ks => !ks.isEmpty
  | .column _ _ _ _ ks => !ks.isEmpty
def CFrag.withGeo : CFrag → Geo → CFrag
  | .para id i st n _ ls, g => .para id i st n g ls
  | .block id i st _ ks, g => .block id i st g ks
  | .cols id i st _ ks, g => .cols id i st g ks
  | .column id st x _ ks, g => .column id st x g ks

/-! ### break values meeting between a laid-out fragment and a source box -/

mutual
def fragAfterChain : CFrag → List Brk
  | .para _ _ st _ _ _ => [st.brkAfter]
  | .block _ _ st _ kids => st.brkAfter :: fragAfterChainLast kids
  | .cols _ _ st _ kids => st.brkAfter :: fragAfterChainLast kids
  | .column _ st _ _ kids => st.brkAfter :: fragAfterChainLast kids
def fragAfterChainLast : List CFrag → List Brk
  | [] => []
  | f :: rest => match rest with
    | [] => fragAfterChain f
    | _ :: _ => fragAfterChainLast rest
end

mutual
def boxBeforeChain : ColBox → List Brk
  | .para _ _ _ st => [st.brkBefore]
  | .block _ st kids => st.brkBefore :: boxBeforeChainFirst kids
  | .columns _ st _ _ kids => st.brkBefore :: boxBeforeChainFirst kids
def boxBeforeChainFirst : List ColBox → List Brk
  | [] => []
  | b :: _ => boxBeforeChain b
end

mutual
def fragBeforeChain : CFrag → List Brk
  | .para _ _ st _ _ _ => [st.brkBefore]
  | .block _ _ st _ kids => st.brkBefore :: fragBeforeChainFirst kids
  | .cols _ _ st _ kids => st.brkBefore :: fragBeforeChainFirst kids
  | .column _ st _ _ kids => st.brkBefore :: fragBeforeChainFirst kids
def fragBeforeChainFirst : List CFrag → List Brk
  | [] => []
  | b :: _ => fragBeforeChain b
end

def breakBetween (before : CFrag) (after : ColBox) : Brk :=
  resolve ((fragAfterChain before).reverse ++ boxBeforeChain after)

def breakBetweenFrags (before : CFrag) (after : Option CFrag) : Brk :=
  resolve ((fragAfterChain before).reverse ++ (match after with | none => [] | some a => fragBeforeChain a))

/-! ### `page_values()` -/

mutual
def boxPageStart : ColBox → String
  | .para _ _ _ st => st.page
  | .block _ st kids => let s := boxPageStartFirst kids; if s = "" then st.page else s
  | .columns _ st _ _ kids => let s := boxPageStartFirst kids; if s = "" then st.page else s
def boxPageStartFirst : List ColBox → String
  | [] => ""
  | b :: _ => boxPageStart b
end

mutual
def fragPageEnd : CFrag → String
  | .para _ _ st _ _ _ => st.page
  | .block _ _ st _ kids => let s := fragPageEndLast kids; if s = "" then st.page else s
  | .cols _ _ st _ kids => let s := fragPageEndLast kids; if s = "" then st.page else s
  | .column _ st _ _ kids => let s := fragPageEndLast kids; if s = "" then st.page else s
def fragPageEndLast : List CFrag → String
  | [] => ""
  | f :: rest => match rest with
    | [] => fragPageEnd f
    | _ :: _ => fragPageEndLast rest
end

/-! ### paragraphs (stage 1 with `overflows_page` of the extended context) -/

def lineLoop (c : CCtx) (st : PStyle) (b : BoxSt) (n : Nat) (lineH : Rat) (pageIsEmpty : Bool) (bs : Rat)
    : (fuel : Nat) → (i : Nat) → (y : Rat) → LineLoop → LineOutcome
  | 0, _, _, s => .done s
  | fuel + 1, i, y, s =>
    let resume := lineResume n i
    let newPosY := y + lineH
    let dbd := s.dbd || resume.isNone
    let offset := if dbd then b.bb + b.pb else 0
    let overflow := (!s.lines.isEmpty || !pageIsEmpty) && c.overflowsPage bs (newPosY + offset)
    if overflow then
      let (abort, stop, r, lines') := breakLine st n i s.lines pageIsEmpty s.skip resume
      .broke abort stop r { s with lines := lines', dbd := dbd }
    else
      let shift := pageIsEmpty && c.overflowsPage bs newPosY
      let newPosY' := if shift then newPosY - s.mt else newPosY
      let lineY := if shift then y - s.mt else y
      let mt' := if shift then 0 else s.mt
      lineLoop c st b n lineH pageIsEmpty bs fuel (i + 1) (y + lineH)
        { lines := s.lines ++ [(i, lineY)], posY := newPosY', skip := resume, mt := mt', dbd := dbd }

def lineboxLoop (c : CCtx) (st : PStyle) (b : BoxSt) (n : Nat) (lineH : Rat) (pageIsEmpty : Bool)
    (adj : List Rat) (bs : Rat) (posY : Rat) (skip : Option Resume) (dbd : Bool) : LineOutcome :=
  lineLoop c st b n lineH pageIsEmpty bs (n - skipLine skip) (skipLine skip) (lineStart adj posY)
    { lines := [], posY := lineStart adj posY, skip := skip, mt := b.mt, dbd := dbd }

def lineboxLayout (c : CCtx) (st : PStyle) (b : BoxSt) (n : Nat) (lineH : Rat) (pageIsEmpty : Bool)
    (adj : List Rat) (bs : Rat) (posY : Rat) (skip : Option Resume) (dbd : Bool) : LineResult :=
  match lineboxLoop c st b n lineH pageIsEmpty adj bs posY skip dbd with
  | .done s =>
    { abort := false, stop := false, resume := lastLineResume n s.lines none, posY := s.posY,
      lines := s.lines, mt := s.mt, dbd := s.dbd }
  | .broke a st' r s =>
    { abort := a, stop := st', resume := lastLineResume n s.lines r, posY := s.posY,
      lines := s.lines, mt := s.mt, dbd := s.dbd }

/-! ### `find_earlier_page_break` -/

/-- `new_child.remove_decoration(start=False, end=True)` (24ce8bf): the box cut at an earlier break loses its
bottom margin, padding and border, unless `box-decoration-break: clone`; its height is not touched. -/
def CFrag.cutEnd : CFrag → CFrag
  | .para id idx st n g lines => .para id idx st n (g.cutBottom st) lines
  | .block id idx st g kids => .block id idx st (g.cutBottom st) kids
  | .cols id idx st g kids => .cols id idx st (g.cutBottom st) kids
  | .column id st x g kids => .column id st x (g.cutBottom st) kids

structure EarlierState where
  found : Option (List CFrag × Resume)
  prev : Option CFrag
  deriving Inhabited

def findEarlierPara (id idx : Nat) (st : PStyle) (n : Nat) (g : Geo) (lines : List (Nat × Rat))
    : Option (CFrag × Resume) :=
  if lines.isEmpty then none
  else
    let index : Int := (lines.length : Int) - (st.widows : Int)
    if index < (st.orphans : Int) then none
    else
      let kept := lines.take index.toNat
      match kept.getLast? with
      | some (i, _) => some (.para id idx st n g kept, .node 0 (lineResume n i))
      | none => none

mutual
/-- The reversed loop of `find_earlier_page_break(children)`, as a right fold.  The children are never those of
a multi-column container (column boxes and spanning blocks have no `.index`): the function does not go into a
container (`is_multicol`), and `_in_flow_layout` only calls it on the children of a block container. -/
def findEarlierGo (inCol : Bool) : List CFrag → EarlierState
  | [] => { found := none, prev := none }
  | x :: xs =>
    let s := findEarlierGo inCol xs
    match s.found with
    | some (kept, r) => { found := some (x :: kept, r), prev := s.prev }
    | none =>
      if x.isColumn then s      -- `elif child.is_column: continue`
      else
        let pb := breakBetweenFrags x s.prev
        let breakAfter : Option CFrag := match s.prev with
          | some p => if !avoids inCol pb then some p else none
          | none => none
        match breakAfter with
        | some p =>
          -- `resume_at = {children[index + 1].index: None}`
          { found := some ([x], .node p.idx none), prev := s.prev }
        | none =>
          if !avoids inCol x.st.brkInside then
            match findEarlierFrag inCol x with
            | some (x', r) =>
              -- `new_child.remove_decoration(start=False, end=True)`; `resume_at = {new_child.index: resume_at}`
              { found := some ([x'.cutEnd], .node x.idx (some r)), prev := some x }
            | none => { found := none, prev := some x }
          else { found := none, prev := some x }
/-- `find_earlier_page_break(child.children)` for a breakable child that is not a multi-column container. -/
def findEarlierFrag (inCol : Bool) : CFrag → Option (CFrag × Resume)
  | .para id idx st n g lines => findEarlierPara id idx st n g lines
  | .block id idx st g kids =>
    match (findEarlierGo inCol kids).found with
    | some (kids', r) => some (.block id idx st g kids', r)
    | none => none
  | .cols _ _ _ _ _ => none        -- `is_multicol`: no page break is looked for inside a container
  | .column _ _ _ _ _ => none      -- never looked into (skipped by the caller)
end

/-! ### block containers -/

structure LayoutResult where
  frag : Option CFrag
  resume : Option Resume
  nextPage : NextPage
  adj : AdjOut
  collapsingThrough : Bool
  adjL : List Rat
  /-- an exception of the Python code (class name) -/
  err : Option String
  deriving Inhabited

structure KidsLoop where
  newChildren : List CFrag
  posY : Rat
  adjL : List Rat
  cur : List Rat
  curIsL : Bool
  nextPage : NextPage
  skip : Option Resume
  deriving Inhabited

inductive KidsOutcome where
  | finished (s : KidsLoop)
  | aborted (page : String) (s : KidsLoop)
  | stopped (resume : Option Resume) (s : KidsLoop)
  | raised (e : String)
  deriving Inhabited

def KidsLoop.setCur (s : KidsLoop) (l : List Rat) (isL : Bool) : KidsLoop :=
  if isL then { s with cur := l, adjL := l, curIsL := true } else { s with cur := l, curIsL := false }

def KidsLoop.appendCur (s : KidsLoop) (m : Rat) : KidsLoop :=
  if s.curIsL then { s with cur := s.cur ++ [m], adjL := s.cur ++ [m] } else { s with cur := s.cur ++ [m] }

/-- `prepare` of stage 1 with `establishes_formatting_context()` (column boxes). -/
def prepareC (isCol : Bool) (c : Ctx) (st : PStyle) (y : Rat) (bs : Rat) (skip : Option Resume) (cbIsRoot : Bool)
    (pageIsEmpty : Bool) (adjL : List Rat) : Prep :=
  let mt0 := if c.currentPage > 1 && pageIsEmpty && (cbIsRoot || !adjL.isEmpty) && !c.forcedBreak then 0 else st.mt
  let isStart := skip.isNone
  let b : BoxSt := { y := y, mt := mt0, mb := st.mb, pt := st.pt, pb := st.pb, bt := st.bt, bb := st.bb }
  let b := if !st.clone && !isStart then { b with mt := 0, pt := 0, bt := 0 } else b
  let dbd := st.clone
  let bs := if dbd then bs + (b.pb + b.bb + b.mb) else bs
  let adjL := adjL ++ [b.mt]
  let cwc := !(b.bt ≠ 0 || b.pt ≠ 0 || st.isRoot || isCol)
  if cwc then
    { b := b, bs := bs, adjL := adjL, cwc := true, cur := adjL, curIsL := true, posY := b.y, dbd := dbd,
      isStart := isStart }
  else
    let b' := { b with y := b.y + collapseMargin adjL - b.mt }
    { b := b', bs := bs, adjL := adjL, cwc := false, cur := [], curIsL := false,
      posY := b'.y + b'.mt + b'.bt + b'.pt, dbd := dbd, isStart := isStart }

/-- `finishTail` of stage 1 with: column boxes establish a formatting context (trailing margins are added to
the height) and are not stretched to the page bottom; nothing is stretched when `bottom_space = inf`. -/
def finishTailC (isCol : Bool) (c : CCtx) (st : PStyle) (b : BoxSt) (bs : Rat)
    (cwc : Bool) (dbd : Bool) (resume : Option Resume) (posY : Rat) (adjL : List Rat) (cur : List Rat)
    (curIsL : Bool) (hasKids : Bool) : FinishTail :=
  let fragmented := resume.isSome
  let b := if cwc then { b with y := b.y + collapseMargin adjL - b.mt } else b
  let (posY, cur, curIsL, through) :=
    if !hasKids then
      let cm := collapseMargin cur
      if (st.height = none || st.height = some 0) && st.minH = 0 && b.bt = 0 && b.pt = 0 && b.bb = 0 && b.pb = 0
      then (posY, cur, curIsL, true)
      else (posY + cm, ([] : List Rat), false, false)
    else if st.height ≠ none then (posY, ([] : List Rat), false, false)
    else (posY, cur, curIsL, false)
  let (posY, cur, curIsL) :=
    if b.bb ≠ 0 || b.pb ≠ 0 || st.isRoot || isCol then (posY + collapseMargin cur, ([] : List Rat), false)
    else (posY, cur, curIsL)
  let nb : BoxSt := if !st.clone && fragmented then { b with mb := 0, pb := 0, bb := 0 } else b
  let contentY := nb.y + nb.mt + nb.bt + nb.pt
  let h0 : Rat := match st.height with | none => posY - contentY | some h => h
  let h : Rat :=
    if !fragmented then
      let capped := match st.maxH with | none => h0 | some m => if h0 ≤ m then h0 else m
      if capped ≥ st.minH then capped else st.minH
    else if isCol || c.inf then h0
    else
      let newH := c.pageBottom - bs - nb.y - (nb.mt + nb.mb + nb.bt + nb.bb + nb.pt + nb.pb)
      if newH > h0 then (if dbd then newH + (b.pb + b.bb + b.mb) else newH) else h0
  { geo := geoOf nb h, adj := if curIsL then .alias else .fresh cur, through := through }

def noneResult (page : Option String) (adjL : List Rat) : LayoutResult :=
  { frag := none, resume := none, nextPage := { brk := none, page := page }, adj := .fresh [],
    collapsingThrough := false, adjL := adjL, err := none }

def raisedResult (e : String) (adjL : List Rat) : LayoutResult :=
  { frag := none, resume := none, nextPage := { brk := none, page := none }, adj := .fresh [],
    collapsingThrough := false, adjL := adjL, err := some e }

def finishContainer (isCol : Bool) (c : CCtx) (st : PStyle) (b : BoxSt) (pageIsEmpty : Bool) (bs : Rat)
    (cwc : Bool) (dbd : Bool) (resume : Option Resume) (posY : Rat) (adjL : List Rat) (cur : List Rat)
    (curIsL : Bool) (nextPage : NextPage) (hasKids : Bool) (pageEnd : String)
    (mk : Geo → CFrag) : LayoutResult :=
  if resume.isSome && c.avoidsB st.brkInside && !pageIsEmpty then noneResult none adjL
  else
    let t := finishTailC isCol c st b bs cwc dbd resume posY adjL cur curIsL hasKids
    let np : NextPage := match nextPage.page with
      | none => { nextPage with page := some pageEnd }
      | some _ => nextPage
    { frag := some (mk t.geo), resume := resume, nextPage := np,
      adj := t.adj, collapsingThrough := t.through, adjL := adjL, err := none }

def finishPara (c : CCtx) (st : PStyle) (p : Prep) (pageIsEmpty : Bool) (id idx n : Nat) (r : LineResult)
    : LayoutResult :=
  let b := { p.b with mt := r.mt }
  let dbd := p.dbd || r.resume.isNone
  if r.abort then noneResult (some st.page) p.adjL
  else
    let resume : Option Resume := if r.stop then forgetIfFixed st b r.posY r.resume else none
    finishContainer false c st b pageIsEmpty p.bs p.cwc dbd resume r.posY p.adjL [] false
      { brk := none, page := none } (!r.lines.isEmpty) st.page
      (fun g => .para id idx st n g r.lines)

def pageEndOf (st : PStyle) (kids : List CFrag) : String :=
  let e := fragPageEndLast kids; if e = "" then st.page else e

/-- Block container (or column box), after the children loop returned `out`. -/
def finishBlock (isCol : Bool) (c : CCtx) (st : PStyle) (p : Prep) (pageIsEmpty : Bool) (out : KidsOutcome)
    (mk : Geo → List CFrag → CFrag) : LayoutResult :=
  match out with
  | .raised e => raisedResult e p.adjL
  | .aborted page s => noneResult (some page) s.adjL
  | .stopped resume s =>
    finishContainer isCol c st p.b pageIsEmpty p.bs p.cwc p.dbd (forgetIfFixed st p.b s.posY resume)
      s.posY s.adjL [] false s.nextPage (!s.newChildren.isEmpty) (pageEndOf st s.newChildren)
      (fun g => mk g s.newChildren)
  | .finished s =>
    finishContainer isCol c st p.b pageIsEmpty p.bs p.cwc p.dbd none s.posY s.adjL s.cur s.curIsL s.nextPage
      (!s.newChildren.isEmpty) (pageEndOf st s.newChildren)
      (fun g => mk g s.newChildren)

def meetBreak (c : CCtx) (s : KidsLoop) (child : ColBox) : Brk × Bool :=
  match s.newChildren.getLast? with
  | none => (.auto, false)
  | some l =>
    let pb := breakBetween l child
    let before := fragPageEnd l
    let after := boxPageStart child
    let named := before ≠ after && after ≠ ""
    (pb, named || c.forcesB pb)

inductive FirstPass where
  | keep (frag : Option CFrag) (posY : Rat)
  | redo (bs' : Rat)
  deriving Inhabited

def firstPass (c : CCtx) (bs : Rat) (pienc : Bool) (posY : Rat) (r : LayoutResult) : FirstPass :=
  match r.frag with
  | none => .keep none posY
  | some f =>
    if r.collapsingThrough then .keep (some f) posY
    else
      let g := f.geo
      let canBreak := !pienc
      if canBreak && c.overflowsPage bs (g.contentBoxY + g.h) then .keep none posY
      else if canBreak && c.overflowsPage bs (g.borderBoxY + g.borderHeight) then .redo (bs + (g.pb + g.bb))
      else .keep (some f) (g.borderBoxY + g.borderHeight)

def KidsLoop.adoptAdj (s : KidsLoop) (hadFrag : Bool) (adj : AdjOut) (frag : Option CFrag) : KidsLoop :=
  if !hadFrag then s
  else
    let s := match adj with
      | .alias => s
      | .fresh l => s.setCur l false
    match frag with
    | some f => s.appendCur f.geo.mb
    | none => s

/-- `find_earlier_page_break(context, new_children, …)` as called by `_in_flow_layout`. -/
def findEarlierList (inCol : Bool) (kids : List CFrag) : Option (List CFrag × Resume) :=
  (findEarlierGo inCol kids).found

def concludeKid (c : CCtx) (index : Nat) (pageIsEmpty : Bool) (pb : Brk) (child : ColBox) (s : KidsLoop)
    (frag : Option CFrag) (resume : Option Resume) : Option KidsOutcome × KidsLoop :=
  match frag with
  | none =>
    let earlier := if c.avoidsB pb then findEarlierList c.inColumn s.newChildren else none
    match earlier with
    | some (kept, r') => (some (.stopped (some r') { s with newChildren := kept }), s)
    | none =>
      if c.avoidsB pb && !pageIsEmpty then (some (.aborted (boxPageStart child) s), s)
      else if !s.newChildren.isEmpty then (some (.stopped (some (.node index none)) s), s)
      else (some (.aborted (boxPageStart child) s), s)
  | some f =>
    let s := { s with newChildren := s.newChildren ++ [f.withIdx index] }
    match resume with
    | some r' => (some (.stopped (some (.node index (some r'))) s), s)
    | none => (none, s)

/-! ### `columns_layout` -/

/-- `columns_and_blocks`: `(index, block)` or `(index, [children …])` (here: index and length). -/
inductive ColItem where
  | span (i : Nat)
  | group (a : Nat) (len : Nat)
  deriving Repr, Inhabited, BEq

def ColItem.index : ColItem → Nat
  | .span i => i
  | .group a _ => a

/-- The loop building `columns_and_blocks` over `box.children[skip:]`; `pending` = `column_children`
(start index, length). -/
def colItemsGo : List Bool → (i : Nat) → (pending : Option (Nat × Nat)) → List ColItem
  | [], _, none => []
  | [], _, some (a, len) => [.group a len]
  | true :: fs, i, none => .span i :: colItemsGo fs (i + 1) none
  | true :: fs, i, some (a, len) => .group a len :: .span i :: colItemsGo fs (i + 1) none
  | false :: fs, i, none => colItemsGo fs (i + 1) (some (i, 1))
  | false :: fs, i, some (a, len) => colItemsGo fs (i + 1) (some (a, len + 1))

/-- One flag per child (a missing flag is `false`). -/
def normFlags (flags : List Bool) : (n : Nat) → List Bool
  | 0 => []
  | n + 1 => (match flags with | [] => false | f :: _ => f) :: normFlags flags.tail n

def colItems (flags : List Bool) (nkids skip : Nat) : List ColItem :=
  colItemsGo ((normFlags flags nkids).drop skip) skip none

/-- What `columns_layout` needs from the block layout (closed over the children of the container). -/
structure ColEnv where
  /-- `block_box_layout(column_box, bottom_space, skip_stack, containing_block, page_is_empty, …)` for the
  column box holding the children from position `a` to the next spanning child; `x` = its `position_x`. -/
  layCol : (c : CCtx) → (a : Nat) → (x y bs : Rat) → (skip : Option Resume) → (pie : Bool) → LayoutResult
  /-- `block_level_layout(block, bottom_space, skip_stack, containing_block, page_is_empty, …,
  adjoining_margins)` for the spanning child at position `i`. -/
  laySpan : (c : CCtx) → (i : Nat) → (y bs : Rat) → (skip : Option Resume) → (pie : Bool) → (adjL : List Rat) →
    LayoutResult

def CFrag.marginHeight (f : CFrag) : Rat :=
  let g := f.geo; g.mt + g.bt + g.pt + g.h + g.pb + g.bb + g.mb

/-- State of one rendering pass of the balancing loop (`for i in range(count)`). -/
structure TrialPass where
  colSkip : Option Resume        -- column_skip_stack
  consumed : List Rat            -- consumed_heights
  lost : Option Rat              -- lost_space (`none` = inf)
  nextPage : Option NextPage     -- the variable `next_page` (`none` = unbound)
  err : Option String
  deriving Inhabited

def minLost (lost : Option Rat) (v : Rat) : Option Rat :=
  match lost with
  | none => some v
  | some l => some (if v < l then v else l)

/-- `for i in range(count): …` of the balancing loop: `k` = remaining iterations. -/
def trialPass (env : ColEnv) (c : CCtx) (a : Nat) (x y height : Rat) (balancing : Bool)
    : (k : Nat) → TrialPass → TrialPass
  | 0, s => s
  | k + 1, s =>
    let r := env.layCol c a x y (c.pageBottom - y - height) s.colSkip (!balancing)
    match r.err with
    | some e => { s with err := some e }
    | none =>
    match r.frag with
    | none => { s with colSkip := some (.node 0 none), nextPage := some r.nextPage }
    | some f =>
      let colSkip := r.resume
      -- consumed height, empty space, height of the next box
      let probe : Option String × Rat × Rat × Rat :=
        match f.kids.getLast? with
        | some last =>
          let consumed := last.marginHeight + last.geo.y - y
          let empty := height - consumed
          if colSkip.isSome then
            let r2 := env.layCol { c with inf := true } a x y 0 colSkip true
            match r2.err, r2.frag with
            | some e, _ => (some e, consumed, empty, 0)
            | none, none => (some "AttributeError", consumed, empty, 0)   -- `next_box.children` on None
            | none, some nb =>
              (none, consumed, empty, match nb.kids with | [] => 0 | k0 :: _ => k0.marginHeight)
          else (none, consumed, empty, 0)
        | none => (none, 0, 0, 0)
      match probe with
      | (some e, _, _, _) => { s with err := some e }
      | (none, consumed, empty, nextH) =>
        let lost := if nextH - empty > 1 then minLost s.lost (nextH - empty) else s.lost
        let s' : TrialPass :=
          { colSkip := colSkip, consumed := s.consumed ++ [consumed], lost := lost,
            nextPage := some r.nextPage, err := none }
        if r.resume.isNone then s' else trialPass env c a x y height balancing k s'

structure TrialOut where
  height : Rat
  stop : Bool                    -- stop_rendering (still assigned by the code, no longer read since b24b457)
  nextPage : Option NextPage
  err : Option String
  deriving Inhabited

def listMax : List Rat → Rat
  | [] => 0
  | v :: vs => vs.foldl (fun a b => if b > a then b else a) v

def listSum (l : List Rat) : Rat := l.foldl (· + ·) 0

/-- The balancing iterations of the `while True` loop (`balancing = True`).  Every iteration adds at least 1px
to `height` and the loop stops above `max_height`, so `fuel = ⌊max_height - height⌋ + 3` suffices; an exhausted
fuel (unreachable) is reported as an error. -/
def balanceLoop (env : ColEnv) (c : CCtx) (a : Nat) (x y maxH : Rat) (count : Nat) (skip : Option Resume)
    : (fuel : Nat) → (height : Rat) → (lost : Option Rat) → (np : Option NextPage) → TrialOut
  | 0, height, _, np => { height := height, stop := true, nextPage := np, err := some "fuel" }
  | fuel + 1, height, lost, np =>
    let p := trialPass env c a x y height true count
      { colSkip := skip, consumed := [], lost := lost, nextPage := np, err := none }
    match p.err with
    | some e => { height := height, stop := true, nextPage := p.nextPage, err := some e }
    | none =>
      if p.colSkip.isNone then { height := height, stop := false, nextPage := p.nextPage, err := none }
      else
        let h' := height + (match p.lost with | none => 1 | some l => l)
        if h' > maxH then { height := maxH, stop := true, nextPage := p.nextPage, err := none }
        else balanceLoop env c a x y maxH count skip fuel h' p.lost p.nextPage

/-- The `while True` loop: a first pass at the full available height (`balancing = False`), then, if
everything fits and the columns are to be balanced (`wantBalance` = `column-fill: balance or index < last
index`), the balancing iterations from the average height. -/
def trialLoop (env : ColEnv) (c : CCtx) (a : Nat) (x y maxH : Rat) (count : Nat) (skip : Option Resume)
    (wantBalance : Bool) (np : Option NextPage) : TrialOut :=
  let p := trialPass env c a x y maxH false count
    { colSkip := skip, consumed := [], lost := none, nextPage := np, err := none }
  match p.err with
  | some e => { height := maxH, stop := true, nextPage := p.nextPage, err := some e }
  | none =>
    let everythingFits := p.colSkip.isNone && decide (listMax p.consumed ≤ maxH)
    if everythingFits then
      if wantBalance then
        let h0 := listSum p.consumed / count
        balanceLoop env c a x y maxH count skip ((maxH - h0).floor.toNat + 3) h0 p.lost p.nextPage
      else { height := maxH, stop := false, nextPage := p.nextPage, err := none }
    else { height := maxH, stop := true, nextPage := p.nextPage, err := none }

structure RealOut where
  columns : List CFrag
  maxColH : Rat                  -- max_column_height
  skip : Option Resume           -- skip_stack
  colSkip : Option Resume        -- column_skip_stack
  nextPage : Option NextPage
  bs : Rat                       -- bottom_space
  breakPage : Bool
  err : Option String
  deriving Inhabited

/-- `position_x` of column `i`: `width = max(0, box.width - (count - 1) * gap) / count`, then
`i * (width + gap)` (ltr) or `box.width - (i + 1) * width - i * gap` (rtl). -/
def colX (cs : ColSpec) (i : Nat) : Rat :=
  let avail := cs.width - ((cs.count : Rat) - 1) * cs.gap
  let w := (if avail < 0 then 0 else avail) / cs.count
  if cs.ltr then i * (w + cs.gap) else cs.width - (i + 1) * w - i * cs.gap

/-- "Replace the current box children with real columns": the second `while True`.  With a definite height the
loop only ends when the content is exhausted or a column cannot be rendered; `fuel` bounds it (every column
consumes at least one unit of content). -/
def realLoop (env : ColEnv) (c : CCtx) (a : Nat) (y : Rat) (cs : ColSpec) (originalPie heightDefined : Bool)
    (originalBs : Rat) : (fuel : Nat) → (i : Nat) → RealOut → RealOut
  | 0, _, s => { s with err := some "fuel" }
  | fuel + 1, i, s =>
    let r := env.layCol c a (colX cs i) y s.bs s.skip originalPie
    match r.err with
    | some e => { s with err := some e }
    | none =>
    match r.frag with
    | none => { s with columns := [], colSkip := r.resume, breakPage := true }
    | some f =>
      let s' : RealOut :=
        { s with columns := s.columns ++ [f], colSkip := r.resume, skip := r.resume, nextPage := some r.nextPage,
                 maxColH := if f.marginHeight > s.maxColH then f.marginHeight else s.maxColH }
      if r.resume.isNone then { s' with bs := originalBs }
      else if i + 1 = cs.count && !heightDefined then s'
      else realLoop env c a y cs originalPie heightDefined originalBs fuel (i + 1) s'

/-- State of the loop `for index, column_children_or_block in columns_and_blocks`. -/
structure ColsState where
  adj : List Rat                 -- adjoining_margins
  y : Rat                        -- current_position_y
  newChildren : List CFrag
  colSkip : Option Resume        -- column_skip_stack
  skip : Option Resume           -- skip_stack
  breakPage : Bool
  nextPage : Option NextPage
  pie : Bool                     -- page_is_empty
  bs : Rat                       -- bottom_space
  index : Nat
  err : Option String
  deriving Inhabited

def adjAfter (r : LayoutResult) : List Rat :=
  match r.adj with
  | .alias => r.adjL
  | .fresh l => l

def setColHeight (h : Rat) (f : CFrag) : CFrag := f.withGeo { f.geo with h := h }

/-- The loop over `columns_and_blocks`. `lastIndex` = `columns_and_blocks[-1][0]`, `unitsFuel` bounds the number
of columns of one group. -/
def colsLoop (env : ColEnv) (c : CCtx) (cs : ColSpec) (heightDefined : Bool) (originalBs : Rat)
    (lastIndex unitsFuel : Nat) : List ColItem → ColsState → ColsState
  | [], s => s
  | .span i :: rest, s =>
    -- `skip_stack and skip_stack[0]`: the spanning block is resumed at its own level
    let r := env.laySpan c i s.y originalBs (subSkipOf s.skip) s.pie s.adj
    match r.err with
    | some e => { s with err := some e }
    | none =>
    let s := { s with index := i, nextPage := some r.nextPage, adj := adjAfter r, skip := none }
    match r.frag with
    | none => { s with breakPage := true }
    | some f =>
      let s := { s with newChildren := s.newChildren ++ [f], y := f.geo.borderBoxY + f.geo.borderHeight,
                        adj := s.adj ++ [f.geo.mb] }
      -- `column_skip_stack = {0: resume_at}`
      if r.resume.isSome then { s with breakPage := true, colSkip := some (.node 0 r.resume) }
      else colsLoop env c cs heightDefined originalBs lastIndex unitsFuel rest { s with pie := false }
  | .group a _ :: rest, s =>
    let y := s.y + collapseMargin s.adj
    let maxH := c.pageBottom - y - originalBs
    let t := trialLoop env c a 0 y maxH cs.count s.skip (cs.balance || a < lastIndex) s.nextPage
    match t.err with
    | some e => { s with err := some e }
    | none =>
    let bs := if c.pageBottom - y - t.height > s.bs then c.pageBottom - y - t.height else s.bs
    let r := realLoop env c a y cs s.pie heightDefined originalBs unitsFuel 0
      { columns := [], maxColH := 0, skip := s.skip, colSkip := s.colSkip, nextPage := t.nextPage, bs := bs,
        breakPage := s.breakPage, err := none }
    match r.err with
    | some e => { s with err := some e }
    | none =>
    let s' : ColsState :=
      { adj := [], y := y + (if maxH < r.maxColH then maxH else r.maxColH),
        newChildren := s.newChildren ++ r.columns.map (setColHeight r.maxColH),
        colSkip := r.colSkip, skip := none, breakPage := r.breakPage, nextPage := r.nextPage, pie := false,
        bs := r.bs, index := a, err := none }
    -- `if break_page or column_skip_stack is not None: break` (the group continues on the next page)
    if r.breakPage || r.colSkip.isSome then s' else colsLoop env c cs heightDefined originalBs lastIndex unitsFuel rest s'

/-- `child.height += height_difference` for the trailing columns of `new_children`. -/
def addTrailing (diff : Rat) : List CFrag → List CFrag × Bool
  | [] => ([], true)
  | f :: fs =>
    let (fs', trailing) := addTrailing diff fs
    if trailing && f.isColumn then (setColHeight (f.geo.h + diff) f :: fs', true) else (f :: fs', false)

def lastItemIndex : List ColItem → Nat
  | [] => 0
  | [it] => it.index
  | _ :: rest => lastItemIndex rest

/-- The skip stack handed to the first item: `if skip_stack: skip_stack = {0: skip_stack[skip]}`. -/
def firstItemSkip : Option Resume → Option Resume
  | some r => some (.node 0 (subSkipOf (some r)))
  | none => none

/-- State of `columns_layout` before the loop over `columns_and_blocks`. `contentY` = `box.content_box_y()`,
`bs` = `bottom_space` (already raised for a definite height). -/
def colsInit (nkids : Nat) (contentY bs : Rat) (skip : Option Resume) (pie : Bool) : ColsState :=
  { adj := [], y := contentY, newChildren := [], colSkip := none,
    skip := if nkids = 0 then none else firstItemSkip skip, breakPage := false,
    nextPage := if nkids = 0 then some { brk := none, page := none } else none,
    pie := pie, bs := bs, index := 0, err := none }

/-- Used height of the container and `height_difference`. -/
def colsHeight (st : PStyle) (height : Rat) : Rat × Rat :=
  let (h, diff) : Rat × Rat := match st.height with
    | none => (height, 0)
    | some H => (H, H - height)
  if st.minH > h then (st.minH, diff + (st.minH - h)) else (h, diff)

/-- "Calculate skip stack". -/
def colsResume (s : ColsState) : Option Resume :=
  if s.colSkip.isSome then some (.node (s.index + skipIdxOf s.colSkip) (subSkipOf s.colSkip))
  else if s.breakPage then some (.node s.index none)
  else s.skip

/-- The end of `columns_layout`, after the loop. `y` = `box.position_y`. -/
def colsFinish (id idx : Nat) (st : PStyle) (nkids : Nat) (mt y contentY : Rat) (adjL : List Rat) (s : ColsState)
    : LayoutResult :=
  match s.err with
  | some e => raisedResult e adjL
  | none =>
  if nkids ≠ 0 && s.newChildren.isEmpty then
    { frag := none, resume := some (.node 0 none), nextPage := { brk := none, page := none }, adj := .fresh [],
      collapsingThrough := false, adjL := adjL, err := none }
  else
    let yEnd := s.y + collapseMargin s.adj
    let hd := colsHeight st (yEnd - contentY)
    let kids := (addTrailing hd.2 s.newChildren).1
    match s.nextPage with
    | none => raisedResult "UnboundLocalError" adjL
    | some np =>
      { frag := some (.cols id idx st
          { y := y, mt := mt, mb := st.mb, pt := st.pt, pb := st.pb, bt := st.bt, bb := st.bb, h := hd.1 } kids),
        resume := colsResume s, nextPage := np, adj := .fresh [], collapsingThrough := false, adjL := adjL,
        err := none }

/-- `columns_layout`. `mt` = the used `margin_top` (already truncated by `block_level_layout`). -/
def columnsLayout (env : ColEnv) (c : CCtx) (id idx : Nat) (st : PStyle) (cs : ColSpec) (flags : List Bool)
    (nkids unitsFuel : Nat) (mt : Rat) (y0 bs0 : Rat) (skip : Option Resume) (pie : Bool) (adjL : List Rat)
    : LayoutResult :=
  if cs.count = 0 then raisedResult "ZeroDivisionError" adjL
  else
  let c := { c with inColumn := true }
  let y := y0 + collapseMargin (adjL ++ [mt]) - mt
  let contentY := y + mt + st.bt + st.pt
  let bs := match st.height with
    | some h => let e := c.pageBottom - contentY - h; if e > bs0 then e else bs0
    | none => bs0
  let items := colItems flags nkids (skipIdxOf skip)
  colsFinish id idx st nkids mt y contentY adjL
    (colsLoop env c cs st.height.isSome bs0 (lastItemIndex items) unitsFuel items
      (colsInit nkids contentY bs skip pie))

/-- The columns branch of `block_box_layout`: "this condition and the whole relayout are probably wrong". -/
def columnsBoxLayout (env : ColEnv) (c : CCtx) (id idx : Nat) (st : PStyle) (cs : ColSpec) (flags : List Bool)
    (nkids unitsFuel : Nat) (y bs : Rat) (skip : Option Resume) (cbIsRoot : Bool) (pie : Bool) (adjL : List Rat)
    : LayoutResult :=
  -- block_level_layout: margin truncation after an unforced break
  let mt := if c.currentPage > 1 && pie && (cbIsRoot || !adjL.isEmpty) && !c.forcedBreak then 0 else st.mt
  let r := columnsLayout env c id idx st cs flags nkids unitsFuel mt y bs skip pie adjL
  match r.err with
  | some _ => r
  | none =>
  if r.resume.isNone then
    match r.frag with
    | none => raisedResult "AttributeError" adjL
    | some f =>
      let cbs := f.geo.mb + f.geo.pb + f.geo.bb
      if cbs > 0 then columnsLayout env c id idx st cs flags nkids unitsFuel mt y (bs + cbs) skip pie adjL
      else r
  else r

/-- Style of the anonymous column boxes: `anonymous_from(box)` (only `page` is taken from the container). -/
def columnStyle (st : PStyle) : PStyle :=
  { mt := 0, mb := 0, pt := 0, pb := 0, bt := 0, bb := 0, height := none, minH := 0, maxH := none,
    brkBefore := .auto, brkAfter := .auto, brkInside := .auto, clone := false, page := st.page,
    orphans := st.orphans, widows := st.widows, isRoot := false }

mutual
def sizeBox : ColBox → Nat
  | .para _ n _ _ => n + 1
  | .block _ _ kids => sizeKids kids + 1
  | .columns _ _ _ _ kids => sizeKids kids + 1
def sizeKids : List ColBox → Nat
  | [] => 0
  | b :: bs => sizeBox b + sizeKids bs
end

mutual

def layoutBox (c : CCtx) (box : ColBox) (idx : Nat) (y : Rat) (bs : Rat) (skip : Option Resume) (cbIsRoot : Bool)
    (pageIsEmpty : Bool) (adjL : List Rat) : LayoutResult :=
  match box with
  | .para id n lineH st =>
    let p := prepareC false c.base st y bs skip cbIsRoot pageIsEmpty adjL
    let lineSkip : Option Resume := subSkipOf skip
    finishPara c st p pageIsEmpty id idx n
      (lineboxLayout c st p.b n lineH pageIsEmpty p.cur p.bs p.posY lineSkip p.dbd)
  | .block id st kids =>
    let p := prepareC false c.base st y bs skip cbIsRoot pageIsEmpty adjL
    let skipIdx := skipIdxOf skip
    let subSkip : Option Resume := subSkipOf skip
    finishBlock false c st p pageIsEmpty
      (layoutKids c st kids [] 0 skipIdx 0 p.bs pageIsEmpty
        { newChildren := [], posY := p.posY, adjL := p.adjL, cur := p.cur, curIsL := p.curIsL,
          nextPage := { brk := none, page := none }, skip := subSkip })
      (fun g ks => .block id idx st g ks)
  | .columns id st cs flags kids =>
    let colSt := columnStyle st
    let env : ColEnv :=
      { layCol := fun c' a x y' bs' skip' pie' =>
          let p := prepareC true c'.base colSt y' bs' skip' false pie' []
          finishBlock true c' colSt p pie'
            (layoutKids c' colSt kids (normFlags flags kids.length) 0 (a + skipIdxOf skip') a p.bs pie'
              { newChildren := [], posY := p.posY, adjL := p.adjL, cur := p.cur, curIsL := p.curIsL,
                nextPage := { brk := none, page := none }, skip := subSkipOf skip' })
            (fun g ks => .column id colSt x g ks)
        laySpan := fun c' i y' bs' skip' pie' adjL' =>
          layoutNth c' kids i y' bs' skip' cbIsRoot pie' adjL' }
    columnsBoxLayout env c id idx st cs flags kids.length (sizeKids kids + 1) y bs skip cbIsRoot pageIsEmpty adjL

/-- `block_level_layout` of the child at position `i` (a spanning child of a container). -/
def layoutNth (c : CCtx) : List ColBox → (i : Nat) → (y bs : Rat) → (skip : Option Resume) → (cbIsRoot : Bool) →
    (pageIsEmpty : Bool) → (adjL : List Rat) → LayoutResult
  | [], _, _, _, _, _, _, adjL => raisedResult "IndexError" adjL
  | b :: _, 0, y, bs, skip, cbIsRoot, pie, adjL => layoutBox c b 0 y bs skip cbIsRoot pie adjL
  | _ :: rest, i + 1, y, bs, skip, cbIsRoot, pie, adjL => layoutNth c rest i y bs skip cbIsRoot pie adjL

/-- The children loop of `block_container_layout`. For a column box: `base` = position (in the container) of its
first child, `flags` = span flags of the container's children from the current position on; the loop ends at the
first spanning child at or after `base`; indices are relative to `base`. For a plain block: `flags = []`,
`base = 0`. `skipIdx` is absolute. -/
def layoutKids (c : CCtx) (st : PStyle) : List ColBox → (flags : List Bool) → (index : Nat) → (skipIdx : Nat) →
    (base : Nat) → (bs : Rat) → (pageIsEmpty : Bool) → KidsLoop → KidsOutcome
  | [], _, _, _, _, _, _, s => .finished s
  | child :: rest, flags, index, skipIdx, base, bs, pageIsEmpty, s =>
    if index < skipIdx then layoutKids c st rest flags.tail (index + 1) skipIdx base bs pageIsEmpty s
    else if flags.head? = some true then .finished s
    else
      let mb := meetBreak c s child
      if mb.2 then
        .stopped (some (.node (index - base) none))
          { s with nextPage := { brk := some mb.1, page := some (boxPageStart child) } }
      else
        let pienc := pageIsEmpty && s.newChildren.isEmpty
        let r := layoutBox c child (index - base) s.posY bs s.skip st.isRoot pienc s.cur
        match r.err with
        | some e => .raised e
        | none =>
        let s1 := s.setCur r.adjL s.curIsL
        match firstPass c bs pienc s.posY r with
        | .keep frag posY =>
          let s2 := { s1.adoptAdj r.frag.isSome r.adj frag with posY := posY, nextPage := r.nextPage, skip := none }
          match concludeKid c (index - base) pageIsEmpty mb.1 child s2 frag r.resume with
          | (some out, _) => out
          | (none, s3) => layoutKids c st rest flags.tail (index + 1) skipIdx base bs pageIsEmpty s3
        | .redo bs' =>
          let r2 := layoutBox c child (index - base) s.posY bs' s.skip st.isRoot pienc s1.cur
          match r2.err with
          | some e => .raised e
          | none =>
          let s1' := s1.setCur r2.adjL s1.curIsL
          let posY := match r2.frag with
            | some f2 => f2.geo.borderBoxY + f2.geo.borderHeight
            | none => s.posY
          let s2 := { s1'.adoptAdj true r2.adj r2.frag with posY := posY, nextPage := r2.nextPage, skip := none }
          match concludeKid c (index - base) pageIsEmpty mb.1 child s2 r2.frag r2.resume with
          | (some out, _) => out
          | (none, s3) => layoutKids c st rest flags.tail (index + 1) skipIdx base bs pageIsEmpty s3

end

/-! ### pages -/

structure CPage where
  type : PageType
  root : CFrag
  resume : Option Resume
  nextPage : NextPage
  deriving Inhabited

structure CDoc where
  pageH : Rat
  rootLtr : Bool
  root : ColBox
  deriving Inhabited

def firstRight (d : CDoc) : Bool :=
  match d.root.st.brkBefore with
  | .right => true
  | .left => false
  | .recto => d.rootLtr
  | .verso => !d.rootLtr
  | _ => d.rootLtr

def emptyRoot : ColBox → ColBox
  | .para id _ lineH st => .para id 0 lineH st
  | .block id st _ => .block id st []
  | .columns id st cs _ _ => .columns id st cs [] []

/-- Outcome of `make_page`: the page, `assert root_box` failed, or an exception of the layout. -/
inductive PageOut where
  | ok (p : CPage)
  | assertFail
  | raised (e : String)
  deriving Inhabited

def remakePage (d : CDoc) (index : Nat) (resume : Option Resume) (nextPage : NextPage) (rightPage : Bool)
    : PageOut :=
  let blank := isBlank (requestedSide d.rootLtr nextPage.brk) rightPage
  let name := if blank then "" else (match nextPage.page with | some p => p | none => "")
  let c : CCtx := { pageBottom := d.pageH, currentPage := index + 1, forcedBreak := forcedBreakOf nextPage,
                    inColumn := false, inf := false }
  let root := if blank then emptyRoot d.root else d.root
  let r := layoutBox c root 0 0 0 resume false true []
  match r.err with
  | some e => .raised e
  | none =>
  match r.frag with
  | none => .assertFail
  | some f =>
    .ok { type := { right := rightPage, blank := blank, name := name, index := index },
          root := f, resume := if blank then resume else r.resume,
          nextPage := if blank then nextPage else r.nextPage }

inductive PagesOut where
  | ok (ps : List CPage)
  | assertFail
  | raised (e : String)
  | fuel
  deriving Inhabited

def makeAllPages (d : CDoc) : (fuel : Nat) → (index : Nat) → Option Resume → NextPage → Bool → PagesOut
  | 0, _, _, _, _ => .fuel
  | fuel + 1, index, resume, nextPage, rightPage =>
    match remakePage d index resume nextPage rightPage with
    | .assertFail => .assertFail
    | .raised e => .raised e
    | .ok p =>
      match p.resume with
      | none => .ok [p]
      | some _ =>
        match makeAllPages d fuel (index + 1) p.resume p.nextPage (!rightPage) with
        | .ok ps => .ok (p :: ps)
        | other => other

def paginateCol (d : CDoc) (fuel : Nat) : PagesOut :=
  makeAllPages d fuel 0 none { brk := none, page := some (boxPageStart d.root) } (firstRight d)

end Wp.PMC
