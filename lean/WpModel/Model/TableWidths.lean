/-
Table width algorithms of `weasyprint/layout/table.py`, mirrored branch for branch:

* `fixedLayout`        ↔ `fixed_table_layout`   (with the part of `percent.resolve_percentages` it uses)
* `distributeExcess`   ↔ `distribute_excess_width` (six groups, optional column slice)
* `autoLayout`         ↔ `auto_table_layout`, *given* the tuple returned by
                          `preferred.table_and_columns_preferred_widths` (an input, not modelled)
* `colPositions`, `cellGeom`, `finalColumns` ↔ the column-position loop, the per-cell placement
                          (`spanned_widths`, `cell.position_x`, `cell.width`) and the final rtl
                          reversal of `table_layout`.

Lengths are `Rat`, `'auto'` is `none`.  Python failure points are explicit (`Except PyErr`).
No Mathlib: linked into `driver_c10`.
-/
import WpModel.Model.Wire

namespace Wp.Table
open Wp

/-- `sum(...)` of rationals (Python folds from the left starting at 0; over ℚ the value is the same). -/
def sumR : List Rat → Rat
  | [] => 0
  | x :: xs => x + sumR xs

/-- A computed `width`: `'auto'`, `Dimension(v, 'px')`, `Dimension(v, '%')`. -/
inductive Dim where
  | auto
  | px (v : Rat)
  | pct (v : Rat)
  deriving Repr, DecidableEq

/-- `percent.percentage(value, refer_to)`. -/
def Dim.used (d : Dim) (referTo : Rat) : Len :=
  match d with
  | .auto => none
  | .px v => some v
  | .pct v => some (referTo * v / 100)

inductive BoxSizing where
  | content | padding | border
  deriving Repr, DecidableEq

/-- A cell of the first row, as `fixed_table_layout` reads it. -/
structure FCell where
  colspan : Nat
  width : Dim
  padL : Rat
  padR : Rat
  borL : Rat
  borR : Rat
  sizing : BoxSizing
  deriving Repr

/-- `resolve_percentages(cell, table)` followed by `cell.border_width()` when `cell.width != 'auto'`:
`adjust_box_sizing` shrinks the content width by `delta` (never below 0) when `delta > 0`. -/
def FCell.borderWidth (c : FCell) (tableW : Rat) : Option Rat :=
  match c.width.used tableW with
  | none => none
  | some w =>
    let delta := match c.sizing with
      | .border => c.padL + c.padR + c.borL + c.borR
      | .padding => c.padL + c.padR
      | .content => 0
    let w' := if delta > 0 then max 0 (w - delta) else w
    some (w' + c.padL + c.padR + c.borL + c.borR)

/-- `border_spacing_x` as both layouts read it. -/
def effSpacing (collapse : Bool) (spacing : Rat) : Rat := if collapse then 0 else spacing

/-! ### `fixed_table_layout` -/

/-- Widths known so far among the columns `[i, i+k)`. -/
def spanKnown (cw : List (Option Rat)) (i k : Nat) : Rat :=
  sumR (((cw.drop i).take k).filterMap id)

/-- Number of columns of `[i, i+k)` without width (`columns_without_width`). -/
def spanUnknown (cw : List (Option Rat)) (i k : Nat) : Nat :=
  (((cw.drop i).take k).filter Option.isNone).length

/-- `for j in columns_without_width: column_widths[j] = v` for the span `[i, i+k)`. -/
def fillSpan (cw : List (Option Rat)) (i k : Nat) (v : Rat) : List (Option Rat) :=
  cw.mapIdx (fun j o => if i ≤ j ∧ j < i + k then (match o with | some w => some w | none => some v) else o)

/-- The width a first-row cell leaves to its columns without width:
`cell.border_width() - border_spacing_x * (colspan - 1) - Σ known`. -/
def cellShare (s : Rat) (cw : List (Option Rat)) (i : Nat) (colspan : Nat) (bw : Rat) : Rat :=
  bw - s * ((colspan : Rat) - 1) - spanKnown cw i colspan

/-- One iteration of the loop over `first_row_cells` (state: widths so far, column index `i`).
`width_per_column = max(width, 0) / len(columns_without_width)`: a cell narrower than the spacings
and the known columns it spans gives its other columns 0, never a negative width (fix 5d962d2). -/
def cellStep (s tableW : Rat) (st : List (Option Rat) × Nat) (c : FCell) : List (Option Rat) × Nat :=
  let cw := st.1
  let i := st.2
  let cw' := match c.borderWidth tableW with
    | none => cw
    | some bw =>
      let m := spanUnknown cw i c.colspan
      if m = 0 then cw else fillSpan cw i c.colspan (max (cellShare s cw i c.colspan bw) 0 / (m : Rat))
  (cw', i + c.colspan)

def numColumns (cols : List Dim) (cells : List FCell) : Nat :=
  max cols.length (cells.map (·.colspan)).sum

/-- `column_widths` after the `<col>` pass and the first-row pass (`None` = not known yet). -/
def fixedAfterCells (tableW s : Rat) (cols : List Dim) (cells : List FCell) : List (Option Rat) :=
  let n := numColumns cols cells
  let cw0 := cols.map (·.used tableW) ++ List.replicate (n - cols.length) none
  (cells.foldl (cellStep s tableW) (cw0, 0)).1

/-- Does this first-row cell take the clamp `max(width, 0)` (its declared width is smaller than the
spacings and known columns it spans)?  Evidence tag; in the real code with `Fraction` inputs this
branch yields the float `0.0` (`int / int`). -/
def cellClamps (s tableW : Rat) (st : List (Option Rat) × Nat) (c : FCell) : Bool :=
  match c.borderWidth tableW with
  | none => false
  | some bw => decide (spanUnknown st.1 st.2 c.colspan ≠ 0) && decide (cellShare s st.1 st.2 c.colspan bw < 0)

/-- Some first-row cell takes the clamp branch. -/
def fixedClamped (tableW s : Rat) (cols : List Dim) (cells : List FCell) : Bool :=
  let n := numColumns cols cells
  let cw0 := cols.map (·.used tableW) ++ List.replicate (n - cols.length) none
  (cells.foldl (fun (acc : (List (Option Rat) × Nat) × Bool) c =>
    (cellStep s tableW acc.1 c, acc.2 || cellClamps s tableW acc.1 c)) ((cw0, 0), false)).2

/-- What the remaining columns get: the remainder shared equally, or 0 for a "broken table". -/
def fixedFill (tableW abs : Rat) (cw1 : List (Option Rat)) : Rat :=
  let minW := sumR (cw1.filterMap id) + abs
  let u := (cw1.filter Option.isNone).length
  if u ≠ 0 ∧ tableW ≥ minW then (tableW - minW) / (u : Rat) else 0

def fillNone (fill : Rat) (cw1 : List (Option Rat)) : List Rat :=
  cw1.map (fun o => match o with | some w => w | none => fill)

structure FixedOut where
  width : Rat
  cols : List Rat
  deriving Repr, DecidableEq

/-- `all_border_spacing = border_spacing_x * (num_columns + 1)`. -/
def allSpacing (s : Rat) (cols : List Dim) (cells : List FCell) : Rat :=
  s * ((numColumns cols cells : Rat) + 1)

/-- `column_widths` once every column has a width (before the final widening). -/
def fixedFilled (W s : Rat) (cols : List Dim) (cells : List FCell) : List Rat :=
  let cw1 := fixedAfterCells W s cols cells
  fillNone (fixedFill W (allSpacing s cols cells) cw1) cw1

/-- `extra_width = table.width - sum(column_widths) - all_border_spacing`. -/
def fixedExtra (W s : Rat) (cols : List Dim) (cells : List FCell) : Rat :=
  W - sumR (fixedFilled W s cols cells) - allSpacing s cols cells

/-- What the last step adds to every column. -/
def fixedBump (W s : Rat) (cols : List Dim) (cells : List FCell) : Rat :=
  if fixedExtra W s cols cells ≤ 0 then 0
  else if numColumns cols cells ≠ 0 then fixedExtra W s cols cells / (numColumns cols cells : Rat)
  else 0

/-- `fixed_table_layout`: `tableW` is `table.width` (`'auto'` trips the `assert`), `s` the effective
border spacing, `cols` the computed widths of all `<col>`s, `cells` the first row. -/
def fixedLayout (tableW : Len) (s : Rat) (cols : List Dim) (cells : List FCell) : Except PyErr FixedOut :=
  match tableW with
  | none => .error (.assertFailed "fixed_table_layout")
  | some W =>
    let n := numColumns cols cells
    let cw2 := fixedFilled W s cols cells
    let extra := fixedExtra W s cols cells
    if extra ≤ 0 then .ok ⟨W - extra, cw2⟩            -- "Substract a negative: widen the table."
    else if n ≠ 0 then .ok ⟨W, cw2.map (· + extra / (n : Rat))⟩
    else .ok ⟨W, cw2⟩

/-- The PEP 485 tolerance of the guess selection, modelled literally as a rational. -/
def eps : Rat := 1 / 1000000000

/-! ### `distribute_excess_width` -/

/-- One column as the auto layout sees it: min/max-content width, intrinsic percentage,
constrainedness, and the truthiness of the grid column object (`if column` in the fifth group). -/
structure ACol where
  minW : Rat
  maxW : Rat
  pct : Rat
  constrained : Bool
  truthy : Bool
  deriving Repr

abbrev Sel := Nat → ACol → Bool

def selCount (sel : Sel) : Nat → List ACol → Nat
  | _, [] => 0
  | i, c :: cs => (if sel i c then 1 else 0) + selCount sel (i + 1) cs

def selSum (sel : Sel) (f : ACol → Rat) : Nat → List ACol → Rat
  | _, [] => 0
  | i, c :: cs => (if sel i c then f c else 0) + selSum sel f (i + 1) cs

/-- `for i in columns: column_widths[i] += amount(i)`. -/
def addSel (sel : Sel) (f : ACol → Rat) : Nat → List ACol → List Rat → List Rat
  | _, [], ws => ws
  | _, _ :: _, [] => []
  | i, c :: cs, w :: ws => (if sel i c then w + f c else w) :: addSel sel f (i + 1) cs ws

/-- `i` is an index of `grid[column_slice]` (`slice(start, stop)`, `stop = None` ↦ `none`). -/
def inSlice (start : Nat) (stop : Option Nat) (i : Nat) : Bool :=
  decide (start ≤ i) && (match stop with | none => true | some e => decide (i < e))

def group1 (start : Nat) (stop : Option Nat) : Sel := fun i c =>
  inSlice start stop i && !c.constrained && decide (c.pct = 0) && decide (c.maxW > 0)
def group2 (start : Nat) (stop : Option Nat) : Sel := fun i c =>
  inSlice start stop i && !c.constrained && decide (c.pct = 0)
def group3 (start : Nat) (stop : Option Nat) : Sel := fun i c =>
  inSlice start stop i && c.constrained && decide (c.pct = 0) && decide (c.maxW > 0)
def group4 (start : Nat) (stop : Option Nat) : Sel := fun i c =>
  inSlice start stop i && decide (c.pct > 0) && decide (c.maxW > 0)
def group5 (start : Nat) (stop : Option Nat) : Sel := fun i c =>
  inSlice start stop i && c.truthy
def group6 (start : Nat) (stop : Option Nat) : Sel := fun i _ =>
  inSlice start stop i

/-- Proportional share: `ratio = excess / Σ f`, `column_widths[i] += f(i) * ratio`. -/
def shareProp (sel : Sel) (f : ACol → Rat) (excess : Rat) (cols : List ACol) (cw : List Rat)
    (site : String) : Except PyErr (List Rat) :=
  let total := selSum sel f 0 cols
  if total = 0 then .error (.zeroDivision site)
  else .ok (addSel sel (fun c => f c * (excess / total)) 0 cols cw)

/-- Equal share: `column_widths[i] += excess / len(columns)`. -/
def shareEqual (sel : Sel) (excess : Rat) (cols : List ACol) (cw : List Rat)
    (site : String) : Except PyErr (List Rat) :=
  let k := selCount sel 0 cols
  if k = 0 then .error (.zeroDivision site)
  else .ok (addSel sel (fun _ => excess / (k : Rat)) 0 cols cw)

/-- `distribute_excess_width(context, grid, excess, column_widths, constrainedness,
column_intrinsic_percentages, column_max_content_widths, slice(start, stop))`.
All per-column lists have the length of `grid` (`cols`); `cw` is `column_widths`. -/
def distributeExcess (cols : List ACol) (excess : Rat) (cw : List Rat)
    (start : Nat) (stop : Option Nat) : Except PyErr (List Rat) :=
  if selCount (group1 start stop) 0 cols ≠ 0 then
    shareProp (group1 start stop) (·.maxW) excess cols cw "group1"
  else if selCount (group2 start stop) 0 cols ≠ 0 then
    shareEqual (group2 start stop) excess cols cw "group2"
  else if selCount (group3 start stop) 0 cols ≠ 0 then
    shareProp (group3 start stop) (·.maxW) excess cols cw "group3"
  else if selCount (group4 start stop) 0 cols ≠ 0 then
    shareProp (group4 start stop) (·.pct) excess cols cw "group4"
  else if selCount (group5 start stop) 0 cols ≠ 0 then
    shareEqual (group5 start stop) excess cols cw "group5"
  else if selCount (group6 start stop) 0 cols ≠ 0 then
    -- the division is inside the loop body: never evaluated for an empty slice
    shareEqual (group6 start stop) excess cols cw "group6"
  else .ok cw

/-- Which group `distribute_excess_width` uses (0 = none: empty slice). For the evidence histogram. -/
def excessGroup (cols : List ACol) (start : Nat) (stop : Option Nat) : Nat :=
  if selCount (group1 start stop) 0 cols ≠ 0 then 1
  else if selCount (group2 start stop) 0 cols ≠ 0 then 2
  else if selCount (group3 start stop) 0 cols ≠ 0 then 3
  else if selCount (group4 start stop) 0 cols ≠ 0 then 4
  else if selCount (group5 start stop) 0 cols ≠ 0 then 5
  else if selCount (group6 start stop) 0 cols ≠ 0 then 6
  else 0

/-! ### `auto_table_layout` -/

/-- `max(a, b)` of Python (the first argument on ties: same value). -/
def pyMax (a b : Rat) : Rat := if b > a then b else a

/-- The percentage guess of a column: `max(pct / 100 * assignable, min)`. -/
def pctGuess (a : Rat) (c : ACol) : Rat := pyMax (c.pct / 100 * a) c.minW

def guess0 (cols : List ACol) : List Rat := cols.map (·.minW)
def guess1 (a : Rat) (cols : List ACol) : List Rat :=
  cols.map (fun c => if c.pct ≠ 0 then pctGuess a c else c.minW)
def guess2 (a : Rat) (cols : List ACol) : List Rat :=
  cols.map (fun c => if c.pct ≠ 0 then pctGuess a c else if c.constrained then c.maxW else c.minW)
def guess3 (a : Rat) (cols : List ACol) : List Rat :=
  cols.map (fun c => if c.pct ≠ 0 then pctGuess a c else c.maxW)

/-- `for guess in guesses: if sum(guess) <= a * (1 + 1e-9): lower = guess else: break`. -/
def pickLower (a : Rat) : List (List Rat) → List Rat → List Rat
  | [], cur => cur
  | g :: rest, cur => if sumR g ≤ a * (1 + eps) then pickLower a rest g else cur

/-- `for guess in guesses[::-1]: if sum(guess) >= a * (1 - 1e-9): upper = guess else: break`
(called on the reversed list). -/
def pickUpper (a : Rat) : List (List Rat) → List Rat → List Rat
  | [], cur => cur
  | g :: rest, cur => if sumR g ≥ a * (1 - eps) then pickUpper a rest g else cur

/-- `lower[i] + (upper[i] - lower[i]) * ratio`. -/
def interpolate (lower upper : List Rat) (ratio : Rat) : List Rat :=
  List.zipWith (fun l u => l + (u - l) * ratio) lower upper

/-- The three-way choice of `table.width`. -/
def autoTableWidth (tableW : Len) (avail tmin tmax : Rat) : Rat :=
  match tableW with
  | none =>
    if avail ≤ tmin then tmin
    else if avail < tmax then avail
    else tmax
  | some w => if w < tmin then tmin else w

structure AutoIn where
  tableW : Len          -- `table.width` after `resolve_percentages`
  tmin : Rat            -- table_min_content_width
  tmax : Rat            -- table_max_content_width
  spacing : Rat         -- total_horizontal_border_spacing
  marginL : Len         -- wrapper margins
  marginR : Len
  padL : Rat            -- table paddings and borders
  padR : Rat
  borL : Rat
  borR : Rat
  cbWidth : Rat
  cols : List ACol      -- one entry per grid column (`grid` empty ↔ `[]`)
  deriving Repr

structure AutoOut where
  width : Rat
  cols : List Rat
  branch : String       -- which branch produced `column_widths` (evidence only)
  deriving Repr, DecidableEq

def availableWidth (inp : AutoIn) : Rat :=
  let margins := (match inp.marginL with | none => 0 | some m => m) +
                 (match inp.marginR with | none => 0 | some m => m)
  inp.cbWidth - margins - (inp.padL + inp.padR) - (inp.borL + inp.borR)

/-- The column part of `auto_table_layout` (`grid` not empty): `a` is `assignable_width`. -/
def autoColumns (a : Rat) (cols : List ACol) : Except PyErr (List Rat × String) :=
  let g0 := guess0 cols
  let g1 := guess1 a cols
  let g2 := guess2 a cols
  let g3 := guess3 a cols
  if a < sumR g3 then
    let lower := pickLower a [g0, g1, g2, g3] g0
    let upper := pickUpper a [g3, g2, g1, g0] g3
    if upper = lower then .ok (upper, "guess")
    else
      -- `sum(added_widths)`, `added_widths[i] = upper[i] - lower[i]` (lists of equal length)
      let added := sumR upper - sumR lower
      if added = 0 then .error (.zeroDivision "available_ratio")
      else .ok (interpolate lower upper ((a - sumR lower) / added), "interpolate")
  else
    match distributeExcess cols (a - sumR g3) g3 0 none with
    | .error e => .error e
    | .ok cw => .ok (cw, "excess" ++ toString (excessGroup cols 0 none))

def autoLayout (inp : AutoIn) : Except PyErr AutoOut :=
  let width := autoTableWidth inp.tableW (availableWidth inp) inp.tmin inp.tmax
  match inp.cols with
  | [] => .ok ⟨width, [], "nogrid"⟩
  | _ :: _ =>
    match autoColumns (width - inp.spacing) inp.cols with
    | .error e => .error e
    | .ok (cw, branch) => .ok ⟨width, cw, branch⟩

/-! ### `table_wrapper_width` -/

/-- What `resolve_percentages(table, containing_block)` leaves in `table.width`: the computed width
resolved against the containing block, shrunk by `adjust_box_sizing`. -/
def tableUsedWidth (width : Dim) (cbWidth padL padR borL borR : Rat) (sizing : BoxSizing) : Len :=
  match width.used cbWidth with
  | none => none
  | some w =>
    let delta := match sizing with
      | .border => padL + padR + borL + borR
      | .padding => padL + padR
      | .content => 0
    some (if delta > 0 then max 0 (w - delta) else w)

/-- The dispatch of `table_wrapper_width`: the fixed algorithm runs iff `table-layout: fixed` and the
used width is not `auto`. -/
def usesFixed (layoutFixed : Bool) (usedWidth : Len) : Bool := layoutFixed && usedWidth.isSome

/-- `wrapper.width = table.border_width()` for the table width `W` left by the layout algorithm. -/
def wrapperWidth (W padL padR borL borR : Rat) : Rat := W + padL + padR + borL + borR

/-- `total_horizontal_border_spacing` of `preferred.table_and_columns_preferred_widths`: one spacing
plus one per grid column *in which a cell originates* (`any(column)`), in the separate model. -/
def totalSpacing (collapse : Bool) (s : Rat) (gridWidth nOrig : Nat) : Rat :=
  if !collapse && gridWidth > 0 then s * (1 + (nOrig : Rat)) else 0

/-- The table width that goes with laid-out column widths: fixed layout `Σ + (n+1)·s`
(`fixed_sum`), auto layout `Σ + total_horizontal_border_spacing` (`auto_sum_table`). -/
def docTableWidth (usedFixed collapse : Bool) (s : Rat) (cw : List Rat) (nOrig : Nat) : Rat :=
  sumR cw + (if usedFixed then effSpacing collapse s * ((cw.length : Rat) + 1)
             else totalSpacing collapse s cw.length nOrig)

/-- A cell of content width `w` holds a word of `k` glyphs of the fixed-pitch test font at size `fs`. -/
def wordFits (fs : Rat) (lens : List Nat) (w : Rat) : Bool :=
  lens.all (fun k => decide ((k : Rat) * fs ≤ w * (1 + eps) + eps))

/-! ### Geometry of `table_layout` -/

/-- ltr: `position_x += spacing; append(position_x); position_x += width`. -/
def colPositionsLtr (s : Rat) : Rat → List Rat → List Rat
  | _, [] => []
  | x, w :: ws => (x + s) :: colPositionsLtr s (x + s + w) ws

/-- rtl: `position_x -= spacing; position_x -= width; append(position_x)`. -/
def colPositionsRtl (s : Rat) : Rat → List Rat → List Rat
  | _, [] => []
  | x, w :: ws => (x - s - w) :: colPositionsRtl s (x - s - w) ws

structure ColGeom where
  positions : List Rat
  rowsLeftX : Rat     -- `rows_left_x`: position_x of groups, rows
  rowsWidth : Rat     -- `rows_width`
  deriving Repr, DecidableEq

/-- "Define column positions" of `table_layout`: `x` = `table.content_box_x()`, `W` = `table.width`. -/
def colPositions (ltr : Bool) (x W s : Rat) (cw : List Rat) : ColGeom :=
  if ltr then
    let ps := colPositionsLtr s x cw
    -- final position_x = x + Σ (s + w); rows_x = x + s
    ⟨ps, x + s, (x + sumR (cw.map (s + ·))) - (x + s)⟩
  else
    let ps := colPositionsRtl s (x + W) cw
    -- rows_x = x + W - s; final position_x = x + W - Σ (s + w)
    ⟨ps, x + s, (x + W - s) - (x + W - sumR (cw.map (s + ·)))⟩

structure CellGeom where
  x : Rat             -- `cell.position_x` (border box, margins are 0)
  borderWidth : Rat   -- `cell.width + borders_plus_padding`
  colspan : Nat       -- the clipped colspan
  deriving Repr, DecidableEq

/-- Placement of one cell: `spanned_widths = column_widths[grid_x:][:colspan]`; a cell entirely
beyond the grid is dropped (`none`). -/
def cellGeom (ltr : Bool) (pos cw : List Rat) (s : Rat) (gridX colspan : Nat) :
    Except PyErr (Option CellGeom) :=
  let spanned := (cw.drop gridX).take colspan
  let k := spanned.length
  if k = 0 then .ok none
  else
    let idx := if ltr then gridX else gridX + k - 1
    match pos[idx]? with
    | none => .error (.indexError "column_positions")
    | some x => .ok (some ⟨x, sumR spanned + s * ((k : Rat) - 1), k⟩)

/-- "Invert columns for drawing": what `table.column_widths` / `column_positions` hold after layout. -/
def finalColumns (ltr : Bool) (l : List Rat) : List Rat := if ltr then l else l.reverse

end Wp.Table
