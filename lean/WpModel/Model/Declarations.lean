/-
C07 — hand-written executable model of the declaration funnel and of the shorthand expanders.
Mirrors, branch for branch (quirks included):

  weasyprint/css/validation/__init__.py   preprocess_declarations  (prelude = None and flat-prelude paths)
  weasyprint/css/validation/expanders.py  generic_expander (wrapper), _find_var (as a flag), expand_four_sides,
                                          border_radius, expand_border, expand_border_side, expand_list_style,
                                          expand_text_decoration, expand_columns, expand_flex_flow, expand_gap,
                                          expand_legacy_column_gap / row_gap, expand_word_wrap, expand_text_align,
                                          expand_page_break_before/after/inside, expand_line_clamp
  weasyprint/css/validation/properties.py validate_non_shorthand (skeleton), border_corner_radius

The ~2000 lines of per-property validators are *not* modelled: a token is abstracted to the answers the real
single-token validators give on it (flags) and to the value the real longhand validator returns for it (an opaque
`α`); both are supplied per case by the correspondence harness, which obtains them by calling the real validators.
Python failure points are explicit (`Fail`): `InvalidValues` is the funnelled one, everything else aborts.
No Mathlib, no Std: linked into the driver.
-/
import WpModel.Model.Wire
import WpModel.Gen.Expanders

namespace Wp.Decl
open Wp

/-- How a Python call ends when it does not return. `invalid` = `InvalidValues` (caught by the funnel);
the others are exceptions the funnel does not catch. -/
inductive Fail where
  | invalid
  | assertion     -- AssertionError
  | keyError      -- KeyError
  | indexError    -- IndexError
  | typeError     -- TypeError
  | recursion     -- RecursionError
  | other (cls : String)
  deriving Repr, BEq, DecidableEq

def Fail.render : Fail → String
  | .invalid => "invalid"
  | .assertion => "err:AssertionError"
  | .keyError => "err:KeyError"
  | .indexError => "err:IndexError"
  | .typeError => "err:TypeError"
  | .recursion => "err:RecursionError"
  | .other c => "err:" ++ c

def Fail.parse (s : String) : Option Fail :=
  if s = "invalid" then some .invalid
  else if s = "err:AssertionError" then some .assertion
  else if s = "err:KeyError" then some .keyError
  else if s = "err:IndexError" then some .indexError
  else if s = "err:TypeError" then some .typeError
  else if s = "err:RecursionError" then some .recursion
  else if startsErr s.toList then some (.other (String.ofList (s.toList.drop 4)))
  else none
where
  startsErr : List Char → Bool
    | 'e' :: 'r' :: 'r' :: ':' :: _ => true
    | _ => false

abbrev R (α : Type) := Except Fail α

/-- Decidable equality of outcomes (core has none for `Except`); used by `decide` in examples and witnesses. -/
instance instDecEqExcept {ε α : Type} [DecidableEq ε] [DecidableEq α] : DecidableEq (Except ε α)
  | .ok a, .ok b => if h : a = b then isTrue (by rw [h]) else isFalse (by intro e; cases e; exact h rfl)
  | .error a, .error b => if h : a = b then isTrue (by rw [h]) else isFalse (by intro e; cases e; exact h rfl)
  | .ok _, .error _ => isFalse (by intro e; cases e)
  | .error _, .ok _ => isFalse (by intro e; cases e)

/-! ### Strings (through `List Char`, so that proofs and `decide` see plain lists) -/

def startsWithL : List Char → List Char → Bool
  | _, [] => true
  | [], _ :: _ => false
  | c :: cs, p :: ps => c == p && startsWithL cs ps

/-- Python `s.startswith(p)`. -/
def startsWith (s p : String) : Bool := startsWithL s.toList p.toList

/-- Python `s.replace('-', '_')`. -/
def dashToUnderscore (s : String) : String :=
  String.ofList (s.toList.map fun c => if c = '-' then '_' else c)

/-- Python `s[len(p):]`. -/
def dropPrefix (s p : String) : String := String.ofList (s.toList.drop p.toList.length)

/-- Python `s.rfind('-')` (`none` for -1). -/
def rfindDash (cs : List Char) : Option Nat :=
  go cs 0 none
where
  go : List Char → Nat → Option Nat → Option Nat
    | [], _, acc => acc
    | c :: rest, i, acc => go rest (i + 1) (if c = '-' then some i else acc)

/-! ### Values produced by expanders -/

/-- A longhand value as an expander yields it: a CSS-wide keyword passed through, a pending
(`var()`-containing) value validated later, or the value returned by the longhand validator. -/
inductive OutV (β : Type) where
  | kw (s : String)      -- 'inherit' / 'initial'
  | pending
  | val (b : β)
  deriving Repr, BEq, DecidableEq

abbrev Longhands (β : Type) := List (String × OutV β)

/-! ### `generic_expander` -/

/-- What `generic_expander_wrapper` learns from the tokens before it calls the wrapped expander:
`get_single_keyword(tokens) in ('inherit', 'initial')`, else `_find_var(tokens, …)`, else neither. -/
inductive Head where
  | inheritKw | initialKw | hasVar | plain
  deriving Repr, BEq, DecidableEq

/-- The wrapped expander seen as a generator: the `(new_name, new_token)` pairs it yields, in order, and how
the iteration ends (`none` = exhausted, `some f` = raises `f` after those items). -/
structure Raw (α : Type) where
  items : List (String × α)
  ends : Option Fail

/-- `actual_new_name`: a name starting with '-' is a suffix of the shorthand's name. -/
def actualName (name new : String) : String :=
  if startsWith new "-" then name ++ new else new

/-- The loop `for new_name, new_token in result:` — `assert new_name in expanded_names`, then the duplicate
test, left to right (`seen` = keys of `results` so far). -/
def checkItems {α : Type} (expanded : List String) : List String → List (String × α) → R Unit
  | _, [] => pure ()
  | seen, (n, _) :: rest =>
    if !expanded.contains n then throw .assertion
    else if seen.contains n then throw .invalid
    else checkItems expanded (n :: seen) rest

/-- The final loop `for new_name in expanded_names:` for one name. -/
def fillOne {α β : Type} (name : String) (items : List (String × α)) (validate : String → α → R β)
    (n : String) : R (String × OutV β) :=
  match items.lookup n with
  | some t => do
    let v ← validate (actualName name n) t
    pure (actualName name n, .val v)
  | none => pure (actualName name n, .kw "initial")

/-- `generic_expander_wrapper(tokens, name, base_url)` consumed by `list()`.
`validate actual_name token` stands for `validate_non_shorthand(token, actual_name, base_url, required=True)`. -/
def genericFill {α β : Type} (expanded : List String) (name : String) (head : Head) (raw : Raw α)
    (validate : String → α → R β) : R (Longhands β) :=
  match head with
  | .inheritKw => pure (expanded.map fun n => (actualName name n, .kw "inherit"))
  | .initialKw => pure (expanded.map fun n => (actualName name n, .kw "initial"))
  | .hasVar => pure (expanded.map fun n => (actualName name n, .pending))
  | .plain => do
    checkItems expanded [] raw.items
    match raw.ends with
    | some f => throw f
    | none => pure ()
    expanded.mapM (fillOne name raw.items validate)

/-- Expanded names of a registered generic expander, by the `__name__` of the wrapped function
(generated table `Gen.Expanders.generic`). -/
def genericNames (fn : String) : Option (List String) :=
  (Gen.Expanders.generic.lookup fn).map (·.1)

/-- Function bound to an `EXPANDERS` key. -/
def expanderFn (key : String) : Option String := Gen.Expanders.expanderKeys.lookup key

/-! ### `validate_non_shorthand` (skeleton) -/

/-- `validate_non_shorthand(tokens, name, base_url, required)` around an abstract validator function.
`fnResult` = what `PROPERTIES[name](tokens)` returns (`none` = Python `None`), evaluated lazily by the caller. -/
def validateNonShorthand {β : Type} (name : String) (required : Bool) (hasVar : Bool)
    (singleKw : Option String) (rawTokens : β) (fnResult : Unit → R (Option β)) : R (String × OutV β) :=
  if startsWith name "--" then pure (name, .val rawTokens)  -- custom property: the raw tokens, not validated
  else if !required && !Gen.Expanders.knownProperties.contains name then throw .invalid
  else if !required && !Gen.Expanders.properties.contains name then throw .invalid
  else if !Gen.Expanders.properties.contains name then throw .keyError    -- PROPERTIES[name]
  else if hasVar then pure (name, .pending)
  else match singleKw with
    | some "initial" => pure (name, .kw "initial")
    | some "inherit" => pure (name, .kw "inherit")
    | _ => do
      match ← fnResult () with
      | some v => pure (name, .val v)
      | none => throw .invalid

/-! ### `expand_four_sides` -/

/-- `expanded_names` of `expand_four_sides`: the side suffix goes before the last '-' component
(`border-color` → `border-top-color`), or at the end when the name has no '-'. -/
def fourSideNames (name : String) : List String :=
  Gen.Expanders.fourSideSuffixes.map fun suffix =>
    match rfindDash name.toList with
    | none => name ++ suffix
    | some i => String.ofList (name.toList.take i) ++ suffix ++ String.ofList (name.toList.drop i)

/-- "Make sure we have 4 tokens". -/
def fourTokens {α : Type} : List α → R (List α)
  | [a] => pure [a, a, a, a]
  | [a, b] => pure [a, b, a, b]
  | [a, b, c] => pure [a, b, c, b]
  | [a, b, c, d] => pure [a, b, c, d]
  | _ => throw .invalid

/-- `zip(expanded_names, tokens)` then one `validate_non_shorthand([token], expanded_name, required=True)` each. -/
def validateZip {α β : Type} (validate : String → α → R β) : List String → List α → R (Longhands β)
  | n :: ns, t :: ts => do
    let v ← validate n t
    let rest ← validateZip validate ns ts
    pure ((n, .val v) :: rest)
  | _, _ => pure []

def expandFourSides {α β : Type} (name : String) (hasVar : Bool) (toks : List α)
    (validate : String → α → R β) : R (Longhands β) :=
  let names := fourSideNames name
  if hasVar then pure (names.map fun n => (n, .pending))
  else do
    let ts ← fourTokens toks
    validateZip validate names ts

/-! ### `border_radius` (the wrapped generator) and `border_corner_radius` -/

/-- A token of a `border-radius` value: the '/' literal or anything else. -/
inductive RTok (α : Type) where
  | slash
  | tok (a : α)
  deriving Repr, BEq, DecidableEq

def RTok.isSlash {α : Type} : RTok α → Bool
  | .slash => true
  | .tok _ => false

/-- The `for token in tokens:` loop. `lastIsSlash` is `token == tokens[-1]` for a '/' literal: tinycss2's
`LiteralToken.__eq__` compares values, so it holds as soon as the *last* token of the value is a '/'.
State: horizontal, vertical (both in order), whether `current is horizontal`. -/
def radiusSplit {α : Type} (lastIsSlash : Bool) :
    List (RTok α) → List α → List α → Bool → R (List α × List α)
  | [], h, v, _ => pure (h, v)
  | .slash :: rest, h, v, onH =>
    if onH then
      if lastIsSlash then throw .invalid      -- 'Expected value after "/" separator'
      else radiusSplit lastIsSlash rest h v false
    else throw .invalid                        -- 'Expected only one "/" separator'
  | .tok a :: rest, h, v, onH =>
    if onH then radiusSplit lastIsSlash rest (h ++ [a]) v true
    else radiusSplit lastIsSlash rest h (v ++ [a]) false

def lastIsSlash {α : Type} (toks : List (RTok α)) : Bool :=
  match toks.getLast? with
  | some t => t.isSlash
  | none => false

/-- `for corner, tokens in zip(corners, zip(horizontal, vertical))`: validate the pair, then yield it. -/
def radiusYield {α : Type} (validPair : String → α × α → R Unit) :
    List String → List (α × α) → List (String × (α × α)) → Raw (α × α)
  | c :: cs, p :: ps, acc =>
    let name := "border-" ++ c ++ "-radius"
    match validPair name p with
    | .error f => { items := acc, ends := some f }
    | .ok () => radiusYield validPair cs ps (acc ++ [(name, p)])
  | _, _, acc => { items := acc, ends := none }

/-- `border_radius(tokens, name, base_url)` as a generator. -/
def borderRadiusRaw {α : Type} (toks : List (RTok α)) (validPair : String → α × α → R Unit) : Raw (α × α) :=
  match radiusSplit (lastIsSlash toks) toks [] [] true with
  | .error f => { items := [], ends := some f }
  | .ok (h, v) =>
    let v := if v.isEmpty then h else v
    match fourTokens h with
    | .error f => { items := [], ends := some f }
    | .ok h4 =>
      match fourTokens v with
      | .error f => { items := [], ends := some f }
      | .ok v4 => radiusYield validPair Gen.Expanders.radiusCorners (h4.zip v4) []

/-- `border_corner_radius(tokens)` on the answers of `get_length(token, negative=False, percentage=True)`
(`none` = Python `None`). -/
def borderCornerRadius {γ : Type} : List (Option γ) → Option (γ × γ)
  | [some a] => some (a, a)
  | [some a, some b] => some (a, b)
  | _ => none

/-! ### `expand_border_side`, `expand_border` -/

/-- A token of a `border-*` / `outline` / `column-rule` value with the answers of the three tests of
`expand_border_side`: `parse_color(token) is not None`, `border_width([token]) is not None`,
`border_style([token]) is not None`. -/
structure SideTok (α : Type) where
  isColor : Bool
  isWidth : Bool
  isStyle : Bool
  tok : α
  deriving Repr, BEq, DecidableEq

/-- The `if / elif / elif / else` chain: which suffix a token is yielded under. -/
def sideSuffix {α : Type} (t : SideTok α) : Option String :=
  if t.isColor then some "-color"
  else if t.isWidth then some "-width"
  else if t.isStyle then some "-style"
  else none

/-- `expand_border_side(tokens, name)` (the wrapped generator). -/
def borderSideRaw {α : Type} : List (SideTok α) → List (String × α) → Raw α
  | [], acc => { items := acc, ends := none }
  | t :: rest, acc =>
    match sideSuffix t with
    | some s => borderSideRaw rest (acc ++ [(s, t.tok)])
    | none => { items := acc, ends := some .invalid }

def borderSideNames : List String := (genericNames "expand_border_side").getD []

/-- The registered `border-top` / … / `outline` / `column-rule` expander. -/
def expandBorderSide {α β : Type} (name : String) (head : Head) (toks : List (SideTok α))
    (validate : String → α → R β) : R (Longhands β) :=
  genericFill borderSideNames name head (borderSideRaw toks []) validate

/-- `expand_border`: the four sides in turn, each through the registered `expand_border_side`. -/
def expandBorder {α β : Type} (name : String) (head : Head) (toks : List (SideTok α))
    (validate : String → α → R β) : R (Longhands β) := do
  let parts ← Gen.Expanders.borderSuffixes.mapM fun suffix =>
    expandBorderSide (name ++ suffix) head toks validate
  pure parts.flatten

/-! ### `expand_list_style` -/

/-- A token of a `list-style` value: `get_keyword(token) == 'none'`, then the three validators in the order
the code asks them. -/
structure ListTok (α : Type) where
  isNone : Bool
  isImage : Bool       -- list_style_image([token], base_url) is not None
  isPosition : Bool    -- list_style_position([token]) is not None
  isType : Bool        -- list_style_type([token]) is not None
  tok : α
  deriving Repr, BEq, DecidableEq

structure ListState (α : Type) where
  typeSpecified : Bool := false
  imageSpecified : Bool := false
  noneCount : Nat := 0
  noneToken : Option α := none

def listStyleLoop {α : Type} : List (ListTok α) → ListState α → List (String × α) →
    Except (List (String × α)) (ListState α × List (String × α))
  | [], st, acc => .ok (st, acc)
  | t :: rest, st, acc =>
    if t.isNone then
      listStyleLoop rest { st with noneCount := st.noneCount + 1, noneToken := some t.tok } acc
    else if t.isImage then
      listStyleLoop rest { st with imageSpecified := true } (acc ++ [("-image", t.tok)])
    else if t.isPosition then
      listStyleLoop rest st (acc ++ [("-position", t.tok)])
    else if t.isType then
      listStyleLoop rest { st with typeSpecified := true } (acc ++ [("-type", t.tok)])
    else .error acc

/-- The three statements after the loop: a `none` goes to `-type` unless a type was specified, then to
`-image` unless an image was specified; a `none` left over is one too many. `nt` is `none_token` (the last one). -/
def noneFinish {α : Type} (typeSpecified imageSpecified : Bool) (noneCount : Nat) (nt : α)
    (acc : List (String × α)) : Raw α :=
  let (acc, n) :=
    if !typeSpecified && noneCount != 0 then (acc ++ [("-type", nt)], noneCount - 1) else (acc, noneCount)
  let (acc, n) :=
    if !imageSpecified && n != 0 then (acc ++ [("-image", nt)], n - 1) else (acc, n)
  if n != 0 then { items := acc, ends := some .invalid } else { items := acc, ends := none }

/-- `expand_list_style(tokens, name, base_url)` (the wrapped generator), with the `none` disambiguation. -/
def listStyleRaw {α : Type} (toks : List (ListTok α)) : Raw α :=
  match listStyleLoop toks {} [] with
  | .error acc => { items := acc, ends := some .invalid }
  | .ok (st, acc) =>
    match st.noneToken with
    | none => { items := acc, ends := none }     -- none_count = 0: the three `if`s are all false
    | some nt => noneFinish st.typeSpecified st.imageSpecified st.noneCount nt acc

def listStyleNames : List String := (genericNames "expand_list_style").getD []

def expandListStyle {α β : Type} (name : String) (head : Head) (toks : List (ListTok α))
    (validate : String → α → R β) : R (Longhands β) :=
  genericFill listStyleNames name head (listStyleRaw toks) validate

/-! ### `expand_text_decoration` -/

/-- keyword class of a `text-decoration` token: `get_keyword(token)` against the two literal tuples, then
`parse_color(token)` (truthiness!), then `text_decoration_thickness([token])` (truthiness). -/
structure DecoTok (α : Type) where
  isLine : Bool       -- keyword in ('none', 'underline', 'overline', 'line-through', 'blink')
  isNone : Bool       -- keyword == 'none'
  isStyle : Bool      -- keyword in ('solid', 'double', 'dotted', 'dashed', 'wavy')
  isColor : Bool      -- bool(parse_color(token))
  isThickness : Bool  -- bool(text_decoration_thickness([token]))
  tok : α
  deriving Repr, BEq, DecidableEq

structure DecoState (α : Type) where
  line : List α := []
  color : List α := []
  style : List α := []
  thickness : List α := []
  noneInLine : Bool := false

def decoLoop {α : Type} : List (DecoTok α) → DecoState α → Option (DecoState α)
  | [], st => some st
  | t :: rest, st =>
    if t.isLine then
      -- line.append(token) happens before the test
      if st.noneInLine then none
      else decoLoop rest { st with line := st.line ++ [t.tok], noneInLine := t.isNone }
    else if t.isStyle then
      if !st.style.isEmpty then none else decoLoop rest { st with style := [t.tok] }
    else if t.isColor then
      if !st.color.isEmpty then none else decoLoop rest { st with color := [t.tok] }
    else if t.isThickness then
      if !st.thickness.isEmpty then none else decoLoop rest { st with thickness := [t.tok] }
    else none

/-- `expand_text_decoration(tokens, name)`: nothing is yielded before the loop is over; values are token lists. -/
def textDecorationRaw {α : Type} (toks : List (DecoTok α)) : Raw (List α) :=
  match decoLoop toks {} with
  | none => { items := [], ends := some .invalid }
  | some st =>
    let items :=
      (if st.line.isEmpty then [] else [("-line", st.line)]) ++
      (if st.color.isEmpty then [] else [("-color", st.color)]) ++
      (if st.style.isEmpty then [] else [("-style", st.style)]) ++
      (if st.thickness.isEmpty then [] else [("-thickness", st.thickness)])
    { items := items, ends := none }

/-! ### `expand_columns` -/

structure ColTok (α : Type) where
  isAuto : Bool     -- get_keyword(token) == 'auto'
  isWidth : Bool    -- column_width([token]) is not None
  isCount : Bool    -- column_count([token]) is not None
  tok : α
  deriving Repr, BEq, DecidableEq

def columnsLoop {α : Type} : List (ColTok α) → Option String → List (String × α) →
    Except (List (String × α)) (Option String × List (String × α))
  | [], name, acc => .ok (name, acc)
  | t :: rest, name, acc =>
    if t.isWidth && name != some "column-width" then
      columnsLoop rest (some "column-width") (acc ++ [("column-width", t.tok)])
    else if t.isCount then
      columnsLoop rest (some "column-count") (acc ++ [("column-count", t.tok)])
    else .error acc

/-- `expand_columns(tokens, name)`; `autoTok` is the synthesised `IdentToken('auto')`. -/
def columnsRaw {α : Type} (toks : List (ColTok α)) (autoTok : α) : Raw α :=
  let toks' := match toks with
    | [a, b] => if a.isAuto then [b, a] else toks
    | _ => toks
  match columnsLoop toks' none [] with
  | .error acc => { items := acc, ends := some .invalid }
  | .ok (name, acc) =>
    match toks' with
    | [_] =>
      let other := if name == some "column-count" then "column-width" else "column-count"
      { items := acc ++ [(other, autoTok)], ends := none }
    | _ => { items := acc, ends := none }

/-! ### `expand_flex_flow` -/

structure FlowTok (α : Type) where
  isDirection : Bool   -- bool(flex_direction([token]))
  isWrap : Bool        -- bool(flex_wrap([token]))
  tok : α
  deriving Repr, BEq, DecidableEq

def flexFlowRaw {α : Type} : List (FlowTok α) → Raw α
  | [a, b] =>
    if a.isDirection && b.isWrap then
      { items := [("flex-direction", a.tok), ("flex-wrap", b.tok)], ends := none }
    else if b.isDirection && a.isWrap then
      { items := [("flex-direction", b.tok), ("flex-wrap", a.tok)], ends := none }
    else { items := [], ends := some .invalid }
  | [a] =>
    if a.isDirection then { items := [("flex-direction", a.tok)], ends := none }
    else if a.isWrap then { items := [("flex-wrap", a.tok)], ends := none }
    else { items := [], ends := some .invalid }
  | _ => { items := [], ends := some .invalid }

/-! ### `expand_gap`, the legacy one-longhand expanders, `expand_text_align`, `expand_line_clamp` -/

/-- `expand_gap`: tokens with `gap([token]) is not None`; values are token lists (slices). -/
def gapRaw {α : Type} : List (Bool × α) → Raw (List α)
  | [(ok, a)] =>
    if !ok then { items := [], ends := some .invalid }
    else { items := [("row-gap", [a]), ("column-gap", [a])], ends := none }
  | [(ok1, a), (ok2, b)] =>
    if !ok1 || !ok2 then { items := [], ends := some .invalid }
    else { items := [("row-gap", [a]), ("column-gap", [b])], ends := none }
  | _ => { items := [], ends := some .invalid }

/-- The expanders that rename one property (`word-wrap`, `grid-column-gap`, `grid-row-gap`,
`page-break-inside`): the whole token list under the new name when the test on it holds. -/
def renameRaw {α : Type} (newName : String) (ok : Bool) (toks : α) : Raw α :=
  if ok then { items := [(newName, toks)], ends := none } else { items := [], ends := some .invalid }

/-- `expand_page_break_before_after(tokens, name)`: `kw` = `get_single_keyword(tokens)`;
`pageTok` is the synthesised `[IdentToken('page')]`. `new_name = name.split('-', 1)[1]`. -/
def pageBreakRaw {α : Type} (name : String) (kw : Option String) (toks pageTok : α) : Raw α :=
  let newName := String.ofList ((name.toList.dropWhile (· != '-')).drop 1)
  match kw with
  | some k =>
    if k == "auto" || k == "left" || k == "right" || k == "avoid" then
      { items := [(newName, toks)], ends := none }
    else if k == "always" then { items := [(newName, pageTok)], ends := none }
    else { items := [], ends := some .invalid }
  | none => { items := [], ends := some .invalid }

/-- `expand_text_align(tokens, name)`: one keyword; `justify-all` ↦ all = justify; `justify` ↦ last = start.
`justifyTok` / `startTok` are the synthesised ident tokens. -/
def textAlignRaw {α : Type} (n : Nat) (kw : Option String) (tok justifyTok startTok : α) : Raw α :=
  if n != 1 then { items := [], ends := some .invalid }
  else match kw with
    | none => { items := [], ends := some .invalid }
    | some k =>
      let alignAll := if k == "justify-all" then justifyTok else tok
      let alignLast := if k == "justify" then startTok else alignAll
      { items := [("-all", alignAll), ("-last", alignLast)], ends := none }

/-! ### The declaration funnel `preprocess_declarations` -/

inductive ItemKind where
  | declaration | error | qualifiedRule | atRule | other
  deriving Repr, BEq, DecidableEq

/-- What the loop reads of one item of `parse_blocks_contents`. -/
structure Item where
  kind : ItemKind
  name : String          -- declaration.name
  lowerName : String     -- declaration.lower_name
  noTokens : Bool        -- `not remove_whitespace(declaration.value)`
  important : Bool
  id : Nat               -- which declaration (argument of the abstract validator)
  deriving Repr, BEq, DecidableEq

/-- The name under which the declaration is validated, `none` when the loop `continue`s before validating
(NOT_PRINT_MEDIA, unsupported `-weasy-` prefix, other vendor prefixes). -/
def effectiveName (d : Item) : Option String :=
  let name := if startsWith d.name "--" then d.name else d.lowerName
  if Gen.Expanders.notPrintMedia.contains name then none
  else
    let name? : Option String :=
      if startsWith name Gen.Expanders.vendorPrefix then
        let unprefixed := dropPrefix name Gen.Expanders.vendorPrefix
        if Gen.Expanders.proprietary.contains unprefixed then some unprefixed
        else if Gen.Expanders.unstable.contains unprefixed then some unprefixed
        else none
      else some name
    match name? with
    | none => none
    | some name => if startsWith name "-" && !startsWith name "--" then none else some name

/-- One output of the funnel: `(long_name.replace('-', '_'), value, important)`. -/
abbrev Out (β : Type) := String × β × Bool

/-- One turn of the loop. `validate name d` = `list(validator(tokens, name, base_url))` with
`validator = EXPANDERS.get(name, validate_non_shorthand)`. -/
def preprocessOne {β : Type} (validate : String → Item → R (List (String × β))) (d : Item) :
    Except Fail (List (Out β)) :=
  if d.kind ≠ .declaration then pure []
  else match effectiveName d with
    | none => pure []
    | some name =>
      match (if d.noTokens then throw .invalid else validate name d) with
      | .ok result => pure (result.map fun (ln, v) => (dashToUnderscore ln, v, d.important))
      | .error .invalid => pure []            -- except InvalidValues: warning, continue
      | .error f => throw f                    -- anything else leaves the generator

/-- `list(preprocess_declarations(base_url, declarations))`. -/
def preprocess {β : Type} (validate : String → Item → R (List (String × β))) :
    List Item → Except Fail (List (Out β))
  | [] => pure []
  | d :: rest => do
    let a ← preprocessOne validate d
    let b ← preprocess validate rest
    pure (a ++ b)

end Wp.Decl
