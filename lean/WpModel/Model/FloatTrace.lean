/-
Instrumented copies of the float / absolute models that also report which branches were taken (number of
`continue`s of the `avoid_collisions` loop and how it ended, which stage of `handle_min_max_width` re-ran
`absolute_width`).  They feed the branch histogram of the evidence; `Props/C11Flow.lean` proves that they
compute the same results as the models (`avoidLoopTrace_res`).

No Mathlib: linked into the driver.
-/
import WpModel.Model.Floats
import WpModel.Model.Absolute

namespace Wp.Floats

/-- How the loop of `avoid_collisions` ended. -/
inductive LoopExit where
  | free      -- no colliding shape: the default bounds are kept without looking at the width
  | fits      -- the box fits between the bounds
  | gaveUp    -- "No solution, we must put the box here"
  deriving Repr, DecidableEq, Inhabited

/-- `avoidLoop` with the number of `continue`s and the kind of exit. -/
def avoidLoopTrace : Nat → List Shape → Rat → Rat → Rat → Rat → Rat → Nat → Option (LoopRes × Nat × LoopExit)
  | 0, _, _, _, _, _, _, _ => none
  | fuel + 1, shapes, w, h, l0, r0, y, k =>
    let col := colliding shapes y h
    let b := bounds col l0 r0
    if b.constrained && Gen.blockedTest w b.r b.l then
      match lowerPositions col y with
      | [] => some (⟨y, b.l, b.r⟩, k, .gaveUp)
      | p :: ps => avoidLoopTrace fuel shapes w h l0 r0 (minList p ps) (k + 1)
    else some (⟨y, b.l, b.r⟩, k, if b.constrained then .fits else .free)

/-- Branch label of one `avoid_collisions` call. -/
def avoidBranch (shapes : List Shape) (b : ABox) (cb : CB) (outer : Bool) : String :=
  let y0 := if outer then b.py else b.py + b.mt
  let w := if outer then b.marginWidth else b.bw
  let h := if outer then b.marginHeight else b.bh
  let l0 := if outer then cb.cx else cb.cx + b.ml
  let r0 := if outer then cb.cx + cb.w else cb.cx + cb.w - b.mr
  match avoidLoopTrace (shapes.length + 1) shapes w h l0 r0 y0 0 with
  | none => "out-of-fuel"
  | some (_, k, ex) =>
    if !(b.isFloated || b.kind != .other) then "assert-fails" else
    let pos := if b.float = .none && cb.rtl then (match b.kind with | .line => "rtl-line" | _ => "rtl-box") else "left-bound"
    let exit := match ex with | .free => "free" | .fits => "fits" | .gaveUp => "gave-up"
    "moves" ++ toString (min k 3) ++ " " ++ exit ++ " " ++ pos ++ (if outer then " outer" else " inner")

end Wp.Floats

namespace Wp.Absolute

/-- Which stages of `handle_min_max_width` re-ran `absolute_width`. -/
def absoluteWidthBranch (b : HBox) (ltr : Bool) (cbX cbW : Rat) : String :=
  let r1 := absoluteWidthCore b ltr cbX cbW
  match r1.1.width with
  | none => "auto-after-pass"
  | some w1 =>
    let overMax := match b.maxW with
      | some mx => decide (w1 > mx)
      | none => false
    let r2 := maxStage b r1 w1 ltr cbX cbW
    match r2.1.width with
    | none => "auto-after-pass"
    | some w2 =>
      (if overMax then "max-rerun" else "max-ok") ++ " " ++ (if w2 < b.minW then "min-rerun" else "min-ok")

end Wp.Absolute
