/-
The ten CSS border styles as they reach `collapse_table_borders` (computed values).  Hand-written;
`Gen/BorderStyles.lean` (regenerated from `/repo/weasyprint/layout/table.py` on every run) is stated
over this type.
-/
namespace Wp

inductive BStyle where
  | none | hidden | dotted | dashed | solid | double | groove | ridge | inset | outset
  deriving Repr, DecidableEq, BEq, Inhabited

namespace BStyle

def all : List BStyle := [none, hidden, dotted, dashed, solid, double, groove, ridge, inset, outset]

def toCss : BStyle → String
  | none => "none" | hidden => "hidden" | dotted => "dotted" | dashed => "dashed" | solid => "solid"
  | double => "double" | groove => "groove" | ridge => "ridge" | inset => "inset" | outset => "outset"

def ofCss? : String → Option BStyle
  | "none" => some none | "hidden" => some hidden | "dotted" => some dotted | "dashed" => some dashed
  | "solid" => some solid | "double" => some double | "groove" => some groove | "ridge" => some ridge
  | "inset" => some inset | "outset" => some outset
  | _ => Option.none

theorem mem_all (b : BStyle) : b ∈ all := by cases b <;> simp [all]

end BStyle
end Wp
