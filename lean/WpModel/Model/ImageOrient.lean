/-
Model of `image-orientation`:
* `weasyprint/css/computed_values.py::image_orientation`: `(round(angle / pi * 2) % 4 * 90, flip)`;
* `weasyprint/images.py::rotate_pillow_image`: which Pillow transpositions are applied
  (`Image.Transpose.ROTATE_{(360 - angle) % 360}` — Pillow's `ROTATE_n` turns COUNTER-clockwise, the
  CSS angle is clockwise — then `FLIP_LEFT_RIGHT`), on an image seen as its size and its pixel function;
* `cssOrient`: what css-images-3 asks for (rotation to the right, then horizontal flip), for comparison.
No Mathlib: linked into `driver_c13`.
-/
import WpModel.Model.Wire

namespace Wp.ImageOrient
open Wp

/-- Python `round` (half to even). -/
def roundHalfEven (q : Rat) : Int :=
  let f := q.floor
  let r := q - (f : Rat)
  if r < 1 / 2 then f
  else if r > 1 / 2 then f + 1
  else if f % 2 = 0 then f else f + 1

/-- `round(angle / pi * 2) % 4 * 90` with the angle given in quarter turns (`angle / pi * 2`). -/
def computedAngle (quarterTurns : Rat) : Nat := ((roundHalfEven quarterTurns % 4).toNat) * 90

/-- An image: its size and the value of the pixel at column `x`, row `y` (`0 ≤ x < w`, `0 ≤ y < h`). -/
structure Img (α : Type) where
  w : Nat
  h : Nat
  px : Nat → Nat → α

/-- Pillow `ROTATE_90`: a quarter turn counter-clockwise. -/
def Img.rotCcw {α} (i : Img α) : Img α := ⟨i.h, i.w, fun x y => i.px (i.w - 1 - y) x⟩
/-- Pillow `ROTATE_270`: a quarter turn clockwise. -/
def Img.rotCw {α} (i : Img α) : Img α := ⟨i.h, i.w, fun x y => i.px y (i.h - 1 - x)⟩
/-- Pillow `ROTATE_180`. -/
def Img.rot180 {α} (i : Img α) : Img α := ⟨i.w, i.h, fun x y => i.px (i.w - 1 - x) (i.h - 1 - y)⟩
/-- Pillow `FLIP_LEFT_RIGHT`. -/
def Img.flipLr {α} (i : Img α) : Img α := ⟨i.w, i.h, fun x y => i.px (i.w - 1 - x) y⟩

/-- Computed `image-orientation`. -/
inductive Orientation where
  | none | fromImage
  | turn (angle : Nat) (flip : Bool)      -- angle ∈ {0, 90, 180, 270}
  deriving Repr, DecidableEq

/-- Pillow `image.transpose(Image.Transpose.ROTATE_<n>)`: `n` degrees COUNTER-clockwise
(`n` ∈ {90, 180, 270}; any other `n` has no such member: `getattr` raises AttributeError — not reachable,
the computed angle is a quarter turn; the model leaves the image as it is). -/
def Img.pillowRotate {α} (i : Img α) (n : Nat) : Img α :=
  if n = 90 then i.rotCcw else if n = 180 then i.rot180 else if n = 270 then i.rotCw else i

/-- `rotate_pillow_image(pillow_image, orientation)` for an image without EXIF data:
`(image, changed)` where `changed` = another image object is returned (the source bytes are dropped).
`if angle > 0: rotation = ROTATE_{(360 - angle) % 360}` (repair e4e2f8c: the CSS angle is clockwise). -/
def rotatePillow {α} (i : Img α) : Orientation → Img α × Bool
  | .none => (i, false)
  | .fromImage => (i, false)
  | .turn angle flip =>
    let (i1, c1) :=
      if angle > 0 then (i.pillowRotate ((360 - angle) % 360), true)
      else (i, false)
    if flip then (i1.flipLr, true) else (i1, c1)

/-- css-images-3 `image-orientation: <angle> [flip]`: rotate to the right (clockwise) by the angle
rounded to a quarter turn, then flip horizontally. -/
def cssOrient {α} (i : Img α) (angle : Nat) (flip : Bool) : Img α :=
  let r := if angle = 90 then i.rotCw else if angle = 180 then i.rot180 else if angle = 270 then i.rotCcw else i
  if flip then r.flipLr else r

/-- The pixel rows of an image. -/
def Img.rows {α} (i : Img α) : List (List α) :=
  (List.range i.h).map (fun y => (List.range i.w).map (fun x => i.px x y))

/-- An image from its pixel rows (out-of-range pixels read `d`). -/
def Img.ofRows {α} (d : α) (rows : List (List α)) : Img α :=
  ⟨(rows.headD []).length, rows.length, fun x y => ((rows.getD y []).getD x d)⟩

end Wp.ImageOrient
