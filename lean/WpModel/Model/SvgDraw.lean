/-
C19 — the re-entrancy guard of `weasyprint/images.py::SVGImage.draw` (9598d29):

  if self._drawing: LOGGER.error('SVG image %s includes itself', …); return
  self._drawing = True
  try: self._svg.draw(…)                      # may draw other SVG images (<image href>), and this one again
  except BaseException: LOGGER.error(…)       # every error of the drawing is swallowed here
  finally: self._drawing = False

`_drawing` is state on an image object that the image cache shares between elements, pages, writes and renders: it must
be `False` again whenever the outermost `draw` returns, whatever happened inside.  Images are numbers, `refs i` the
images that drawing `i` draws (in order), `fails i` = the drawing of `i` raises after its references were drawn.
`fuel` bounds the nesting (the guard bounds it by the number of images: an image is never entered twice on one stack).
No Mathlib.
-/
import WpModel.Model.Wire

namespace Wp.SvgDraw

inductive Ev where
  /-- `self._svg.draw` is entered for image `i` -/
  | enter (i : Nat)
  /-- the guard stopped a nested draw of `i` -/
  | selfInclude (i : Nat)
  /-- the drawing of `i` raised; swallowed by `SVGImage.draw` -/
  | failed (i : Nat)
  | outOfFuel
  deriving Repr, DecidableEq, Inhabited

/-- `flags` = the images whose `_drawing` is `True`. -/
def draw (refs : Nat → List Nat) (fails : Nat → Bool) : Nat → List Nat → Nat → List Ev × List Nat
  | 0, flags, _ => ([.outOfFuel], flags)
  | fuel + 1, flags, i =>
    if i ∈ flags then ([.selfInclude i], flags)
    else
      let inner := (refs i).foldl
        (fun acc j => let d := draw refs fails fuel acc.2 j; (acc.1 ++ d.1, d.2)) ([], i :: flags)
      -- `finally: self._drawing = False`
      (.enter i :: inner.1 ++ (if fails i then [.failed i] else []), inner.2.filter (· ≠ i))

end Wp.SvgDraw
