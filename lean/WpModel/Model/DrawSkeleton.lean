/-
Bracket / emission skeleton of `weasyprint/draw/__init__.py::draw_stacking_context` (as repaired: on a singular
transform the marked-content sequence is closed on the *original* stream), over abstract stacking-context trees, on the
multi-stream `World` of Model/PdfStream.

What `draw_stacking_context` does itself is modelled call for call:
  outer `stacked`, `begin_marked_content(box, mcid=True)`, viewport-overflow clip, `clip` rectangle of absolutely
  positioned boxes, the opacity group switch (`stream = stream.add_group(…)`), `transform` / the singular-transform early
  return, point 2 drawing, inner `stacked` with the overflow clip, points 3–9, outline, drawing the opacity group
  (`stacked`, `set_alpha`, `draw_x_object`), `end_marked_content`.
What it delegates (`draw_background`, `draw_border`, `draw_table`, `draw_inline_level`, `draw_replacedbox`,
`draw_outline`, `set_mask_border`, `rounded_box`) is opaque: an `Item.call` is one API call such a function made
(with the concrete stream it was made on), an `Item.ctx` a nested stacking context drawn on the current stream,
`Item.onCur` a call `draw_stacking_context` makes on the current stream with data-dependent arguments (the
`begin_marked_content(block)` / `end_marked_content()` pairs of point 7).
No Mathlib.
-/
import WpModel.Model.PdfStream

namespace Wp.Pdf

inductive Transform where
  | none
  | regular (a b c d e f : Num)     -- `box.transformation_matrix.determinant` is non-zero
  | singular
  deriving Repr

/-- What `draw_stacking_context` reads of `stacking_context.box` / `.page` to decide its own calls. -/
structure CtxProps where
  tag : String                 -- box.element_tag
  rootClip : Bool              -- box.is_for_root_element and page.style['overflow'] != 'visible'
  absClip : Option String      -- box.is_absolutely_positioned() and box.style['clip']: the `re` item it writes
  opacity : Num                -- box.style['opacity']
  transform : Transform
  clip : Bool                  -- box.style['overflow'] != 'visible' and not isinstance(box, PageBox)
  deriving Repr

mutual
  inductive Item where
    | call (c : WCall)
    | onCur (c : Call)
    | ctx (c : Ctx)
    | ctxOn (h : Nat) (c : Ctx)
  inductive Ctx where
    | mk (p : CtxProps) (rootClipBox pre clipBox inner post : List Item)
end

def opacityLt1 (o : Num) : Bool := o.val < 1

abbrev Stage := World → Except PyErr World

/-- Sequencing (`Except.bind`), written out so that optional stages do not duplicate what follows them. -/
def thenDo (x : Except PyErr World) (f : Stage) : Except PyErr World :=
  match x with
  | .ok w => f w
  | .error e => .error e

infixl:55 " |>> " => thenDo

/-- A stage executed only under a condition. -/
def stageIf (b : Bool) (f : Stage) : Stage := fun w => if b then f w else .ok w

/-- `stream.clip(); stream.end()`. -/
def clipEnd (h : Nat) : Stage := fun w =>
  w.onCall h (.rawTok .path "W") |>> fun w => w.onCall h (.rawTok .paint "n")

/-- The XObject key `add_group` is about to assign on stream `h` (`f'x{len(XObject)}'`). -/
def nextGroupKey (w : World) (h : Nat) : Option XKey :=
  match w.streams[h]? with
  | none => none
  | some s => match w.res[s.res]? with
    | none => none
    | some r => some (.x r.xobj.length)

/-- `stream.transform(*box.transformation_matrix.values)` when there is a (regular) transformation. -/
def transformStage (cur : Nat) : Transform → Stage
  | .regular a b c d e f => fun w => w.onCall cur (.transform a b c d e f)
  | _ => fun w => .ok w

/-- `if box.is_absolutely_positioned() and box.style['clip']: stream.rectangle(…); stream.clip(); stream.end()`. -/
def absClipStage (orig : Nat) : Option String → Stage
  | some re => fun w => w.onCall orig (.rawTok .path re) |>> clipEnd orig
  | none => fun w => .ok w

/-- `stream.end_marked_content()` and the `pop_state` of the outer `stacked`. -/
def finishCtx (orig : Nat) : Stage := fun w =>
  w.onCall orig .endMarked |>> fun w => w.onCall orig .pop

/-- `with stacked(stream): stream.set_alpha(opacity, stroke=True, fill=True); stream.draw_x_object(group_id)`. -/
def drawGroupOn (orig : Nat) (opacity : Num) : Option XKey → Stage
  | none => fun _ => .error badHandle
  | some k => fun w =>
    w.onCall orig .push |>> fun w => w.onCall orig (.setAlpha opacity true (some true)) |>>
    fun w => w.onCall orig (.drawX k) |>> fun w => w.onCall orig .pop

mutual
  def drawItem (w : World) (cur : Nat) : Item → Except PyErr World
    | .call c => w.step c
    | .onCur c => w.onCall cur c
    | .ctx c => drawCtx w cur c
    | .ctxOn h c => drawCtx w h c

  def drawItems (w : World) (cur : Nat) : List Item → Except PyErr World
    | [] => .ok w
    | i :: is => drawItem w cur i |>> fun w' => drawItems w' cur is

  /-- `draw_stacking_context(stream, stacking_context)` with `stream` = handle `orig`. -/
  def drawCtx (w : World) (orig : Nat) : Ctx → Except PyErr World
    | .mk p rootClipBox pre clipBox inner post =>
      -- with stacked(stream): stream.begin_marked_content(box, mcid=True); viewport clip; clip rectangle
      (w.onCall orig .push |>> fun w => w.onCall orig (.beginMarked p.tag true none) |>>
        fun w => stageIf p.rootClip (fun w => drawItems w orig rootClipBox |>> clipEnd orig) w |>>
        absClipStage orig p.absClip) |>> fun w =>
      -- if box.style['opacity'] < 1: original_stream = stream; stream = stream.add_group(...)
      let key := nextGroupKey w orig
      let cur := if opacityLt1 p.opacity then w.streams.length else orig
      stageIf (opacityLt1 p.opacity) (fun w => w.addGroup orig) w |>> fun w =>
      match p.transform with
      | .singular =>
        -- stream = original_stream; stream.end_marked_content(); return   (then `stacked` pops)
        finishCtx orig w
      | t =>
        -- points 2–10 on the current stream: pre; with stacked(stream): overflow clip, points 3–9; outline
        (transformStage cur t w |>> fun w => drawItems w cur pre |>> fun w => w.onCall cur .push |>>
          fun w => stageIf p.clip (fun w => drawItems w cur clipBox |>> clipEnd cur) w |>>
          fun w => drawItems w cur inner |>> fun w => w.onCall cur .pop |>> fun w => drawItems w cur post) |>>
        -- then draw the opacity group on the original stream
        stageIf (opacityLt1 p.opacity) (drawGroupOn orig p.opacity key) |>>
        finishCtx orig
end

end Wp.Pdf
