/-
Document-level horizontal geometry of a tree of block boxes in normal flow (C05 clauses (b)–(f)),
obtained by applying the function models of `BoxModel.lean` top-down exactly as the layout does:

  page.py  make_page:               resolve_percentages(page, device_size); page_width; page_height;
                                    root_box.position_x = page.content_box_x()
  block.py block_level_layout:      resolve_percentages(box, containing_block)
  block.py block_box_layout:        block_level_width(box, containing_block)        (with min/max)
  block.py block_container_layout:  child.position_x = box.content_box_x();
                                    new_box.height = max(min(height, max_height), min_height)
  css/computed_values.py length:    `0<unit>` → `0px`, `em` → `value * font_size`

Vertical positions (margin collapsing along chains of boxes, pagination) are the pagination model's.
No Mathlib: linked into the driver.
-/
import WpModel.Model.BoxModel

namespace Wp.BlockTree
open Wp Wp.BoxModel

/-- A specified length. -/
inductive SDim where
  | auto
  | none                       -- `max-*: none`
  | px (v : Rat)
  | pct (v : Rat)
  | em (v : Rat)
  deriving Repr, DecidableEq

/-- `computed_values.length`: zero of any unit is `0px`; `em` is relative to the element's font size. -/
def computeLen (fs : Rat) : SDim → Except BErr DimQ
  | .auto => .ok .auto
  | .none => .error (.unsupported "length:none")
  | .px v => .ok (.px v)
  | .pct v => if v = 0 then .ok (.px 0) else .ok (.pct v)
  | .em v => if v = 0 then .ok (.px 0) else .ok (.px (v * fs))

/-- `max-width` / `max-height`: `none` computes to `Dimension(inf, 'px')`. -/
def computeMax (fs : Rat) : SDim → Except BErr DimX
  | .auto => .error (.unsupported "max:auto")
  | .none => .ok (.px .inf)
  | .px v => .ok (.px (.fin v))
  | .pct v => if v = 0 then .ok (.px (.fin 0)) else .ok (.pct v)
  | .em v => if v = 0 then .ok (.px (.fin 0)) else .ok (.px (.fin (v * fs)))

/-- `border-*-width` with `border-*-style: solid` (`pixels_only`). -/
def computeBorder (fs : Rat) : SDim → Except BErr Rat
  | .px v => .ok v
  | .em v => .ok (v * fs)
  | _ => .error (.unsupported "border-width")

/-- Specified style of one block (or of the page box). -/
structure NStyle where
  ml : SDim
  mr : SDim
  mt : SDim
  mb : SDim
  pl : SDim
  pr : SDim
  pt : SDim
  pb : SDim
  bl : SDim
  br : SDim
  bt : SDim
  bb : SDim
  width : SDim
  height : SDim
  minW : SDim
  minH : SDim
  maxW : SDim
  maxH : SDim
  boxSizing : BoxSizing
  dir : Option Dir              -- `none`: inherited
  fontSize : Option Rat         -- px; `none`: inherited
  deriving Repr

def computeStyle (fs : Rat) (s : NStyle) : Except BErr Style := do
  pure {
    marginLeft := ← computeLen fs s.ml, marginRight := ← computeLen fs s.mr,
    marginTop := ← computeLen fs s.mt, marginBottom := ← computeLen fs s.mb,
    paddingLeft := ← computeLen fs s.pl, paddingRight := ← computeLen fs s.pr,
    paddingTop := ← computeLen fs s.pt, paddingBottom := ← computeLen fs s.pb,
    width := ← computeLen fs s.width, height := ← computeLen fs s.height,
    minWidth := ← computeLen fs s.minW, minHeight := ← computeLen fs s.minH,
    maxWidth := ← computeMax fs s.maxW, maxHeight := ← computeMax fs s.maxH,
    borderLeft := ← computeBorder fs s.bl, borderRight := ← computeBorder fs s.br,
    borderTop := ← computeBorder fs s.bt, borderBottom := ← computeBorder fs s.bb,
    boxSizing := s.boxSizing }

inductive Node where
  | mk (s : NStyle) (kids : List Node)
  deriving Repr

/-- Geometry of one laid-out box: what the harness reads from the real box. -/
structure Geo where
  x : Rat                       -- position_x (left edge of the margin box)
  ml : Rat
  mr : Rat
  w : Rat
  pl : Rat
  pr : Rat
  bl : Rat
  br : Rat
  mt : Rat                      -- vertical used values (`margin_top: auto` is 0 in block_level_layout)
  mb : Rat
  pt : Rat
  pb : Rat
  bt : Rat
  bb : Rat
  h : Option Ext                -- final height when the resolved height is not `auto`
  deriving Repr, DecidableEq

def Geo.contentX (g : Geo) : Rat := g.x + g.ml + g.pl + g.bl

def aboxOfUsed (u : Used) (x : Rat) : ABox :=
  { ml := u.marginLeft, mr := u.marginRight, pl := u.paddingLeft, pr := u.paddingRight,
    bl := u.borderLeft, br := u.borderRight, w := u.width, minW := u.minWidth, maxW := u.maxWidth,
    posX := x, isColumn := false }

def geoOf (u : Used) (r : ABox) : Except BErr Geo := do
  let ml ← lenToRat "margin_left" r.ml
  let mr ← lenToRat "margin_right" r.mr
  let w ← lenToRat "width" r.w
  -- block_level_layout: `if box.margin_top == 'auto': box.margin_top = 0` (same for bottom)
  let mt := match u.marginTop with | some m => m | none => 0
  let mb := match u.marginBottom with | some m => m | none => 0
  pure { x := r.posX, ml, mr, w, pl := r.pl, pr := r.pr, bl := r.bl, br := r.br,
         mt, mb, pt := u.paddingTop, pb := u.paddingBottom, bt := u.borderTop, bb := u.borderBottom,
         h := u.height.map (fun h => clampHeight h u.minHeight u.maxHeight) }

/-- One block box: `resolve_percentages`, `block_level_width` (with min/max) at `position_x = x`. -/
def layoutBox (cb : CB) (cbH : Len) (x : Rat) (fs : Rat) (s : NStyle) : Except BErr (Geo × Used) := do
  let style ← computeStyle fs s
  let u ← resolvePercentages false style cb.width cbH
  let r ← blockLevelWidthMinMax cb (aboxOfUsed u x)
  let g ← geoOf u r
  pure (g, u)

mutual
/-- Preorder list of the geometry of `n` and its descendants. -/
def layoutNode (cb : CB) (cbH : Len) (x : Rat) (inhDir : Dir) (inhFs : Rat) : Node → Except BErr (List Geo)
  | .mk s kids => do
    let fs := match s.fontSize with | some f => f | none => inhFs
    let dir := match s.dir with | some d => d | none => inhDir
    let (g, u) ← layoutBox cb cbH x fs s
    let rest ← layoutKids (.box g.w dir) u.height g.contentX dir fs kids
    pure (g :: rest)
def layoutKids (cb : CB) (cbH : Len) (x : Rat) (inhDir : Dir) (inhFs : Rat) : List Node → Except BErr (List Geo)
  | [] => pure []
  | n :: ns => do
    let a ← layoutNode cb cbH x inhDir inhFs n
    let b ← layoutKids cb cbH x inhDir inhFs ns
    pure (a ++ b)
end

/-- One laid-out box together with the arguments `block_level_width` saw: containing block, start
position, and the used values of `resolve_percentages` (for the refinement theorems of Props/C05Refine). -/
structure Placed where
  cb : CB
  x : Rat
  g : Geo
  u : Used
  dir : Dir                     -- the box's own direction
  deriving Repr

mutual
/-- `layoutNode` keeping, for every box, what it was laid out in (same recursion, same order). -/
def layoutNodeT (cb : CB) (cbH : Len) (x : Rat) (inhDir : Dir) (inhFs : Rat) : Node → Except BErr (List Placed)
  | .mk s kids => do
    let fs := match s.fontSize with | some f => f | none => inhFs
    let dir := match s.dir with | some d => d | none => inhDir
    let (g, u) ← layoutBox cb cbH x fs s
    let rest ← layoutKidsT (.box g.w dir) u.height g.contentX dir fs kids
    pure ({ cb, x, g, u, dir } :: rest)
def layoutKidsT (cb : CB) (cbH : Len) (x : Rat) (inhDir : Dir) (inhFs : Rat) : List Node → Except BErr (List Placed)
  | [] => pure []
  | n :: ns => do
    let a ← layoutNodeT cb cbH x inhDir inhFs n
    let b ← layoutKidsT cb cbH x inhDir inhFs ns
    pure (a ++ b)
end

/-- The page box: `resolve_percentages(page, device_size)`, `page_width`, `page_height`. -/
def layoutPage (devW devH : Rat) (fs : Rat) (s : NStyle) : Except BErr (Geo × Rat) := do
  let style ← computeStyle fs s
  let u ← resolvePercentages true style devW (some devH)
  let r ← pageWidth devW (aboxOfUsed u 0)
  let v ← pageHeight devH
    { ml := u.marginTop, mr := u.marginBottom, pl := u.paddingTop, pr := u.paddingBottom,
      bl := u.borderTop, br := u.borderBottom, w := u.height, minW := u.minHeight, maxW := u.maxHeight,
      posX := 0, isColumn := false }
  let ml ← lenToRat "margin_left" r.ml
  let mr ← lenToRat "margin_right" r.mr
  let w ← lenToRat "width" r.w
  let h ← lenToRat "height" v.w
  let mt ← lenToRat "margin_top" v.ml
  let mb ← lenToRat "margin_bottom" v.mr
  pure ({ x := 0, ml, mr, w, pl := r.pl, pr := r.pr, bl := r.bl, br := r.br,
          mt, mb, pt := v.pl, pb := v.pr, bt := v.bl, bb := v.br, h := some (.fin h) }, h)

/-- A document: page box then the root element's tree.  The page box inherits `direction` and
`font-size` from the root element. -/
def layoutDoc (devW devH : Rat) (page : NStyle) (root : Node) : Except BErr (List Geo) :=
  match root with
  | .mk s _ => do
    let rootFs := match s.fontSize with | some f => f | none => 16
    let rootDir := match s.dir with | some d => d | none => Dir.ltr
    let (pg, pageH) ← layoutPage devW devH rootFs page
    let rest ← layoutNode (.box pg.w rootDir) (some pageH) pg.contentX rootDir rootFs root
    pure (pg :: rest)

end Wp.BlockTree
