/-
Document-level composition for C13: from the computed style of an `<img>` to its used size, as
`weasyprint/layout/percent.py::resolve_percentages` (content-box sizing, non-page box) followed by
`inline_replaced_box_layout` (inline.py `atomic_box`) or `block_level_layout` +
`block_replaced_box_layout` (block.py) compute it.
No Mathlib: linked into `driver_c13`.
-/
import WpModel.Model.Replaced

set_option linter.unusedVariables false

namespace Wp.Replaced
open Wp

/-- Computed values of the sizing properties (`'auto'` / `none` are `none`). -/
structure CssBox where
  width : Option Dim
  height : Option Dim
  minWidth : Option Dim      -- `auto` → 0
  minHeight : Option Dim
  maxWidth : Option Dim      -- `none` (computed `Dimension(inf, 'px')`) → inf
  maxHeight : Option Dim
  marginLeft : Option Dim
  marginRight : Option Dim
  marginTop : Option Dim
  marginBottom : Option Dim
  paddingLeft : Dim
  paddingRight : Dim
  borderLeft : Rat
  borderRight : Rat
  deriving Repr, BEq

/-- `resolve_percentages(box, containing_block)` for a non-page box with `box-sizing: content-box`;
`cbh = none` is a containing block whose height is `'auto'`. -/
def resolvePercentages (c : CssBox) (cbw : Rat) (cbh : Len) (positionX : Rat) : RBox :=
  let pct (d : Option Dim) : Len := d.map (fun d => percentage d cbw)
  let (height, minH, maxH) : Len × Rat × MaxLen :=
    match cbh with
    | none =>
      -- the height of the containing block depends on its content
      let h : Len := match c.height with
        | some (.px v) => some v
        | _ => none
      -- resolve_one_percentage(box, 'min_height', 0) / ('max_height', inf)
      let mn : Rat := match c.minHeight with
        | some d => percentage d 0
        | none => 0
      let mx : MaxLen := match c.maxHeight with
        | some (.px v) => some v
        | _ => none
      (h, mn, mx)
    | some ch =>
      (c.height.map (fun d => percentage d ch),
       (match c.minHeight with | some d => percentage d ch | none => 0),
       c.maxHeight.map (fun d => percentage d ch))
  { width := pct c.width, height := height,
    marginLeft := pct c.marginLeft, marginRight := pct c.marginRight,
    marginTop := pct c.marginTop, marginBottom := pct c.marginBottom,
    paddingLeft := percentage c.paddingLeft cbw, paddingRight := percentage c.paddingRight cbw,
    borderLeft := c.borderLeft, borderRight := c.borderRight,
    minWidth := (match c.minWidth with | some d => percentage d cbw | none => 0),
    maxWidth := c.maxWidth.map (fun d => percentage d cbw),
    minHeight := minH, maxHeight := maxH, positionX := positionX, isColumn := false }

/-- Used size (and, for a block image, position) of a replaced element whose image has the
intrinsic size `i`. -/
def docImageI (block : Bool) (c : CssBox) (cb : Cb) (cbh : Len) (cbContentX positionY : Rat)
    (i : Intr) : Except Err (RBox × Rat × Rat) := do
  let b := resolvePercentages c cb.width cbh cbContentX
  let styleBothAuto := c.width.isNone && c.height.isNone
  if block then
    -- block_level_layout: auto vertical margins are 0
    let b := { b with marginTop := some (b.marginTop.getD 0), marginBottom := some (b.marginBottom.getD 0) }
    blockReplacedBoxLayout styleBothAuto i cb cbContentX positionY b
  else do
    let b ← inlineReplacedBoxLayout styleBothAuto i cb b
    pure (b, b.positionX, positionY)

/-- `<img>` showing a raster image of `pw × ph` pixels. -/
def docImage (block : Bool) (c : CssBox) (cb : Cb) (cbh : Len) (cbContentX positionY : Rat)
    (pw ph res ratio : Rat) : Except Err (RBox × Rat × Rat) := do
  let i ← rasterIntrinsic pw ph res ratio
  docImageI block c cb cbh cbContentX positionY i

/-- `<img>` showing an SVG with the given `width` / `height` attributes and `viewBox` size. -/
def docSvg (block : Bool) (c : CssBox) (cb : Cb) (cbh : Len) (cbContentX positionY : Rat)
    (w h : Option Rat) (viewbox : Option (Rat × Rat)) : Except Err (RBox × Rat × Rat) := do
  let i ← svgIntrinsic w h viewbox
  docImageI block c cb cbh cbContentX positionY i

/-- `css/validation/properties.py::image_resolution` on a single token (repair d011d54):
`resolution = get_resolution(token); if resolution is not None and resolution > 0: return resolution`.
`value` is `token.value` of a dimension token, `factor` the entry of `RESOLUTION_TO_DPPX` for its unit
(`none`: not a dimension token, or not a resolution unit — `get_resolution` returns `None`).
`none` = the declaration is invalid and dropped. -/
def imageResolutionValid (value : Rat) (factor : Option Rat) : Option Rat :=
  match factor with
  | none => none
  | some f => if value * f > 0 then some (value * f) else none

/-- The computed `image-resolution` of an element that declares `declared` (value, unit factor) and
otherwise has the initial value `1dppx` (no ancestor declares one). -/
def computedResolution (declared : Option (Rat × Option Rat)) : Rat :=
  match declared with
  | none => 1
  | some (v, f) => (imageResolutionValid v f).getD 1

/-- The sizing step of `absolute_replaced(context, box, cb_x, cb_y, cb_width, cb_height)`
(absolute.py): `inline_replaced_box_width_height(box, (cb_width, cb_height))`.
`block_level_width` reads `containing_block[0]` of a tuple as the width of the containing block and
takes the direction of a tuple to be `'ltr'`; `cb_x`, `cb_y`, `cb_height` play no part in the size. -/
def absoluteReplacedWH (styleBothAuto : Bool) (i : Intr) (cbX cbY cbWidth cbHeight : Rat) (b : RBox) :
    Except Err RBox :=
  inlineReplacedWH styleBothAuto i ⟨cbWidth, false⟩ b

end Wp.Replaced
