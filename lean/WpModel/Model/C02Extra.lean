/-
C02 (totality), parts outside the pagination model — three small models with their Python failure
points explicit.  No Mathlib: linked into `driver_c02`.

1. `inline_block_baseline` (weasyprint/layout/inline.py) with `find_in_flow_baseline`
   (weasyprint/layout/table.py):

     def inline_block_baseline(box):
         if box.is_table_wrapper:
             for child in box.children:
                 if isinstance(child, boxes.TableBox):
                     if child.children and child.children[0].children:      -- guard
                         first_row = child.children[0].children[0]          -- two indexings
                         return first_row.baseline
         elif box.style['overflow'] == 'visible':
             result = find_in_flow_baseline(box, last=True)
             if result:                                                     -- truthiness: 0 is false
                 return result
         return box.position_y + box.margin_height()

     def find_in_flow_baseline(box, last=False, baseline_types=(boxes.LineBox,)):
         if isinstance(box, baseline_types): return box.position_y + box.baseline
         elif isinstance(box, boxes.TableCaptionBox): return
         children = reversed(box.children) if last else box.children
         for child in children:
             if child.is_in_normal_flow():
                 result = find_in_flow_baseline(child, last, baseline_types)
                 if result is not None: return result

   `IBox` = (class of the box among LineBox / TableCaptionBox / TableBox / anything else,
   `is_in_normal_flow()`, `position_y`, `baseline`, children).  The two indexings are `idx0`
   (IndexError on an empty sequence), so "the guard protects the indexings" is a theorem
   (`Props/C02Extra.inlineBlockBaseline_total`), not a property of the notation.

2. the size asked of Pillow's `thumbnail()` by `RasterImage.get_x_object` (weasyprint/images.py) when the
   `dpi` option downsamples an image:  `width = max(1, round(self.width * dpi_ratio))`,
   `height = max(1, round(self.height * dpi_ratio))` — Python `round` = half to even.  Pillow divides by
   both numbers: they must be >= 1 (`Props/C02Extra.thumbSize_pos`).

3. the growth checker of the section `nesting-growth`: the cost (number of Python function calls, a
   deterministic count) of rendering the same construct nested `d`, `3d/2`, `2d` deep.
-/
import WpModel.Model.Wire

namespace Wp.C02x
open Wp

/-! ### 1. inline_block_baseline -/

inductive Kind where
  | line | caption | table | other
  deriving Repr, DecidableEq, Inhabited

inductive IBox where
  | mk (kind : Kind) (inFlow : Bool) (posY baseline : Rat) (kids : List IBox)
  deriving Repr, Inhabited

def IBox.kids : IBox → List IBox
  | .mk _ _ _ _ ks => ks

def IBox.baseline : IBox → Rat
  | .mk _ _ _ b _ => b

def IBox.kind : IBox → Kind
  | .mk k _ _ _ _ => k

mutual
/-- `find_in_flow_baseline(box, last)`; `none` is Python's `None`. -/
def findBaseline (last : Bool) : IBox → Option Rat
  | .mk kind _ y b kids =>
    match kind with
    | .line => some (y + b)
    | .caption => none
    | _ => if last then findLastKid last kids else findFirstKid last kids
/-- `for child in box.children: if child.is_in_normal_flow(): …; if result is not None: return result` -/
def findFirstKid (last : Bool) : List IBox → Option Rat
  | [] => none
  | .mk kind fl y b kids :: rest =>
    match (if fl then findBaseline last (.mk kind fl y b kids) else none) with
    | some r => some r
    | none => findFirstKid last rest
/-- the same loop over `reversed(box.children)` -/
def findLastKid (last : Bool) : List IBox → Option Rat
  | [] => none
  | .mk kind fl y b kids :: rest =>
    match findLastKid last rest with
    | some r => some r
    | none => if fl then findBaseline last (.mk kind fl y b kids) else none
end

/-- `seq[0]`. -/
def idx0 {α : Type} (site : String) : List α → Except PyErr α
  | [] => .error (.indexError site)
  | x :: _ => .ok x

/-- The `for child in box.children` loop of the table-wrapper branch: `some baseline` when it returns
from inside the loop, `none` when the loop ends. -/
def tableBaseline : List IBox → Except PyErr (Option Rat)
  | [] => .ok none
  | child :: rest =>
    if child.kind = .table then
      -- `if child.children and child.children[0].children:`
      if (!child.kids.isEmpty && !(match child.kids with | [] => true | g :: _ => g.kids.isEmpty)) then do
        let group ← idx0 "inline.py:inline_block_baseline" child.kids
        let row ← idx0 "inline.py:inline_block_baseline" group.kids
        pure (some row.baseline)
      else tableBaseline rest
    else tableBaseline rest

/-- What `inline_block_baseline` reads of the inline-block itself. -/
structure IBlock where
  wrapper : Bool            -- box.is_table_wrapper
  overflowVisible : Bool    -- box.style['overflow'] == 'visible'
  posY : Rat
  marginHeight : Rat
  kids : List IBox
  deriving Repr, Inhabited

def inlineBlockBaseline (b : IBlock) : Except PyErr Rat :=
  if b.wrapper then
    match tableBaseline b.kids with
    | .error e => .error e
    | .ok (some r) => .ok r
    | .ok none => .ok (b.posY + b.marginHeight)
  else if b.overflowVisible then
    match findLastKid true b.kids with
    | some r => if r ≠ 0 then .ok r else .ok (b.posY + b.marginHeight)
    | none => .ok (b.posY + b.marginHeight)
  else .ok (b.posY + b.marginHeight)

/-! ### 2. thumbnail size -/

/-- Python `round(x)` on an exact number: half to even. -/
def roundHalfEven (q : Rat) : Int :=
  let f := q.floor
  let r := q - (f : Rat)
  if r < 1 / 2 then f
  else if r > 1 / 2 then f + 1
  else if f % 2 = 0 then f else f + 1

/-- `(max(1, round(self.width * dpi_ratio)), max(1, round(self.height * dpi_ratio)))`. -/
def thumbSize (w h : Nat) (ratio : Rat) : Int × Int :=
  (max 1 (roundHalfEven ((w : Rat) * ratio)), max 1 (roundHalfEven ((h : Rat) * ratio)))

/-! ### 3. growth checker -/

/-- Costs `c1 c2 c3` of one construct at nesting depths `d`, `3d/2`, `2d`.  Accepted when each step
multiplies the cost by at most 4: every cost `a + b·depth^k` with `k ≤ 4` is accepted
(`(3/2)^4 < 4`, `(4/3)^4 < 4`), a cost that doubles with every level (`d ≥ 4`: ×4 or more per step,
×16 over both) is not. -/
def growthOk (c1 c2 c3 : Nat) : Bool :=
  decide (c2 ≤ 4 * c1) && decide (c3 ≤ 4 * c2)

end Wp.C02x
