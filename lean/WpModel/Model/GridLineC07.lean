/-
C07 — the validator of `grid-row-start`, `grid-row-end`, `grid-column-start`, `grid-column-end`
(weasyprint/css/validation/properties.py `grid_line`), branch for branch:

  one token:   `auto` | a custom identifier (any ident but `span`) | a non-zero integer
  otherwise:   a loop collecting at most one `span`, one non-zero integer and one identifier, in any order
               (`auto` or anything else or a second one of a kind: None), then
               `span` needs an integer > 0 or an identifier; without `span` an integer is needed.

A token is abstracted to what the function reads of it.  No Mathlib, no Std: linked into the driver.
-/
import WpModel.Model.Wire

namespace Wp.GridLine07
open Wp

/-- What `grid_line` reads of a token. -/
inductive GTok where
  | ident (lower value : String)     -- `get_keyword(token)` (lower-case) and `token.value` (as written)
  | int (n : Int)                    -- `token.type == 'number' and token.is_integer`: `token.int_value`
  | other                            -- anything else (non-integer numbers, dimensions, strings, functions, …)
  deriving Repr, BEq, DecidableEq

/-- What `grid_line` returns (Python `None` is `Option.none` around it). -/
inductive GLine where
  | auto                                                       -- 'auto'
  | line (span : Bool) (number : Option Int) (ident : Option String)   -- (span, number, ident)
  deriving Repr, BEq, DecidableEq

/-- `number = ident = span = None` and the three slots filled by the loop. -/
structure St where
  number : Option Int := none
  ident : Option String := none
  span : Bool := false
  deriving Repr, BEq, DecidableEq

/-- One turn of `for token in tokens:` (`none`: the `return` at the end of the body). -/
def step (s : St) : GTok → Option St
  | .ident lower value =>
    if lower == "auto" then none
    else if lower == "span" then (if s.span then none else some { s with span := true })
    else if s.ident.isNone then some { s with ident := some value } else none
  | .int n => if n != 0 && s.number.isNone then some { s with number := some n } else none
  | .other => none

def loop : St → List GTok → Option St
  | s, [] => some s
  | s, t :: rest => match step s t with
    | some s' => loop s' rest
    | none => none

/-- The statements after the loop. -/
def finish (s : St) : Option GLine :=
  if s.span then
    match s.number with
    | some n => if n < 0 then none else some (.line true (some n) s.ident)
    | none => if s.ident.isSome then some (.line true none s.ident) else none
  else
    match s.number with
    | some n => some (.line false (some n) s.ident)
    | none => none

/-- `grid_line(tokens)`. -/
def gridLine : List GTok → Option GLine
  | [.ident lower value] =>
    if lower == "auto" then some .auto
    else if lower != "span" then some (.line false none (some value)) else none
  | [.int n] => if n != 0 then some (.line false (some n) none) else none
  | [.other] => none
  | toks => (loop {} toks).bind finish

end Wp.GridLine07
