/-
An executable checker for the float clauses of C11 on *observed* geometry (the margin boxes of the floats of
one block formatting context, in document order, as extracted from a rendered document): no two floats
overlap, tops never go up, and a box that fits between the floats beside it overlaps none of them.
`Props/C11Flow.lean` proves the checker sound and complete for the stated clauses and proves that it
accepts everything the float model produces; the harness runs it on rendered wide-grammar documents.

No Mathlib: linked into the driver.
-/
import WpModel.Model.Floats

namespace Wp.Floats

/-- Interior intersection of the rectangle `(x, y, w, h)` with the margin box of a shape, as a Bool. -/
def overlapsB (x y w h : Rat) (s : Shape) : Bool :=
  decide (x < s.x + s.mw) && decide (s.x < x + w) && decide (y < s.y + s.mh) && decide (s.y < y + h)

/-- `r a b` for every pair `a` before `b`. -/
def pairwiseB {α} (r : α → α → Bool) : List α → Bool
  | [] => true
  | a :: l => l.all (r a) && pairwiseB r l

/-- A later float `b` respects an earlier float `a`: no overlap, not higher. -/
def respects (a b : Shape) : Bool := !overlapsB b.x b.y b.mw b.mh a && decide (a.y ≤ b.y)

/-- The floats of one formatting context, in document order, are pairwise disjoint with tops in order. -/
def floatsOk (shapes : List Shape) : Bool := pairwiseB respects shapes

/-- A box `(x, y, w, h)` that has to stay between `l0` and `r0` (the content edges of its containing block,
shrunk by its own margins): unless it is wider than that room — then nothing can be asked — it overlaps no float
(a box that does not fit beside the floats is moved below them, so it never has to overlap one). -/
def boxOk (shapes : List Shape) (l0 r0 x y w h : Rat) : Bool :=
  decide (w > r0 - l0) || shapes.all (fun s => !overlapsB x y w h s)

/-- What the harness extracts from one block formatting context of a rendered document, in tree order: the
margin box of a float, or a box that may not overlap floats (line box, BFC root, table, block-level image)
with the left / right edges it has to stay between. -/
inductive Event where
  | float (s : Shape)
  | box (l0 r0 x y w h : Rat)
  deriving Repr, Inhabited

/-- Check the events in order against the floats met so far; `some i` = index of the first event that fails. -/
def checkEvents (shapes : List Shape) (i : Nat) (evs : List Event) : Option Nat :=
  match evs with
  | [] => none
  | .float s :: rest =>
    if shapes.all (fun a => respects a s) then checkEvents (shapes ++ [s]) (i + 1) rest else some i
  | .box l0 r0 x y w h :: rest =>
    if boxOk shapes l0 r0 x y w h then checkEvents shapes (i + 1) rest else some i
termination_by structural evs

/-- The floats among the events. -/
def eventFloats : List Event → List Shape
  | [] => []
  | .float s :: rest => s :: eventFloats rest
  | _ :: rest => eventFloats rest

end Wp.Floats
