/-
The CSS-wide keywords at the entrance of the cascade.  `inherit` and `initial` as the *whole* value
of a declaration are recognised before any property-specific validation, ASCII case-insensitively
(`get_single_keyword(tokens)` is the lower-cased ident), for a longhand
(`validation/__init__.py preprocess_declarations` / `validate_non_shorthand`) as for a shorthand
(`validation/expanders.py generic_expander`, `expand_border`, `expand_four_sides`, …): every
longhand the declaration stands for gets the keyword, and `ComputedStyle.__missing__`
(`Style.specified123`) then honours it.
No Mathlib, no Std.
-/
import WpModel.Model.StyleDoc

namespace Wp.CssWide
open Wp Wp.StyleDoc

/-- `get_single_keyword(tokens)` for a single ident token with text `text`, when it is one of the two
CSS-wide keywords WeasyPrint knows: the lower-cased keyword. -/
def cssWide (text : String) : Option String :=
  let lower := String.ofList (pyLower text.toList)
  if lower == "inherit" || lower == "initial" then some lower else none

/-- What the declaration `name: <ident text>` contributes when the ident is a CSS-wide keyword:
the keyword for every longhand in `longhands` (the property itself for a longhand); `none` = the
value goes on to the property's own validator. -/
def expansion (longhands : List String) (text : String) : Option (List (String × String)) :=
  (cssWide text).map (fun kw => longhands.map (fun n => (n, kw)))

end Wp.CssWide
