/-
C19 — the image cache of `weasyprint/images.py::get_image_from_uri` (key
`f'{url} {orientation} {options["optimize_images"]} {options["jpeg_quality"]} {options["dpi"]}'` since bca20a5: every
option the stored image depends on is part of the key), together with the part of `RasterImage.__init__` /
`cache_image_data` that writes into the same cache.  Hand-written mirror.  A `RasterImage` constructor that raises is an
`ImageLoadingError` (d7dc388): in the model the constructor is total, the Pillow failure is a blob without `raster`.

Abstractions (what the third-party code decides is a parameter, carried by the fetched blob):
  * the fetcher is a function `url ↦ Fetched` (deterministic by construction): raises / returns a dict without
    'string' and 'file_obj' (KeyError, propagates) / returns data with a MIME type and maybe a `file:` redirected URL;
  * a blob says whether `ElementTree.fromstring` + `SVGImage` succeed on it (`svgOk`) and, if `PIL.Image.open`
    succeeds, the Pillow format and whether `ImageOps.exif_transpose` returns a new image (`exifRotates`);
  * `md5(key).hexdigest()` is the symbolic string `md5(<key>)`.
No Mathlib: linked into the driver.
-/
import WpModel.Model.Wire

namespace Wp.ImageCache
open Wp

/-- The angle of a computed `image-orientation` (`computed_values.image_orientation`:
`round(angle / pi * 2) % 4 * 90`). -/
inductive Quarter where
  | q0 | q90 | q180 | q270
  deriving Repr, DecidableEq, BEq, Inhabited

/-- Computed value of `image-orientation`: `'from-image'`, `'none'` or `(angle, flip)`. -/
inductive Orientation where
  | fromImage
  | none
  | angle (quarter : Quarter) (flip : Bool)
  deriving Repr, DecidableEq, BEq, Inhabited

/-- How the value appears inside the f-string key (`str()` of a str / of an `(int, bool)` tuple); the literal
strings are compared with Python's rendering by the `image-cache` correspondence. -/
def Orientation.render : Orientation → String
  | .fromImage => "from-image"
  | .none => "none"
  | .angle .q0 false => "(0, False)"
  | .angle .q0 true => "(0, True)"
  | .angle .q90 false => "(90, False)"
  | .angle .q90 true => "(90, True)"
  | .angle .q180 false => "(180, False)"
  | .angle .q180 true => "(180, True)"
  | .angle .q270 false => "(270, False)"
  | .angle .q270 true => "(270, True)"

/-- The options `RasterImage` reads (`optimize_images` a bool, `jpeg_quality` / `dpi` `None` or an int ≥ 0). -/
structure Opts where
  optimize : Bool
  jpegQuality : Option Nat
  dpi : Option Nat
  deriving Repr, DecidableEq, BEq, Inhabited

/-- `str(True)` / `str(False)` inside an f-string. -/
def pyBool (b : Bool) : String := if b then "True" else "False"

/-- `str(None)` / `str(n)` inside an f-string. -/
def pyOptNat : Option Nat → String
  | none => "None"
  | some n => toString n

/-- `key = f'{url} {orientation} {options["optimize_images"]} {options["jpeg_quality"]} {options["dpi"]}'`. -/
def keyStr (url : String) (o : Orientation) (opts : Opts) : String :=
  url ++ " " ++ o.render ++ " " ++ pyBool opts.optimize ++ " " ++ pyOptNat opts.jpegQuality ++ " " ++ pyOptNat opts.dpi

/-- `pillow_image.format`. -/
inductive Fmt where
  | jpeg | mpo | png | other
  deriving Repr, DecidableEq, BEq, Inhabited

structure Raster where
  fmt : Fmt
  exifRotates : Bool
  /-- `pillow_image.save(…)` in the output format of `RasterImage.__init__` succeeds (Pillow opens images it cannot
  write as PNG, e.g. a 32-bit float TIFF: `OSError: cannot write mode F as PNG`) -/
  encodable : Bool := true
  deriving Repr, DecidableEq, BEq, Inhabited

structure Blob where
  id : Nat
  svgOk : Bool
  raster : Option Raster
  deriving Repr, DecidableEq, BEq, Inhabited

inductive Fetched where
  /-- the fetcher raised: `fetch` turns every exception into `URLFetchingError` -/
  | raises
  /-- a dict with neither `'string'` nor `'file_obj'`: `result['file_obj']` raises `KeyError`, not caught -/
  | malformed
  /-- `mime` = `result['mime_type']`; `fileName` = `url2pathname(path)` when `redirected_url` has scheme `file` -/
  | ok (mime : Option String) (fileName : Option String) (blob : Blob)
  deriving Repr, DecidableEq, BEq, Inhabited

abbrev Fetcher := String → Fetched

inductive OutFmt where
  | jpeg | png
  deriving Repr, DecidableEq, BEq, Inhabited

/-- Bytes stored for an image: the fetched bytes as they are, or a re-encoding by Pillow (a function of the blob,
the orientation applied, the output format and the encoder parameters). -/
inductive Payload where
  | orig (blob : Nat)
  | reenc (blob : Nat) (o : Orientation) (fmt : OutFmt) (optimize : Bool) (quality : Option Nat)
  deriving Repr, DecidableEq, BEq, Inhabited

/-- `RasterImage.image_data`: `LazyLocalImage(filename)` or `LazyImage(cache, key, data)`. -/
inductive Source where
  | file (name : String)
  | cached (key : String)
  deriving Repr, DecidableEq, BEq, Inhabited

inductive Img where
  | svg (url : String) (blob : Nat)
  | raster (imageId : String) (fmt : OutFmt) (dpi : Option Nat) (source : Source)
  deriving Repr, DecidableEq, BEq, Inhabited

inductive Entry where
  | image (i : Option Img)
  | bytes (p : Payload)
  deriving Repr, DecidableEq, BEq, Inhabited

/-- An insertion-ordered `dict`. -/
abbrev Cache := List (String × Entry)

def lookup (c : Cache) (k : String) : Option Entry :=
  match c with
  | [] => none
  | (k', v) :: rest => if k' = k then some v else lookup rest k

/-- `cache[k] = v`: an existing key keeps its position. -/
def insert (c : Cache) (k : String) (v : Entry) : Cache :=
  match c with
  | [] => [(k, v)]
  | (k', v') :: rest => if k' = k then (k, v) :: rest else (k', v') :: insert rest k v

/-- `md5(key.encode()).hexdigest()`, symbolic. -/
def imageId (key : String) : String := "md5(" ++ key ++ ")"

/-- `f'{self.id}-{slot}-{self._dpi or ""}'` with `slot = 'source'` (`0` is falsy). -/
def dataKey (imageId : String) (dpi : Option Nat) : String :=
  imageId ++ "-source-" ++ (match dpi with
    | some n => if n = 0 then "" else toString n
    | none => "")

/-- `rotate_pillow_image` returns a new image object. -/
def rotates (o : Orientation) (r : Raster) : Bool :=
  match o with
  | .fromImage => r.exifRotates
  | .none => false
  | .angle q flip => decide (q ≠ .q0) || flip   -- `if angle > 0` … `if flip`

/-- The end of `RasterImage.__init__`: `self.image_data = self.cache_image_data(image_data, filename)` —
`if filename:` (the empty string is falsy) a `LazyLocalImage`, else a `LazyImage` that stores the bytes in the cache. -/
def storeRaster (opts : Opts) (c : Cache) (id : String) (outFmt : OutFmt) (payload : Payload)
    (fileName : Option String) : Img × Cache :=
  match fileName with
  | some name =>
    if name ≠ "" then (.raster id outFmt opts.dpi (.file name), c)
    else
      let k := dataKey id opts.dpi
      (.raster id outFmt opts.dpi (.cached k), insert c k (.bytes payload))
  | none =>
    let k := dataKey id opts.dpi
    (.raster id outFmt opts.dpi (.cached k), insert c k (.bytes payload))

/-- The decisions of `RasterImage.__init__` (none depends on the cache): does `pillow_image.save` raise, the output
format, the bytes kept, the file name kept. -/
def rasterPlan (opts : Opts) (blob : Blob) (r : Raster) (fileName : Option String) (o : Orientation) :
    Bool × OutFmt × Payload × Option String :=
  -- `if original_pillow_image is not pillow_image: image_data = filename = None`
  let rot := rotates o r
  let data : Option Payload := if rot then none else some (.orig blob.id)
  let fileName : Option String := if rot then none else fileName
  let isJpeg := r.fmt = .jpeg ∨ r.fmt = .mpo
  let reencode : Bool :=
    if isJpeg then data.isNone || opts.optimize || opts.jpegQuality.isSome
    else data.isNone || opts.optimize || decide (r.fmt ≠ .png)
  let outFmt : OutFmt := if isJpeg then .jpeg else .png
  let payload : Payload :=
    if reencode then
      .reenc blob.id (if rot then o else .none) outFmt opts.optimize (if isJpeg then opts.jpegQuality else none)
    else .orig blob.id
  let fileName : Option String := if reencode then none else fileName
  -- `pillow_image.save(image_file, …)` raises (only reached when re-encoding)
  (reencode && !r.encodable, outFmt, payload, fileName)

/-- `RasterImage.__init__`: the value stored as `image_data` and the cache write it performs; `none` when the
constructor raises (`pillow_image.save` fails, before anything is written to the cache): since d7dc388
`get_image_from_uri` turns that into an `ImageLoadingError`, i.e. `image = None`. -/
def makeRaster (opts : Opts) (c : Cache) (key : String) (blob : Blob) (r : Raster) (fileName : Option String)
    (o : Orientation) : Option Img × Cache :=
  let plan := rasterPlan opts blob r fileName o
  if plan.1 then (none, c)
  else
    let res := storeRaster opts c (imageId key) plan.2.1 plan.2.2.1 plan.2.2.2
    (some res.1, res.2)

def svgMime : String := "image/svg+xml"

/-- The body of the `try:` for fetched data: `none` = `ImageLoadingError` (caught: `image = None`). -/
def decode (opts : Opts) (c : Cache) (url key : String) (forced : String) (mime : Option String)
    (fileName : Option String) (blob : Blob) (o : Orientation) : Option Img × Cache :=
  -- `mime_type = forced_mime_type or result['mime_type']`
  let mimeEff : Option String := if forced ≠ "" then some forced else mime
  let isSvgMime := mimeEff = some svgMime
  if isSvgMime ∧ blob.svgOk then (some (.svg url blob.id), c)
  else
    match blob.raster with
    | some r => makeRaster opts c key blob r fileName o   -- `None`: the constructor raised (ImageLoadingError)
    | none =>
      if isSvgMime then (none, c)                       -- raise from svg_exceptions[0]
      else if blob.svgOk then (some (.svg url blob.id), c)   -- "Last chance, try SVG"
      else (none, c)                                    -- raise from raster_exception

structure Result where
  /-- what the call returns: on a hit `cache[key]` itself, otherwise the image (or `None`) it stored -/
  value : Except PyErr Entry
  cache : Cache
  /-- URLs passed to the fetcher by this call -/
  fetched : List String
  deriving Repr, Inhabited

/-- `get_image_from_uri(cache, url_fetcher, options, url, forced_mime_type, context, orientation)`.
A hit returns `cache[key]` whatever it is (also bytes written by `LazyImage`; image keys contain a space after the
last `-`, data keys do not, so an image key never names a bytes entry: `C19.dataKey_ne_keyStr`).
`KeyError` has no constructor in `PyErr`: it is `.indexError` with a site starting with `KeyError`. -/
def getImage (f : Fetcher) (opts : Opts) (c : Cache) (url forced : String) (o : Orientation) : Result :=
  let key := keyStr url o opts
  match lookup c key with
  | some e => ⟨.ok e, c, []⟩
  | none =>
    match f url with
    | .raises => ⟨.ok (.image none), insert c key (.image none), [url]⟩
    | .malformed => ⟨.error (.indexError "KeyError:result['file_obj']"), c, [url]⟩
    | .ok mime fileName blob =>
      let r := decode opts c url key forced mime fileName blob o
      ⟨.ok (.image r.1), insert r.2 key (.image r.1), [url]⟩

/-- One request: the image options are those of the render that makes it (a cache may be shared by renders with
different options). -/
structure Call where
  url : String
  forced : String
  orientation : Orientation
  opts : Opts
  deriving Repr, DecidableEq, Inhabited

/-- A history of calls sharing one cache. -/
def runCalls (f : Fetcher) : Cache → List Call → List Result
  | _, [] => []
  | c, call :: rest =>
    let r := getImage f call.opts c call.url call.forced call.orientation
    r :: runCalls f r.cache rest

/-- The cache after a list of requests. -/
def finalCache (f : Fetcher) : Cache → List Call → Cache
  | c, [] => c
  | c, call :: rest => finalCache f (getImage f call.opts c call.url call.forced call.orientation).cache rest

/-- Documents rendered one after the other with one image cache (`options['cache']` handed to every render): a
document is the list of image requests its box generation makes (`html.py::handle_img` / `handle_embed` /
`handle_object`: one `get_image_from_uri(url=src, forced_mime_type=type, orientation=style['image_orientation'])` per
element, in document order), each with the image options of its render. -/
def runDocs (f : Fetcher) : Cache → List (List Call) → List (List Result)
  | _, [] => []
  | c, d :: rest => runCalls f c d :: runDocs f (finalCache f c d) rest

/-- The result of a call on an empty cache. -/
def coldResult (f : Fetcher) (call : Call) : Result :=
  getImage f call.opts [] call.url call.forced call.orientation

/-- The value a call returns on an empty cache. -/
def cold (f : Fetcher) (call : Call) : Except PyErr Entry := (coldResult f call).value

end Wp.ImageCache
