/-
Model of the page loop of `weasyprint/pdf/__init__.py::generate_pdf`: one PDF page object per `document.pages`
entry, in order, with MediaBox / TrimBox / BleedBox computed from the page size, its bleed and `zoom`
(as repaired: the bleed and the 10pt cap of the BleedBox are scaled by `zoom` like everything else).  Lengths are exact rationals (CSS px in, PDF points out).
No Mathlib.
-/
import WpModel.Model.Wire

namespace Wp.Pdf

/-- What `generate_pdf` reads of a `Page`: `width`, `height`, `bleed`. -/
structure PageGeom where
  width : Rat
  height : Rat
  bleedLeft : Rat
  bleedTop : Rat
  bleedRight : Rat
  bleedBottom : Rat
  deriving DecidableEq, Repr

structure Box4 where
  x0 : Rat
  y0 : Rat
  x1 : Rat
  y1 : Rat
  deriving DecidableEq, Repr

structure PdfPage where
  mediaBox : Box4
  trimBox : Box4
  bleedBox : Box4
  /-- `Matrix(scale, 0, 0, -scale, 0, page.height * scale)`, the page-to-PDF matrix used for links and anchors. -/
  flipF : Rat
  deriving DecidableEq, Repr

def minR (a b : Rat) : Rat := if a ≤ b then a else b

/-- Body of the `for page_number, (page, links_and_anchors) in enumerate(...)` loop, boxes only. -/
def pdfPage (zoom : Rat) (p : PageGeom) : PdfPage :=
  let scale := zoom * (3 / 4)
  let pageWidth := scale * (p.width + p.bleedLeft + p.bleedRight)
  let pageHeight := scale * (p.height + p.bleedTop + p.bleedBottom)
  let left := -scale * p.bleedLeft
  let top := -scale * p.bleedTop
  let right := left + pageWidth
  let bottom := top + pageHeight
  let bl := p.bleedLeft * scale
  let bt := p.bleedTop * scale
  let br := p.bleedRight * scale
  let bb := p.bleedBottom * scale
  let trimLeft := left + bl
  let trimTop := top + bt
  let trimRight := right - br
  let trimBottom := bottom - bb
  let cap := 10 * zoom          -- `min(10 * zoom, bleed[side])`
  { mediaBox := ⟨left, top, right, bottom⟩
    trimBox := ⟨trimLeft, trimTop, trimRight, trimBottom⟩
    bleedBox := ⟨trimLeft - minR cap bl, trimTop - minR cap bt, trimRight + minR cap br, trimBottom + minR cap bb⟩
    flipF := p.height * scale }

/-- The loop: `pdf.add_page` appends one page per `document.pages` entry (`pdf.pages['Kids']`, `Count += 1`). -/
def genPages (zoom : Rat) : List PageGeom → List PdfPage → List PdfPage
  | [], acc => acc
  | p :: ps, acc => genPages zoom ps (acc ++ [pdfPage zoom p])

def pageTree (zoom : Rat) (pages : List PageGeom) : List PdfPage := genPages zoom pages []

end Wp.Pdf
