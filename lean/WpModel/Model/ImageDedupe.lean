/-
Model of image de-duplication in the PDF:
* `weasyprint/pdf/stream.py::Stream.add_image` (naming `i{image.id}{int(interpolate)}`, the shared
  `images` registry with its `dpi_ratios` set, the `None` placeholder in the stream's own
  `Resources/XObject`), `Stream.add_group` (`x{len(XObject)}`), `Stream.add_pattern`
  (`p{len(Pattern)}`);
* `weasyprint/pdf/__init__.py::_use_references` + `_reference_resources`: the XObject pass and the
  Pattern pass, in dictionary order, recursing into the `Resources` of groups and patterns.

`buildList` gives the `Resources` dictionaries of every content stream (page, groups, patterns): the name of an
image is entered in the resources of the stream that paints it on EVERY `add_image`, before the
`already stored in document` early return (`Lemmas/ImageScopes.lean`, `Props/C13b.lean::painted_images_defined`;
the driver prints the tree, compared with the real dictionaries / the PDF file).
A drawing is a tree (`Draw`): image draws, groups and patterns with their own bodies.  All pages
share one `Resources` dictionary, so a document is the concatenation of its pages' draws.
No Mathlib: linked into `driver_c13`.
-/
import WpModel.Model.Wire

namespace Wp.ImageDedupe
open Wp

/-- `f'i{image.id}{int(interpolate)}'`. -/
def imageName (id : String) (interpolate : Bool) : String :=
  "i" ++ id ++ (if interpolate then "1" else "0")

/-- What is drawn on a stream. `alpha`: the image's XObject carries an `SMask`. -/
inductive Draw where
  | image (id : String) (interpolate : Bool) (ratio : Rat) (alpha : Bool)
  | group (body : List Draw)
  | pattern (body : List Draw)
  deriving Repr

/-- An entry of `images` (the registry shared by every stream of the document). -/
structure Entry where
  name : String
  id : String
  interpolate : Bool
  alpha : Bool
  ratios : List Rat        -- the `dpi_ratios` set, as the list of requested ratios (first first)
  deriving Repr, BEq

/-- `Stream.add_image`, registry side. -/
def register (imgs : List Entry) (id : String) (interpolate : Bool) (ratio : Rat) (alpha : Bool) :
    List Entry :=
  let name := imageName id interpolate
  if imgs.any (·.name == name) then
    imgs.map (fun e => if e.name == name then { e with ratios := e.ratios ++ [ratio] } else e)
  else imgs ++ [⟨name, id, interpolate, alpha, [ratio]⟩]

mutual
/-- The registry after executing the draws (execution order = pre-order). -/
def registerAll : List Draw → List Entry → List Entry
  | [], imgs => imgs
  | d :: rest, imgs => registerAll rest (registerOne d imgs)
def registerOne : Draw → List Entry → List Entry
  | .image id interp ratio alpha, imgs => register imgs id interp ratio alpha
  | .group body, imgs => registerAll body imgs
  | .pattern body, imgs => registerAll body imgs
end

/-- An entry of a `Resources` dictionary: in `XObject` an image placeholder or a group (a Form
XObject with its own `Resources`: XObject entries, Pattern entries); in `Pattern` a pattern. -/
inductive Node where
  | image (name : String)
  | group (key : String) (xobjects : List Node) (patterns : List Node)
  | pattern (key : String) (xobjects : List Node) (patterns : List Node)
  deriving Repr

def Node.isImageNamed (name : String) : Node → Bool
  | .image n => n == name
  | _ => false

mutual
/-- The `Resources` (XObject entries, Pattern entries) of a stream after executing draws on it. -/
def buildList : List Draw → List Node → List Node → List Node × List Node
  | [], xs, ps => (xs, ps)
  | d :: rest, xs, ps =>
    let r := buildOne d xs ps
    buildList rest r.1 r.2
def buildOne : Draw → List Node → List Node → List Node × List Node
  | .image id interp _ _, xs, ps =>
    -- self._resources['XObject'][image_name] = None : a new key goes last, an old key keeps its place
    let name := imageName id interp
    if xs.any (Node.isImageNamed name) then (xs, ps) else (xs ++ [.image name], ps)
  | .group body, xs, ps =>
    let key := "x" ++ toString xs.length
    let r := buildList body [] []
    (xs ++ [.group key r.1 r.2], ps)
  | .pattern body, xs, ps =>
    let key := "p" ++ toString ps.length
    let r := buildList body [] []
    (xs, ps ++ [.pattern key r.1 r.2])
end

/-- The traversal of `_use_references` as a flat event list. -/
inductive Ev where
  | image (name : String)
  | openGroup (key : String)
  | openPattern (key : String)
  | close                      -- `pdf.add_object(resources)` of `_reference_resources`
  deriving Repr, DecidableEq

mutual
def flattenList : List Node → List Ev
  | [] => []
  | n :: rest => flattenNode n ++ flattenList rest
def flattenNode : Node → List Ev
  | .image name => [.image name]
  | .group key xs ps => .openGroup key :: (flattenList xs ++ flattenList ps ++ [.close])
  | .pattern key xs ps => .openPattern key :: (flattenList xs ++ flattenList ps ++ [.close])
end

/-- `_use_references(pdf, resources, images)`: XObject pass, then Pattern pass. -/
def events (xs ps : List Node) : List Ev := flattenList xs ++ flattenList ps

/-- Objects appended to the PDF. -/
inductive Obj where
  | image (name : String) (interpolate : Bool) (ratio : Rat)   -- `image.get_x_object(interpolate, max(dpi_ratios))`
  | mask (name : String)
  | group (key : String)
  | pattern (key : String)
  | resources
  deriving Repr, BEq

def maxOf : Rat → List Rat → Rat
  | a, [] => a
  | a, b :: rest => maxOf (max a b) rest

structure St where
  next : Nat                         -- `len(pdf.objects)`
  made : List (String × Nat)         -- image name ↦ number of its XObject (`image_data['x_object']`)
  objs : List Obj                    -- objects added, in order
  refs : List (Bool × String × Nat)  -- every `resources[...][key] = ….reference`, in order (flag: image)
  deriving Repr

def lookup (name : String) : List (String × Nat) → Option Nat
  | [] => none
  | (k, v) :: rest => if k == name then some v else lookup name rest

def findEntry (name : String) : List Entry → Option Entry
  | [] => none
  | e :: rest => if e.name == name then some e else findEntry name rest

/-- One step of the traversal. `none`: `images[key]` raises KeyError (an image placeholder that no
`add_image` registered; cannot happen for resources built by `buildList` with `registerAll`). -/
def step (imgs : List Entry) (st : St) : Ev → Option St
  | .image name =>
    match lookup name st.made with
    | some n => some { st with refs := st.refs ++ [(true, name, n)] }   -- already added: reference only
    | none =>
      match findEntry name imgs with
      | none => none
      | some e =>
        match e.ratios with
        | [] => none                                                  -- max() of an empty set
        | r :: rs =>
          let n := st.next
          let st := { st with next := n + 1, made := st.made ++ [(name, n)],
                              objs := st.objs ++ [.image name e.interpolate (maxOf r rs)],
                              refs := st.refs ++ [(true, name, n)] }
          if e.alpha then some { st with next := st.next + 1, objs := st.objs ++ [.mask name] }
          else some st
  | .openGroup key =>
    some { st with next := st.next + 1, objs := st.objs ++ [.group key], refs := st.refs ++ [(false, key, st.next)] }
  | .openPattern key =>
    some { st with next := st.next + 1, objs := st.objs ++ [.pattern key], refs := st.refs ++ [(false, key, st.next)] }
  | .close => some { st with next := st.next + 1, objs := st.objs ++ [.resources] }

def run (imgs : List Entry) : List Ev → St → Option St
  | [], st => some st
  | ev :: rest, st =>
    match step imgs st ev with
    | some st' => run imgs rest st'
    | none => none

/-- A whole document: draw on the page streams (one shared `Resources`), then `_use_references`. -/
def document (draws : List Draw) (base : Nat) : Option St :=
  let imgs := registerAll draws []
  let r := buildList draws [] []
  run imgs (events r.1 r.2) ⟨base, [], [], []⟩

end Wp.ImageDedupe
