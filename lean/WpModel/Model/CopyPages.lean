/-
C19 — `Document.copy(pages)` (weasyprint/document.py) and `resolve_links` (weasyprint/pdf/anchors.py)
on the page list a document holds.  Hand-written mirror, branch for branch.

Python objects → model
  `Page.links`     list of `(link_type, target, rectangle, box)`; rectangle = `(x1, y1, x2, y2)` (output of
                   `rectangle_aabb`)                                     → `List Link`
  `Page.anchors`   dict `name -> (x1, y1, x2, y2)` in insertion order    → `List Anchor` (name, x1, y1): the two
                   coordinates `resolve_links` keeps
  `Page.bookmarks` list of `(level, label, (x, y), state)`               → `List Bookmark`
  `Page.width/height/bleed`                                              → `Rat`s
No Mathlib: linked into the driver.
-/
import WpModel.Model.Wire

namespace Wp.CopyPages
open Wp

inductive LinkKind where
  | internal | external | attachment
  deriving Repr, DecidableEq, BEq, Inhabited

def LinkKind.ofString? : String → Option LinkKind
  | "internal" => some .internal | "external" => some .external | "attachment" => some .attachment
  | _ => none

def LinkKind.toString : LinkKind → String
  | .internal => "internal" | .external => "external" | .attachment => "attachment"

structure Rect where
  x1 : Rat
  y1 : Rat
  x2 : Rat
  y2 : Rat
  deriving Repr, DecidableEq, BEq, Inhabited

structure Link where
  kind : LinkKind
  target : String
  rect : Rect
  deriving Repr, DecidableEq, BEq, Inhabited

structure Anchor where
  name : String
  x : Rat
  y : Rat
  deriving Repr, DecidableEq, BEq, Inhabited

structure Bookmark where
  level : Nat
  label : String
  x : Rat
  y : Rat
  closed : Bool
  deriving Repr, DecidableEq, BEq, Inhabited

structure Bleed where
  top : Rat
  right : Rat
  bottom : Rat
  left : Rat
  deriving Repr, DecidableEq, BEq, Inhabited

structure Page where
  width : Rat
  height : Rat
  bleed : Bleed
  links : List Link
  anchors : List Anchor
  bookmarks : List Bookmark
  deriving Repr, DecidableEq, BEq, Inhabited

/-- What `Document.__init__` stores and `copy` passes on.  `hasHtml`: the attribute `_html` is set and not `None`
(`Document._render` sets it after the constructor, `copy` hands it on); `metadata`, `urlFetcher`, `fontConfig` are
object identities. -/
structure Document where
  pages : List Page
  metadata : Nat
  urlFetcher : Nat
  fontConfig : Nat
  hasHtml : Bool
  deriving Repr, DecidableEq, BEq, Inhabited

/-- The `pages` argument of `Document.copy`: the string `'all'` or an iterable of pages. -/
inductive Sel where
  | all
  | pages (ps : List Page)
  deriving Repr, Inhabited

/-- `Document.copy`:
```
if pages == 'all': pages = self.pages
elif not isinstance(pages, list): pages = list(pages)
document = type(self)(pages, self.metadata, self.url_fetcher, self.font_config)
document._html = getattr(self, '_html', None)
return document
```
The copy carries the source HTML of the original (`None` when the original has none: reading
`None.etree_element` is the same `AttributeError` as a missing attribute, so `hasHtml` stays `false`). -/
def copy (d : Document) : Sel → Document
  | .all => d
  | .pages ps => { d with pages := ps }

/-- Inner loop of the first pass of `resolve_links` over one page's `anchors.items()`:
`if anchor_name not in anchors: paged_anchors[-1].append(...); anchors.add(anchor_name)`.
Returns the page's kept anchors and the updated set. -/
def pageAnchors (seen : List String) : List Anchor → List Anchor × List String
  | [] => ([], seen)
  | a :: rest =>
    if a.name ∈ seen then pageAnchors seen rest
    else
      let r := pageAnchors (a.name :: seen) rest
      (a :: r.1, r.2)

/-- First pass of `resolve_links`: `paged_anchors` and the final `anchors` set. -/
def pagedAnchors (seen : List String) : List Page → List (List Anchor) × List String
  | [] => ([], seen)
  | p :: rest =>
    let r := pageAnchors seen p.anchors
    let r' := pagedAnchors r.2 rest
    (r.1 :: r'.1, r'.2)

/-- Second pass, per link: internal links to a name outside `anchors` are dropped (logged). -/
def keepLink (names : List String) (l : Link) : Bool :=
  if l.kind = .internal then decide (l.target ∈ names) else true

/-- `for page in pages: … yield page_links, paged_anchors.pop(0)`. -/
def secondPass (names : List String) : List Page → List (List Anchor) → List (List Link × List Anchor)
  | p :: ps, a :: as => (p.links.filter (keepLink names), a) :: secondPass names ps as
  | _, _ => []

/-- `resolve_links(pages)` as a list (the caller does `list(resolve_links(document.pages))`). -/
def resolveLinks (pages : List Page) : List (List Link × List Anchor) :=
  let r := pagedAnchors [] pages
  secondPass r.2 pages r.1

/-- All anchor names of a page list (the final `anchors` set of `resolve_links`). -/
def anchorNames (pages : List Page) : List String := (pagedAnchors [] pages).2

end Wp.CopyPages
