/-
C04 clause (f) on rendered documents: honouring a break control never loses, duplicates or reorders content.
The checker joins the conservation checker of C01 (`Trace.badGroups`: every word of a flow / out-of-flow group
rendered exactly once, in order) with the adjacency checker of C04 (`BreakTrace.badAvoid`) on the *same*
document: the documents are those in which `find_earlier_page_break` has to move a break to an earlier point
because of break-before / break-after: avoid, with out-of-flow boxes around that point.  No Mathlib.
-/
import WpModel.Model.Trace
import WpModel.Model.BreakTrace

namespace Wp.BreakConserve
open Wp

/-- (indices of the groups not conserved, indices of the avoid observations not honoured). -/
def check (gs : List Trace.Group) (pages : List (List Nat)) (os : List BreakTrace.AvoidObs) : List Nat × List Nat :=
  (Trace.badGroups gs pages, BreakTrace.badAvoid os)

def accepted (gs : List Trace.Group) (pages : List (List Nat)) (os : List BreakTrace.AvoidObs) : Bool :=
  (check gs pages os).1.isEmpty && (check gs pages os).2.isEmpty

end Wp.BreakConserve
