/-
Model of the identity of raster images, `weasyprint/images.py::get_image_from_uri`:

    key = f'{url} {orientation} {options["optimize_images"]} {options["jpeg_quality"]} {options["dpi"]}'
    if key in cache: return cache[key]
    …
    image_id = md5(key.encode(), usedforsecurity=False).hexdigest()
    image = RasterImage(pillow_image, image_id, …, orientation, options)
    …
    cache[key] = image

The key is kept as its five components (urls are compared as strings; the orientation and the options by
their printed form, coded as numbers by the harness); `md5` is taken to be injective on the keys met in one
document (trusted).  `RasterImage.id` names the image XObject (`Stream.add_image`: `i{id}{interpolate}`) and
keys the encoded bytes in the image cache (`cache_image_data`: `{id}-{slot}-{dpi}`): two uses may share an id
only if they show the same pixels, i.e. have the same key.
No Mathlib: linked into `driver_c13`.
-/
import WpModel.Model.Wire

namespace Wp.ImageId

/-- The components of the cache key (each coded as a number by the harness). -/
structure Key where
  url : Nat
  orientation : Nat
  optimize : Nat
  quality : Nat
  dpi : Nat
  deriving Repr, DecidableEq

/-- Index of the first request with the same key. -/
def firstSame (reqs : List Key) (k : Key) : Nat := reqs.findIdx (fun k' => k' == k)

/-- For a sequence of `get_image_from_uri` calls on one cache: for each call, the index of the first call that
returned an image with the same `id`, and of the first call that returned the very same object. Both are the
first call with the same key. -/
def idClasses (reqs : List Key) : List Nat := reqs.map (firstSame reqs)

def objectClasses (reqs : List Key) : List Nat := reqs.map (firstSame reqs)

end Wp.ImageId
