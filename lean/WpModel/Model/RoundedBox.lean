/-
C17 — executable model of the rounded boxes used by every painted decoration:

  Box.rounded_box(bt, br, bb, bl)      ↔ `roundedBox`   (boxes.py: the eight radius reductions, the
                                                          inner rectangle, the corner-overlap ratio)
  Box.rounded_border_box / rounded_padding_box / rounded_content_box / rounded_box_ratio
                                       ↔ `roundedBorderBox` / `roundedPaddingBox` / `roundedContentBox` /
                                         `roundedBoxRatio`
  resolve_radii_percentages            ↔ `resolveRadii`  (layout/percent.py)

`rounded_padding_box` is the inner edge of the painted border, the clip of `background-clip:
padding-box` and the overflow clip; `rounded_content_box` the clip of `background-clip: content-box`;
`rounded_border_box` the outer edge of the border and the clip of the background.
Lengths are `Rat`.  The only division is guarded by `sum_radii > 0` as in the source.  No Mathlib.
-/
import WpModel.Model.Wire

namespace Wp.Rounded
open Wp

/-- Used values of a laid-out box read by `rounded_box`. -/
structure Geo where
  positionX : Rat
  positionY : Rat
  marginLeft : Rat
  marginTop : Rat
  borderTop : Rat
  borderRight : Rat
  borderBottom : Rat
  borderLeft : Rat
  padTop : Rat
  padRight : Rat
  padBottom : Rat
  padLeft : Rat
  width : Rat
  height : Rat
  tl : Rat × Rat      -- border_top_left_radius (rx, ry)
  tr : Rat × Rat
  br : Rat × Rat
  bl : Rat × Rat
  deriving Repr, DecidableEq, Inhabited

def Geo.borderBoxX (g : Geo) : Rat := g.positionX + g.marginLeft
def Geo.borderBoxY (g : Geo) : Rat := g.positionY + g.marginTop
def Geo.paddingWidth (g : Geo) : Rat := g.width + g.padLeft + g.padRight
def Geo.paddingHeight (g : Geo) : Rat := g.height + g.padTop + g.padBottom
def Geo.borderWidth (g : Geo) : Rat := g.paddingWidth + g.borderLeft + g.borderRight
def Geo.borderHeight (g : Geo) : Rat := g.paddingHeight + g.borderTop + g.borderBottom

/-- `(x, y, width, height, tl, tr, br, bl)`. -/
structure RBox where
  x : Rat
  y : Rat
  w : Rat
  h : Rat
  tl : Rat × Rat
  tr : Rat × Rat
  br : Rat × Rat
  bl : Rat × Rat
  deriving Repr, DecidableEq, Inhabited

/-- `max(0, r - inset)`. -/
def shrink (r inset : Rat) : Rat := max 0 (r - inset)

/-- `min([1] + [extent / sum_radii for … if sum_radii > 0])`. -/
def overlapRatio (pairs : List (Rat × Rat)) : Rat :=
  (pairs.filter (fun p => decide (0 < p.2))).foldl (fun m p => min m (p.1 / p.2)) 1

/-- `Box.rounded_box(bt, br, bb, bl)`. -/
def roundedBox (g : Geo) (bt br bb bl : Rat) : RBox :=
  let tlrx := shrink g.tl.1 bl
  let tlry := shrink g.tl.2 bt
  let trrx := shrink g.tr.1 br
  let trry := shrink g.tr.2 bt
  let brrx := shrink g.br.1 br
  let brry := shrink g.br.2 bb
  let blrx := shrink g.bl.1 bl
  let blry := shrink g.bl.2 bb
  let x := g.borderBoxX + bl
  let y := g.borderBoxY + bt
  let width := g.borderWidth - bl - br
  let height := g.borderHeight - bt - bb
  let ratio := overlapRatio
    [(width, tlrx + trrx), (width, blrx + brrx), (height, tlry + blry), (height, trry + brry)]
  { x := x, y := y, w := width, h := height,
    tl := (tlrx * ratio, tlry * ratio), tr := (trrx * ratio, trry * ratio),
    br := (brrx * ratio, brry * ratio), bl := (blrx * ratio, blry * ratio) }

def roundedBoxRatio (g : Geo) (ratio : Rat) : RBox :=
  roundedBox g (g.borderTop * ratio) (g.borderRight * ratio) (g.borderBottom * ratio) (g.borderLeft * ratio)

def roundedPaddingBox (g : Geo) : RBox :=
  roundedBox g g.borderTop g.borderRight g.borderBottom g.borderLeft

def roundedBorderBox (g : Geo) : RBox := roundedBox g 0 0 0 0

def roundedContentBox (g : Geo) : RBox :=
  roundedBox g (g.borderTop + g.padTop) (g.borderRight + g.padRight) (g.borderBottom + g.padBottom)
    (g.borderLeft + g.padLeft)

/-- A computed `border-*-radius` component: `Dimension(value, 'px' | '%')`. -/
structure Dim where
  value : Rat
  percent : Bool
  deriving Repr, DecidableEq, Inhabited

/-- `percentage(value, refer_to)` for px / %. -/
def percentage (d : Dim) (referTo : Rat) : Rat :=
  if d.percent then referTo * d.value / 100 else d.value

def Dim.isZeroPx (d : Dim) : Bool := !d.percent && d.value == 0

/-- One corner of `resolve_radii_percentages`; `removed` = one of the corner's two sides is in
`box.remove_decoration_sides`. -/
def resolveCorner (rx ry : Dim) (removed : Bool) (borderWidth borderHeight : Rat) : Rat × Rat :=
  if rx.isZeroPx || ry.isZeroPx then (0, 0)          -- `if (0, 'px') in (rx, ry)`
  else if removed then (0, 0)
  else (percentage rx borderWidth, percentage ry borderHeight)

/-- `resolve_radii_percentages(box)`: corners in the order top_left, top_right, bottom_right,
bottom_left; `rm = (top, right, bottom, left)` membership in `remove_decoration_sides`. -/
def resolveRadii (g : Geo) (rm : Bool × Bool × Bool × Bool)
    (tl tr br bl : Dim × Dim) : Geo :=
  let bw := g.borderWidth
  let bh := g.borderHeight
  { g with
    tl := resolveCorner tl.1 tl.2 (rm.1 || rm.2.2.2) bw bh
    tr := resolveCorner tr.1 tr.2 (rm.1 || rm.2.1) bw bh
    br := resolveCorner br.1 br.2 (rm.2.2.1 || rm.2.1) bw bh
    bl := resolveCorner bl.1 bl.2 (rm.2.2.1 || rm.2.2.2) bw bh }

/-! ### Which rectangle / rounded box a background is painted in (`layout/background.py`) and the
path the drawing code emits for a rounded box (`draw/border.py rounded_box`) -/

/-- `background-clip` of the layer. -/
inductive BgClip where
  | borderBox | paddingBox | contentBox
  deriving Repr, DecidableEq, Inhabited

/-- `box_rectangle(box, which_rectangle)`. -/
def boxRectangle (g : Geo) : BgClip → Rat × Rat × Rat × Rat
  | .borderBox => (g.borderBoxX, g.borderBoxY, g.borderWidth, g.borderHeight)
  | .paddingBox =>
    (g.positionX + g.marginLeft + g.borderLeft, g.positionY + g.marginTop + g.borderTop,
     g.paddingWidth, g.paddingHeight)
  | .contentBox =>
    (g.positionX + g.marginLeft + g.padLeft + g.borderLeft,
     g.positionY + g.marginTop + g.padTop + g.borderTop, g.width, g.height)

/-- The `clipped_boxes` entry of an ordinary box in `layout_background_layer`. -/
def clippedBox (g : Geo) : BgClip → RBox
  | .borderBox => roundedBorderBox g
  | .paddingBox => roundedPaddingBox g
  | .contentBox => roundedContentBox g

/-- Path construction operators of a content stream. -/
inductive PathOp where
  | re (x y w h : Rat)
  | m (x y : Rat)
  | l (x y : Rat)
  | c (x1 y1 x2 y2 x3 y3 : Rat)
  deriving Repr, DecidableEq, Inhabited

/-- `0 in corner`. -/
def cornerFlat (c : Rat × Rat) : Bool := c.1 == 0 || c.2 == 0

/-- `rounded_box(stream, radii)` of `draw/border.py`: a rectangle when every corner has a zero
component, else lines and Bézier corners with the control factor 0.45, clockwise from the top left. -/
def roundedPath (b : RBox) : List PathOp :=
  if cornerFlat b.tl && cornerFlat b.tr && cornerFlat b.br && cornerFlat b.bl then
    [.re b.x b.y b.w b.h]
  else
    let r : Rat := 45 / 100
    let x := b.x; let y := b.y; let w := b.w; let h := b.h
    [.m (x + b.tl.1) y,
     .l (x + w - b.tr.1) y,
     .c (x + w - b.tr.1 * r) y (x + w) (y + b.tr.2 * r) (x + w) (y + b.tr.2),
     .l (x + w) (y + h - b.br.2),
     .c (x + w) (y + h - b.br.2 * r) (x + w - b.br.1 * r) (y + h) (x + w - b.br.1) (y + h),
     .l (x + b.bl.1) (y + h),
     .c (x + b.bl.1 * r) (y + h) x (y + h - b.bl.2 * r) x (y + h - b.bl.2),
     .l x (y + b.tl.2),
     .c x (y + b.tl.2 * r) (x + b.tl.1 * r) y (x + b.tl.1) y]

end Wp.Rounded
