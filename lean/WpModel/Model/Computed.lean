/-
Mirror of `weasyprint/css/computed_values.py` for the functions named in DESIGN §4 C06:
`length`, `font_size`, `font_weight`, `border_width`, `break_before_after`, `display`,
`compute_float`, `line_height`, `pixel_length`, `word_spacing`, `gap`, `tab_size`,
`length_pixels_only`, `bleed`, `vertical_align` (keyword / super / sub / length branches), the
tuple-valued properties, content lists, `anchor`, `lang`, and the grid track sizes (`grid_template`,
`grid_auto`, `_track_size`, `_compute_track_breadth`).  Not modelled: `background_image` (gradient
objects), `link` (URL resolution: C18 / C20).
Tables come from `Gen/Units.lean` (regenerated from the source on every run).

The real style object is lazy (`style['font_size']` is computed on access), so the accessors of
`Env` are functions: a branch that does not read a key does not see that key's failure.
`character_ratio` (Pango) is a parameter (`exRatio`, `chRatio`).
Python failure points are explicit (`CErr`): `value.value` / `value.unit` on a non-Dimension is an
`AttributeError`, `FONT_WEIGHT_RELATIVE[value][parent]` a `KeyError`, `value[0]` an `IndexError`.
No Mathlib, no Std.
-/
import WpModel.Gen.Units

namespace Wp.Computed
open Wp Wp.Gen.Units

/-- `dict.get`-style lookup in an association list (first match; Python dict literals have
distinct keys, the extractor keeps dict order). -/
def lookup {β : Type} (k : String) : List (String × β) → Option β
  | [] => none
  | (a, b) :: rest => if a == k then some b else lookup k rest

def lookupNat (k : Nat) : List (Nat × Nat) → Option Nat
  | [] => none
  | (a, b) :: rest => if a == k then some b else lookupNat k rest

/-- `str.replace(old, new)` (all non-overlapping occurrences, left to right; `old` non-empty),
structurally recursive so that the kernel can evaluate it. -/
def pyReplaceChars (old new : List Char) : List Char → Nat → List Char
  | [], _ => []
  | _ :: rest, skip + 1 => pyReplaceChars old new rest skip
  | c :: rest, 0 =>
    if old.isPrefixOf (c :: rest) then new ++ pyReplaceChars old new rest (old.length - 1)
    else c :: pyReplaceChars old new rest 0

def pyReplace (s old new : String) : String :=
  String.ofList (pyReplaceChars old.toList new.toList s.toList 0)

/-- What the computing functions read from `style`. -/
structure Env where
  /-- `style['font_size']` -/
  fontSize : Unit → Except CErr Rat
  /-- `style.root_style['font_size']` -/
  rootFontSize : Unit → Except CErr Rat
  /-- `style.parent_style['font_size']`; `none` when `style.parent_style is None` -/
  parentFontSize : Option (Unit → Except CErr Rat)
  /-- `style.parent_style['font_weight']` -/
  parentFontWeight : Option (Unit → Except CErr Val)
  /-- `character_ratio(style, 'x')`, `character_ratio(style, '0')` -/
  exRatio : Rat
  chRatio : Rat
  /-- `style[key]` for the other keys the functions read (`border_*_style`, `marks`) -/
  get : String → Except CErr Val
  /-- `style.specified[key]` (`float`, `position`) -/
  specified : String → Except CErr Val
  /-- `style.is_root_element` -/
  isRoot : Bool
  /-- `bool(style.pseudo_type)` -/
  pseudo : Bool
  /-- `style.element.get(name)` (`none` = attribute absent) -/
  attr : String → Option Val := fun _ => none

/-- `length(style, name, value, font_size=None, pixels_only=False)`. -/
def length (env : Env) (value : Val) (fontSize : Option Rat := none) (pixelsOnly : Bool := false) :
    Except CErr Val :=
  match value with
  | .kw s =>
    -- if value in ('auto', 'content', 'from-font'): return value
    if s == "auto" || s == "content" || s == "from-font" then .ok value
    else .error (.attributeError "length: value.value")
  | .dim q unit =>
    -- if value.value == 0: return 0 if pixels_only else ZERO_PIXELS
    if q == 0 then .ok (if pixelsOnly then .num 0 else .dim 0 "px")
    -- if unit == 'px': return value.value if pixels_only else value
    else if unit == "px" then .ok (if pixelsOnly then .num q else value)
    else
      let fin (result : Rat) : Except CErr Val :=
        .ok (if pixelsOnly then .num result else .dim result "px")
      match lookup unit lengthsToPixels with
      | some factor => fin (q * factor)
      | none =>
        if unit == "em" || unit == "ex" || unit == "ch" || unit == "rem" then do
          -- if font_size is None: font_size = style['font_size']
          let fs ← match fontSize with
            | some f => pure f
            | none => env.fontSize ()
          if unit == "ex" then fin (q * fs * env.exRatio)
          else if unit == "ch" then fin (q * fs * env.chRatio)
          else if unit == "em" then fin (q * fs)
          else do
            let r ← env.rootFontSize ()
            fin (q * r)
        else
          -- A percentage or 'auto': no conversion needed.
          .ok value
  | _ => .error (.attributeError "length: value.value")

/-- `for i, kv in enumerate(keyword_values): if kv > parent: return keyword_values[i]` -/
def firstAbove (parent : Rat) : List Rat → Option Rat
  | [] => none
  | k :: rest => if k > parent then some k else firstAbove parent rest

/-- `for i, kv in enumerate(keyword_values[::-1]): if kv < parent: return keyword_values[-i - 1]` -/
def firstBelowRev (parent : Rat) (ks : List Rat) : Option Rat :=
  let rec go : List Rat → Option Rat
    | [] => none
    | k :: rest => if k < parent then some k else go rest
  go ks.reverse

def keywordSizes : List Rat := fontSizeKeywords.map (·.2)

/-- `font_size(style, name, value)`; the result is a number of pixels. -/
def fontSize (env : Env) (value : Val) : Except CErr Val := do
  -- if value in FONT_SIZE_KEYWORDS: return FONT_SIZE_KEYWORDS[value]
  let kwHit : Option Rat := match value with
    | .kw s => lookup s fontSizeKeywords
    | _ => none
  match kwHit with
  | some q => pure (.num q)
  | none =>
    let parent ← match env.parentFontSize with
      | none => pure initialFontSize
      | some f => f ()
    match value with
    | .kw "larger" =>
      match firstAbove parent keywordSizes with
      | some k => pure (.num k)
      | none => pure (.num (parent * (6 / 5 : Rat)))      -- parent_font_size * 1.2
    | .kw "smaller" =>
      match firstBelowRev parent keywordSizes with
      | some k => pure (.num k)
      | none => pure (.num (parent * (4 / 5 : Rat)))      -- parent_font_size * 0.8
    | .dim q unit =>
      if unit == "%" then pure (.num (q * parent / 100))
      else length env value (fontSize := some parent) (pixelsOnly := true)
    | _ => .error (.attributeError "font_size: value.unit")

/-- The number as a dict key of `FONT_WEIGHT_RELATIVE[...]` (a natural number, or no key). -/
def natOfRat (q : Rat) : Option Nat :=
  if q.den == 1 && q.num ≥ 0 then some q.num.toNat else none

/-- `font_weight(style, name, value)`. -/
def fontWeight (env : Env) (value : Val) : Except CErr Val :=
  match value with
  | .kw "normal" => .ok (.num 400)
  | .kw "bold" => .ok (.num 700)
  | .kw s =>
    if s == "bolder" || s == "lighter" then do
      let parent ← match env.parentFontWeight with
        | none => pure (.num (initialFontWeight : Nat))
        | some f => f ()
      let table := if s == "bolder" then fontWeightBolder else fontWeightLighter
      match parent with
      | .num q =>
        match (natOfRat q).bind (fun n => lookupNat n table) with
        | some w => pure (.num (w : Nat))
        | none => .error (.keyError "FONT_WEIGHT_RELATIVE[value][parent_value]")
      | _ => .error (.keyError "FONT_WEIGHT_RELATIVE[value][parent_value]")
    else .ok value
  | _ => .ok value

/-- `border_width(style, name, value)` (also `column-rule-width`, `outline-width`). -/
def borderWidth (env : Env) (name : String) (value : Val) : Except CErr Val := do
  -- border_style = style[name.replace('width', 'style')]
  let borderStyle ← env.get (pyReplace name "width" "style")
  if borderStyle.isKw "none" || borderStyle.isKw "hidden" then pure (.num 0)
  else
    let kwHit : Option Rat := match value with
      | .kw s => lookup s borderWidthKeywords
      | _ => none
    match kwHit with
    | some q => pure (.num q)
    | none =>
      match value with
      | .num q =>
        -- isinstance(value, int): the initial value can get here
        if q.den == 1 then pure value else .error (.attributeError "length: value.value")
      | _ => length env value (pixelsOnly := true)

/-- `break_before_after(style, name, value)`. -/
def breakBeforeAfter (value : Val) : Val :=
  if value.isKw "always" then .kw "page" else value

/-- `display(style, name, value)`: CSS 2.1 §9.7 as written in the code (the `('inline-table',)` test
compares with a 1-tuple, which the validator never produces: `inline-table` is validated to
`('inline', 'table')` and takes the `value[0] == 'inline'` branch). -/
def display (env : Env) (value : Val) : Except CErr Val := do
  let float ← env.specified "float"
  let position ← env.specified "position"
  if position.isKw "absolute" || position.isKw "fixed" || !(float.isKw "none") || env.isRoot then
    match value with
    | .strs l =>
      if l == ["inline-table"] then pure (.strs ["block", "table"])
      else
        match l with
        | [] => .error (.indexError "display: value[0]")
        | first :: rest =>
          if rest.isEmpty && first.startsWith "table-" then pure (.strs ["block", "flow"])
          else if first == "inline" then
            if l.contains "list-item" then pure (.strs ["block", "flow", "list-item"])
            else pure (.strs ["block", "flow"])
          else pure value
    | _ => .error (.unsupported "display: value is not a tuple of strings")
  else pure value

/-- `compute_float(style, name, value)`. -/
def computeFloat (env : Env) (value : Val) : Except CErr Val := do
  let position ← env.specified "position"
  match position with
  | .kw s =>
    if s == "absolute" || s == "fixed" then pure (.kw "none")
    else if s.isEmpty then .error (.indexError "compute_float: position[0]")
    else pure value      -- position[0] is a character, never 'running()'
  | .strs l =>
    match l with
    | [] => .error (.indexError "compute_float: position[0]")
    | first :: _ => if first == "running()" then pure (.kw "none") else pure value
  | _ => .error (.unsupported "compute_float: position shape")

/-- `line_height(style, name, value)`. -/
def lineHeight (env : Env) (value : Val) : Except CErr Val :=
  match value with
  | .kw s => if s == "normal" then .ok value else .error (.attributeError "line_height: value.unit")
  | .dim q unit =>
    if unit == "none" then .ok (.tagged "NUMBER" q)
    else if unit == "%" then do
      let fs ← env.fontSize ()
      pure (.tagged "PIXELS" (q / 100 * fs))
    else do
      match ← length env value (pixelsOnly := true) with
      | .num p => pure (.tagged "PIXELS" p)
      | _ => .error (.unsupported "line_height: length() did not return pixels")
  | _ => .error (.attributeError "line_height: value.unit")

/-- `pixel_length` (`letter-spacing`). -/
def pixelLength (env : Env) (value : Val) : Except CErr Val :=
  if value.isKw "normal" then .ok value else length env value (pixelsOnly := true)

/-- `word_spacing`. -/
def wordSpacing (env : Env) (value : Val) : Except CErr Val :=
  if value.isKw "normal" then .ok (.num 0) else length env value (pixelsOnly := true)

/-- `gap` (`column-gap`, `row-gap`). -/
def gap (env : Env) (value : Val) : Except CErr Val :=
  if value.isKw "normal" then .ok value else length env value

/-- `tab_size`. -/
def tabSize (env : Env) (value : Val) : Except CErr Val :=
  match value with
  | .num q => if q.den == 1 then .ok value else length env value
  | _ => length env value

/-- `bleed` (`bleed-*`). -/
def bleed (env : Env) (value : Val) : Except CErr Val :=
  if value.isKw "auto" then do
    let marks ← env.get "marks"
    match marks with
    | .strs l => pure (.dim (if l.contains "crop" then 8 else 0) "px")
    | .kw s => pure (.dim (if (s.splitOn "crop").length > 1 then 8 else 0) "px")   -- 'crop' in str
    | _ => .error (.typeError "bleed: 'crop' in style['marks']")
  else length env value

/-- `vertical_align`, except the percentage branch (needs Pango's strut). -/
def verticalAlign (env : Env) (value : Val) : Except CErr Val :=
  match value with
  | .kw s =>
    if ["baseline", "middle", "text-top", "text-bottom", "top", "bottom"].contains s then .ok value
    else if s == "super" then do
      let fs ← env.fontSize (); pure (.num (fs * (1 / 2 : Rat)))
    else if s == "sub" then do
      let fs ← env.fontSize (); pure (.num (fs * (-1 / 2 : Rat)))
    else .error (.attributeError "vertical_align: value.unit")
  | .dim _ unit =>
    if unit == "%" then .error (.unsupported "vertical_align: percentage needs strut_layout")
    else length env value (pixelsOnly := true)
  | _ => .error (.attributeError "vertical_align: value.unit")

/-! ### tuple-valued properties -/

/-- `for v in values`: what iterating the Python value yields (a `Dimension` is a named tuple,
a string yields its characters; numbers and `None` are not iterable). -/
def elems (site : String) : Val → Except CErr (List Val)
  | .tup l => .ok l
  | .strs l => .ok (l.map .kw)
  | .kw s => .ok (s.toList.map (fun c => .kw (String.singleton c)))
  | .dim q u => .ok [.num q, if u == "none" then .null else .kw u]
  | .tagged t q => .ok [.kw t, .num q]
  | .num _ => .error (.typeError (site ++ ": number is not iterable"))
  | .null => .error (.typeError (site ++ ": None is not iterable"))

def kwName? : Val → Option String
  | .kw s => if s == "" then none else some s
  | _ => none

/-- `tuple(...)` in the canonical shape of the wire: a flat tuple of (non-empty) strings is `strs`. -/
def mkTuple (l : List Val) : Val :=
  match allSome kwName? l with
  | some names => .strs names
  | none => .tup l

/-- `len(values)`. -/
def pyLen (site : String) : Val → Except CErr Nat
  | .tup l => .ok l.length
  | .strs l => .ok l.length
  | .kw s => .ok s.length
  | .dim _ _ => .ok 2
  | .tagged _ _ => .ok 2
  | _ => .error (.typeError (site ++ ": object has no len()"))

def mapLength (env : Env) (pixelsOnly : Bool) : List Val → Except CErr (List Val)
  | [] => .ok []
  | v :: rest => do
    let h ← length env v none pixelsOnly
    let t ← mapLength env pixelsOnly rest
    pure (h :: t)

/-- `length_tuple` (`border-spacing`, `size`, `clip`): `tuple(length(…, pixels_only=True) for v in values)`. -/
def lengthTuple (env : Env) (values : Val) : Except CErr Val := do
  let l ← elems "length_tuple" values
  pure (mkTuple (← mapLength env true l))

/-- `length_or_percentage_tuple` (`transform-origin`) and `border_radius`: `tuple(length(…) for v in values)`. -/
def lengthOrPercentageTuple (env : Env) (values : Val) : Except CErr Val := do
  let l ← elems "length_or_percentage_tuple" values
  pure (mkTuple (← mapLength env false l))

/-- One item of `compute_position`: `origin_x, pos_x, origin_y, pos_y = item`. -/
def positionItem (env : Env) (item : Val) : Except CErr Val := do
  match ← elems "compute_position" item with
  | [ox, px, oy, py] => do
    let x ← length env px
    let y ← length env py
    pure (mkTuple [ox, x, oy, y])
  | _ => .error (.valueError "compute_position: unpack 4 values")

def mapPosition (env : Env) : List Val → Except CErr (List Val)
  | [] => .ok []
  | v :: rest => do
    let h ← positionItem env v
    let t ← mapPosition env rest
    pure (h :: t)

/-- `compute_position` (`background-position`, `object-position`). -/
def computePosition (env : Env) (values : Val) : Except CErr Val := do
  let l ← elems "compute_position" values
  pure (mkTuple (← mapPosition env l))

def mapBackgroundSize (env : Env) : List Val → Except CErr (List Val)
  | [] => .ok []
  | v :: rest => do
    let h ← if v.isKw "contain" || v.isKw "cover" then pure v else lengthOrPercentageTuple env v
    let t ← mapBackgroundSize env rest
    pure (h :: t)

/-- `background_size`. -/
def backgroundSize (env : Env) (values : Val) : Except CErr Val := do
  let l ← elems "background_size" values
  pure (mkTuple (← mapBackgroundSize env l))

/-- The padding of the `border-image-*` functions: 1 value ↦ ×4, 2 ↦ ×2, 3 ↦ append the second. -/
def padFour (l : List Val) : List Val :=
  match l with
  | [a] => [a, a, a, a]
  | [a, b] => [a, b, a, b]
  | [a, b, c] => [a, b, c, b]
  | _ => l

/-- `number, unit = value` for the `border-image-*` items (`value` is a `Dimension`; anything else
that unpacks into two is outside the model). -/
def numberUnit (site : String) (v : Val) : Except CErr (Rat × Option String) :=
  match v with
  | .dim q u => .ok (q, if u == "none" then none else some u)
  | _ => do
    let l ← elems site v
    if l.length == 2 then .error (.unsupported (site ++ ": unpacking a pair that is not a Dimension"))
    else .error (.valueError (site ++ ": number, unit = value"))

def sliceItems : List Val → Except CErr (List Val × Val)
  | [] => .ok ([], .null)
  | v :: rest => do
    if v.isKw "fill" then
      let (l, _) ← sliceItems rest
      -- a later 'fill' would overwrite with the same value
      pure (l, v)
    else do
      let (q, unit) ← numberUnit "border_image_slice" v
      let (l, fill) ← sliceItems rest
      pure ((match unit with | none => Val.num q | some _ => Val.dim q "%") :: l, fill)

/-- `border_image_slice` (`border-image-slice`, `mask-border-slice`). -/
def borderImageSlice (values : Val) : Except CErr Val := do
  let l ← elems "border_image_slice" values
  let (computed, fill) ← sliceItems l
  pure (mkTuple (padFour computed ++ [fill]))

def widthItems (env : Env) : List Val → Except CErr (List Val)
  | [] => .ok []
  | v :: rest => do
    let h ← if v.isKw "auto" then pure v else do
      let (q, unit) ← numberUnit "border_image_width" v
      -- `number if unit is None else length(style, name, value)` (the length is computed since
      -- commit 26138d1; before, `2em` stayed `2em`)
      match unit with
      | none => pure (Val.num q)
      | some _ => length env v
    let t ← widthItems env rest
    pure (h :: t)

/-- `border_image_width` (`border-image-width`, `mask-border-width`). -/
def borderImageWidth (env : Env) (values : Val) : Except CErr Val := do
  let l ← elems "border_image_width" values
  pure (mkTuple (padFour (← widthItems env l)))

def outsetItems (env : Env) : List Val → Except CErr (List Val)
  | [] => .ok []
  | v :: rest => do
    let h ← match v with
      | .num _ => pure v            -- isinstance(value, (int, float))
      | _ => length env v
    let t ← outsetItems env rest
    pure (h :: t)

/-- `border_image_outset` (`border-image-outset`, `mask-border-outset`). -/
def borderImageOutset (env : Env) (values : Val) : Except CErr Val := do
  let l ← elems "border_image_outset" values
  pure (mkTuple (padFour (← outsetItems env l)))

/-- `border_image_repeat`: `(values * 2) if len(values) == 1 else values`. -/
def borderImageRepeat (values : Val) : Except CErr Val := do
  let n ← pyLen "border_image_repeat" values
  if n == 1 then do
    let l ← elems "border_image_repeat" values
    match values with
    | .kw s => pure (.kw (s ++ s))
    | _ => pure (mkTuple (l ++ l))
  else pure values

def mapTransform (env : Env) : List Val → Except CErr (List Val)
  | [] => .ok []
  | item :: rest => do
    let h ← match ← elems "transform" item with
      | [function, args] =>
        if function.isKw "translate" then do
          let a ← lengthOrPercentageTuple env args
          pure (mkTuple [function, a])
        else pure (mkTuple [function, args])
      | _ => .error (.valueError "transform: unpack (function, args)")
    let t ← mapTransform env rest
    pure (h :: t)

/-- `transform`. -/
def transform (env : Env) (value : Val) : Except CErr Val := do
  let l ← elems "transform" value
  pure (mkTuple (← mapTransform env l))

/-! ### content lists, anchor, lang -/

/-- `value[0]` of a content-list item, as far as it can be one of the known kinds
(`none`: it is something else — a character, a number …). -/
def headName (site : String) (item : Val) : Except CErr (Option String) :=
  match item with
  | .strs (h :: _) => .ok (some h)
  | .tup (.kw h :: _) => .ok (some h)
  | .tup (_ :: _) => .ok none
  | .strs [] => .error (.indexError (site ++ ": value[0]"))
  | .tup [] => .error (.indexError (site ++ ": value[0]"))
  | .kw s => if s.isEmpty then .error (.indexError (site ++ ": value[0]")) else .ok none
  | .dim _ _ => .ok none
  | .tagged t _ => .ok (some t)
  | .num _ => .error (.typeError (site ++ ": number is not subscriptable"))
  | .null => .error (.typeError (site ++ ": None is not subscriptable"))

/-- `compute_attr(style, ('attr()', (name, 'string', fallback)))` for the `string` type:
`('string', style.element.get(name, fallback))`. -/
def computeAttrString (env : Env) (item : Val) : Except CErr Val :=
  let go (name : String) (ty : Val) (fallback : Val) : Except CErr Val :=
    if ty.isKw "string" then
      .ok (mkTuple [.kw "string", (env.attr name).getD fallback])
    else .error (.assertion "_content_list: assert value[1][1] == 'string'")
  match item with
  | .tup [.kw _, .strs [name, ty, fallback]] => go name (.kw ty) (.kw fallback)
  | .tup [.kw _, .tup [.kw name, ty, fallback]] => go name ty fallback
  | _ => .error (.unsupported "compute_attr: item shape")

/-- The loop of `_content_list`; `prev` is the `computed_value` variable left by the previous
iteration (an item of an unknown kind re-uses it, or raises `UnboundLocalError` first). -/
def contentItems (env : Env) (prev : Option Val) : List Val → Except CErr (List Val)
  | [] => .ok []
  | item :: rest => do
    let h := (← headName "_content_list" item).getD ""
    let computed ←
      if ["string", "content", "url", "quote", "leader()"].contains h then pure item
      else if h == "attr()" then computeAttrString env item
      else if ["counter()", "counters()", "content()", "element()", "string()"].contains h then pure item
      else if ["target-counter()", "target-counters()", "target-text()"].contains h then
        .error (.unsupported "_content_list: target-*()")
      else match prev with
        | some v => pure v
        | none => .error (.unboundLocal "_content_list: computed_value")
    let t ← contentItems env (some computed) rest
    pure (computed :: t)

/-- `_content_list(style, values)`. -/
def contentList (env : Env) (values : Val) : Except CErr Val := do
  let l ← elems "_content_list" values
  pure (mkTuple (← contentItems env none l))

/-- `content(style, name, values)`. -/
def content (env : Env) (values : Val) : Except CErr Val := do
  let n ← pyLen "content" values
  let single : Option Val ←
    if n == 1 then do
      match ← elems "content" values with
      | [v] => pure (some v)
      | _ => pure none
    else pure none
  match single with
  | some v =>
    if v.isKw "normal" then pure (.kw (if env.pseudo then "inhibit" else "contents"))
    else if v.isKw "none" then pure (.kw "inhibit")
    else contentList env values
  | none => contentList env values

def stringSetItems (env : Env) : List Val → Except CErr (List Val)
  | [] => .ok []
  | item :: rest => do
    let h ← match ← elems "string_set" item with
      | name :: list :: _ => do
        let c ← contentList env list
        pure (mkTuple [name, c])
      | _ => .error (.indexError "string_set: string_set[1]")
    let t ← stringSetItems env rest
    pure (h :: t)

/-- `string_set(style, name, values)`. -/
def stringSet (env : Env) (values : Val) : Except CErr Val := do
  let l ← elems "string_set" values
  pure (mkTuple (← stringSetItems env l))

/-- `style.element.get(key) or None`. -/
def attrOrNone (env : Env) (key : String) : Val :=
  match env.attr key with
  | some v => if v.isKw "" then .null else v
  | none => .null

/-- `style.element.get(key) or None` for a key of any type. -/
def attrOfVal (env : Env) : Val → Val
  | .kw key => attrOrNone env key
  | _ => .null

/-- `anchor(style, name, values)`: `if values != 'none': _, key = values; return element.get(key) or None`. -/
def anchor (env : Env) (values : Val) : Except CErr Val :=
  if values.isKw "none" then .ok .null
  else do
    match ← elems "anchor" values with
    | [_, key] => pure (attrOfVal env key)
    | _ => .error (.valueError "anchor: _, key = values")

/-- `lang(style, name, values)`. -/
def lang (env : Env) (values : Val) : Except CErr Val :=
  if values.isKw "none" then .ok .null
  else do
    match ← elems "lang" values with
    | [name, key] =>
      if name.isKw "attr()" then pure (attrOfVal env key)
      else if name.isKw "string" then pure key
      else pure .null
    | _ => .error (.valueError "lang: name, key = values")

/-! ### image-orientation -/

/-- `math.pi`: the IEEE double nearest to π, as the exact rational it is. -/
def pyPi : Rat := 884279719003555 / 281474976710656

/-- Python's `round(x)` (half to even) on an exact rational. -/
def roundHalfEven (q : Rat) : Int :=
  let f := q.floor
  let r := q - (f : Rat)
  if r < 1 / 2 then f else if 1 / 2 < r then f + 1 else if f % 2 == 0 then f else f + 1

/-- `image_orientation(style, name, values)`:
```
if values in ('none', 'from-image'): return values
angle, flip = values
return (round(angle / pi * 2) % 4 * 90, flip)
```
The float quotient `angle / pi * 2` is modelled by the exact rational quotient with `pyPi`; the
harness draws angles that are exact multiples of `pi / 4` (for which both are equal) or lie well
away from a rounding boundary. -/
def imageOrientation (values : Val) : Except CErr Val :=
  if values.isKw "none" || values.isKw "from-image" then .ok values
  else do
    match ← elems "image_orientation" values with
    | [angle, flip] =>
      match angle with
      | .num a => pure (mkTuple [.num (((roundHalfEven (a / pyPi * 2)) % 4 * 90 : Int) : Rat), flip])
      | _ => .error (.typeError "image_orientation: angle / pi")
    | _ => .error (.valueError "image_orientation: angle, flip = values")

/-! ### grid track sizes -/

/-- `_compute_track_breadth(style, name, value)`; `none` = the function falls off its end (`None`).
Every value it returns is truthy (a non-empty string or a `Dimension`), so `if track_breadth:` in
the callers is "returned something". -/
def computeTrackBreadth (env : Env) (value : Val) : Except CErr (Option Val) :=
  match value with
  | .kw s =>
    if s == "auto" || s == "min-content" || s == "max-content" then .ok (some value) else .ok none
  | .dim _ unit => if unit == "fr" then .ok (some value) else (length env value).map some
  | _ => .ok none

/-- `value[i]` on what `elems` yields. -/
def itemAt (site : String) (l : List Val) (i : Nat) : Except CErr Val :=
  match l[i]? with
  | some v => .ok v
  | none => .error (.indexError (site ++ ": value[" ++ toString i ++ "]"))

def optVal : Option Val → Val
  | some v => v
  | none => .null

/-- The loop of `_track_size(style, name, values)` from index `i` on; `fuel` bounds the depth of the
recursion (one unit per item and per `repeat()` level: the number of nodes of the value, which the
callers give, always suffices). -/
def trackSizeFrom (env : Env) : Nat → List Val → Nat → Except CErr (List Val)
  | 0, _, _ => .error (.unsupported "_track_size: out of fuel")
  | _ + 1, [], _ => .ok []
  | fuel + 1, value :: rest, i => do
    let h : List Val ←
      if i % 2 == 0 then pure [value]          -- line names
      else do
        match ← computeTrackBreadth env value with
        | some tb => pure [tb]
        | none => do
          let head ← headName "_track_size" value
          let items ← elems "_track_size" value
          if head == some "minmax()" then do
            let a ← computeTrackBreadth env (← itemAt "_track_size" items 1)
            let b ← computeTrackBreadth env (← itemAt "_track_size" items 2)
            pure [mkTuple [.kw "minmax()", optVal a, optVal b]]
          else if head == some "fit-content()" then do
            let l ← length env (← itemAt "_track_size" items 1)
            pure [mkTuple [.kw "fit-content()", l]]
          else if head == some "repeat()" then do
            let n ← itemAt "_track_size" items 1
            let inner ← elems "_track_size" (← itemAt "_track_size" items 2)
            let r ← trackSizeFrom env fuel inner 0
            pure [mkTuple [.kw "repeat()", n, mkTuple r]]
          else pure []
    let t ← trackSizeFrom env fuel rest (i + 1)
    pure (h ++ t)

mutual
/-- Number of things iterating a value can yield, nested (fuel for the nested loops). -/
def valSize : Val → Nat
  | .tup l => 1 + valSizeList l
  | .strs l => 1 + l.length
  | .kw s => 1 + s.length
  | _ => 3
def valSizeList : List Val → Nat
  | [] => 0
  | v :: rest => valSize v + valSizeList rest
end

/-- `grid_template(style, name, values)` (`grid-template-columns`, `grid-template-rows`). -/
def gridTemplate (env : Env) (values : Val) : Except CErr Val := do
  if values.isKw "none" then pure values
  else do
    let head ← headName "grid_template" values
    if head == some "subgrid" then pure values
    else do
      let l ← elems "_track_size" values
      pure (mkTuple (← trackSizeFrom env (valSize values + 1) l 0))

/-- The loop of `grid_auto(style, name, values)`. -/
def gridAutoItems (env : Env) : Nat → List Val → Except CErr (List Val)
  | 0, _ => .error (.unsupported "grid_auto: out of fuel")
  | _ + 1, [] => .ok []
  | fuel + 1, value :: rest => do
    let h : List Val ←
      match ← computeTrackBreadth env value with
      | some tb => pure [tb]
      | none => do
        let head ← headName "grid_auto" value
        let items ← elems "grid_auto" value
        -- grid_auto(style, name, [value[k]])[0]
        let sub (k : Nat) : Except CErr Val := do
          let r ← gridAutoItems env fuel [← itemAt "grid_auto" items k]
          itemAt "grid_auto" r 0
        if head == some "minmax()" then do
          let a ← sub 1
          let b ← sub 2
          pure [mkTuple [.kw "minmax()", a, b]]
        else if head == some "fit-content()" then do
          let a ← sub 1
          pure [mkTuple [.kw "fit-content()", a]]
        else pure []
    let t ← gridAutoItems env fuel rest
    pure (h ++ t)

/-- `grid_auto(style, name, values)` (`grid-auto-columns`, `grid-auto-rows`). -/
def gridAuto (env : Env) (values : Val) : Except CErr Val := do
  let l ← elems "grid_auto" values
  pure (mkTuple (← gridAutoItems env (valSize values + 1) l))

/-- Dispatch on the `__name__` of the function registered in `COMPUTER_FUNCTIONS` (generated). -/
def applyComputer (fname : String) (env : Env) (key : String) (value : Val) : Except CErr Val :=
  match fname with
  | "length" => length env value
  | "font_size" => fontSize env value
  | "font_weight" => fontWeight env value
  | "border_width" => borderWidth env key value
  | "break_before_after" => .ok (breakBeforeAfter value)
  | "display" => display env value
  | "compute_float" => computeFloat env value
  | "line_height" => lineHeight env value
  | "pixel_length" => pixelLength env value
  | "word_spacing" => wordSpacing env value
  | "gap" => gap env value
  | "tab_size" => tabSize env value
  | "length_pixels_only" => length env value (pixelsOnly := true)
  | "bleed" => bleed env value
  | "vertical_align" => verticalAlign env value
  | "length_tuple" => lengthTuple env value
  | "length_or_percentage_tuple" => lengthOrPercentageTuple env value
  | "border_radius" => lengthOrPercentageTuple env value
  | "compute_position" => computePosition env value
  | "background_size" => backgroundSize env value
  | "border_image_slice" => borderImageSlice value
  | "border_image_width" => borderImageWidth env value
  | "border_image_outset" => borderImageOutset env value
  | "border_image_repeat" => borderImageRepeat value
  | "transform" => transform env value
  | "content" => content env value
  | "bookmark_label" => contentList env value
  | "string_set" => stringSet env value
  | "anchor" => anchor env value
  | "lang" => lang env value
  | "grid_template" => gridTemplate env value
  | "grid_auto" => gridAuto env value
  | "image_orientation" => imageOrientation value
  -- `image(style, name, value)` (commit e161f80: `border-image-source`, `mask-border-source`,
  -- `list-style-image`): `background_image(style, name, (value,)); return value` — the same object
  -- comes back; the lengths inside a gradient object are computed in place, which the value shapes
  -- of this model (`('none', None)`, `('url', …)`, an opaque gradient) do not show
  | "image" => .ok value
  | other => .error (.unsupported ("computer function " ++ other))

/-- `if key in COMPUTER_FUNCTIONS: value = COMPUTER_FUNCTIONS[key](self, key, value)`. -/
def compute (env : Env) (key : String) (value : Val) : Except CErr Val :=
  match lookup key computerFunctions with
  | none => .ok value
  | some fname => applyComputer fname env key value

end Wp.Computed
