/-
Mirror of `weasyprint/css/computed_values.py` for the functions named in DESIGN §4 C06:
`length`, `font_size`, `font_weight`, `border_width`, `break_before_after`, `display`,
`compute_float`, `line_height`, `pixel_length`, `word_spacing`, `gap`, `tab_size`,
`length_pixels_only`, `bleed`, `vertical_align` (keyword / super / sub / length branches).
Tables come from `Gen/Units.lean` (regenerated from the source on every run).

The real style object is lazy (`style['font_size']` is computed on access), so the accessors of
`Env` are functions: a branch that does not read a key does not see that key's failure.
`character_ratio` (Pango) is a parameter (`exRatio`, `chRatio`).
Python failure points are explicit (`CErr`): `value.value` / `value.unit` on a non-Dimension is an
`AttributeError`, `FONT_WEIGHT_RELATIVE[value][parent]` a `KeyError`, `value[0]` an `IndexError`.
No Mathlib, no Std.
-/
import WpModel.Gen.Units

namespace Wp.Computed
open Wp Wp.Gen.Units

/-- `dict.get`-style lookup in an association list (first match; Python dict literals have
distinct keys, the extractor keeps dict order). -/
def lookup {β : Type} (k : String) : List (String × β) → Option β
  | [] => none
  | (a, b) :: rest => if a == k then some b else lookup k rest

def lookupNat (k : Nat) : List (Nat × Nat) → Option Nat
  | [] => none
  | (a, b) :: rest => if a == k then some b else lookupNat k rest

/-- `str.replace(old, new)` (all non-overlapping occurrences, left to right; `old` non-empty),
structurally recursive so that the kernel can evaluate it. -/
def pyReplaceChars (old new : List Char) : List Char → Nat → List Char
  | [], _ => []
  | _ :: rest, skip + 1 => pyReplaceChars old new rest skip
  | c :: rest, 0 =>
    if old.isPrefixOf (c :: rest) then new ++ pyReplaceChars old new rest (old.length - 1)
    else c :: pyReplaceChars old new rest 0

def pyReplace (s old new : String) : String :=
  String.ofList (pyReplaceChars old.toList new.toList s.toList 0)

/-- What the computing functions read from `style`. -/
structure Env where
  /-- `style['font_size']` -/
  fontSize : Unit → Except CErr Rat
  /-- `style.root_style['font_size']` -/
  rootFontSize : Unit → Except CErr Rat
  /-- `style.parent_style['font_size']`; `none` when `style.parent_style is None` -/
  parentFontSize : Option (Unit → Except CErr Rat)
  /-- `style.parent_style['font_weight']` -/
  parentFontWeight : Option (Unit → Except CErr Val)
  /-- `character_ratio(style, 'x')`, `character_ratio(style, '0')` -/
  exRatio : Rat
  chRatio : Rat
  /-- `style[key]` for the other keys the functions read (`border_*_style`, `marks`) -/
  get : String → Except CErr Val
  /-- `style.specified[key]` (`float`, `position`) -/
  specified : String → Except CErr Val
  /-- `style.is_root_element` -/
  isRoot : Bool
  /-- `bool(style.pseudo_type)` -/
  pseudo : Bool

/-- `length(style, name, value, font_size=None, pixels_only=False)`. -/
def length (env : Env) (value : Val) (fontSize : Option Rat := none) (pixelsOnly : Bool := false) :
    Except CErr Val :=
  match value with
  | .kw s =>
    -- if value in ('auto', 'content', 'from-font'): return value
    if s == "auto" || s == "content" || s == "from-font" then .ok value
    else .error (.attributeError "length: value.value")
  | .dim q unit =>
    -- if value.value == 0: return 0 if pixels_only else ZERO_PIXELS
    if q == 0 then .ok (if pixelsOnly then .num 0 else .dim 0 "px")
    -- if unit == 'px': return value.value if pixels_only else value
    else if unit == "px" then .ok (if pixelsOnly then .num q else value)
    else
      let fin (result : Rat) : Except CErr Val :=
        .ok (if pixelsOnly then .num result else .dim result "px")
      match lookup unit lengthsToPixels with
      | some factor => fin (q * factor)
      | none =>
        if unit == "em" || unit == "ex" || unit == "ch" || unit == "rem" then do
          -- if font_size is None: font_size = style['font_size']
          let fs ← match fontSize with
            | some f => pure f
            | none => env.fontSize ()
          if unit == "ex" then fin (q * fs * env.exRatio)
          else if unit == "ch" then fin (q * fs * env.chRatio)
          else if unit == "em" then fin (q * fs)
          else do
            let r ← env.rootFontSize ()
            fin (q * r)
        else
          -- A percentage or 'auto': no conversion needed.
          .ok value
  | _ => .error (.attributeError "length: value.value")

/-- `for i, kv in enumerate(keyword_values): if kv > parent: return keyword_values[i]` -/
def firstAbove (parent : Rat) : List Rat → Option Rat
  | [] => none
  | k :: rest => if k > parent then some k else firstAbove parent rest

/-- `for i, kv in enumerate(keyword_values[::-1]): if kv < parent: return keyword_values[-i - 1]` -/
def firstBelowRev (parent : Rat) (ks : List Rat) : Option Rat :=
  let rec go : List Rat → Option Rat
    | [] => none
    | k :: rest => if k < parent then some k else go rest
  go ks.reverse

def keywordSizes : List Rat := fontSizeKeywords.map (·.2)

/-- `font_size(style, name, value)`; the result is a number of pixels. -/
def fontSize (env : Env) (value : Val) : Except CErr Val := do
  -- if value in FONT_SIZE_KEYWORDS: return FONT_SIZE_KEYWORDS[value]
  let kwHit : Option Rat := match value with
    | .kw s => lookup s fontSizeKeywords
    | _ => none
  match kwHit with
  | some q => pure (.num q)
  | none =>
    let parent ← match env.parentFontSize with
      | none => pure initialFontSize
      | some f => f ()
    match value with
    | .kw "larger" =>
      match firstAbove parent keywordSizes with
      | some k => pure (.num k)
      | none => pure (.num (parent * (6 / 5 : Rat)))      -- parent_font_size * 1.2
    | .kw "smaller" =>
      match firstBelowRev parent keywordSizes with
      | some k => pure (.num k)
      | none => pure (.num (parent * (4 / 5 : Rat)))      -- parent_font_size * 0.8
    | .dim q unit =>
      if unit == "%" then pure (.num (q * parent / 100))
      else length env value (fontSize := some parent) (pixelsOnly := true)
    | _ => .error (.attributeError "font_size: value.unit")

/-- The number as a dict key of `FONT_WEIGHT_RELATIVE[...]` (a natural number, or no key). -/
def natOfRat (q : Rat) : Option Nat :=
  if q.den == 1 && q.num ≥ 0 then some q.num.toNat else none

/-- `font_weight(style, name, value)`. -/
def fontWeight (env : Env) (value : Val) : Except CErr Val :=
  match value with
  | .kw "normal" => .ok (.num 400)
  | .kw "bold" => .ok (.num 700)
  | .kw s =>
    if s == "bolder" || s == "lighter" then do
      let parent ← match env.parentFontWeight with
        | none => pure (.num (initialFontWeight : Nat))
        | some f => f ()
      let table := if s == "bolder" then fontWeightBolder else fontWeightLighter
      match parent with
      | .num q =>
        match (natOfRat q).bind (fun n => lookupNat n table) with
        | some w => pure (.num (w : Nat))
        | none => .error (.keyError "FONT_WEIGHT_RELATIVE[value][parent_value]")
      | _ => .error (.keyError "FONT_WEIGHT_RELATIVE[value][parent_value]")
    else .ok value
  | _ => .ok value

/-- `border_width(style, name, value)` (also `column-rule-width`, `outline-width`). -/
def borderWidth (env : Env) (name : String) (value : Val) : Except CErr Val := do
  -- border_style = style[name.replace('width', 'style')]
  let borderStyle ← env.get (pyReplace name "width" "style")
  if borderStyle.isKw "none" || borderStyle.isKw "hidden" then pure (.num 0)
  else
    let kwHit : Option Rat := match value with
      | .kw s => lookup s borderWidthKeywords
      | _ => none
    match kwHit with
    | some q => pure (.num q)
    | none =>
      match value with
      | .num q =>
        -- isinstance(value, int): the initial value can get here
        if q.den == 1 then pure value else .error (.attributeError "length: value.value")
      | _ => length env value (pixelsOnly := true)

/-- `break_before_after(style, name, value)`. -/
def breakBeforeAfter (value : Val) : Val :=
  if value.isKw "always" then .kw "page" else value

/-- `display(style, name, value)`: CSS 2.1 §9.7 as written in the code (the `('inline-table',)` test
compares with a 1-tuple, which the validator never produces: `inline-table` is validated to
`('inline', 'table')` and takes the `value[0] == 'inline'` branch). -/
def display (env : Env) (value : Val) : Except CErr Val := do
  let float ← env.specified "float"
  let position ← env.specified "position"
  if position.isKw "absolute" || position.isKw "fixed" || !(float.isKw "none") || env.isRoot then
    match value with
    | .strs l =>
      if l == ["inline-table"] then pure (.strs ["block", "table"])
      else
        match l with
        | [] => .error (.indexError "display: value[0]")
        | first :: rest =>
          if rest.isEmpty && first.startsWith "table-" then pure (.strs ["block", "flow"])
          else if first == "inline" then
            if l.contains "list-item" then pure (.strs ["block", "flow", "list-item"])
            else pure (.strs ["block", "flow"])
          else pure value
    | _ => .error (.unsupported "display: value is not a tuple of strings")
  else pure value

/-- `compute_float(style, name, value)`. -/
def computeFloat (env : Env) (value : Val) : Except CErr Val := do
  let position ← env.specified "position"
  match position with
  | .kw s =>
    if s == "absolute" || s == "fixed" then pure (.kw "none")
    else if s.isEmpty then .error (.indexError "compute_float: position[0]")
    else pure value      -- position[0] is a character, never 'running()'
  | .strs l =>
    match l with
    | [] => .error (.indexError "compute_float: position[0]")
    | first :: _ => if first == "running()" then pure (.kw "none") else pure value
  | _ => .error (.unsupported "compute_float: position shape")

/-- `line_height(style, name, value)`. -/
def lineHeight (env : Env) (value : Val) : Except CErr Val :=
  match value with
  | .kw s => if s == "normal" then .ok value else .error (.attributeError "line_height: value.unit")
  | .dim q unit =>
    if unit == "none" then .ok (.tagged "NUMBER" q)
    else if unit == "%" then do
      let fs ← env.fontSize ()
      pure (.tagged "PIXELS" (q / 100 * fs))
    else do
      match ← length env value (pixelsOnly := true) with
      | .num p => pure (.tagged "PIXELS" p)
      | _ => .error (.unsupported "line_height: length() did not return pixels")
  | _ => .error (.attributeError "line_height: value.unit")

/-- `pixel_length` (`letter-spacing`). -/
def pixelLength (env : Env) (value : Val) : Except CErr Val :=
  if value.isKw "normal" then .ok value else length env value (pixelsOnly := true)

/-- `word_spacing`. -/
def wordSpacing (env : Env) (value : Val) : Except CErr Val :=
  if value.isKw "normal" then .ok (.num 0) else length env value (pixelsOnly := true)

/-- `gap` (`column-gap`, `row-gap`). -/
def gap (env : Env) (value : Val) : Except CErr Val :=
  if value.isKw "normal" then .ok value else length env value

/-- `tab_size`. -/
def tabSize (env : Env) (value : Val) : Except CErr Val :=
  match value with
  | .num q => if q.den == 1 then .ok value else length env value
  | _ => length env value

/-- `bleed` (`bleed-*`). -/
def bleed (env : Env) (value : Val) : Except CErr Val :=
  if value.isKw "auto" then do
    let marks ← env.get "marks"
    match marks with
    | .strs l => pure (.dim (if l.contains "crop" then 8 else 0) "px")
    | .kw s => pure (.dim (if (s.splitOn "crop").length > 1 then 8 else 0) "px")   -- 'crop' in str
    | _ => .error (.typeError "bleed: 'crop' in style['marks']")
  else length env value

/-- `vertical_align`, except the percentage branch (needs Pango's strut). -/
def verticalAlign (env : Env) (value : Val) : Except CErr Val :=
  match value with
  | .kw s =>
    if ["baseline", "middle", "text-top", "text-bottom", "top", "bottom"].contains s then .ok value
    else if s == "super" then do
      let fs ← env.fontSize (); pure (.num (fs * (1 / 2 : Rat)))
    else if s == "sub" then do
      let fs ← env.fontSize (); pure (.num (fs * (-1 / 2 : Rat)))
    else .error (.attributeError "vertical_align: value.unit")
  | .dim _ unit =>
    if unit == "%" then .error (.unsupported "vertical_align: percentage needs strut_layout")
    else length env value (pixelsOnly := true)
  | _ => .error (.attributeError "vertical_align: value.unit")

/-- Dispatch on the `__name__` of the function registered in `COMPUTER_FUNCTIONS` (generated). -/
def applyComputer (fname : String) (env : Env) (key : String) (value : Val) : Except CErr Val :=
  match fname with
  | "length" => length env value
  | "font_size" => fontSize env value
  | "font_weight" => fontWeight env value
  | "border_width" => borderWidth env key value
  | "break_before_after" => .ok (breakBeforeAfter value)
  | "display" => display env value
  | "compute_float" => computeFloat env value
  | "line_height" => lineHeight env value
  | "pixel_length" => pixelLength env value
  | "word_spacing" => wordSpacing env value
  | "gap" => gap env value
  | "tab_size" => tabSize env value
  | "length_pixels_only" => length env value (pixelsOnly := true)
  | "bleed" => bleed env value
  | "vertical_align" => verticalAlign env value
  | other => .error (.unsupported ("computer function " ++ other))

/-- `if key in COMPUTER_FUNCTIONS: value = COMPUTER_FUNCTIONS[key](self, key, value)`. -/
def compute (env : Env) (key : String) (value : Val) : Except CErr Val :=
  match lookup key computerFunctions with
  | none => .ok value
  | some fname => applyComputer fname env key value

end Wp.Computed
