/-
PM — the pagination model (DESIGN.md §4.0), stage 1: nested block boxes and paragraphs of lines.

Branch-for-branch transcription of
  weasyprint/layout/block.py   block_level_layout, block_container_layout, _in_flow_layout,
                               _linebox_layout, _break_line, find_earlier_page_break,
                               block_level_page_name, collapse_margin
  weasyprint/layout/page.py    make_page (geometry), remake_page (side / blank / forced_break),
                               make_all_pages (with fuel)
  weasyprint/layout/__init__.py initialize_page_maker, LayoutContext.overflows
  weasyprint/formatting_structure/boxes.py  ParentBox.page_values, remove_decoration
restricted to: block boxes whose children are all block boxes (`block`) or exactly one line box that
breaks into `n` lines of height `lineH` (`para`); lengths in px; no floats, no absolutely positioned
boxes, no footnotes, no columns, `margin-break: auto`, `continue: auto`, `overflow: visible`.

The shared mutable `adjoining_margins` list of the Python code (the callee appends to the caller's
list object) is modelled explicitly: every layout function receives the content of the list object it
was passed (`adjL`) and returns its final content together with the list it *returns*
(`AdjOut.alias` = the very object it was passed, `AdjOut.fresh l` = a new list).
-/
import WpModel.Model.Wire
import WpModel.Model.Break

namespace Wp.PM
open Wp

structure PStyle where
  mt : Rat
  mb : Rat
  pt : Rat
  pb : Rat
  bt : Rat
  bb : Rat
  height : Len
  minH : Rat
  maxH : Option Rat      -- `none` = inf
  brkBefore : Brk
  brkAfter : Brk
  brkInside : Brk
  clone : Bool           -- box-decoration-break: clone
  page : String          -- used value of `page` ('' when unnamed)
  orphans : Nat
  widows : Nat
  isRoot : Bool          -- is_for_root_element
  deriving Repr, Inhabited, BEq

inductive PBox where
  | para (id : Nat) (n : Nat) (lineH : Rat) (st : PStyle)
  | block (id : Nat) (st : PStyle) (kids : List PBox)
  deriving Repr, Inhabited

def PBox.st : PBox → PStyle
  | .para _ _ _ st => st
  | .block _ st _ => st

/-- `resume_at` / `skip_stack`: `{i: sub}`; inside a paragraph's line box, the first line not yet
emitted. -/
inductive Resume where
  | node (i : Nat) (sub : Option Resume)
  | line (k : Nat)
  deriving Repr, Inhabited, BEq

/-- Used values of a laid-out box. -/
structure Geo where
  y : Rat
  mt : Rat
  mb : Rat
  pt : Rat
  pb : Rat
  bt : Rat
  bb : Rat
  h : Rat
  deriving Repr, Inhabited, BEq

/-- Laid-out fragments.  `idx` is the `.index` attribute (position in the original parent). -/
inductive Frag where
  | para (id : Nat) (idx : Nat) (st : PStyle) (n : Nat) (g : Geo) (lines : List (Nat × Rat))
  | block (id : Nat) (idx : Nat) (st : PStyle) (g : Geo) (kids : List Frag)
  deriving Repr, Inhabited

def Frag.st : Frag → PStyle
  | .para _ _ st _ _ _ => st
  | .block _ _ st _ _ => st
def Frag.geo : Frag → Geo
  | .para _ _ _ _ g _ => g
  | .block _ _ _ g _ => g
def Frag.idx : Frag → Nat
  | .para _ i _ _ _ _ => i
  | .block _ i _ _ _ => i
def Frag.withIdx : Frag → Nat → Frag
  | .para id _ st n g ls, i => .para id i st n g ls
  | .block id _ st g ks, i => .block id i st g ks

/-- `next_page`: break is `none` for 'any'; page is `none` for Python `None`. -/
structure NextPage where
  brk : Option Brk
  page : Option String
  deriving Repr, Inhabited, BEq

structure Ctx where
  pageBottom : Rat
  currentPage : Nat
  forcedBreak : Bool
  deriving Repr, Inhabited

/-- `position_y > bottom * (1 + 1e-9)` -/
def overflows (bottom y : Rat) : Bool := decide (y > bottom * (1 + 1 / 1000000000))

def Ctx.overflowsPage (c : Ctx) (bs y : Rat) : Bool := overflows (c.pageBottom - bs) y

/-- `collapse_margin`: max of the non-negative ones (seed 0) + min of the non-positive ones (seed 0). -/
def collapseMargin (ms : List Rat) : Rat :=
  let pos := ms.foldl (fun a m => if m ≥ 0 ∧ m > a then m else a) 0
  let neg := ms.foldl (fun a m => if m ≤ 0 ∧ m < a then m else a) 0
  pos + neg

/-! ### break values meeting between a laid-out fragment and a source box -/

mutual
def fragAfterChain : Frag → List Brk
  | .para _ _ st _ _ _ => [st.brkAfter]       -- children are line boxes: the loop stops there
  | .block _ _ st _ kids => st.brkAfter :: fragAfterChainLast kids
def fragAfterChainLast : List Frag → List Brk
  | [] => []
  | f :: rest => match rest with
    | [] => fragAfterChain f
    | _ :: _ => fragAfterChainLast rest
end

mutual
def boxBeforeChain : PBox → List Brk
  | .para _ _ _ st => [st.brkBefore]
  | .block _ st kids => st.brkBefore :: boxBeforeChainFirst kids
def boxBeforeChainFirst : List PBox → List Brk
  | [] => []
  | b :: _ => boxBeforeChain b
end

mutual
def fragBeforeChain : Frag → List Brk
  | .para _ _ st _ _ _ => [st.brkBefore]
  | .block _ _ st _ kids => st.brkBefore :: fragBeforeChainFirst kids
def fragBeforeChainFirst : List Frag → List Brk
  | [] => []
  | b :: _ => fragBeforeChain b
end

/-- `block_level_page_break(last_in_flow_child, child)` in `_in_flow_layout`. -/
def breakBetween (before : Frag) (after : PBox) : Brk :=
  resolve ((fragAfterChain before).reverse ++ boxBeforeChain after)

/-- `block_level_page_break(child, previous_in_flow)` in `find_earlier_page_break` (both laid out;
the second may be `None`). -/
def breakBetweenFrags (before : Frag) (after : Option Frag) : Brk :=
  resolve ((fragAfterChain before).reverse ++ (match after with | none => [] | some a => fragBeforeChain a))

/-! ### `page_values()` -/

mutual
def boxPageStart : PBox → String
  | .para _ _ _ st => st.page
  | .block _ st kids => let s := boxPageStartFirst kids; if s = "" then st.page else s
def boxPageStartFirst : List PBox → String
  | [] => ""
  | b :: _ => boxPageStart b
end

mutual
def fragPageEnd : Frag → String
  | .para _ _ st _ _ _ => st.page
  | .block _ _ st _ kids => let s := fragPageEndLast kids; if s = "" then st.page else s
def fragPageEndLast : List Frag → String
  | [] => ""
  | f :: rest => match rest with
    | [] => fragPageEnd f
    | _ :: _ => fragPageEndLast rest
end

/-! ### paragraphs -/

/-- `resume_at` of line `i` of an `n`-line paragraph. -/
def lineResume (n i : Nat) : Option Resume := if i + 1 < n then some (.line (i + 1)) else none

/-- Mutable used values of the box being laid out. -/
structure BoxSt where
  y : Rat
  mt : Rat
  mb : Rat
  pt : Rat
  pb : Rat
  bt : Rat
  bb : Rat
  deriving Repr, Inhabited

structure LineLoop where
  lines : List (Nat × Rat)      -- new_children, in order
  posY : Rat
  skip : Option Resume           -- `skip_stack` variable (resume of the previous line)
  mt : Rat                       -- box.margin_top (may be zeroed by the tall-first-line rule)
  dbd : Bool                     -- draw_bottom_decoration
  deriving Repr, Inhabited

inductive LineOutcome where
  | done (s : LineLoop)                                   -- iterator exhausted
  | broke (abort stop : Bool) (resume : Option Resume) (s : LineLoop)
  deriving Repr, Inhabited

/-- `_break_line`; `i` is the current line, `n` the number of lines. Returns (abort, stop, resume, lines). -/
def breakLine (st : PStyle) (n i : Nat) (lines : List (Nat × Rat)) (pageIsEmpty : Bool)
    (skip : Option Resume) (resume : Option Resume) : Bool × Bool × Option Resume × List (Nat × Rat) :=
  let overOrphans : Int := (lines.length : Int) - (st.orphans : Int)
  if overOrphans < 0 && !pageIsEmpty then (true, false, resume, lines)
  else
    let needed0 : Nat := st.widows - 1
    -- `for _ in lines_iterator: needed -= 1; if needed == 0: break`
    let remaining : Nat := n - 1 - i
    let needed : Nat := if needed0 = 0 then 0 else needed0 - min needed0 remaining
    if (needed : Int) > overOrphans && !pageIsEmpty then (true, false, resume, lines)
    else
      let lines' := if needed ≠ 0 && (needed : Int) ≤ overOrphans
        then lines.take (lines.length - needed) else lines
      (false, true, some (.node 0 skip), lines')

/-- The `for i, (line, resume_at) in enumerate(lines_iterator)` loop of `_linebox_layout`.
`y0` is the y of line `k` as computed by `iter_line_boxes` (never updated by the translation of the
first line). `fuel` = number of lines still to produce. -/
def lineLoop (c : Ctx) (st : PStyle) (b : BoxSt) (n : Nat) (lineH : Rat) (pageIsEmpty : Bool) (bs : Rat)
    : (fuel : Nat) → (i : Nat) → (y : Rat) → LineLoop → LineOutcome
  | 0, _, _, s => .done s
  | fuel + 1, i, y, s =>
    let resume := lineResume n i
    let newPosY := y + lineH
    let dbd := s.dbd || resume.isNone
    let offset := if dbd then b.bb + b.pb else 0
    let overflow := (!s.lines.isEmpty || !pageIsEmpty) && c.overflowsPage bs (newPosY + offset)
    if overflow then
      let (abort, stop, r, lines') := breakLine st n i s.lines pageIsEmpty s.skip resume
      .broke abort stop r { s with lines := lines', dbd := dbd }
    else
      let shift := pageIsEmpty && c.overflowsPage bs newPosY
      let newPosY' := if shift then newPosY - s.mt else newPosY
      let lineY := if shift then y - s.mt else y
      let mt' := if shift then 0 else s.mt
      lineLoop c st b n lineH pageIsEmpty bs fuel (i + 1) (y + lineH)
        { lines := s.lines ++ [(i, lineY)], posY := newPosY', skip := resume, mt := mt', dbd := dbd }

structure LineResult where
  abort : Bool
  stop : Bool
  resume : Option Resume
  posY : Rat
  lines : List (Nat × Rat)
  mt : Rat
  dbd : Bool
  deriving Repr, Inhabited

/-- `_linebox_layout` for the single line box of a paragraph (index 0). -/
def lineboxLayout (c : Ctx) (st : PStyle) (b : BoxSt) (n : Nat) (lineH : Rat) (pageIsEmpty : Bool)
    (adj : List Rat) (bs : Rat) (posY : Rat) (skip : Option Resume) (dbd : Bool) : LineResult :=
  let posY := if adj.isEmpty then posY else posY + collapseMargin adj
  let k := match skip with | some (.line k) => k | _ => 0
  let s0 : LineLoop := { lines := [], posY := posY, skip := skip, mt := b.mt, dbd := dbd }
  let out := lineLoop c st b n lineH pageIsEmpty bs (n - k) k posY s0
  let (abort, stop, resume, s) := match out with
    | .done s => (false, false, (none : Option Resume), s)
    | .broke a st' r s => (a, st', r, s)
  -- `if new_children: resume_at = {index: new_children[-1].resume_at}`
  let resume := match s.lines.getLast? with
    | some (i, _) => some (Resume.node 0 (lineResume n i))
    | none => resume
  { abort := abort, stop := stop, resume := resume, posY := s.posY, lines := s.lines, mt := s.mt, dbd := s.dbd }

/-! ### `find_earlier_page_break` -/

def avoidsPage (v : Brk) : Bool := avoids false v
def forcesPage (v : Brk) : Bool := forces false v

structure EarlierState where
  found : Option (List Frag × Resume)
  prev : Option Frag
  deriving Inhabited

/-- The line-box case of `find_earlier_page_break` (orphans / widows), on a paragraph fragment. -/
def findEarlierPara (id idx : Nat) (st : PStyle) (n : Nat) (g : Geo) (lines : List (Nat × Rat))
    : Option (Frag × Resume) :=
  if lines.isEmpty then none
  else
    let index : Int := (lines.length : Int) - (st.widows : Int)
    if index < (st.orphans : Int) then none
    else
      let kept := lines.take index.toNat
      match kept.getLast? with
      | some (i, _) => some (.para id idx st n g kept, .node 0 (lineResume n i))
      | none => none

mutual
/-- The reversed loop of `find_earlier_page_break(children)` for block children, written as a right
fold: `findEarlierGo (x :: xs)` first processes `xs` (the later siblings). -/
def findEarlierGo : List Frag → EarlierState
  | [] => { found := none, prev := none }
  | x :: xs =>
    let s := findEarlierGo xs
    match s.found with
    | some (kept, r) => { found := some (x :: kept, r), prev := s.prev }
    | none =>
      let pb := breakBetweenFrags x s.prev
      let breakAfter : Option Frag := match s.prev with
        | some p => if !avoidsPage pb then some p else none
        | none => none
      match breakAfter with
      | some p =>
        -- break after x: new_children = children[:index+1], resume = {children[index+1].index: None}
        { found := some ([x], .node p.idx none), prev := s.prev }
      | none =>
        -- previous_in_flow = child; then look inside the child
        if !avoidsPage x.st.brkInside then
          match findEarlierFrag x with
          | some (x', r) => { found := some ([x'], .node x.idx (some r)), prev := some x }
          | none => { found := none, prev := some x }
        else { found := none, prev := some x }
/-- `find_earlier_page_break(child.children)` + `child.copy_with_children(new_grand_children)`. -/
def findEarlierFrag : Frag → Option (Frag × Resume)
  | .para id idx st n g lines => findEarlierPara id idx st n g lines
  | .block id idx st g kids =>
    match (findEarlierGo kids).found with
    | some (kids', r) => some (.block id idx st g kids', r)
    | none => none
end

/-- `find_earlier_page_break(children)` for a list of block fragments. -/
def findEarlierList (kids : List Frag) : Option (List Frag × Resume) := (findEarlierGo kids).found

/-! ### block containers -/

inductive AdjOut where
  | alias               -- the returned list is the object that was passed in
  | fresh (l : List Rat)
  deriving Repr, Inhabited

/-- Result of `block_level_layout`. -/
structure LayoutResult where
  frag : Option Frag
  resume : Option Resume
  nextPage : NextPage
  adj : AdjOut
  collapsingThrough : Bool
  adjL : List Rat          -- final content of the list object passed in
  deriving Inhabited

/-- State of the children loop of `block_container_layout`. -/
structure KidsLoop where
  newChildren : List Frag
  posY : Rat
  adjL : List Rat          -- content of the object passed to this box (`this_box_adjoining_margins`)
  cur : List Rat           -- content of the `adjoining_margins` variable
  curIsL : Bool            -- … which is the same object as `adjL`
  nextPage : NextPage
  skip : Option Resume     -- `skip_stack` for the first visited child, then None
  deriving Inhabited

inductive KidsOutcome where
  | finished (s : KidsLoop)                                  -- loop exhausted
  | aborted (page : String) (s : KidsLoop)
  | stopped (resume : Option Resume) (s : KidsLoop)
  deriving Inhabited

def KidsLoop.setCur (s : KidsLoop) (l : List Rat) (isL : Bool) : KidsLoop :=
  if isL then { s with cur := l, adjL := l, curIsL := true } else { s with cur := l, curIsL := false }

/-- Append to the `adjoining_margins` variable (mutating the shared object when it is one). -/
def KidsLoop.appendCur (s : KidsLoop) (m : Rat) : KidsLoop :=
  if s.curIsL then { s with cur := s.cur ++ [m], adjL := s.cur ++ [m] } else { s with cur := s.cur ++ [m] }

def geoOf (b : BoxSt) (h : Rat) : Geo :=
  { y := b.y, mt := b.mt, mb := b.mb, pt := b.pt, pb := b.pb, bt := b.bt, bb := b.bb, h := h }

def Geo.contentBoxY (g : Geo) : Rat := g.y + g.mt + g.bt + g.pt
def Geo.borderBoxY (g : Geo) : Rat := g.y + g.mt
def Geo.borderHeight (g : Geo) : Rat := g.h + g.pt + g.pb + g.bt + g.bb

/-- The tail of `block_container_layout`, after the children loop.
`b` = used values of `box` at that point, `bs` = local `bottom_space`, `posY`, `cur` = loop results. -/
def finishContainer (c : Ctx) (st : PStyle) (b : BoxSt) (isStart : Bool) (pageIsEmpty : Bool) (bs : Rat)
    (cwc : Bool) (dbd : Bool) (resume : Option Resume) (posY : Rat) (adjL : List Rat) (cur : List Rat)
    (curIsL : Bool) (nextPage : NextPage) (hasKids : Bool) (pageEnd : String)
    (mk : Geo → Frag) : LayoutResult :=
  let fragmented := resume.isSome
  if fragmented && avoidsPage st.brkInside && !pageIsEmpty then
    { frag := none, resume := none, nextPage := { brk := none, page := none }, adj := .fresh [],
      collapsingThrough := false, adjL := adjL }
  else
    let b := if cwc then { b with y := b.y + collapseMargin adjL - b.mt } else b
    -- margins after the last child / of an empty box
    let (posY, cur, curIsL, through) :=
      if !hasKids then
        let cm := collapseMargin cur
        if (st.height = none || st.height = some 0) && st.minH = 0 && b.bt = 0 && b.pt = 0 && b.bb = 0 && b.pb = 0
        then (posY, cur, curIsL, true)
        else (posY + cm, ([] : List Rat), false, false)
      else if st.height ≠ none then (posY, ([] : List Rat), false, false)
      else (posY, cur, curIsL, false)
    let (posY, cur, curIsL) :=
      if b.bb ≠ 0 || b.pb ≠ 0 || st.isRoot then (posY + collapseMargin cur, ([] : List Rat), false)
      else (posY, cur, curIsL)
    -- new_box.remove_decoration(start=not is_start, end=box_is_fragmented and not discard)
    let nb : BoxSt := if !st.clone && fragmented then { b with mb := 0, pb := 0, bb := 0 } else b
    let contentY := nb.y + nb.mt + nb.bt + nb.pt
    let h0 : Rat := match st.height with | none => posY - contentY | some h => h
    let h : Rat :=
      if !fragmented then
        let capped := match st.maxH with | none => h0 | some m => if h0 ≤ m then h0 else m
        if capped ≥ st.minH then capped else st.minH
      else
        let newH := c.pageBottom - bs - nb.y - (nb.mt + nb.mb + nb.bt + nb.bb + nb.pt + nb.pb)
        if newH > h0 then (if dbd then newH + (b.pb + b.bb + b.mb) else newH) else h0
    let np : NextPage := match nextPage.page with
      | none => { nextPage with page := some pageEnd }
      | some _ => nextPage
    { frag := some (mk (geoOf nb h)), resume := resume, nextPage := np,
      adj := if curIsL then .alias else .fresh cur, collapsingThrough := through, adjL := adjL }

mutual

/-- `block_level_layout` (+ `block_box_layout`, `block_container_layout`). `y` is `box.position_y` as set
by the parent, `cbIsRoot` is `containing_block.is_for_root_element`, `adjL` the content of the passed
`adjoining_margins` object. -/
def layoutBox (c : Ctx) (box : PBox) (idx : Nat) (y : Rat) (bs : Rat) (skip : Option Resume) (cbIsRoot : Bool)
    (pageIsEmpty : Bool) (adjL : List Rat) : LayoutResult :=
  let st := box.st
  -- resolve_percentages + margin truncation after an unforced break
  let mt0 := if c.currentPage > 1 && pageIsEmpty && (cbIsRoot || !adjL.isEmpty) && !c.forcedBreak then 0 else st.mt
  -- block_container_layout
  let isStart := skip.isNone
  let b : BoxSt := { y := y, mt := mt0, mb := st.mb, pt := st.pt, pb := st.pb, bt := st.bt, bb := st.bb }
  let b := if !st.clone && !isStart then { b with mt := 0, pt := 0, bt := 0 } else b
  let dbd := st.clone
  let bs := if dbd then bs + (b.pb + b.bb + b.mb) else bs
  let adjL := adjL ++ [b.mt]
  let cwc := !(b.bt ≠ 0 || b.pt ≠ 0 || st.isRoot)
  let (b, cur, curIsL, posY) :=
    if cwc then (b, adjL, true, b.y)
    else
      let b' := { b with y := b.y + collapseMargin adjL - b.mt }
      (b', ([] : List Rat), false, b'.y + b'.mt + b'.bt + b'.pt)
  match box with
  | .para id n lineH _ =>
    let lineSkip : Option Resume := match skip with | some (.node _ sub) => sub | _ => none
    let r := lineboxLayout c st b n lineH pageIsEmpty cur bs posY lineSkip dbd
    let b := { b with mt := r.mt }
    let dbd := dbd || r.resume.isNone
    if r.abort then
      { frag := none, resume := none, nextPage := { brk := none, page := some st.page }, adj := .fresh [],
        collapsingThrough := false, adjL := adjL }
    else
      let resume : Option Resume :=
        if r.stop then
          match st.height with
          | some h => if overflows (b.y + (h + b.pt + b.pb + b.bt + b.bb)) r.posY then none else r.resume
          | none => r.resume
        else none
      finishContainer c st b isStart pageIsEmpty bs cwc dbd resume r.posY adjL [] false
        { brk := none, page := none } (!r.lines.isEmpty) st.page
        (fun g => .para id idx st n g r.lines)
  | .block id _ kids =>
    let skipIdx := match skip with | some (.node i _) => i | _ => 0
    let subSkip : Option Resume := match skip with | some (.node _ sub) => sub | _ => none
    let s0 : KidsLoop := { newChildren := [], posY := posY, adjL := adjL, cur := cur, curIsL := curIsL,
                           nextPage := { brk := none, page := none }, skip := subSkip }
    match layoutKids c st b kids 0 skipIdx bs pageIsEmpty s0 with
    | .aborted page s =>
      { frag := none, resume := none, nextPage := { brk := none, page := some page }, adj := .fresh [],
        collapsingThrough := false, adjL := s.adjL }
    | .stopped resume s =>
      let resume := match st.height with
        | some h => if overflows (b.y + (h + b.pt + b.pb + b.bt + b.bb)) s.posY then none else resume
        | none => resume
      finishContainer c st b isStart pageIsEmpty bs cwc dbd resume s.posY s.adjL [] false s.nextPage
        (!s.newChildren.isEmpty) (let e := fragPageEndLast s.newChildren; if e = "" then st.page else e)
        (fun g => .block id idx st g s.newChildren)
    | .finished s =>
      finishContainer c st b isStart pageIsEmpty bs cwc dbd none s.posY s.adjL s.cur s.curIsL s.nextPage
        (!s.newChildren.isEmpty) (let e := fragPageEndLast s.newChildren; if e = "" then st.page else e)
        (fun g => .block id idx st g s.newChildren)

/-- The `for index, child in enumerate(box.children[skip:], start=skip)` loop for block children,
each iteration being `_in_flow_layout`. -/
def layoutKids (c : Ctx) (st : PStyle) (b : BoxSt) : List PBox → (index : Nat) → (skipIdx : Nat) → (bs : Rat) →
    (pageIsEmpty : Bool) → KidsLoop → KidsOutcome
  | [], _, _, _, _, s => .finished s
  | child :: rest, index, skipIdx, bs, pageIsEmpty, s =>
    if index < skipIdx then layoutKids c st b rest (index + 1) skipIdx bs pageIsEmpty s
    else
      -- _in_flow_layout
      let last := s.newChildren.getLast?
      let pb : Brk := match last with | some l => breakBetween l child | none => .auto
      let pageName : Option String := match last with
        | some l => let before := fragPageEnd l; let after := boxPageStart child
                    if before ≠ after then some after else none
        | none => none
      let forcedHere := match last with
        | some _ => (match pageName with | some nm => nm ≠ "" | none => false) || forcesPage pb
        | none => false
      if forcedHere then
        .stopped (some (.node index none))
          { s with nextPage := { brk := some pb, page := some (boxPageStart child) } }
      else
        let pienc := pageIsEmpty && s.newChildren.isEmpty
        let r := layoutBox c child index s.posY bs s.skip st.isRoot pienc s.cur
        let s := s.setCur r.adjL s.curIsL
        -- (new_child, resume_at, next_page, next_adjoining_margins, collapsing_through)
        let canBreak := !pienc
        let (frag, resume, nextPage, adjOut, posY, s) :=
          match r.frag with
          | none => ((none : Option Frag), r.resume, r.nextPage, (none : Option AdjOut), s.posY, s)
          | some f =>
            if r.collapsingThrough then (some f, r.resume, r.nextPage, some r.adj, s.posY, s)
            else
              let g := f.geo
              let newContentPosY := g.contentBoxY + g.h
              let newPosY := g.borderBoxY + g.borderHeight
              if canBreak && c.overflowsPage bs newContentPosY then
                (none, r.resume, r.nextPage, some r.adj, s.posY, s)
              else if canBreak && c.overflowsPage bs newPosY then
                let bs' := bs + (g.pb + g.bb)
                let r2 := layoutBox c child index s.posY bs' s.skip st.isRoot pienc s.cur
                let s := s.setCur r2.adjL s.curIsL
                let posY := match r2.frag with
                  | some f2 => f2.geo.borderBoxY + f2.geo.borderHeight
                  | none => s.posY
                (r2.frag, r2.resume, r2.nextPage, some r2.adj, posY, s)
              else (some f, r.resume, r.nextPage, some r.adj, newPosY, s)
        -- adjoining_margins = next_adjoining_margins; if new_child: append(margin_bottom)
        let s := match adjOut with
          | none => s
          | some .alias => s
          | some (.fresh l) => s.setCur l false
        let s := match adjOut, frag with
          | some _, some f => s.appendCur f.geo.mb
          | _, _ => s
        let s := { s with posY := posY, nextPage := nextPage, skip := none }
        match frag with
        | none =>
          let earlier := if avoidsPage pb then findEarlierList s.newChildren else none
          match earlier with
          | some (kept, r') => .stopped (some r') { s with newChildren := kept }
          | none =>
            if avoidsPage pb && !pageIsEmpty then .aborted (boxPageStart child) s
            else if !s.newChildren.isEmpty then .stopped (some (.node index none)) s
            else .aborted (boxPageStart child) s
        | some f =>
          let s := { s with newChildren := s.newChildren ++ [f.withIdx index] }
          match resume with
          | some r' => .stopped (some (.node index (some r'))) s
          | none => layoutKids c st b rest (index + 1) skipIdx bs pageIsEmpty s

end

/-! ### pages -/

structure PageType where
  right : Bool
  blank : Bool
  name : String
  index : Nat
  deriving Repr, Inhabited, BEq

structure Page where
  type : PageType
  root : Frag
  resume : Option Resume       -- page_maker[index + 1].resume_at
  nextPage : NextPage          -- page_maker[index + 1].next_page
  deriving Inhabited

structure Doc where
  pageH : Rat
  rootLtr : Bool
  root : PBox
  deriving Inhabited

/-- `initialize_page_maker`: is the first page a right page? -/
def firstRight (d : Doc) : Bool :=
  match d.root.st.brkBefore with
  | .right => true
  | .left => false
  | .recto => d.rootLtr
  | .verso => !d.rootLtr
  | _ => d.rootLtr

def emptyRoot : PBox → PBox
  | .para id _ lineH st => .para id 0 lineH st
  | .block id st _ => .block id st []

/-- `remake_page` + `make_page` for page `index` (0-based). -/
def remakePage (d : Doc) (index : Nat) (resume : Option Resume) (nextPage : NextPage) (rightPage : Bool)
    : Option Page :=
  let side : Option Bool :=    -- next_page_side: some true = right
    match nextPage.brk with
    | some .left => some false
    | some .right => some true
    | some .recto => some d.rootLtr
    | some .verso => some (!d.rootLtr)
    | _ => none
  let blank := (side = some false && rightPage) || (side = some true && !rightPage)
  let name := if blank then "" else (match nextPage.page with | some p => p | none => "")
  let forced := nextPage.brk.isSome || (match nextPage.page with | some p => p ≠ "" | none => false)
  let c : Ctx := { pageBottom := d.pageH, currentPage := index + 1, forcedBreak := forced }
  let root := if blank then emptyRoot d.root else d.root
  let r := layoutBox c root 0 0 0 resume false true []
  match r.frag with
  | none => none      -- `assert root_box`
  | some f =>
    let (resume', nextPage') := if blank then (resume, nextPage) else (r.resume, r.nextPage)
    some { type := { right := rightPage, blank := blank, name := name, index := index },
           root := f, resume := resume', nextPage := nextPage' }

/-- `make_all_pages` with fuel; `none` = `assert root_box` failed or fuel exhausted. -/
def makeAllPages (d : Doc) : (fuel : Nat) → (index : Nat) → Option Resume → NextPage → Bool → Option (List Page)
  | 0, _, _, _, _ => none
  | fuel + 1, index, resume, nextPage, rightPage =>
    match remakePage d index resume nextPage rightPage with
    | none => none
    | some p =>
      match p.resume with
      | none => some [p]
      | some _ =>
        match makeAllPages d fuel (index + 1) p.resume p.nextPage (!rightPage) with
        | some ps => some (p :: ps)
        | none => none

def paginate (d : Doc) (fuel : Nat) : Option (List Page) :=
  makeAllPages d fuel 0 none { brk := none, page := some (boxPageStart d.root) } (firstRight d)

end Wp.PM
