/-
PM — the pagination model (DESIGN.md §4.0), stage 1: nested block boxes and paragraphs of lines.

Branch-for-branch transcription of
  weasyprint/layout/block.py   block_level_layout, block_container_layout, _in_flow_layout,
                               _linebox_layout, _break_line, find_earlier_page_break,
                               block_level_page_name, collapse_margin
  weasyprint/layout/page.py    make_page (geometry), remake_page (side / blank / forced_break),
                               make_all_pages (with fuel)
  weasyprint/layout/__init__.py initialize_page_maker, LayoutContext.overflows
  weasyprint/formatting_structure/boxes.py  ParentBox.page_values, remove_decoration
restricted to: block boxes whose children are all block boxes (`block`) or exactly one line box that
breaks into `n` lines of height `lineH` (`para`); lengths in px; no floats, no absolutely positioned
boxes, no footnotes, no columns, `margin-break: auto`, `continue: auto`, `overflow: visible`.

The shared mutable `adjoining_margins` list of the Python code (the callee appends to the caller's
list object) is modelled explicitly: every layout function receives the content of the list object it
was passed (`adjL`) and returns its final content together with the list it *returns*
(`AdjOut.alias` = the very object it was passed, `AdjOut.fresh l` = a new list).
-/
import WpModel.Model.Wire
import WpModel.Model.Break

namespace Wp.PM
open Wp

structure PStyle where
  mt : Rat
  mb : Rat
  pt : Rat
  pb : Rat
  bt : Rat
  bb : Rat
  height : Len
  minH : Rat
  maxH : Option Rat      -- `none` = inf
  brkBefore : Brk
  brkAfter : Brk
  brkInside : Brk
  clone : Bool           -- box-decoration-break: clone
  page : String          -- used value of `page` ('' when unnamed)
  orphans : Nat
  widows : Nat
  isRoot : Bool          -- is_for_root_element
  deriving Repr, Inhabited, BEq

inductive PBox where
  | para (id : Nat) (n : Nat) (lineH : Rat) (st : PStyle)
  | block (id : Nat) (st : PStyle) (kids : List PBox)
  deriving Repr, Inhabited

def PBox.st : PBox → PStyle
  | .para _ _ _ st => st
  | .block _ st _ => st

/-- `resume_at` / `skip_stack`: `{i: sub}`; inside a paragraph's line box, the first line not yet
emitted. -/
inductive Resume where
  | node (i : Nat) (sub : Option Resume)
  | line (k : Nat)
  deriving Repr, Inhabited, BEq

/-- Used values of a laid-out box. -/
structure Geo where
  y : Rat
  mt : Rat
  mb : Rat
  pt : Rat
  pb : Rat
  bt : Rat
  bb : Rat
  h : Rat
  deriving Repr, Inhabited, BEq

/-- Laid-out fragments.  `idx` is the `.index` attribute (position in the original parent). -/
inductive Frag where
  | para (id : Nat) (idx : Nat) (st : PStyle) (n : Nat) (g : Geo) (lines : List (Nat × Rat))
  | block (id : Nat) (idx : Nat) (st : PStyle) (g : Geo) (kids : List Frag)
  deriving Repr, Inhabited

def Frag.st : Frag → PStyle
  | .para _ _ st _ _ _ => st
  | .block _ _ st _ _ => st
def Frag.geo : Frag → Geo
  | .para _ _ _ _ g _ => g
  | .block _ _ _ g _ => g
def Frag.idx : Frag → Nat
  | .para _ i _ _ _ _ => i
  | .block _ i _ _ _ => i
def Frag.withIdx : Frag → Nat → Frag
  | .para id _ st n g ls, i => .para id i st n g ls
  | .block id _ st g ks, i => .block id i st g ks

/-- `next_page`: break is `none` for 'any'; page is `none` for Python `None`. -/
structure NextPage where
  brk : Option Brk
  page : Option String
  deriving Repr, Inhabited, BEq

structure Ctx where
  pageBottom : Rat
  currentPage : Nat
  forcedBreak : Bool
  deriving Repr, Inhabited

/-- `position_y > bottom * (1 + 1e-9)` -/
def overflows (bottom y : Rat) : Bool := decide (y > bottom * (1 + 1 / 1000000000))

def Ctx.overflowsPage (c : Ctx) (bs y : Rat) : Bool := overflows (c.pageBottom - bs) y

/-- `collapse_margin`: max of the non-negative ones (seed 0) + min of the non-positive ones (seed 0). -/
def collapseMargin (ms : List Rat) : Rat :=
  let pos := ms.foldl (fun a m => if m ≥ 0 ∧ m > a then m else a) 0
  let neg := ms.foldl (fun a m => if m ≤ 0 ∧ m < a then m else a) 0
  pos + neg

/-! ### break values meeting between a laid-out fragment and a source box -/

mutual
def fragAfterChain : Frag → List Brk
  | .para _ _ st _ _ _ => [st.brkAfter]       -- children are line boxes: the loop stops there
  | .block _ _ st _ kids => st.brkAfter :: fragAfterChainLast kids
def fragAfterChainLast : List Frag → List Brk
  | [] => []
  | f :: rest => match rest with
    | [] => fragAfterChain f
    | _ :: _ => fragAfterChainLast rest
end

mutual
def boxBeforeChain : PBox → List Brk
  | .para _ _ _ st => [st.brkBefore]
  | .block _ st kids => st.brkBefore :: boxBeforeChainFirst kids
def boxBeforeChainFirst : List PBox → List Brk
  | [] => []
  | b :: _ => boxBeforeChain b
end

mutual
def fragBeforeChain : Frag → List Brk
  | .para _ _ st _ _ _ => [st.brkBefore]
  | .block _ _ st _ kids => st.brkBefore :: fragBeforeChainFirst kids
def fragBeforeChainFirst : List Frag → List Brk
  | [] => []
  | b :: _ => fragBeforeChain b
end

/-- `block_level_page_break(last_in_flow_child, child)` in `_in_flow_layout`. -/
def breakBetween (before : Frag) (after : PBox) : Brk :=
  resolve ((fragAfterChain before).reverse ++ boxBeforeChain after)

/-- `block_level_page_break(child, previous_in_flow)` in `find_earlier_page_break` (both laid out;
the second may be `None`). -/
def breakBetweenFrags (before : Frag) (after : Option Frag) : Brk :=
  resolve ((fragAfterChain before).reverse ++ (match after with | none => [] | some a => fragBeforeChain a))

/-! ### `page_values()` -/

mutual
def boxPageStart : PBox → String
  | .para _ _ _ st => st.page
  | .block _ st kids => let s := boxPageStartFirst kids; if s = "" then st.page else s
def boxPageStartFirst : List PBox → String
  | [] => ""
  | b :: _ => boxPageStart b
end

mutual
def fragPageEnd : Frag → String
  | .para _ _ st _ _ _ => st.page
  | .block _ _ st _ kids => let s := fragPageEndLast kids; if s = "" then st.page else s
def fragPageEndLast : List Frag → String
  | [] => ""
  | f :: rest => match rest with
    | [] => fragPageEnd f
    | _ :: _ => fragPageEndLast rest
end

/-! ### paragraphs -/

/-- `resume_at` of line `i` of an `n`-line paragraph. -/
def lineResume (n i : Nat) : Option Resume := if i + 1 < n then some (.line (i + 1)) else none

/-- Mutable used values of the box being laid out. -/
structure BoxSt where
  y : Rat
  mt : Rat
  mb : Rat
  pt : Rat
  pb : Rat
  bt : Rat
  bb : Rat
  deriving Repr, Inhabited

structure LineLoop where
  lines : List (Nat × Rat)      -- new_children, in order
  posY : Rat
  skip : Option Resume           -- `skip_stack` variable (resume of the previous line)
  mt : Rat                       -- box.margin_top (may be zeroed by the tall-first-line rule)
  dbd : Bool                     -- draw_bottom_decoration
  deriving Repr, Inhabited

inductive LineOutcome where
  | done (s : LineLoop)                                   -- iterator exhausted
  | broke (abort stop : Bool) (resume : Option Resume) (s : LineLoop)
  deriving Repr, Inhabited

/-- `_break_line`; `i` is the current line, `n` the number of lines. Returns (abort, stop, resume, lines). -/
def breakLine (st : PStyle) (n i : Nat) (lines : List (Nat × Rat)) (pageIsEmpty : Bool)
    (skip : Option Resume) (resume : Option Resume) : Bool × Bool × Option Resume × List (Nat × Rat) :=
  let overOrphans : Int := (lines.length : Int) - (st.orphans : Int)
  if overOrphans < 0 && !pageIsEmpty then (true, false, resume, lines)
  else
    let needed0 : Nat := st.widows - 1
    -- `for _ in lines_iterator: needed -= 1; if needed == 0: break`
    let remaining : Nat := n - 1 - i
    let needed : Nat := if needed0 = 0 then 0 else needed0 - min needed0 remaining
    if (needed : Int) > overOrphans && !pageIsEmpty then (true, false, resume, lines)
    else
      let lines' := if needed ≠ 0 && (needed : Int) ≤ overOrphans
        then lines.take (lines.length - needed) else lines
      (false, true, some (.node 0 skip), lines')

/-- The `for i, (line, resume_at) in enumerate(lines_iterator)` loop of `_linebox_layout`.
`y0` is the y of line `k` as computed by `iter_line_boxes` (never updated by the translation of the
first line). `fuel` = number of lines still to produce. -/
def lineLoop (c : Ctx) (st : PStyle) (b : BoxSt) (n : Nat) (lineH : Rat) (pageIsEmpty : Bool) (bs : Rat)
    : (fuel : Nat) → (i : Nat) → (y : Rat) → LineLoop → LineOutcome
  | 0, _, _, s => .done s
  | fuel + 1, i, y, s =>
    let resume := lineResume n i
    let newPosY := y + lineH
    let dbd := s.dbd || resume.isNone
    let offset := if dbd then b.bb + b.pb else 0
    let overflow := (!s.lines.isEmpty || !pageIsEmpty) && c.overflowsPage bs (newPosY + offset)
    if overflow then
      let (abort, stop, r, lines') := breakLine st n i s.lines pageIsEmpty s.skip resume
      .broke abort stop r { s with lines := lines', dbd := dbd }
    else
      let shift := pageIsEmpty && c.overflowsPage bs newPosY
      let newPosY' := if shift then newPosY - s.mt else newPosY
      let lineY := if shift then y - s.mt else y
      let mt' := if shift then 0 else s.mt
      lineLoop c st b n lineH pageIsEmpty bs fuel (i + 1) (y + lineH)
        { lines := s.lines ++ [(i, lineY)], posY := newPosY', skip := resume, mt := mt', dbd := dbd }

structure LineResult where
  abort : Bool
  stop : Bool
  resume : Option Resume
  posY : Rat
  lines : List (Nat × Rat)
  mt : Rat
  dbd : Bool
  deriving Repr, Inhabited

/-- First line not yet emitted, as encoded in the paragraph's `skip_stack`. -/
def skipLine : Option Resume → Nat
  | some (.line k) => k
  | _ => 0

/-- `skip, = skip_stack.keys()` (0 when there is no skip stack). -/
def skipIdxOf : Option Resume → Nat
  | some (.node i _) => i
  | _ => 0

/-- `skip_stack = skip_stack[skip]` (the sub-stack handed to the first visited child). -/
def subSkipOf : Option Resume → Option Resume
  | some (.node _ sub) => sub
  | _ => none

/-- `if adjoining_margins: position_y += collapse_margin(adjoining_margins)` -/
def lineStart (adj : List Rat) (posY : Rat) : Rat :=
  if adj.isEmpty then posY else posY + collapseMargin adj

/-- The line loop of `_linebox_layout`, started at the resume position. -/
def lineboxLoop (c : Ctx) (st : PStyle) (b : BoxSt) (n : Nat) (lineH : Rat) (pageIsEmpty : Bool)
    (adj : List Rat) (bs : Rat) (posY : Rat) (skip : Option Resume) (dbd : Bool) : LineOutcome :=
  lineLoop c st b n lineH pageIsEmpty bs (n - skipLine skip) (skipLine skip) (lineStart adj posY)
    { lines := [], posY := lineStart adj posY, skip := skip, mt := b.mt, dbd := dbd }

/-- `if new_children: resume_at = {index: new_children[-1].resume_at}` -/
def lastLineResume (n : Nat) (lines : List (Nat × Rat)) (resume : Option Resume) : Option Resume :=
  match lines.getLast? with
  | some (i, _) => some (Resume.node 0 (lineResume n i))
  | none => resume

/-- `_linebox_layout` for the single line box of a paragraph (index 0). -/
def lineboxLayout (c : Ctx) (st : PStyle) (b : BoxSt) (n : Nat) (lineH : Rat) (pageIsEmpty : Bool)
    (adj : List Rat) (bs : Rat) (posY : Rat) (skip : Option Resume) (dbd : Bool) : LineResult :=
  match lineboxLoop c st b n lineH pageIsEmpty adj bs posY skip dbd with
  | .done s =>
    { abort := false, stop := false, resume := lastLineResume n s.lines none, posY := s.posY,
      lines := s.lines, mt := s.mt, dbd := s.dbd }
  | .broke a st' r s =>
    { abort := a, stop := st', resume := lastLineResume n s.lines r, posY := s.posY,
      lines := s.lines, mt := s.mt, dbd := s.dbd }

/-! ### `find_earlier_page_break` -/

def avoidsPage (v : Brk) : Bool := avoids false v
def forcesPage (v : Brk) : Bool := forces false v

structure EarlierState where
  found : Option (List Frag × Resume)
  prev : Option Frag
  deriving Inhabited

/-- `new_child.remove_decoration(start=False, end=True)` on the box rebuilt by `find_earlier_page_break`
(`_reset_spacing('bottom')`: bottom margin, padding and border become 0 unless `box-decoration-break: clone`). -/
def Geo.cutBottom (st : PStyle) (g : Geo) : Geo :=
  if st.clone then g else { g with mb := 0, pb := 0, bb := 0 }

/-- The same on a fragment (the box `find_earlier_page_break` has just rebuilt with `copy_with_children`). -/
def Frag.cutEnd : Frag → Frag
  | .para id idx st n g lines => .para id idx st n (g.cutBottom st) lines
  | .block id idx st g kids => .block id idx st (g.cutBottom st) kids

/-- The line-box case of `find_earlier_page_break` (orphans / widows), on a paragraph fragment. -/
def findEarlierPara (id idx : Nat) (st : PStyle) (n : Nat) (g : Geo) (lines : List (Nat × Rat))
    : Option (Frag × Resume) :=
  if lines.isEmpty then none
  else
    let index : Int := (lines.length : Int) - (st.widows : Int)
    if index < (st.orphans : Int) then none
    else
      let kept := lines.take index.toNat
      match kept.getLast? with
      | some (i, _) => some (.para id idx st n g kept, .node 0 (lineResume n i))
      | none => none

mutual
/-- The reversed loop of `find_earlier_page_break(children)` for block children, written as a right
fold: `findEarlierGo (x :: xs)` first processes `xs` (the later siblings). -/
def findEarlierGo : List Frag → EarlierState
  | [] => { found := none, prev := none }
  | x :: xs =>
    let s := findEarlierGo xs
    match s.found with
    | some (kept, r) => { found := some (x :: kept, r), prev := s.prev }
    | none =>
      let pb := breakBetweenFrags x s.prev
      let breakAfter : Option Frag := match s.prev with
        | some p => if !avoidsPage pb then some p else none
        | none => none
      match breakAfter with
      | some p =>
        -- break after x: new_children = children[:index+1], resume = {children[index+1].index: None}
        { found := some ([x], .node p.idx none), prev := s.prev }
      | none =>
        -- previous_in_flow = child; then look inside the child
        if !avoidsPage x.st.brkInside then
          match findEarlierFrag x with
          -- new_child = child.copy_with_children(new_grand_children); new_child.remove_decoration(end=True)
          | some (x', r) => { found := some ([x'.cutEnd], .node x.idx (some r)), prev := some x }
          | none => { found := none, prev := some x }
        else { found := none, prev := some x }
/-- `find_earlier_page_break(child.children)` + `child.copy_with_children(new_grand_children)` (the caller,
`findEarlierGo`, then removes the bottom decoration of the copy). -/
def findEarlierFrag : Frag → Option (Frag × Resume)
  | .para id idx st n g lines => findEarlierPara id idx st n g lines
  | .block id idx st g kids =>
    match (findEarlierGo kids).found with
    | some (kids', r) => some (.block id idx st g kids', r)
    | none => none
end

/-- `find_earlier_page_break(children)` for a list of block fragments. -/
def findEarlierList (kids : List Frag) : Option (List Frag × Resume) := (findEarlierGo kids).found

/-! ### block containers -/

inductive AdjOut where
  | alias               -- the returned list is the object that was passed in
  | fresh (l : List Rat)
  deriving Repr, Inhabited

/-- Result of `block_level_layout`. -/
structure LayoutResult where
  frag : Option Frag
  resume : Option Resume
  nextPage : NextPage
  adj : AdjOut
  collapsingThrough : Bool
  adjL : List Rat          -- final content of the list object passed in
  deriving Inhabited

/-- State of the children loop of `block_container_layout`. -/
structure KidsLoop where
  newChildren : List Frag
  posY : Rat
  adjL : List Rat          -- content of the object passed to this box (`this_box_adjoining_margins`)
  cur : List Rat           -- content of the `adjoining_margins` variable
  curIsL : Bool            -- … which is the same object as `adjL`
  nextPage : NextPage
  skip : Option Resume     -- `skip_stack` for the first visited child, then None
  deriving Inhabited

inductive KidsOutcome where
  | finished (s : KidsLoop)                                  -- loop exhausted
  | aborted (page : String) (s : KidsLoop)
  | stopped (resume : Option Resume) (s : KidsLoop)
  deriving Inhabited

def KidsLoop.setCur (s : KidsLoop) (l : List Rat) (isL : Bool) : KidsLoop :=
  if isL then { s with cur := l, adjL := l, curIsL := true } else { s with cur := l, curIsL := false }

/-- Append to the `adjoining_margins` variable (mutating the shared object when it is one). -/
def KidsLoop.appendCur (s : KidsLoop) (m : Rat) : KidsLoop :=
  if s.curIsL then { s with cur := s.cur ++ [m], adjL := s.cur ++ [m] } else { s with cur := s.cur ++ [m] }

def geoOf (b : BoxSt) (h : Rat) : Geo :=
  { y := b.y, mt := b.mt, mb := b.mb, pt := b.pt, pb := b.pb, bt := b.bt, bb := b.bb, h := h }

def Geo.contentBoxY (g : Geo) : Rat := g.y + g.mt + g.bt + g.pt
def Geo.borderBoxY (g : Geo) : Rat := g.y + g.mt
def Geo.borderHeight (g : Geo) : Rat := g.h + g.pt + g.pb + g.bt + g.bb

/-- Used geometry, returned `adjoining_margins` and `collapsing_through` computed by the tail of
`block_container_layout`. -/
structure FinishTail where
  geo : Geo
  adj : AdjOut
  through : Bool
  deriving Inhabited

/-- The tail of `block_container_layout`, after the children loop (the box is kept): margins after the
last child / of an empty box, decoration removal, used height.
`b` = used values of `box` at that point, `bs` = local `bottom_space`, `posY`, `cur` = loop results. -/
def finishTail (c : Ctx) (st : PStyle) (b : BoxSt) (bs : Rat)
    (cwc : Bool) (dbd : Bool) (resume : Option Resume) (posY : Rat) (adjL : List Rat) (cur : List Rat)
    (curIsL : Bool) (hasKids : Bool) : FinishTail :=
  let fragmented := resume.isSome
  let b := if cwc then { b with y := b.y + collapseMargin adjL - b.mt } else b
  -- margins after the last child / of an empty box
  let (posY, cur, curIsL, through) :=
    if !hasKids then
      let cm := collapseMargin cur
      if (st.height = none || st.height = some 0) && st.minH = 0 && b.bt = 0 && b.pt = 0 && b.bb = 0 && b.pb = 0
      then (posY, cur, curIsL, true)
      else (posY + cm, ([] : List Rat), false, false)
    else if st.height ≠ none then (posY, ([] : List Rat), false, false)
    else (posY, cur, curIsL, false)
  let (posY, cur, curIsL) :=
    if b.bb ≠ 0 || b.pb ≠ 0 || st.isRoot then (posY + collapseMargin cur, ([] : List Rat), false)
    else (posY, cur, curIsL)
  -- new_box.remove_decoration(start=not is_start, end=box_is_fragmented and not discard)
  let nb : BoxSt := if !st.clone && fragmented then { b with mb := 0, pb := 0, bb := 0 } else b
  let contentY := nb.y + nb.mt + nb.bt + nb.pt
  let h0 : Rat := match st.height with | none => posY - contentY | some h => h
  let h : Rat :=
    if !fragmented then
      let capped := match st.maxH with | none => h0 | some m => if h0 ≤ m then h0 else m
      if capped ≥ st.minH then capped else st.minH
    else
      let newH := c.pageBottom - bs - nb.y - (nb.mt + nb.mb + nb.bt + nb.bb + nb.pt + nb.pb)
      if newH > h0 then (if dbd then newH + (b.pb + b.bb + b.mb) else newH) else h0
  { geo := geoOf nb h, adj := if curIsL then .alias else .fresh cur, through := through }

/-- The end of `block_container_layout`: a fragmented box that must not be is dropped (`None`), else
the new box with its used geometry is returned. -/
def finishContainer (c : Ctx) (st : PStyle) (b : BoxSt) (_isStart : Bool) (pageIsEmpty : Bool) (bs : Rat)
    (cwc : Bool) (dbd : Bool) (resume : Option Resume) (posY : Rat) (adjL : List Rat) (cur : List Rat)
    (curIsL : Bool) (nextPage : NextPage) (hasKids : Bool) (pageEnd : String)
    (mk : Geo → Frag) : LayoutResult :=
  if resume.isSome && avoidsPage st.brkInside && !pageIsEmpty then
    { frag := none, resume := none, nextPage := { brk := none, page := none }, adj := .fresh [],
      collapsingThrough := false, adjL := adjL }
  else
    let t := finishTail c st b bs cwc dbd resume posY adjL cur curIsL hasKids
    let np : NextPage := match nextPage.page with
      | none => { nextPage with page := some pageEnd }
      | some _ => nextPage
    { frag := some (mk t.geo), resume := resume, nextPage := np,
      adj := t.adj, collapsingThrough := t.through, adjL := adjL }

/-- The beginning of `block_level_layout` / `block_container_layout`, before the children loop:
margin truncation after an unforced break, decoration removal on resumed boxes, `bottom_space`
enlarged for cloned decorations, the box's top margin appended to the shared list, initial
position. -/
structure Prep where
  b : BoxSt
  bs : Rat
  adjL : List Rat
  cwc : Bool               -- collapsing_with_children
  cur : List Rat
  curIsL : Bool
  posY : Rat
  dbd : Bool               -- draw_bottom_decoration
  isStart : Bool
  deriving Inhabited

def prepare (c : Ctx) (st : PStyle) (y : Rat) (bs : Rat) (skip : Option Resume) (cbIsRoot : Bool)
    (pageIsEmpty : Bool) (adjL : List Rat) : Prep :=
  -- resolve_percentages + margin truncation after an unforced break
  let mt0 := if c.currentPage > 1 && pageIsEmpty && (cbIsRoot || !adjL.isEmpty) && !c.forcedBreak then 0 else st.mt
  let isStart := skip.isNone
  let b : BoxSt := { y := y, mt := mt0, mb := st.mb, pt := st.pt, pb := st.pb, bt := st.bt, bb := st.bb }
  let b := if !st.clone && !isStart then { b with mt := 0, pt := 0, bt := 0 } else b
  let dbd := st.clone
  let bs := if dbd then bs + (b.pb + b.bb + b.mb) else bs
  let adjL := adjL ++ [b.mt]
  let cwc := !(b.bt ≠ 0 || b.pt ≠ 0 || st.isRoot)
  if cwc then
    { b := b, bs := bs, adjL := adjL, cwc := true, cur := adjL, curIsL := true, posY := b.y, dbd := dbd,
      isStart := isStart }
  else
    let b' := { b with y := b.y + collapseMargin adjL - b.mt }
    { b := b', bs := bs, adjL := adjL, cwc := false, cur := [], curIsL := false,
      posY := b'.y + b'.mt + b'.bt + b'.pt, dbd := dbd, isStart := isStart }

/-- "Box height is fixed and it doesn't overflow page, forget overflowing children." -/
def forgetIfFixed (st : PStyle) (b : BoxSt) (posY : Rat) (resume : Option Resume) : Option Resume :=
  match st.height with
  | some h => if overflows (b.y + (h + b.pt + b.pb + b.bt + b.bb)) posY then none else resume
  | none => resume

def abortResult (page : Option String) (adjL : List Rat) : LayoutResult :=
  { frag := none, resume := none, nextPage := { brk := none, page := page }, adj := .fresh [],
    collapsingThrough := false, adjL := adjL }

/-- Paragraph container, after `_linebox_layout` returned `r`. -/
def finishPara (c : Ctx) (st : PStyle) (p : Prep) (pageIsEmpty : Bool) (id idx n : Nat) (r : LineResult)
    : LayoutResult :=
  let b := { p.b with mt := r.mt }
  let dbd := p.dbd || r.resume.isNone
  if r.abort then abortResult (some st.page) p.adjL
  else
    let resume : Option Resume := if r.stop then forgetIfFixed st b r.posY r.resume else none
    finishContainer c st b p.isStart pageIsEmpty p.bs p.cwc dbd resume r.posY p.adjL [] false
      { brk := none, page := none } (!r.lines.isEmpty) st.page
      (fun g => .para id idx st n g r.lines)

def pageEndOf (st : PStyle) (kids : List Frag) : String :=
  let e := fragPageEndLast kids; if e = "" then st.page else e

/-- Block container, after the children loop returned `out`. -/
def finishBlock (c : Ctx) (st : PStyle) (p : Prep) (pageIsEmpty : Bool) (id idx : Nat) (out : KidsOutcome)
    : LayoutResult :=
  match out with
  | .aborted page s => abortResult (some page) s.adjL
  | .stopped resume s =>
    finishContainer c st p.b p.isStart pageIsEmpty p.bs p.cwc p.dbd (forgetIfFixed st p.b s.posY resume)
      s.posY s.adjL [] false s.nextPage (!s.newChildren.isEmpty) (pageEndOf st s.newChildren)
      (fun g => .block id idx st g s.newChildren)
  | .finished s =>
    finishContainer c st p.b p.isStart pageIsEmpty p.bs p.cwc p.dbd none s.posY s.adjL s.cur s.curIsL s.nextPage
      (!s.newChildren.isEmpty) (pageEndOf st s.newChildren)
      (fun g => .block id idx st g s.newChildren)

/-- `_in_flow_layout`, part 1: the break between the last laid-out child and `child`.
Returns the resolved break value and whether a new page is forced here. -/
def meetBreak (s : KidsLoop) (child : PBox) : Brk × Bool :=
  match s.newChildren.getLast? with
  | none => (.auto, false)
  | some l =>
    let pb := breakBetween l child
    let before := fragPageEnd l
    let after := boxPageStart child
    let named := before ≠ after && after ≠ ""
    (pb, named || forcesPage pb)

/-- What `_in_flow_layout` does with the result of the first `block_level_layout(child)`. -/
inductive FirstPass where
  | keep (frag : Option Frag) (posY : Rat)     -- final child (or none), new `position_y`
  | redo (bs' : Rat)                           -- border/padding overflows: lay out again
  deriving Inhabited

def firstPass (c : Ctx) (bs : Rat) (pienc : Bool) (posY : Rat) (r : LayoutResult) : FirstPass :=
  match r.frag with
  | none => .keep none posY
  | some f =>
    if r.collapsingThrough then .keep (some f) posY
    else
      let g := f.geo
      let canBreak := !pienc
      if canBreak && c.overflowsPage bs (g.contentBoxY + g.h) then .keep none posY
      else if canBreak && c.overflowsPage bs (g.borderBoxY + g.borderHeight) then .redo (bs + (g.pb + g.bb))
      else .keep (some f) (g.borderBoxY + g.borderHeight)

/-- `adjoining_margins = next_adjoining_margins; if new_child: append(new_child.margin_bottom)`;
only when the *first* returned child was not None (`hadFrag`). -/
def KidsLoop.adoptAdj (s : KidsLoop) (hadFrag : Bool) (adj : AdjOut) (frag : Option Frag) : KidsLoop :=
  if !hadFrag then s
  else
    let s := match adj with
      | .alias => s
      | .fresh l => s.setCur l false
    match frag with
    | some f => s.appendCur f.geo.mb
    | none => s

/-- The end of `_in_flow_layout`: nothing fits → earlier break / abort / stop; else append. `none` = continue. -/
def concludeKid (index : Nat) (pageIsEmpty : Bool) (pb : Brk) (child : PBox) (s : KidsLoop)
    (frag : Option Frag) (resume : Option Resume) : Option KidsOutcome × KidsLoop :=
  match frag with
  | none =>
    let earlier := if avoidsPage pb then findEarlierList s.newChildren else none
    match earlier with
    | some (kept, r') => (some (.stopped (some r') { s with newChildren := kept }), s)
    | none =>
      if avoidsPage pb && !pageIsEmpty then (some (.aborted (boxPageStart child) s), s)
      else if !s.newChildren.isEmpty then (some (.stopped (some (.node index none)) s), s)
      else (some (.aborted (boxPageStart child) s), s)
  | some f =>
    let s := { s with newChildren := s.newChildren ++ [f.withIdx index] }
    match resume with
    | some r' => (some (.stopped (some (.node index (some r'))) s), s)
    | none => (none, s)

mutual

/-- `block_level_layout` (+ `block_box_layout`, `block_container_layout`). `y` is `box.position_y` as set
by the parent, `cbIsRoot` is `containing_block.is_for_root_element`, `adjL` the content of the passed
`adjoining_margins` object. -/
def layoutBox (c : Ctx) (box : PBox) (idx : Nat) (y : Rat) (bs : Rat) (skip : Option Resume) (cbIsRoot : Bool)
    (pageIsEmpty : Bool) (adjL : List Rat) : LayoutResult :=
  match box with
  | .para id n lineH st =>
    let p := prepare c st y bs skip cbIsRoot pageIsEmpty adjL
    let lineSkip : Option Resume := subSkipOf skip
    finishPara c st p pageIsEmpty id idx n
      (lineboxLayout c st p.b n lineH pageIsEmpty p.cur p.bs p.posY lineSkip p.dbd)
  | .block id st kids =>
    let p := prepare c st y bs skip cbIsRoot pageIsEmpty adjL
    let skipIdx := skipIdxOf skip
    let subSkip : Option Resume := subSkipOf skip
    finishBlock c st p pageIsEmpty id idx
      (layoutKids c st kids 0 skipIdx p.bs pageIsEmpty
        { newChildren := [], posY := p.posY, adjL := p.adjL, cur := p.cur, curIsL := p.curIsL,
          nextPage := { brk := none, page := none }, skip := subSkip })

/-- The `for index, child in enumerate(box.children[skip:], start=skip)` loop for block children,
each iteration being `_in_flow_layout`. -/
def layoutKids (c : Ctx) (st : PStyle) : List PBox → (index : Nat) → (skipIdx : Nat) → (bs : Rat) →
    (pageIsEmpty : Bool) → KidsLoop → KidsOutcome
  | [], _, _, _, _, s => .finished s
  | child :: rest, index, skipIdx, bs, pageIsEmpty, s =>
    if index < skipIdx then layoutKids c st rest (index + 1) skipIdx bs pageIsEmpty s
    else
      let mb := meetBreak s child
      if mb.2 then
        .stopped (some (.node index none))
          { s with nextPage := { brk := some mb.1, page := some (boxPageStart child) } }
      else
        let pienc := pageIsEmpty && s.newChildren.isEmpty
        let r := layoutBox c child index s.posY bs s.skip st.isRoot pienc s.cur
        let s1 := s.setCur r.adjL s.curIsL
        match firstPass c bs pienc s.posY r with
        | .keep frag posY =>
          let s2 := { s1.adoptAdj r.frag.isSome r.adj frag with posY := posY, nextPage := r.nextPage, skip := none }
          match concludeKid index pageIsEmpty mb.1 child s2 frag r.resume with
          | (some out, _) => out
          | (none, s3) => layoutKids c st rest (index + 1) skipIdx bs pageIsEmpty s3
        | .redo bs' =>
          let r2 := layoutBox c child index s.posY bs' s.skip st.isRoot pienc s1.cur
          let s1' := s1.setCur r2.adjL s1.curIsL
          let posY := match r2.frag with
            | some f2 => f2.geo.borderBoxY + f2.geo.borderHeight
            | none => s.posY
          let s2 := { s1'.adoptAdj true r2.adj r2.frag with posY := posY, nextPage := r2.nextPage, skip := none }
          match concludeKid index pageIsEmpty mb.1 child s2 r2.frag r2.resume with
          | (some out, _) => out
          | (none, s3) => layoutKids c st rest (index + 1) skipIdx bs pageIsEmpty s3

end


/-! ### pages -/

structure PageType where
  right : Bool
  blank : Bool
  name : String
  index : Nat
  deriving Repr, Inhabited, BEq

structure Page where
  type : PageType
  root : Frag
  resume : Option Resume       -- page_maker[index + 1].resume_at
  nextPage : NextPage          -- page_maker[index + 1].next_page
  deriving Inhabited

structure Doc where
  pageH : Rat
  rootLtr : Bool
  root : PBox
  deriving Inhabited

/-- `initialize_page_maker`: is the first page a right page? -/
def firstRight (d : Doc) : Bool :=
  match d.root.st.brkBefore with
  | .right => true
  | .left => false
  | .recto => d.rootLtr
  | .verso => !d.rootLtr
  | _ => d.rootLtr

def emptyRoot : PBox → PBox
  | .para id _ lineH st => .para id 0 lineH st
  | .block id st _ => .block id st []

/-- Requested side of a pending break (`remake_page`): `some true` = right page. -/
def requestedSide (ltr : Bool) : Option Brk → Option Bool
  | some .left => some false
  | some .right => some true
  | some .recto => some ltr
  | some .verso => some (!ltr)
  | _ => none

/-- `blank = (next_page_side == 'left' and right_page) or (next_page_side == 'right' and not right_page)` -/
def isBlank (side : Option Bool) (rightPage : Bool) : Bool :=
  (side == some false && rightPage) || (side == some true && !rightPage)

/-- `context.forced_break = (next_page['break'] != 'any' or next_page['page'])` -/
def forcedBreakOf (np : NextPage) : Bool :=
  np.brk.isSome || (match np.page with | some p => p ≠ "" | none => false)

/-- `remake_page` + `make_page` for page `index` (0-based). -/
def remakePage (d : Doc) (index : Nat) (resume : Option Resume) (nextPage : NextPage) (rightPage : Bool)
    : Option Page :=
  let blank := isBlank (requestedSide d.rootLtr nextPage.brk) rightPage
  let name := if blank then "" else (match nextPage.page with | some p => p | none => "")
  let c : Ctx := { pageBottom := d.pageH, currentPage := index + 1, forcedBreak := forcedBreakOf nextPage }
  let root := if blank then emptyRoot d.root else d.root
  match (layoutBox c root 0 0 0 resume false true []).frag with
  | none => none      -- `assert root_box`
  | some f =>
    let r := layoutBox c root 0 0 0 resume false true []
    some { type := { right := rightPage, blank := blank, name := name, index := index },
           root := f, resume := if blank then resume else r.resume,
           nextPage := if blank then nextPage else r.nextPage }

/-- `make_all_pages` with fuel; `none` = `assert root_box` failed or fuel exhausted. -/
def makeAllPages (d : Doc) : (fuel : Nat) → (index : Nat) → Option Resume → NextPage → Bool → Option (List Page)
  | 0, _, _, _, _ => none
  | fuel + 1, index, resume, nextPage, rightPage =>
    match remakePage d index resume nextPage rightPage with
    | none => none
    | some p =>
      match p.resume with
      | none => some [p]
      | some _ =>
        match makeAllPages d fuel (index + 1) p.resume p.nextPage (!rightPage) with
        | some ps => some (p :: ps)
        | none => none

def paginate (d : Doc) (fuel : Nat) : Option (List Page) :=
  makeAllPages d fuel 0 none { brk := none, page := some (boxPageStart d.root) } (firstRight d)

end Wp.PM
