/-
Model of the `/Dests` name array built at the end of `weasyprint/pdf/__init__.py::generate_pdf`:
`for anchor in sorted(pdf_names): name_array.append(pydyf.String(anchor[0])); name_array.append(anchor[1])`,
with `pydyf.String.data` for the keys (ASCII text → literal string; anything else → `<FEFF…>` UTF-16BE).
A Python `str` is the list of its code points; Python compares `str` (and the byte strings a PDF reader compares)
lexicographically.  No Mathlib.
-/
import WpModel.Model.Wire

namespace Wp.PdfNames

abbrev PyStr := List Nat

/-- Lexicographic `<` of Python sequences of integers (code points or bytes). -/
def lexLt : List Nat → List Nat → Bool
  | [], [] => false
  | [], _ :: _ => true
  | _ :: _, [] => false
  | a :: as, b :: bs => a < b || (a == b && lexLt as bs)

def lexLe (a b : List Nat) : Bool := !lexLt b a

/-- `sorted(...)` on the names (insertion into a sorted list; equal names keep their order: Python's sort is stable). -/
def insertName : PyStr → List PyStr → List PyStr
  | x, [] => [x]
  | x, y :: ys => if lexLt x y then x :: y :: ys else y :: insertName x ys

def pySorted : List PyStr → List PyStr
  | [] => []
  | x :: xs => insertName x (pySorted xs)

def isAscii (s : PyStr) : Bool := s.all (· < 128)

/-- UTF-16BE bytes of one code point. -/
def utf16be (c : Nat) : List Nat :=
  if c < 0x10000 then [c / 256, c % 256]
  else
    let v := c - 0x10000
    let hi := 0xD800 + v / 1024
    let lo := 0xDC00 + v % 1024
    [hi / 256, hi % 256, lo / 256, lo % 256]

/-- The bytes of the PDF string object `pydyf.String(name)` denotes (what a reader compares when it searches the name
tree): the ASCII text itself, or BOM + UTF-16BE. -/
def keyBytes (s : PyStr) : List Nat :=
  if isAscii s then s else 0xFE :: 0xFF :: s.flatMap utf16be

/-- Keys of the `/Names` array, in array order. -/
def destKeys (names : List PyStr) : List (List Nat) := (pySorted names).map keyBytes

/-- Adjacent elements in order. -/
def sortedBy (le : List Nat → List Nat → Bool) : List (List Nat) → Bool
  | [] => true
  | [_] => true
  | a :: b :: rest => le a b && sortedBy le (b :: rest)

end Wp.PdfNames
