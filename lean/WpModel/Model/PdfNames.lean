/-
Model of the `/Dests` name array built at the end of `weasyprint/pdf/__init__.py::generate_pdf` (as repaired):
`for anchor in sorted(pdf_names, key=key_bytes): name_array.append(pydyf.String(anchor[0])); name_array.append(anchor[1])`
where `key_bytes(anchor)` is `name.encode('ascii')` for an ASCII name and `BOM_UTF16_BE + name.encode('utf-16-be')`
otherwise — the bytes `pydyf.String.data` denotes for the key (ASCII text → literal string; anything else →
`<FEFF…>` UTF-16BE).  A Python `str` is the list of its code points; Python compares `str` and `bytes` (and a PDF reader
the keys of a name tree) lexicographically.  `sorted(..., key=…)` is stable.  No Mathlib.
-/
import WpModel.Model.Wire

namespace Wp.PdfNames

abbrev PyStr := List Nat

/-- Lexicographic `<` of Python sequences of integers (code points or bytes). -/
def lexLt : List Nat → List Nat → Bool
  | [], [] => false
  | [], _ :: _ => true
  | _ :: _, [] => false
  | a :: as, b :: bs => a < b || (a == b && lexLt as bs)

def lexLe (a b : List Nat) : Bool := !lexLt b a

/-- `sorted(...)` on the names (insertion into a sorted list; equal names keep their order: Python's sort is stable). -/
def insertName : PyStr → List PyStr → List PyStr
  | x, [] => [x]
  | x, y :: ys => if lexLt x y then x :: y :: ys else y :: insertName x ys

def pySorted : List PyStr → List PyStr
  | [] => []
  | x :: xs => insertName x (pySorted xs)

def isAscii (s : PyStr) : Bool := s.all (· < 128)

/-- UTF-16BE bytes of one code point. -/
def utf16be (c : Nat) : List Nat :=
  if c < 0x10000 then [c / 256, c % 256]
  else
    let v := c - 0x10000
    let hi := 0xD800 + v / 1024
    let lo := 0xDC00 + v % 1024
    [hi / 256, hi % 256, lo / 256, lo % 256]

/-- The bytes of the PDF string object `pydyf.String(name)` denotes (what a reader compares when it searches the name
tree): the ASCII text itself, or BOM + UTF-16BE. -/
def keyBytes (s : PyStr) : List Nat :=
  if isAscii s then s else 0xFE :: 0xFF :: s.flatMap utf16be

/-- `sorted(xs, key=key)`: stable insertion by `lexLt` on the keys. -/
def insertBy (key : PyStr → List Nat) : PyStr → List PyStr → List PyStr
  | x, [] => [x]
  | x, y :: ys => if lexLt (key x) (key y) then x :: y :: ys else y :: insertBy key x ys

def pySortedBy (key : PyStr → List Nat) : List PyStr → List PyStr
  | [] => []
  | x :: xs => insertBy key x (pySortedBy key xs)

/-- The anchor names in the order of the `/Names` array: `sorted(pdf_names, key=key_bytes)`. -/
def destOrder (names : List PyStr) : List PyStr := pySortedBy keyBytes names

/-- Keys of the `/Names` array, in array order. -/
def destKeys (names : List PyStr) : List (List Nat) := (destOrder names).map keyBytes

/-- The order before the repair (`sorted(pdf_names)`: Python `str` order of the names), kept for the regression
example of the fixed finding `dests-names-unsorted`. -/
def destKeysStrOrder (names : List PyStr) : List (List Nat) := (pySorted names).map keyBytes

/-! ### The `/EmbeddedFiles` name array (as repaired: sorted by the bytes of the file names)

`for pdf_attachment in sorted(pdf_attachments, key=lambda attachment: attachment['F'].string)` where
`attachment['F'] = pydyf.String(filename.encode(errors='ignore'))`: the key of the tree is the file name (UTF-8 bytes)
and so is the sort key (before the repair it was the serialised form `pydyf.String.data`, kept below as
`embeddedKeysWrittenOrder` for the regression example of the fixed finding). -/

/-- `pydyf.String(b).data` for a bytes value: `(` + the bytes with `\`, `(`, `)` escaped by a backslash + `)`. -/
def litData (s : List Nat) : List Nat :=
  40 :: s.flatMap (fun b => if b = 92 ∨ b = 40 ∨ b = 41 then [92, b] else [b]) ++ [41]

/-- Keys of the `/Names` array of `/EmbeddedFiles` (the file names as bytes), in array order. -/
def embeddedKeys (names : List (List Nat)) : List (List Nat) := pySortedBy (fun n => n) names

/-- The order before the repair: sorted by the written form of the keys. -/
def embeddedKeysWrittenOrder (names : List (List Nat)) : List (List Nat) := pySortedBy litData names

/-- Adjacent elements in order. -/
def sortedBy (le : List Nat → List Nat → Bool) : List (List Nat) → Bool
  | [] => true
  | [_] => true
  | a :: b :: rest => le a b && sortedBy le (b :: rest)

end Wp.PdfNames
