/-
Mirror of `pydyf.String.data` (how WeasyPrint's metadata, outline titles, link targets and destination
names reach the file) and a reader of PDF string objects (ISO 32000-1 7.3.4.2 literal strings,
7.3.4.3 hexadecimal strings, 7.9.2.2 text strings: UTF-16BE with byte-order mark, else one byte per
character).  Strings are lists of code points, bytes are lists of naturals < 256.
No Mathlib: linked into the driver.
-/
import WpModel.Model.Wire

namespace Wp.PdfStr
open Wp

/-- UTF-16BE code units of a scalar value, as bytes. -/
def utf16be (c : Nat) : List Nat :=
  if c < 65536 then [c / 256, c % 256]
  else
    let v := c - 65536
    let hi := 55296 + v / 1024
    let lo := 56320 + v % 1024
    [hi / 256, hi % 256, lo / 256, lo % 256]

def isSurrogate (c : Nat) : Bool := 55296 ≤ c && c < 57344

/-- `re.sub(rb'([\\\(\)])', rb'\\\1', …)`: backslash, `(` and `)` get a backslash. -/
def escapeLit : List Nat → List Nat
  | [] => []
  | b :: rest => if b == 92 || b == 40 || b == 41 then 92 :: b :: escapeLit rest else b :: escapeLit rest

def hexDigit (n : Nat) : Nat := if n < 10 then 48 + n else 87 + n      -- '0'..'9', 'a'..'f'

/-- `bytes.hex()`. -/
def hexBytes : List Nat → List Nat
  | [] => []
  | b :: rest => hexDigit (b / 16) :: hexDigit (b % 16) :: hexBytes rest

/-- `pydyf.String(s).data`: ASCII → literal string, otherwise (`UnicodeEncodeError` of
`str.encode('ascii')`) BOM + UTF-16BE as a hexadecimal string.  A lone surrogate cannot be encoded
by `'utf-16-be'` either: that `UnicodeEncodeError` escapes. -/
def encode (s : List Nat) : Except PyErr (List Nat) :=
  if s.all (· < 128) then .ok (40 :: (escapeLit s ++ [41]))
  else if s.any isSurrogate then .error (.valueError "UnicodeEncodeError")
  else .ok (60 :: (hexBytes (254 :: 255 :: s.flatMap utf16be) ++ [62]))

/-! ## reading -/

def isOct (b : Nat) : Bool := 48 ≤ b && b < 56

/-- Scanner state inside a literal string. -/
inductive LitState where
  | normal
  | esc                    -- after a backslash
  | oct1 (v : Nat)         -- after `\d`
  | oct2 (v : Nat)         -- after `\dd`
  | cr                     -- after an unescaped CR (already read as LF): a following LF belongs to it
  | escCr                  -- after backslash CR (line continuation): a following LF belongs to it
  deriving Repr, DecidableEq

inductive LitStep where
  | cont (st : LitState) (depth : Nat) (acc : List Nat)
  | done (acc : List Nat)

/-- One byte in the normal state: backslash starts an escape, parentheses are counted (balanced ones
are part of the string), an unescaped end-of-line (CR, LF or CR LF) reads as LF. -/
def normalByte (depth : Nat) (acc : List Nat) (b : Nat) : LitStep :=
  if b == 92 then .cont .esc depth acc
  else if b == 40 then .cont .normal (depth + 1) (40 :: acc)
  else if b == 41 then (if depth ≤ 1 then .done acc else .cont .normal (depth - 1) (41 :: acc))
  else if b == 13 then .cont .cr depth (10 :: acc)
  else .cont .normal depth (b :: acc)

/-- The byte after a backslash: `\n \r \t \b \f`, `\ddd` octal, line continuation, otherwise the
backslash is dropped (which covers `\( \) \\`). -/
def escByte (depth : Nat) (acc : List Nat) (b : Nat) : LitStep :=
  if b == 110 then .cont .normal depth (10 :: acc)
  else if b == 114 then .cont .normal depth (13 :: acc)
  else if b == 116 then .cont .normal depth (9 :: acc)
  else if b == 98 then .cont .normal depth (8 :: acc)
  else if b == 102 then .cont .normal depth (12 :: acc)
  else if b == 13 then .cont .escCr depth acc
  else if b == 10 then .cont .normal depth acc
  else if isOct b then .cont (.oct1 (b - 48)) depth acc
  else .cont .normal depth (b :: acc)

def stepByte (st : LitState) (depth : Nat) (acc : List Nat) (b : Nat) : LitStep :=
  match st with
  | .normal => normalByte depth acc b
  | .esc => escByte depth acc b
  | .oct1 v => if isOct b then .cont (.oct2 (v * 8 + (b - 48))) depth acc else normalByte depth (v :: acc) b
  | .oct2 v =>
    if isOct b then .cont .normal depth (((v * 8 + (b - 48)) % 256) :: acc) else normalByte depth (v :: acc) b
  | .cr => if b == 10 then .cont .normal depth acc else normalByte depth acc b
  | .escCr => if b == 10 then .cont .normal depth acc else normalByte depth acc b

/-- Body of a literal string after the opening parenthesis (`depth` = open parentheses, ≥ 1).
Returns the bytes and the rest of the input; `none` when the string is not terminated. -/
def readLit : LitState → Nat → List Nat → List Nat → Option (List Nat × List Nat)
  | _, _, _, [] => none
  | st, depth, acc, b :: rest =>
    match stepByte st depth acc b with
    | .done acc' => some (acc'.reverse, rest)
    | .cont st' depth' acc' => readLit st' depth' acc' rest

def hexVal (b : Nat) : Option Nat :=
  if 48 ≤ b && b < 58 then some (b - 48)
  else if 97 ≤ b && b < 103 then some (b - 87)
  else if 65 ≤ b && b < 71 then some (b - 55)
  else none

def isPdfWs (b : Nat) : Bool := b == 0 || b == 9 || b == 10 || b == 12 || b == 13 || b == 32

/-- Body of a hexadecimal string after `<`: white space ignored, a missing last digit is 0. -/
def readHex : Option Nat → List Nat → List Nat → Option (List Nat × List Nat)
  | _, _, [] => none
  | pending, acc, b :: rest =>
    if b == 62 then
      match pending with
      | none => some (acc.reverse, rest)
      | some h => some ((h * 16 :: acc).reverse, rest)
    else if isPdfWs b then readHex pending acc rest
    else match hexVal b with
      | none => none
      | some v =>
        match pending with
        | none => readHex (some v) acc rest
        | some h => readHex none ((h * 16 + v) :: acc) rest

/-- A string object at the head of the input: its bytes and the rest. -/
def readString : List Nat → Option (List Nat × List Nat)
  | 40 :: rest => readLit .normal 1 [] rest
  | 60 :: rest => readHex none [] rest
  | _ => none

/-- Bytes → 16-bit code units (an odd byte fails). -/
def units : List Nat → Option (List Nat)
  | [] => some []
  | [_] => none
  | a :: b :: rest => (units rest).map (fun t => (a * 256 + b) :: t)

def isHigh (u : Nat) : Bool := 55296 ≤ u && u < 56320
def isLow (u : Nat) : Bool := 56320 ≤ u && u < 57344

/-- Code units → code points: surrogate pairs combined, a lone surrogate fails. -/
def combine : List Nat → Option (List Nat)
  | [] => some []
  | u :: rest =>
    if isHigh u then
      match rest with
      | [] => none
      | l :: rest' =>
        if isLow l then (combine rest').map (fun t => (65536 + (u - 55296) * 1024 + (l - 56320)) :: t) else none
    else if isLow u then none
    else (combine rest).map (fun t => u :: t)

/-- UTF-16BE bytes → code points. -/
def utf16Decode (bytes : List Nat) : Option (List Nat) := (units bytes).bind combine

/-- PDFDocEncoding (Annex D.2) on the bytes `pydyf` can write in a literal string (ASCII): identity
except 0x18–0x1F (spacing diacritics) and 0x7F (undefined).  Bytes ≥ 0x80 are not decoded by this
reader. -/
def pdfDocChar (b : Nat) : Option Nat :=
  if b == 24 then some 728 else if b == 25 then some 711 else if b == 26 then some 710
  else if b == 27 then some 729 else if b == 28 then some 733 else if b == 29 then some 731
  else if b == 30 then some 730 else if b == 31 then some 732
  else if b < 127 then some b else none

def docDecode : List Nat → Option (List Nat)
  | [] => some []
  | b :: rest =>
    match pdfDocChar b, docDecode rest with
    | some c, some t => some (c :: t)
    | _, _ => none

/-- Text string (7.9.2.2): byte-order mark FE FF → UTF-16BE, otherwise PDFDocEncoding. -/
def textOf (bytes : List Nat) : Option (List Nat) :=
  match bytes with
  | 254 :: 255 :: rest => utf16Decode rest
  | _ => docDecode bytes

/-- Read a whole string object as text. -/
def decode (data : List Nat) : Option (List Nat) :=
  match readString data with
  | some (bytes, []) => textOf bytes
  | _ => none

end Wp.PdfStr
