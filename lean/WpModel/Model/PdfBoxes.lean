/-
PDF page boxes: mirror of the per-page part of `generate_pdf` (weasyprint/pdf/__init__.py) that
computes `/MediaBox`, `/TrimBox`, `/BleedBox`, and of `Page.__init__` (`width`, `height`, `bleed`,
weasyprint/document.py) with the computed value of `bleed-*` (`computed_values.bleed`).
`scale = zoom * 0.75`; the bleed used for TrimBox / BleedBox is `bleed * scale` (repaired F15); the
BleedBox lies at most `10 * zoom` points outside the TrimBox (the cap is scaled with zoom, repaired
by d924a7c: before, the cap was the constant 10).
No Mathlib, no Std: linked into the compiled driver.
-/
import WpModel.Model.Wire

namespace Wp.PdfBoxes
open Wp

/-- `Page.bleed`. -/
structure Bleed where
  top : Rat
  right : Rat
  bottom : Rat
  left : Rat
  deriving Repr, DecidableEq, BEq, Inhabited

/-- `computed_values.bleed`: `'auto'` (`none`) is 8px when `marks` contains `crop`, else 0. -/
def computedBleed (v : Len) (crop : Bool) : Rat :=
  match v with
  | none => if crop then 8 else 0
  | some q => q

/-- A PDF rectangle array `[x0 y0 x1 y1]` in the order the code writes it. -/
structure Rect where
  x0 : Rat
  y0 : Rat
  x1 : Rat
  y1 : Rat
  deriving Repr, DecidableEq, BEq, Inhabited

/-- Coordinate-wise scaling of a PDF rectangle (used to state that zoom is a uniform scale). -/
def Rect.scale (k : Rat) (r : Rect) : Rect := ⟨k * r.x0, k * r.y0, k * r.x1, k * r.y1⟩

structure Boxes where
  media : Rect
  trim : Rect
  bleed : Rect
  deriving Repr, DecidableEq, BEq, Inhabited

/-- `scale = zoom * 0.75`. -/
def scaleOf (zoom : Rat) : Rat := zoom * (3 / 4)

/-- The page loop body of `generate_pdf` for one page of size `w × h` (CSS px, margins included). -/
def pageBoxes (w h : Rat) (b : Bleed) (zoom : Rat) : Boxes :=
  let scale := scaleOf zoom
  let pageWidth := scale * (w + b.left + b.right)
  let pageHeight := scale * (h + b.top + b.bottom)
  let left := -scale * b.left
  let top := -scale * b.top
  let right := left + pageWidth
  let bottom := top + pageHeight
  let bl := b.left * scale
  let bt := b.top * scale
  let br := b.right * scale
  let bb := b.bottom * scale
  let trimLeft := left + bl
  let trimTop := top + bt
  let trimRight := right - br
  let trimBottom := bottom - bb
  { media := ⟨left, top, right, bottom⟩
    trim := ⟨trimLeft, trimTop, trimRight, trimBottom⟩
    bleed := ⟨trimLeft - min (10 * zoom) bl, trimTop - min (10 * zoom) bt,
              trimRight + min (10 * zoom) br, trimBottom + min (10 * zoom) bb⟩ }

end Wp.PdfBoxes
