/-
Break values as they reach layout (computed values: `always` has already become `page`,
see `computed_values.break_before_after`).  Hand-written; `Gen/BreakTable.lean` (regenerated from
`/repo/weasyprint/layout/block.py` on every run) is stated over this type.
-/
namespace Wp

inductive Brk where
  | auto | avoid | avoidPage | avoidColumn | page | column | left | right | recto | verso
  deriving Repr, DecidableEq, BEq, Inhabited

namespace Brk

def all : List Brk := [auto, avoid, avoidPage, avoidColumn, page, column, left, right, recto, verso]

def toCss : Brk → String
  | auto => "auto" | avoid => "avoid" | avoidPage => "avoid-page" | avoidColumn => "avoid-column"
  | page => "page" | column => "column" | left => "left" | right => "right"
  | recto => "recto" | verso => "verso"

def ofCss? : String → Option Brk
  | "auto" => some auto | "avoid" => some avoid | "avoid-page" => some avoidPage
  | "avoid-column" => some avoidColumn | "page" => some page | "column" => some column
  | "left" => some left | "right" => some right | "recto" => some recto | "verso" => some verso
  | _ => none

theorem mem_all (b : Brk) : b ∈ all := by cases b <;> simp [all]

end Brk
end Wp
