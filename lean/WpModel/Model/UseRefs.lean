/-
Model of `weasyprint/pdf/__init__.py::_use_references` / `_reference_resources` on the document state of
Model/PdfStream (`World`): the late pass that adds every group / pattern stream, image and shading to the PDF, replaces
them by references and gives every sub-resource dictionary the document's `/Font` dictionary.
Failure point: `assert resources['Font'] is None` (a resource dictionary reached twice).
The recursion follows resource dictionary → registered stream → that stream's own dictionary; `fuel` bounds the depth
(children are created after their parent, so `w.res.length` always suffices).  No Mathlib.
-/
import WpModel.Model.PdfStream

namespace Wp.Pdf

inductive Added where
  | stream (h : Nat)           -- `pdf.add_object(x_object)` / `pdf.add_object(pattern)`
  | image (name : String)      -- `pdf.add_object(image x_object)`, once per image name
  | shading (res n : Nat)
  | resources (j : Nat)        -- `pdf.add_object(resources)` in `_reference_resources`
  deriving Repr, DecidableEq

structure RefState where
  fontSet : List Nat := []         -- dictionaries whose 'Font' is no longer None
  added : List Added := []         -- objects added, newest first
  imagesDone : List String := []   -- `image_data['x_object'] is not None`
  deriving Repr

mutual
  /-- `_use_references(pdf, resources, images)` for dictionary `j`. -/
  def useRefs (w : World) : Nat → Nat → RefState → Except PyErr RefState
    | 0, _, _ => .error (.recursion "_use_references")
    | fuel + 1, j, st =>
      match w.res[j]? with
      | none => .error badHandle
      | some r =>
        match useXObjects w fuel r.xobj st with
        | .error e => .error e
        | .ok st =>
          match usePatterns w fuel r.pattern st with
          | .error e => .error e
          | .ok st => .ok { st with added := (List.range r.shading).reverse.map (Added.shading j) ++ st.added }

  def useXObjects (w : World) : Nat → List (XKey × Option Nat) → RefState → Except PyErr RefState
    | _, [], st => .ok st
    | fuel, (k, none) :: rest, st =>
      -- an image: created and added the first time its name is met, only referenced afterwards
      let name := k.render
      let st := if st.imagesDone.contains name then st
        else { st with imagesDone := name :: st.imagesDone, added := .image name :: st.added }
      useXObjects w fuel rest st
    | fuel, (_, some h) :: rest, st =>
      match useStream w fuel h { st with added := .stream h :: st.added } with
      | .error e => .error e
      | .ok st => useXObjects w fuel rest st

  def usePatterns (w : World) : Nat → List Nat → RefState → Except PyErr RefState
    | _, [], st => .ok st
    | fuel, h :: rest, st =>
      match useStream w fuel h { st with added := .stream h :: st.added } with
      | .error e => .error e
      | .ok st => usePatterns w fuel rest st

  /-- `if 'Resources' in x_object.extra: … = _reference_resources(pdf, x_object.extra['Resources'], images, fonts)`. -/
  def useStream (w : World) : Nat → Nat → RefState → Except PyErr RefState
    | 0, _, _ => .error (.recursion "_reference_resources")
    | fuel + 1, h, st =>
      match w.streams[h]? with
      | none => .error badHandle
      | some s =>
        -- assert resources['Font'] is None; resources['Font'] = fonts
        if st.fontSet.contains s.res then .error (.assertFailed "_reference_resources:Font")
        else
          match useRefs w fuel s.res { st with fontSet := s.res :: st.fontSet } with
          | .error e => .error e
          | .ok st => .ok { st with added := .resources s.res :: st.added }
end

/-- `generate_pdf`: `resources['Font'] = pdf_fonts.reference; _use_references(pdf, resources, images)`. -/
def useReferences (w : World) : Except PyErr RefState :=
  useRefs w (2 * w.res.length + 2) 0 { fontSet := [0] }

end Wp.Pdf
